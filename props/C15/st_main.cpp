// C15 (simplex-tree part): copies, moves, swaps, serialisation and text round-trips of Simplex_tree give equal,
// independent objects; wrong-length buffers are refused without reading out of bounds. One option set per binary (-DCFG).
//
// A pool of up to 5 slots holds (tree, model) pairs. Every step either mutates one slot (tree and ref::Complex model
// alike), or copies / moves / swaps / serialises / destroys, and afterwards EVERY live tree is fully compared with its
// own model (under ASan: any node shared between two trees, or any stale pointer, is touched by that comparison).
#include "vf.h"

#include <gudhi/Simplex_tree.h>

#include <cstring>
#include <memory>
#include <sstream>
#include <thread>

#include "complex.h"

#ifndef CFG
#define CFG 0
#endif

namespace {

struct Low_options : Gudhi::Simplex_tree_options_full_featured {  // as in simplex_tree_serialization_unit_test.cpp
  static const bool store_filtration = false;
  static const bool store_key = true;
  typedef std::uint8_t Vertex_handle;
  typedef std::uint8_t Simplex_key;
};
struct Stable_options : Gudhi::Simplex_tree_options_default {  // as in simplex_tree_serialization_unit_test.cpp
  static const bool stable_simplex_handles = true;
};
struct Fast_cofaces_options : Gudhi::Simplex_tree_options_default {  // as in simplex_tree_edge_expansion_unit_test.cpp
  static const bool link_nodes_by_label = true;
};

#if CFG == 0
using Opt = Gudhi::Simplex_tree_options_default;
const char* kName = "C15/st_default";
#elif CFG == 1
using Opt = Gudhi::Simplex_tree_options_fast_persistence;
const char* kName = "C15/st_fast_persistence";
#elif CFG == 2
using Opt = Gudhi::Simplex_tree_options_minimal;
const char* kName = "C15/st_minimal";
#elif CFG == 3
using Opt = Gudhi::Simplex_tree_options_full_featured;
const char* kName = "C15/st_full_featured";
#elif CFG == 4
using Opt = Low_options;
const char* kName = "C15/st_low";
#elif CFG == 5
using Opt = Stable_options;
const char* kName = "C15/st_stable";
#else
using Opt = Fast_cofaces_options;
const char* kName = "C15/st_fast_cofaces";
#endif

using ST = Gudhi::Simplex_tree<Opt>;
using VH = typename ST::Vertex_handle;
using FV = typename ST::Filtration_value;
constexpr bool kFil = Opt::store_filtration;
constexpr bool kContig = Opt::contiguous_vertices;
constexpr bool kCharLabels = sizeof(VH) == 1;

struct Slot {
  std::unique_ptr<ST> st;
  ref::Complex m;
  bool dirty = false;  // mutated since the filtration cache was last (re)initialised
};

std::vector<VH> to_vh(const ref::Simplex& s) {
  std::vector<VH> v;
  for (auto x : s) v.push_back(VH(x));
  return v;
}

// full observational comparison of a tree with its model
void verify(Slot& slot, vf::Ctx& ctx, const char* when) {
  const ST& st = *slot.st;
  const ref::Complex& m = slot.m;
  // the documentation makes the user responsible for refreshing the filtration cache after a modification; copies,
  // moves and (de)serialisation are not modifications, so there the cache must be usable as the library left it
  if (slot.dirty) {
    st.initialize_filtration();
    slot.dirty = false;
  }
  VF_CHECK(st.num_simplices() == m.size(), "num_simplices", when << ": got " << st.num_simplices() << " want " << m.size());
  VF_CHECK(st.is_empty() == m.empty(), "is_empty", when);
  VF_CHECK(st.num_vertices() == m.vertices().size(), "num_vertices", when << ": got " << st.num_vertices() << " want " << m.vertices().size());
  VF_CHECK(st.dimension() == m.dimension(), "dimension", when << ": got " << st.dimension() << " want " << m.dimension());
  std::set<ref::Simplex> seen;
  for (auto sh : st.complex_simplex_range()) {  // order is C01's business; here: same set, same values
    ref::Simplex s;
    for (auto v : st.simplex_vertex_range(sh)) s.push_back(ref::Vertex(v));
    std::reverse(s.begin(), s.end());
    auto it = m.s.find(s);
    VF_CHECK(it != m.s.end(), "enumeration_extra", when << ": " << ref::to_string(s) << " is not in the model");
    VF_CHECK(seen.insert(s).second, "enumeration_duplicate", when << ": " << ref::to_string(s));
    if (kFil)
      VF_CHECK(double(st.filtration(sh)) == it->second, "filtration", when << ": " << ref::to_string(s) << " got " << st.filtration(sh) << " want " << it->second);
  }
  VF_CHECK(seen.size() == m.size(), "enumeration_missing", when << ": " << seen.size() << " of " << m.size());
  for (auto& kv : m.s) {
    auto sh = st.find(to_vh(kv.first));
    VF_CHECK(sh != st.null_simplex(), "find", when << ": " << ref::to_string(kv.first));
    if (kv.first.size() <= 2) {  // stars of vertices and edges walk the label-linked lists / the children pointers
      size_t cnt = 0;
      for (auto c : st.star_simplex_range(sh)) {
        (void)c;
        ++cnt;
      }
      VF_CHECK(cnt == m.star(kv.first).size(), "star", when << ": star of " << ref::to_string(kv.first) << " has " << cnt << " want " << m.star(kv.first).size());
    }
    if (kv.first.size() >= 2) {  // boundary walks the parent pointers (oncles)
      size_t cnt = 0;
      for (auto b : st.boundary_simplex_range(sh)) {
        VF_CHECK(b != st.null_simplex(), "boundary", when);
        ++cnt;
      }
      VF_CHECK(cnt == kv.first.size(), "boundary_count", when << ": " << ref::to_string(kv.first));
    }
  }
  // filtration cache: a permutation, non-decreasing
  size_t k = 0;
  double last = -1e300;
  for (auto sh : st.filtration_simplex_range()) {
    double f = kFil ? double(st.filtration(sh)) : 0.0;
    VF_CHECK(f >= last, "filtration_range_order", when);
    last = f;
    ++k;
  }
  VF_CHECK(k == m.size(), "filtration_range_size", when << ": " << k << " vs " << m.size());
}

const double kPalette[] = {0.0, 0.5, 1.0, 1.5, 2.0, 3.0};

bool contiguous_ok(const ref::Complex& m) {
  auto vs = m.vertices();
  for (size_t i = 0; i < vs.size(); ++i)
    if (vs[i] != ref::Vertex(i)) return false;
  return true;
}

void mutate(Slot& s, vf::Tape& t, vf::Ctx& ctx) {
  unsigned op = t.weighted({6, 3, 1, 1, 1});
  const int nv = 7;
  if (op == 0) {  // insert a simplex with all faces
    unsigned sz = 1 + t.below(4);
    std::vector<ref::Vertex> vs;
    for (unsigned i = 0; i < sz; ++i) {
      if (kCharLabels) {
        // one-byte labels include values that are whitespace characters (10, 32): streamed as characters they do not
        // survive the text round trip (known finding C15-text-io-char-labels)
        static const int plain[7] = {0, 37, 148, 74, 111, 185, 222}, ws[7] = {0, 10, 32, 74, 111, 185, 222};
        unsigned k = t.below(nv);
        if ((k == 1 || k == 2) && ctx.excluded("C15-text-io-char-labels")) {
          ctx.hit("excluded:C15-text-io-char-labels");
          vs.push_back(plain[k]);
        } else
          vs.push_back(ws[k]);
      } else
        vs.push_back(kContig ? ref::Vertex(t.below(nv)) : ref::Vertex(t.below(nv)) * 3 + 1);
    }
    ref::Simplex x = ref::make_simplex(vs);
    double f = kFil ? kPalette[t.below(6)] : 0.0;
    ctx.desc << "  insert " << ref::to_string(x) << " @" << f << "\n";
    if (kContig) {  // keep labels 0..n-1: add the missing smaller vertices first (same value)
      ref::Vertex top = x.back();
      for (ref::Vertex v = 0; v < top; ++v)
        if (!s.m.contains({v})) {
          s.st->insert_simplex_and_subfaces(std::vector<VH>{VH(v)}, FV(f));
          s.m.insert_with_faces({v}, f);
        }
    }
    bool want_new = !s.m.contains(x);
    auto r = s.st->insert_simplex_and_subfaces(to_vh(x), FV(f));
    bool added = s.m.insert_with_faces(x, f);
    (void)added;
    VF_CHECK(r.second == want_new, "insert_return", ref::to_string(x) << " second=" << r.second);
  } else if (op == 1) {  // remove a maximal simplex
    auto mx = s.m.maximal_simplices();
    if (mx.empty()) return;
    ref::Simplex x = mx[t.below(uint32_t(mx.size()))];
    if (kContig && x.size() == 1 && x[0] != ref::Vertex(s.m.vertices().size()) - 1) return;
    ctx.desc << "  remove_maximal " << ref::to_string(x) << "\n";
    s.st->remove_maximal_simplex(s.st->find(to_vh(x)));
    s.m.s.erase(x);
  } else if (op == 2) {  // prune above filtration (model is monotone by construction)
    double f = kPalette[t.below(6)];
    if (!kFil) f = t.flip() ? 0.0 : 1.0;
    ref::Complex after = s.m;
    bool want = after.prune_above_filtration(f);
    if (kContig && !contiguous_ok(after)) return;
    ctx.desc << "  prune_above_filtration " << f << "\n";
    bool got = s.st->prune_above_filtration(FV(f));
    s.m = after;
    VF_CHECK(got == want, "prune_filtration_return", f);
  } else if (op == 3) {
    int d = t.range(-1, 3);
    ctx.desc << "  prune_above_dimension " << d << "\n";
    bool want = s.m.prune_above_dimension(d);
    bool got = s.st->prune_above_dimension(d);
    VF_CHECK(got == want, "prune_dimension_return", d);
  } else {
    ctx.desc << "  clear\n";
    s.st->clear();
    s.m = ref::Complex();
  }
}

}  // namespace

namespace {
void run_single(vf::Tape& t, vf::Ctx& ctx);
}

namespace vf {
const char* harness_name() { return kName; }

#ifndef VF_THREADS
void run_case(Tape& t, Ctx& ctx) { run_single(t, ctx); }
#else
// Thread variant (built with -fsanitize=thread): the tape is cut into 4 sub-tapes; 4 threads run them at the same time,
// each on its own trees. Independent objects share nothing, so TSan must stay silent and every thread's oracle must hold.
void run_case(Tape& t, Ctx& ctx) {
  const unsigned kThreads = 4;
  std::vector<std::vector<uint8_t>> sub(kThreads);
  size_t total = t.size(), each = total / kThreads;
  for (unsigned k = 0; k < kThreads; ++k)
    for (size_t i = 0; i < each; ++i) sub[k].push_back(t.u8());
  std::vector<Ctx> cs(kThreads);
  std::vector<std::exception_ptr> errs(kThreads);
  std::vector<std::thread> th;
  for (unsigned k = 0; k < kThreads; ++k) {
    cs[k].excluded_ids = ctx.excluded_ids;
    th.emplace_back([&, k]() {
      Tape tk(sub[k].data(), sub[k].size());
      try {
        run_single(tk, cs[k]);
      } catch (...) {
        errs[k] = std::current_exception();
      }
    });
  }
  for (auto& x : th) x.join();
  bool nt = false;
  for (unsigned k = 0; k < kThreads; ++k) {
    ctx.desc << "--- thread " << k << "\n" << cs[k].desc.str();
    for (auto& kv : cs[k].counters) ctx.counters[kv.first] += kv.second;
    ctx.checks += cs[k].checks;
    nt = nt || cs[k].nontrivial;
  }
  if (nt) ctx.mark_nontrivial();
  for (unsigned k = 0; k < kThreads; ++k)
    if (errs[k]) std::rethrow_exception(errs[k]);
}
#endif
}  // namespace vf

namespace {
void run_single(vf::Tape& t, vf::Ctx& ctx) {
  using namespace vf;
  std::vector<Slot> pool(1);
  pool.reserve(5);  // references to slots stay valid
  pool[0].st.reset(new ST());
  auto live = [&]() {
    std::vector<size_t> r;
    for (size_t i = 0; i < pool.size(); ++i)
      if (pool[i].st) r.push_back(i);
    return r;
  };
  auto pick_live = [&]() -> long {
    auto l = live();
    if (l.empty()) return -1;
    return long(l[t.below(uint32_t(l.size()))]);
  };
  auto fresh_slot = [&]() -> long {
    for (size_t i = 0; i < pool.size(); ++i)
      if (!pool[i].st) return long(i);
    if (pool.size() < 5) {
      pool.emplace_back();
      return long(pool.size()) - 1;
    }
    return -1;
  };
  bool diverged_then_destroyed = false, big = false;
  std::set<size_t> twins;  // slots created by a copy/move/serialisation of another slot
  unsigned steps = 0, mutations_after_copy = 0;
  while (!t.exhausted() && steps < 60) {
    ++steps;
    unsigned op = t.weighted({10, 2, 2, 2, 2, 1, 2, 2, 1, 1});
    long a = pick_live();
    if (a < 0) {
      long f = fresh_slot();
      pool[size_t(f)].st.reset(new ST());
      pool[size_t(f)].m = ref::Complex();
      pool[size_t(f)].dirty = false;
      ctx.desc << "new empty -> #" << f << "\n";
      continue;
    }
    Slot& A = pool[size_t(a)];
    if (A.m.size() >= 10) big = true;
    switch (op) {
      case 0: {
        ctx.desc << "mutate #" << a << "\n";
        mutate(A, t, ctx);
        A.dirty = true;
        if (!twins.empty()) ++mutations_after_copy;
        break;
      }
      case 1: {  // copy construction
        long f = fresh_slot();
        if (f < 0) break;
        ctx.desc << "copy-construct #" << f << " from #" << a << "\n";
        ctx.hit("copy_construct");
        pool[size_t(f)].st.reset(new ST(*A.st));
        pool[size_t(f)].m = A.m;
        pool[size_t(f)].dirty = false;
        VF_CHECK(*pool[size_t(f)].st == *A.st, "copy_equal", "operator== false right after copy construction");
        twins.insert(size_t(f));
        break;
      }
      case 2: {  // copy assignment (possibly onto itself, possibly onto a non-empty tree)
        long b = pick_live();
        ctx.desc << "copy-assign #" << b << " = #" << a << "\n";
        ctx.hit(a == b ? "self_assign" : "copy_assign");
        Slot& B = pool[size_t(b)];
        *B.st = *A.st;
        B.m = A.m;
        if (a != b) B.dirty = false;  // self-assignment changes nothing, not even the (possibly stale) cache
        VF_CHECK(*B.st == *A.st, "assign_equal", "operator== false right after copy assignment");
        twins.insert(size_t(b));
        break;
      }
      case 3: {  // move construction: the source must be empty and usable again
        long f = fresh_slot();
        if (f < 0) break;
        ctx.desc << "move-construct #" << f << " from #" << a << "\n";
        ctx.hit("move_construct");
        pool[size_t(f)].st.reset(new ST(std::move(*A.st)));
        pool[size_t(f)].m = A.m;
        pool[size_t(f)].dirty = A.dirty;
        A.m = ref::Complex();
        A.dirty = false;
        twins.insert(size_t(f));
        break;
      }
      case 4: {  // move assignment
        long b = pick_live();
        if (b == a) break;
        ctx.desc << "move-assign #" << b << " = move(#" << a << ")\n";
        ctx.hit("move_assign");
        Slot& B = pool[size_t(b)];
        *B.st = std::move(*A.st);
        B.m = A.m;
        B.dirty = A.dirty;
        A.m = ref::Complex();
        A.dirty = false;
        twins.insert(size_t(b));
        break;
      }
      case 5: {  // std::swap (move construction + two move assignments)
        long b = pick_live();
        if (b == a) break;
        ctx.desc << "swap #" << a << " #" << b << "\n";
        ctx.hit("swap");
        std::swap(*A.st, *pool[size_t(b)].st);
        std::swap(A.m, pool[size_t(b)].m);
        std::swap(A.dirty, pool[size_t(b)].dirty);
        break;
      }
      case 6: {  // destruction of one object; the others are then fully enumerated
        ctx.desc << "destroy #" << a << "\n";
        ctx.hit("destroy");
        A.st.reset();
        if (mutations_after_copy > 0 && !twins.empty()) diverged_then_destroyed = true;
        break;
      }
      case 7: {  // binary serialisation round trip + wrong lengths
        long f = fresh_slot();
        if (f < 0) break;
        ctx.hit("serialize");
        size_t sz = A.st->get_serialization_size();
        ctx.desc << "serialize #" << a << " (" << sz << " bytes) -> deserialize #" << f << "\n";
        std::unique_ptr<char[]> buf(new char[sz]);  // exactly the announced size: ASan sees any overrun
        A.st->serialize(buf.get(), sz);
        pool[size_t(f)].st.reset(new ST());
        pool[size_t(f)].st->deserialize(buf.get(), sz);
        pool[size_t(f)].m = A.m;
        pool[size_t(f)].dirty = false;
        VF_CHECK(*pool[size_t(f)].st == *A.st, "deserialize_equal", "operator== false after a serialisation round trip");
        twins.insert(size_t(f));
        unsigned kind = t.below(4);
        if (kind == 1) {  // serialize with a wrong declared size into a large enough buffer: must throw invalid_argument
          size_t wrong = sz + 1 + t.below(16);
          if (t.flip() && sz > 0) wrong = sz - 1 - t.below(uint32_t(std::min<size_t>(sz, 16)));
          std::unique_ptr<char[]> big_buf(new char[sz + 64]);
          ctx.desc << " serialize with declared size " << wrong << "\n";
          bool threw = false;
          try {
            A.st->serialize(big_buf.get(), wrong);
          } catch (const std::invalid_argument&) {
            threw = true;
          }
          VF_CHECK(threw, "serialize_wrong_size_accepted", "declared " << wrong << " actual " << sz);
        } else if (kind >= 2) {  // deserialize a buffer whose length is perturbed; allocated at exactly the declared length
          long delta = 1 + long(t.below(16));
          bool shorter = kind == 3;
          if (shorter && ctx.excluded("C15-deserialize-truncated")) {
            ctx.hit("excluded:C15-deserialize-truncated");
            shorter = false;
          }
          if (shorter) delta = -std::min<long>(delta, long(sz));
          size_t n2 = size_t(long(sz) + delta);
          std::unique_ptr<char[]> b2(new char[n2 ? n2 : 1]);
          std::memset(b2.get(), 0, n2 ? n2 : 1);
          std::memcpy(b2.get(), buf.get(), std::min(sz, n2));
          ctx.desc << " deserialize with length " << n2 << " (" << (delta > 0 ? "+" : "") << delta << ")\n";
          ctx.hit(delta < 0 ? "deserialize_truncated" : "deserialize_too_long");
          ST tmp;
          bool threw = false;
          try {
            tmp.deserialize(b2.get(), n2);
          } catch (const std::invalid_argument&) {
            threw = true;
          }
          VF_CHECK(threw, "deserialize_wrong_length_accepted", "declared " << n2 << " actual " << sz);
          ctx.mark_nontrivial();
        }
        break;
      }
      case 8: {  // text round trip through operator<< / operator>>
        long f = fresh_slot();
        if (f < 0) break;
        ctx.hit("text_roundtrip");
        ctx.desc << "text round trip #" << a << " -> #" << f << "\n";
        if (A.dirty) {  // operator<< walks the filtration cache, which the user must refresh after modifications
          A.st->initialize_filtration();
          A.dirty = false;
        }
        std::stringstream ss;
        ss << *A.st;
        pool[size_t(f)].st.reset(new ST());
        ss >> *pool[size_t(f)].st;
        pool[size_t(f)].m = A.m;
        pool[size_t(f)].dirty = true;  // built by insertions
        twins.insert(size_t(f));
        break;
      }
      default: {  // re-create an empty tree in a free slot
        long f = fresh_slot();
        if (f < 0) break;
        ctx.desc << "new empty -> #" << f << "\n";
        pool[size_t(f)].st.reset(new ST());
        pool[size_t(f)].m = ref::Complex();
        pool[size_t(f)].dirty = false;
        break;
      }
    }
    // usually everything is verified after every step; sometimes not, so that a copy / move can also be taken from an
    // object whose lazily maintained members (dimension bound to be lowered, stale cache) have not been refreshed
    if (t.chance(3, 4))
      for (size_t i = 0; i < pool.size(); ++i)
        if (pool[i].st) verify(pool[i], ctx, "after step");
  }
  for (size_t i = 0; i < pool.size(); ++i)
    if (pool[i].st) verify(pool[i], ctx, "at the end");
  if (big && diverged_then_destroyed) ctx.mark_nontrivial();
  // destruction in tape-chosen order
  while (true) {
    long a = pick_live();
    if (a < 0) break;
    pool[size_t(a)].st.reset();
    for (size_t i = 0; i < pool.size(); ++i)
      if (pool[i].st) verify(pool[i], ctx, "during teardown");
  }
}
}  // namespace
