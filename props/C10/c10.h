// C10 shared harness code: generators (primes, operands, machine integers), generic checkers for the "operator class"
// API (Zp_field_operators, Multi_field_operators_with_small_characteristics) and for the "field element class" API
// (Zp_field_element, Shared_Zp_field_element, Multi_field_element_with_small_characteristics, ...). The oracle is
// exact integer arithmetic in __int128 reduced by ref::modular::mod (no code shared with GUDHI).
#ifndef C10_H_
#define C10_H_

#include "vf.h"
#include "modular.h"

#include <climits>
#include <cstdint>
#include <limits>
#include <string>
#include <type_traits>
#include <utility>
#include <vector>

namespace c10 {

using ref::modular::I128;
using ref::modular::U128;
using ref::modular::is_prime;
using ref::modular::mod;
using ref::modular::primes_in;

// ------------------------------------------------------------------------------------------------ ids of findings
static const char* const KF_SIGNED = "C10-signed-get-value";            // signed conversion of e < -p in the type of e
static const char* const KF_AAM = "C10-add-and-multiply-overflow";      // Zp_field_operators (e+a)*m wraps 2^32
static const char* const KF_ZP_WIDE_MUL = "C10-zp-operators-wide-element-multiply";  // _multiply mixes unsigned int and Element
static const char* const KF_SMALL_FUSED = "C10-small-multifield-fused-overflow";
static const char* const KF_SMALL_GCD = "C10-small-partial-inverse-gcd";
static const char* const KF_SMALL_INV = "C10-small-inverse-int-overflow";
static const char* const KF_SMALL_64 = "C10-small-multifield-uint-max";
static const char* const KF_Z2_AAM_BACK = "C10-z2-add-and-multiply-inplace-back";
static const char* const KF_REFUSAL_STATE = "C10-refused-characteristic-corrupts-table";
static const char* const KF_TIMES_MINUS = "C10-multifield-times-minus";
static const char* const KF_GMP_INT_NEG = "C10-multifield-negative-integer-operand";
static const char* const KF_COHOM_NO_REFUSAL = "C10-cohomology-multifield-no-refusal";

// ------------------------------------------------------------------------------------------------ printing
inline std::string str(I128 v) {
  if (v == 0) return "0";
  bool neg = v < 0;
  U128 u = neg ? U128(0) - U128(v) : U128(v);
  std::string s;
  while (u) {
    s.insert(s.begin(), char('0' + int(u % 10)));
    u /= 10;
  }
  return neg ? "-" + s : s;
}

// ------------------------------------------------------------------------------------------------ primes
static const uint32_t kSmallPrimes[11] = {2, 3, 5, 7, 11, 13, 17, 19, 23, 29, 31};
// boundary primes that are cheap to set up (the inverse tables of the run-time Z_p classes cost O(p^2))
static const uint32_t kMidPrimes[] = {37, 61, 127, 131, 251, 257, 509, 521, 1021, 1031, 2039, 2053, 4093, 4099, 8191};
// around 2^15, around sqrt(2^31) (46337 is the largest prime with 2(p-1)^2 < 2^32), just below 2^16
#ifdef C10_BIG_POOL  // thorough-only variant: a wider pool of expensive primes (about 35 s of table building per process)
static const uint32_t kBigPrimes[] = {65521, 46349, 46337, 32749, 65519, 65497, 59999, 54983, 49999, 39989, 29989, 19997, 11987};
#else
static const uint32_t kBigPrimes[] = {65521, 46349, 46337, 32749};
#endif
static const unsigned kNumBigPrimes = sizeof(kBigPrimes) / sizeof(kBigPrimes[0]);

inline uint32_t prev_prime(uint32_t n) {
  while (n > 2 && !is_prime(n)) --n;
  return n < 2 ? 2 : n;
}

// nbig: how many primes of the expensive pool may be used (0 = none)
inline uint32_t pick_prime(vf::Tape& t, uint32_t limit, unsigned nbig = 4) {
  uint32_t p;
  switch (t.weighted({4, 2, 2, 2})) {
    case 0: p = kSmallPrimes[t.below(11)]; break;
    case 1: p = kMidPrimes[t.below(sizeof(kMidPrimes) / sizeof(kMidPrimes[0]))]; break;
    case 2: p = prev_prime(2 + t.below(4095)); break;
    default: p = nbig ? kBigPrimes[t.below(nbig)] : prev_prime(2 + t.below(8190)); break;
  }
  if (p > limit) p = prev_prime(limit);
  return p;
}

// ------------------------------------------------------------------------------------------------ operands
// reduced operand in [0, M): boundary values first, then random
inline uint64_t operand(vf::Tape& t, uint64_t M) {
  switch (t.below(9)) {
    case 0: return 0;
    case 1: return 1 % M;
    case 2: return M - 1;
    case 3: return M >= 2 ? M - 2 : 0;
    case 4: return M / 2;
    case 5: return 2 % M;
    case 6: return (M / 2 + 1) % M;
    case 7: return t.u16() % M;
    default: return t.u64() % M;
  }
}

// machine integer candidates for conversions (as a 128-bit value; the caller casts to the chosen type)
inline I128 machine_integer(vf::Tape& t, uint64_t M) {
  I128 m = I128(M);
  switch (t.below(20)) {
    case 0: return 0;
    case 1: return -1;
    case 2: return -m;
    case 3: return -m - 1;
    case 4: return -2 * m - 1;
    case 5: return m;
    case 6: return m + 1;
    case 7: return I128(INT_MAX);
    case 8: return I128(UINT_MAX);
    case 9: return I128(INT_MIN);
    case 10: return I128(LLONG_MIN);
    case 11: return I128(LLONG_MAX);
    case 12: return I128(ULLONG_MAX);
    case 13: return I128(SHRT_MIN);
    case 14: return -I128(t.u16());
    case 15: return -I128(t.u32());
    case 16: return I128(int32_t(t.u32()));
    case 17: return I128(int64_t(t.u64()));
    case 18: return -(m * I128(1 + t.below(7))) - I128(t.u16() % M);
    default: return I128(t.u16());
  }
}

template <class T>
const char* type_name() {
  if (std::is_same<T, bool>::value) return "bool";
  if (std::is_same<T, signed char>::value) return "signed char";
  if (std::is_same<T, unsigned char>::value) return "unsigned char";
  if (std::is_same<T, short>::value) return "short";
  if (std::is_same<T, unsigned short>::value) return "unsigned short";
  if (std::is_same<T, int>::value) return "int";
  if (std::is_same<T, unsigned int>::value) return "unsigned";
  if (std::is_same<T, long>::value) return "long";
  if (std::is_same<T, unsigned long>::value) return "unsigned long";
  if (std::is_same<T, long long>::value) return "long long";
  if (std::is_same<T, unsigned long long>::value) return "unsigned long long";
  return "?";
}

// Cast the 128-bit candidate to the machine type T the way a caller holding such a value would (two's complement
// truncation), then bring it into the documented domain:
//  * signed T must be able to contain the characteristic M (documented for the element classes), else -> reduced value
//  * known finding C10-signed-get-value (while listed): e < -M converted in a type not wider than the element type
//    is computed as `e % unsigned`; the trigger is replaced by the congruent value in [-M, 0].
// Returns the value actually used; *hit_signed is set when the value is a negative below -M (the NT rule).
template <class T>
T to_machine(vf::Ctx& ctx, I128 v, uint64_t M, size_t elem_bytes, bool* below_minus_m) {
  typedef typename std::conditional<std::is_signed<T>::value, long long, unsigned long long>::type Wide;
  T x = T(Wide(v));  // truncating cast
  if (std::is_signed<T>::value) {
    if (I128(M) > I128(std::numeric_limits<T>::max())) {  // T cannot contain the characteristic: outside the domain
      ctx.hit("int_type_too_narrow_for_characteristic");
      return T(mod(v, M) % uint64_t(std::numeric_limits<T>::max()));
    }
    if (I128(x) < -I128(M)) {
      if (sizeof(T) <= elem_bytes && ctx.excluded(KF_SIGNED)) {
        ctx.hit(std::string("excluded:") + KF_SIGNED);
        x = T(-I128(mod(-I128(x), M)));  // congruent, in [-M+1, 0]
      } else {
        *below_minus_m = true;
      }
    }
  }
  return x;
}

// Calls f(x) with x = the candidate cast to a machine type chosen by the tape. kinds: which types are offered.
template <class F>
void with_machine_integer(vf::Tape& t, vf::Ctx& ctx, uint64_t M, size_t elem_bytes, F f) {
  I128 v = machine_integer(t, M);
  bool below = false;
  // (long / unsigned long have the width of long long on this platform and are not instantiated separately)
  switch (t.below(6)) {
    case 1: { long long x = to_machine<long long>(ctx, v, M, elem_bytes, &below); f(x, below); break; }
    case 2: { unsigned x = to_machine<unsigned>(ctx, v, M, elem_bytes, &below); f(x, below); break; }
    case 3: { unsigned long long x = to_machine<unsigned long long>(ctx, v, M, elem_bytes, &below); f(x, below); break; }
    case 4: { short x = to_machine<short>(ctx, v, M, elem_bytes, &below); f(x, below); break; }
    default: { int x = to_machine<int>(ctx, v, M, elem_bytes, &below); f(x, below); break; }
  }
}

// ------------------------------------------------------------------------------------------------ operator classes
// Every method of the FieldOperators API on one reduced triple, native element type E, modulus M (< 2^62).
// kf_aam / kf_maa / kf_mul: id of a listed finding (or null) whose trigger is "(e+a)*m", resp. "e*m+a", exceeds the
// element type, resp. "any multiply"; while the id is excluded the affected methods are not evaluated on that triple
// (and the exclusion is counted).
template <class Ops, class E>
void check_ops_triple(vf::Ctx& ctx, const Ops& ops, uint64_t M, E a, E b, E c, const char* kf_aam, const char* kf_maa,
                      const char* kf_mul = nullptr) {
  const I128 A = a, B = b, C = c;
  const I128 emax = I128(std::numeric_limits<E>::max());
  auto R = [&](I128 x) { return E(mod(x, M)); };
#define C10_CASE M << ":(" << str(A) << "," << str(B) << "," << str(C) << ")"
  VF_CHECK(ops.get_value(a) == a, "get_value_reduced", C10_CASE);
  VF_CHECK(ops.add(a, b) == R(A + B), "add", C10_CASE << " got " << ops.add(a, b));
  VF_CHECK(ops.subtract(a, b) == R(A - B), "subtract", C10_CASE << " got " << ops.subtract(a, b));
  const bool mul_ok = !(kf_mul && ctx.excluded(kf_mul));
  if (!mul_ok) ctx.hit(std::string("excluded:") + kf_mul);
  if (mul_ok) VF_CHECK(ops.multiply(a, b) == R(A * B), "multiply", C10_CASE << " got " << ops.multiply(a, b));
  E x;
  x = a; ops.add_inplace(x, b); VF_CHECK(x == R(A + B), "add_inplace", C10_CASE << " got " << x);
  x = a; ops.subtract_inplace_front(x, b); VF_CHECK(x == R(A - B), "subtract_inplace_front", C10_CASE << " got " << x);
  x = b; ops.subtract_inplace_back(a, x); VF_CHECK(x == R(A - B), "subtract_inplace_back", C10_CASE << " got " << x);
  if (mul_ok) { x = a; ops.multiply_inplace(x, b); VF_CHECK(x == R(A * B), "multiply_inplace", C10_CASE << " got " << x); }
  // fused: e * m + a
  bool maa_ok = true;
  if (A * B + C > emax) {
    if (kf_maa && ctx.excluded(kf_maa)) { ctx.hit(std::string("excluded:") + kf_maa); maa_ok = false; }
    else ctx.hit("fused_intermediate_exceeds_element_type");
  }
  if (maa_ok) {
    VF_CHECK(ops.multiply_and_add(a, b, c) == R(A * B + C), "multiply_and_add", C10_CASE << " got " << ops.multiply_and_add(a, b, c));
    x = a; ops.multiply_and_add_inplace_front(x, b, c); VF_CHECK(x == R(A * B + C), "multiply_and_add_inplace_front", C10_CASE << " got " << x);
    x = c; ops.multiply_and_add_inplace_back(a, b, x); VF_CHECK(x == R(A * B + C), "multiply_and_add_inplace_back", C10_CASE << " got " << x);
  }
  // fused: (e + a) * m
  bool aam_ok = true;
  if ((A + B) * C > emax) {
    if (kf_aam && ctx.excluded(kf_aam)) { ctx.hit(std::string("excluded:") + kf_aam); aam_ok = false; }
    else ctx.hit("fused_intermediate_exceeds_element_type");
  }
  if (aam_ok) {
    VF_CHECK(ops.add_and_multiply(a, b, c) == R((A + B) * C), "add_and_multiply", C10_CASE << " got " << ops.add_and_multiply(a, b, c));
    x = a; ops.add_and_multiply_inplace_front(x, b, c); VF_CHECK(x == R((A + B) * C), "add_and_multiply_inplace_front", C10_CASE << " got " << x);
    x = c; ops.add_and_multiply_inplace_back(a, b, x); VF_CHECK(x == R((A + B) * C), "add_and_multiply_inplace_back", C10_CASE << " got " << x);
  }
  // comparisons are by residue
  VF_CHECK(ops.are_equal(a, b) == (a == b), "are_equal", C10_CASE);
  if (A + I128(M) <= emax) VF_CHECK(ops.are_equal(a, E(a + E(M))), "are_equal_residue", C10_CASE);
  if (B + 2 * I128(M) <= emax) VF_CHECK(ops.are_equal(E(b + 2 * E(M)), a) == (a == b), "are_equal_residue", C10_CASE);
  // conversion of non-reduced unsigned values
  if (C + 3 * I128(M) <= emax) VF_CHECK(ops.get_value(E(c + 3 * E(M))) == c, "get_value_unreduced", C10_CASE);
  VF_CHECK(ops.get_additive_identity() == E(0), "additive_identity", C10_CASE);
  VF_CHECK(ops.get_multiplicative_identity() == E(1), "multiplicative_identity", C10_CASE);
  VF_CHECK(ops.add(a, ops.get_additive_identity()) == a, "add_zero", C10_CASE);
  if (mul_ok) VF_CHECK(ops.multiply(a, ops.get_multiplicative_identity()) == a, "multiply_one", C10_CASE);
  VF_CHECK(I128(ops.get_characteristic()) == I128(M), "characteristic", C10_CASE << " got " << ops.get_characteristic());
}

// ------------------------------------------------------------------------------------------------ element classes
// Every operator of the field-element API on one reduced triple; mk(v) builds an element from a reduced value.
// Mixed element/integer operators are exercised with the integer operand reduced (here) and with arbitrary machine
// integers (check_elem_mixed).
// skip_add(ctx, x, y, M): optional hook, true when the addition x + y of reduced values hits the trigger of a listed
// finding and must not be evaluated (used by the 64-bit small multi-field only).
typedef bool (*SkipAdd)(vf::Ctx&, uint64_t, uint64_t, uint64_t);

template <class F>
void check_elem_triple(vf::Ctx& ctx, uint64_t M, uint64_t a, uint64_t b, uint64_t c, SkipAdd skip_add = nullptr) {
  typedef typename F::Element E;
  const I128 A = I128(a), B = I128(b), C = I128(c);
  auto R = [&](I128 x) { return E(mod(x, M)); };
  const bool add_ab = !(skip_add && skip_add(ctx, a, b, M));
  const bool add_pc = !(skip_add && skip_add(ctx, mod(A * B, M), c, M));
  const F fa{E(a)}, fb{E(b)}, fc{E(c)};
  VF_CHECK(fa.get_value() == E(a) && fb.get_value() == E(b) && fc.get_value() == E(c), "construct_reduced", C10_CASE);
  VF_CHECK(I128(static_cast<unsigned int>(fa)) == I128((unsigned int)(a)), "cast_unsigned", C10_CASE);
  // element (op) element
  if (add_ab) VF_CHECK((fa + fb).get_value() == R(A + B), "elem+elem", C10_CASE << " got " << (fa + fb).get_value());
  VF_CHECK((fa - fb).get_value() == R(A - B), "elem-elem", C10_CASE << " got " << (fa - fb).get_value());
  VF_CHECK((fa * fb).get_value() == R(A * B), "elem*elem", C10_CASE << " got " << (fa * fb).get_value());
  F x;
  VF_CHECK(x.get_value() == E(0), "default_is_zero", C10_CASE);
  if (add_ab) { x = fa; x += fb; VF_CHECK(x.get_value() == R(A + B), "elem+=elem", C10_CASE << " got " << x.get_value()); }
  x = fa; x -= fb; VF_CHECK(x.get_value() == R(A - B), "elem-=elem", C10_CASE << " got " << x.get_value());
  x = fa; x *= fb; VF_CHECK(x.get_value() == R(A * B), "elem*=elem", C10_CASE << " got " << x.get_value());
  // chained: (a*b + c), (a+b)*c through operators
  if (add_pc) VF_CHECK((fa * fb + fc).get_value() == R(A * B + C), "elem*elem+elem", C10_CASE);
  if (add_ab) VF_CHECK(((fa + fb) * fc).get_value() == R((A + B) * C), "(elem+elem)*elem", C10_CASE);
  // element (op) reduced integer of the element type, both orders
  const E eb = E(b);
  if (add_ab) VF_CHECK((fa + eb).get_value() == R(A + B), "elem+int", C10_CASE);
  VF_CHECK((fa - eb).get_value() == R(A - B), "elem-int", C10_CASE);
  VF_CHECK((fa * eb).get_value() == R(A * B), "elem*int", C10_CASE);
  if (add_ab) VF_CHECK(E(eb + fa) == R(A + B), "int+elem", C10_CASE << " got " << E(eb + fa));
  VF_CHECK(E(eb - fa) == R(B - A), "int-elem", C10_CASE << " got " << E(eb - fa));
  VF_CHECK(E(eb * fa) == R(A * B), "int*elem", C10_CASE << " got " << E(eb * fa));
  if (add_ab) { x = fa; x += eb; VF_CHECK(x.get_value() == R(A + B), "elem+=int", C10_CASE); }
  x = fa; x -= eb; VF_CHECK(x.get_value() == R(A - B), "elem-=int", C10_CASE);
  x = fa; x *= eb; VF_CHECK(x.get_value() == R(A * B), "elem*=int", C10_CASE);
  x = eb; VF_CHECK(x.get_value() == E(b), "assign_int", C10_CASE);
  // comparisons
  VF_CHECK((fa == fb) == (a == b) && (fa != fb) == (a != b), "elem==elem", C10_CASE);
  VF_CHECK((fa == eb) == (a == b) && (eb == fa) == (a == b) && (fa != eb) == (a != b) && (eb != fa) == (a != b), "elem==int", C10_CASE);
  // identities
  VF_CHECK(F::get_additive_identity().get_value() == E(0), "additive_identity", C10_CASE);
  VF_CHECK(F::get_multiplicative_identity().get_value() == E(1 % M), "multiplicative_identity", C10_CASE);
  VF_CHECK((fa + F::get_additive_identity()) == fa && (fa * F::get_multiplicative_identity()) == fa, "neutral", C10_CASE);
  VF_CHECK(I128(F::get_characteristic()) == I128(M), "characteristic", C10_CASE << " got " << F::get_characteristic());
  // copy / move / assignment / swap
  F cp(fa);
  VF_CHECK(cp == fa && cp.get_value() == E(a), "copy", C10_CASE);
  F mv(std::move(cp));
  VF_CHECK(mv.get_value() == E(a), "move", C10_CASE);
  F as;
  as = fb;
  VF_CHECK(as.get_value() == E(b), "assign", C10_CASE);
  as = F{E(c)};
  VF_CHECK(as.get_value() == E(c), "move_assign", C10_CASE);
  F s1(fa), s2(fb);
  swap(s1, s2);
  VF_CHECK(s1.get_value() == E(b) && s2.get_value() == E(a), "swap", C10_CASE);
  as = as;  // self assignment
  VF_CHECK(as.get_value() == E(c), "self_assign", C10_CASE);
}

// element (op) arbitrary machine integer v of type T; V = exact value of v
template <class F, class T>
void check_elem_mixed(vf::Ctx& ctx, uint64_t M, uint64_t a, T v, SkipAdd skip_add = nullptr) {
  typedef typename F::Element E;
  const I128 A = I128(a), V = I128(v);
  auto R = [&](I128 x) { return E(mod(x, M)); };
  const bool add_av = !(skip_add && skip_add(ctx, a, mod(V, M), M));
  const F fa{E(a)};
#define C10_MIX M << ": a=" << str(A) << " v=" << str(V) << " as " << type_name<T>()
  F fv(v);
  VF_CHECK(fv.get_value() == R(V), "construct_int", C10_MIX << " got " << fv.get_value());
  F x;
  x = v; VF_CHECK(x.get_value() == R(V), "assign_int", C10_MIX << " got " << x.get_value());
  if (add_av) VF_CHECK((fa + v).get_value() == R(A + V), "elem+int", C10_MIX);
  VF_CHECK((fa - v).get_value() == R(A - V), "elem-int", C10_MIX);
  VF_CHECK((fa * v).get_value() == R(A * V), "elem*int", C10_MIX);
  if (add_av) { x = fa; x += v; VF_CHECK(x.get_value() == R(A + V), "elem+=int", C10_MIX); }
  x = fa; x -= v; VF_CHECK(x.get_value() == R(A - V), "elem-=int", C10_MIX);
  x = fa; x *= v; VF_CHECK(x.get_value() == R(A * V), "elem*=int", C10_MIX);
  // integer on the left: the result has the integer's type, so it must be able to hold M-1
  if (I128(M) - 1 <= I128(std::numeric_limits<T>::max())) {
    if (add_av) VF_CHECK(I128(v + fa) == I128(R(A + V)), "int+elem", C10_MIX << " got " << str(I128(v + fa)));
    VF_CHECK(I128(v - fa) == I128(R(V - A)), "int-elem", C10_MIX << " got " << str(I128(v - fa)));
    VF_CHECK(I128(v * fa) == I128(R(A * V)), "int*elem", C10_MIX << " got " << str(I128(v * fa)));
  }
  bool eq = R(V) == E(a);
  VF_CHECK((fa == v) == eq && (v == fa) == eq && (fa != v) == !eq && (v != fa) == !eq, "elem==int", C10_MIX);
  F fr{R(V)};
  VF_CHECK(fr == v && v == fr, "elem==int_residue", C10_MIX);
}

// inverse / partial inverse / identities of a single-prime element class (Z_2, Z_p): the "partial" functions are the
// identity on their product argument
template <class F>
void check_elem_inverse(vf::Ctx& ctx, uint64_t M, uint64_t a, unsigned int Q) {
  typedef typename F::Element E;
  const F fa{E(a)};
  const I128 A = I128(a);
  if (a != 0) {
    auto inv = fa.get_inverse();
    uint64_t iv = uint64_t(inv.get_value());
    VF_CHECK(iv < M && mod(I128(iv) * A, M) == 1 % M, "inverse", M << ": a=" << a << " inverse " << iv);
    F prod = fa * F{E(iv)};
    VF_CHECK(prod.get_value() == E(1 % M) && prod == F::get_multiplicative_identity(), "x_times_inverse", M << ": a=" << a);
    auto pi = fa.get_partial_inverse(Q);
    VF_CHECK(uint64_t(pi.first.get_value()) == iv && I128(pi.second) == I128(Q), "partial_inverse", M << ": a=" << a << " Q=" << Q);
  }
  VF_CHECK(F::get_partial_multiplicative_identity(Q).get_value() == E(1 % M), "partial_identity", M << ": Q=" << Q);
}

// One random case for a single-prime element class F whose characteristic is already M: arithmetic on reduced triples
// or mixed element/machine-integer operators.
template <class F>
void elem_random_steps(vf::Tape& t, vf::Ctx& ctx, uint64_t M, bool conversions) {
  typedef typename F::Element E;
  unsigned steps = 0;
  do {
    if (conversions) {
      uint64_t a = operand(t, M);
      with_machine_integer(t, ctx, M, sizeof(E), [&](auto x, bool below) {
        typedef decltype(x) T;
        ctx.desc << " a=" << a << " with integer " << str(I128(x)) << " as " << type_name<T>() << "\n";
        if (below) {
          ctx.hit("negative_below_minus_p");
          ctx.mark_nontrivial();
        }
        if (I128(x) < 0) ctx.hit("negative");
        check_elem_mixed<F, T>(ctx, M, a, x);
      });
    } else {
      uint64_t a = operand(t, M), b = operand(t, M), c = operand(t, M);
      ctx.desc << " ops on (" << a << "," << b << "," << c << ")\n";
      if (a == M - 1 || b == M - 1 || c == M - 1) {
        ctx.hit("operand_p_minus_1");
        ctx.mark_nontrivial();
      }
      check_elem_triple<F>(ctx, M, a, b, c);
      check_elem_inverse<F>(ctx, M, a, (unsigned int)(c));
      check_elem_inverse<F>(ctx, M, b, 35u);
    }
  } while (!t.exhausted() && ++steps < 12);
}

}  // namespace c10

#endif  // C10_H_
