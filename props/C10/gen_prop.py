#!/usr/bin/env python3
"""Writes props/C10/prop.json (targets, case budgets and the exhaustive sub-domains as `enums` tapes)."""
import json, os
SMALL = [2, 3, 5, 7, 11, 13, 17, 19, 23, 29, 31]
GMP = ["-lgmpxx", "-lgmp"]

def shards(p):
    return 1 if p <= 7 else 2 if p <= 17 else 4

def triples(prefix_fmt, what_fmt, primes=SMALL):
    out = []
    for i, p in enumerate(primes):
        out.append({"prefix": prefix_fmt % i, "base": p, "len": 3, "shards": shards(p), "what": what_fmt % p})
    return out

targets = []
# run-time operator classes
e = triples("fe00%02x", "Zp_field_operators<unsigned>: every method on all operand triples, p=%d")
e += triples("fe01%02x", "Zp_field_operators<unsigned long>: every method on all operand triples, p=%d")
e.append({"prefix": "fe02", "base": 2, "len": 3, "shards": 1, "what": "Z2_field_operators: all 8 triples as bool/unsigned/unsigned long/unsigned char"})
e.append({"prefix": "fd00", "base": 71, "len": 2, "shards": 8, "what": "Zp_field_operators<unsigned>::set_characteristic(n) for every n <= 5040"})
e.append({"prefix": "fd01", "base": 71, "len": 2, "shards": 8, "what": "Zp_field_operators<unsigned long>::set_characteristic(n) for every n <= 5040"})
targets.append({"name": "zp_ops", "sources": ["props/C10/zp_ops.cpp"], "cases": {"quick": 24000, "thorough": 1200000},
                "maxlen": 128, "streams": 4, "enums": e, "fuzz": {"runs": 400000, "max_seconds": 400},
                "note": "Zp_field_operators<unsigned int>, <unsigned long>, Z2_field_operators"})
targets.append({"name": "zp_ops_bigpool", "sources": ["props/C10/zp_ops.cpp"], "flags": ["-DC10_BIG_POOL"], "tiers": ["thorough"],
                "cases": {"quick": 0, "thorough": 400000}, "maxlen": 128, "streams": 8, "class_group": "zp_ops",
                "note": "zp_ops with 13 expensive primes (65521, 65519, 65497, 59999, 54983, 49999, 46349, 46337, 39989, 32749, 29989, 19997, 11987)"})
# compile-time element classes
e = []
for k, (name, p) in enumerate([("Z2_field_element", 2), ("Zp_field_element<2>", 2), ("Zp_field_element<3>", 3),
                               ("Zp_field_element<5>", 5), ("Zp_field_element<7>", 7), ("Zp_field_element<13>", 13)]):
    e.append({"prefix": "fe%02x" % k, "base": p, "len": 3, "shards": shards(p),
              "what": "%s: every operator on all operand triples" % name})
targets.append({"name": "zp_elem", "sources": ["props/C10/zp_elem.cpp", "props/C10/zp_elem_p0.cpp", "props/C10/zp_elem_p1.cpp",
                                               "props/C10/zp_elem_p2.cpp"],
                "cases": {"quick": 24000, "thorough": 1200000}, "maxlen": 128, "streams": 4, "enums": e,
                "note": "Z2_field_element, Zp_field_element<p> p in {2,3,5,7,13,251,257,32749,46349,65521}"})
# shared element class
e = triples("fe%02x", "Shared_Zp_field_element: every operator on all operand triples, p=%d")
e.append({"prefix": "fd", "base": 71, "len": 2, "shards": 8, "what": "Shared_Zp_field_element::initialize(n) for every n <= 5040"})
targets.append({"name": "zp_shared", "sources": ["props/C10/zp_shared.cpp"], "cases": {"quick": 16000, "thorough": 800000},
                "maxlen": 128, "streams": 4, "enums": e, "note": "Shared_Zp_field_element<unsigned int>, p <= 1031 (+ all n <= 5040 for initialize)"})
for p, q in ((65521, 8000), (46349, 6000)):
    targets.append({"name": "zp_shared_%d" % p, "sources": ["props/C10/zp_shared.cpp"], "flags": ["-DC10_FIXED_P=%d" % p],
                    "cases": {"quick": q, "thorough": q * 50}, "maxlen": 128, "streams": 2, "class_group": "zp_shared",
                    "note": "Shared_Zp_field_element<unsigned int> initialised once with p=%d" % p})
# multi-fields
targets.append({"name": "multi_gmp", "sources": ["props/C10/multi_gmp.cpp"], "libs": GMP, "cases": {"quick": 12000, "thorough": 600000},
                "maxlen": 256, "streams": 4, "fuzz": {"runs": 300000, "max_seconds": 400},
                "note": "Multi_field_operators, Shared_multi_field_element, Multi_field_element<2,3|5,13|3,30|7,7|2,97>"})
targets.append({"name": "multi_small", "sources": ["props/C10/multi_small.cpp"], "libs": GMP, "cases": {"quick": 12000, "thorough": 600000},
                "maxlen": 256, "streams": 4, "fuzz": {"runs": 300000, "max_seconds": 400},
                "note": "Multi_field_operators_with_small_characteristics, Shared_..._with_small_characteristics<unsigned int|unsigned long>, "
                        "Multi_field_element_with_small_characteristics<2,3|5,13|2,23|3,29|7,7|65519,65521>"})
# cohomology engine
e = triples("fe%02x", "cohomology Field_Zp: every method on all operand triples, p=%d")
e.append({"prefix": "fd", "base": 71, "len": 2, "shards": 8, "what": "cohomology Field_Zp::init(n) for every n <= 5040"})
targets.append({"name": "cohom", "sources": ["props/C10/cohom.cpp"], "libs": GMP, "cases": {"quick": 12000, "thorough": 600000},
                "maxlen": 256, "streams": 4, "enums": e, "fuzz": {"runs": 300000, "max_seconds": 400},
                "note": "Persistent_cohomology Field_Zp (p <= 46337) and Multi_field"})

prop = {
    "id": "C10",
    "rule": ("One case = one class, one characteristic (prime, or range of primes) and up to 12 steps; a step applies every public "
             "arithmetic method / operator of the class to one reduced operand triple (boundary values 0,1,2,p/2,p-2,p-1 or random; for "
             "multi-fields also values vanishing modulo a chosen subset of the primes) or converts one machine integer "
             "(type min/max, -2p-1, -p-1, -p, -1, p, 2^31-1, 2^32-1, random; as int, long long, unsigned, unsigned long long, short) "
             "and compares with exact __int128 / GMP arithmetic reduced by the modulus; partial inverses and partial identities are "
             "checked against the CRT contract (T, residues modulo every prime of the range); refusal cases call "
             "set_characteristic/initialize/init with non-primes resp. prime-free intervals. Exhaustive sub-domains (enumerated tapes): "
             "all operand triples of all primes <= 31 for the run-time Z_p classes and the cohomology Field_Zp, all triples of the "
             "compile-time classes with p <= 13 and of both Z_2 classes, every n <= 5040 as characteristic. Non-trivial: an operand "
             "equals p-1 (or P-1), or a converted integer is below -p, or the range has a single prime, or an operand vanishes modulo "
             "some prime of the range, or the characteristic is refused; distinct = hash of the decoded case text."),
    "assumptions": [
        "__int128 arithmetic of clang and GMP's mpz_fdiv_r/mpz_fdiv_ui are correct (the GMP oracle is cross-checked on every case against 64-bit residue arithmetic modulo each prime)",
        "signed machine integers are converted only in types able to hold the characteristic (documented for the element classes, assumed for Zp_field_operators::get_value); unsigned integers wider than the element type are not passed to Zp_field_operators::get_value(Element)",
        "static state of the Shared_* classes is re-initialised by every case that uses them; per-prime operator objects are immutable caches"],
    "tolerances": "none (exact integer comparisons)",
    "shrink_budget": 1500,
    "targets": targets,
}
path = os.path.join(os.path.dirname(os.path.abspath(__file__)), "prop.json")
with open(path, "w") as f:
    json.dump(prop, f, indent=1)
    f.write("\n")
print("wrote", path, "targets:", len(targets), "enums:", sum(len(t.get("enums", [])) for t in targets))
