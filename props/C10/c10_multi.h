// C10 multi-field helpers: prime ranges, operands that vanish modulo chosen primes, the partial inverse / partial
// identity contract, and the checkers for the GMP classes. The oracle computes exact integers with mpz_class, reduces
// them with mpz_fdiv_r, and cross-checks itself through the residues modulo every prime of the range computed in
// 64-bit arithmetic (VF_ORACLE: a disagreement there blames the harness, never GUDHI).
#ifndef C10_MULTI_H_
#define C10_MULTI_H_

#include "c10.h"

#include <gmpxx.h>

#include <sstream>

namespace c10 {

struct Range {
  uint32_t lo = 2, hi = 2;
  std::vector<uint32_t> primes;  // by trial division (independent of GMP's nextprime)
  mpz_class P;                   // product
  std::string text() const {
    std::ostringstream o;
    o << "[" << lo << "," << hi << "] primes {";
    for (size_t i = 0; i < primes.size(); ++i) o << (i ? "," : "") << primes[i];
    o << "}";
    return o.str();
  }
};

inline Range make_range(uint32_t lo, uint32_t hi) {
  Range r;
  r.lo = lo;
  r.hi = hi;
  r.primes = primes_in(lo, hi);
  r.P = 1;
  for (uint32_t q : r.primes) r.P *= q;
  return r;
}

inline uint32_t next_prime_after(uint32_t n) {
  ++n;
  while (!is_prime(n)) ++n;
  return n;
}

// fit_bits = 0: arbitrary product (GMP classes); otherwise the product must be < 2^fit_bits (primes are dropped from
// the top of the interval until it is). Always contains at least one prime.
inline Range pick_range(vf::Tape& t, unsigned fit_bits) {
  static const uint32_t fixed[][2] = {{2, 2},     {2, 3},     {5, 13},        {3, 30},          {2, 23},       {3, 29},
                                      {7, 7},     {2, 5},     {0, 5},         {1, 7},           {4, 12},       {24, 30},
                                      {251, 257}, {13, 13},   {1601, 1609},   {46337, 46349},   {65519, 65521}, {65521, 65521},
                                      {3, 3},     {2, 7},     {65519, 65537}, {2, 97},          {90, 113},     {2, 47}};
  uint32_t lo, hi;
  switch (t.weighted({5, 2, 3, 1})) {
    case 0: {
      unsigned k = t.below(sizeof(fixed) / sizeof(fixed[0]));
      lo = fixed[k][0];
      hi = fixed[k][1];
      break;
    }
    case 1: lo = hi = pick_prime(t, 65521, 4); break;  // a single prime (nothing expensive happens for multi-fields)
    case 2: {  // a few consecutive primes from a random start, interval ends not necessarily prime
      lo = t.chance(1, 4) ? t.below(2000) : t.below(40);
      unsigned count = 1 + t.below(6);
      uint32_t q = lo >= 2 && is_prime(lo) ? lo : next_prime_after(lo < 1 ? 1 : lo);
      for (unsigned i = 1; i < count; ++i) q = next_prime_after(q);
      uint32_t nxt = next_prime_after(q);
      hi = q + t.below(nxt - q);
      break;
    }
    default: lo = t.below(4); hi = 100 + t.below(500); break;  // long range (GMP), cut down for the small classes
  }
  Range r = make_range(lo, hi);
  if (fit_bits) {
    mpz_class lim = 1;
    lim <<= fit_bits;
    while (r.P >= lim) {
      r.P /= r.primes.back();
      r.primes.pop_back();
      r.hi = r.primes.back();
    }
  }
  return r;
}

// sub-product of the range selected by a bit mask (bit i % 64 <-> primes[i])
inline mpz_class sub_product(const Range& r, uint64_t mask) {
  mpz_class q = 1;
  for (size_t i = 0; i < r.primes.size(); ++i)
    if ((mask >> (i % 64)) & 1) q *= r.primes[i];
  return q;
}

// Q of a partial inverse / identity: a non-empty sub-product of the range ("a product of primes"; the empty product 1
// is not offered), all-zero tape -> the whole product
inline uint64_t pick_qmask(vf::Tape& t, const Range& r) {
  uint64_t full = r.primes.size() >= 64 ? ~uint64_t(0) : (uint64_t(1) << r.primes.size()) - 1;
  uint64_t m = t.u64() & full;
  return m ? m : full;
}

inline mpz_class tape_mpz(vf::Tape& t, const mpz_class& P) {
  mpz_class x = 0;
  size_t limbs = mpz_sizeinbase(P.get_mpz_t(), 2) / 64 + 1;
  for (size_t i = 0; i < limbs; ++i) {
    x <<= 64;
    uint64_t w = t.u64();
    x += mpz_class((unsigned long)(w));
  }
  mpz_class r;
  mpz_fdiv_r(r.get_mpz_t(), x.get_mpz_t(), P.get_mpz_t());
  return r;
}

// reduced operand of the multi-field: boundary values, random values, and values vanishing modulo a random subset of
// the primes (the interesting ones for partial inverses);
inline mpz_class multi_operand(vf::Tape& t, const Range& r) {
  mpz_class x;
  switch (t.below(10)) {
    case 0: x = 0; break;
    case 1: x = 1; break;
    case 2: x = r.P - 1; break;
    case 3: x = r.P - 2; break;
    case 4: x = r.P / 2; break;
    case 5: x = 2; break;
    case 6:
    case 7: x = tape_mpz(t, r.P); break;
    case 8: x = t.u16(); break;
    default: {
      mpz_class z = sub_product(r, t.u64() | (t.flip() ? 0 : 1));
      x = z * (1 + tape_mpz(t, r.P));
      break;
    }
  }
  mpz_class y;
  mpz_fdiv_r(y.get_mpz_t(), x.get_mpz_t(), r.P.get_mpz_t());
  return y;
}

inline bool vanishes_somewhere(const Range& r, const mpz_class& x) {
  for (uint32_t q : r.primes)
    if (mpz_fdiv_ui(x.get_mpz_t(), q) == 0) return true;
  return false;
}

inline mpz_class reduce(const mpz_class& x, const mpz_class& P) {
  mpz_class r;
  mpz_fdiv_r(r.get_mpz_t(), x.get_mpz_t(), P.get_mpz_t());
  return r;
}

// ---------------------------------------------------------------------------------------------- oracle self-checks
// exact value `expected` (already reduced) must have, modulo every prime, the residue obtained from the operands'
// residues by 64-bit arithmetic. op: 0 a+b, 1 a-b, 2 a*b, 3 a*b+c, 4 (a+b)*c
inline void oracle_selfcheck(const Range& r, int op, const mpz_class& a, const mpz_class& b, const mpz_class& c,
                             const mpz_class& expected) {
  VF_ORACLE(expected >= 0 && expected < r.P, "oracle: expected value not reduced");
  for (uint32_t q : r.primes) {
    uint64_t ra = mpz_fdiv_ui(a.get_mpz_t(), q), rb = mpz_fdiv_ui(b.get_mpz_t(), q), rc = mpz_fdiv_ui(c.get_mpz_t(), q);
    uint64_t e;
    switch (op) {
      case 0: e = (ra + rb) % q; break;
      case 1: e = (ra + q - rb) % q; break;
      case 2: e = ra * rb % q; break;
      case 3: e = (ra * rb + rc) % q; break;
      default: e = (ra + rb) % q * rc % q; break;
    }
    VF_ORACLE(mpz_fdiv_ui(expected.get_mpz_t(), q) == e, "oracle: residue mismatch modulo " << q << " for op " << op);
  }
}

// The partial inverse contract of the property: for x and a sub-product Q of the range, the class returns (v, T) with
// T = product of the primes q | Q with x != 0 mod q, 0 <= v < P, v = x^-1 mod every q | T and v = 0 mod every other
// prime of the range.
inline void check_partial_inverse(vf::Ctx& ctx, const Range& r, const mpz_class& x, uint64_t qmask, const mpz_class& v,
                                  const mpz_class& T, const char* tag) {
  mpz_class expT = 1;
  for (size_t i = 0; i < r.primes.size(); ++i) {
    bool inQ = (qmask >> (i % 64)) & 1;
    if (inQ && mpz_fdiv_ui(x.get_mpz_t(), r.primes[i]) != 0) expT *= r.primes[i];
  }
  VF_CHECK(T == expT, tag, r.text() << " x=" << x << " Q=" << sub_product(r, qmask) << ": T=" << T << " expected " << expT);
  VF_CHECK(v >= 0 && v < r.P, tag, r.text() << " x=" << x << " Q=" << sub_product(r, qmask) << ": value " << v << " not reduced");
  for (size_t i = 0; i < r.primes.size(); ++i) {
    uint32_t q = r.primes[i];
    bool inQ = (qmask >> (i % 64)) & 1;
    uint64_t rx = mpz_fdiv_ui(x.get_mpz_t(), q), rv = mpz_fdiv_ui(v.get_mpz_t(), q);
    if (inQ && rx != 0)
      VF_CHECK(rx * rv % q == 1, tag, r.text() << " x=" << x << " Q=" << sub_product(r, qmask) << ": value " << v << " is not the inverse modulo " << q);
    else
      VF_CHECK(rv == 0, tag, r.text() << " x=" << x << " Q=" << sub_product(r, qmask) << ": value " << v << " is not 0 modulo " << q);
  }
}

// partial multiplicative identity of Q: the CRT idempotent (1 modulo the primes of Q, 0 modulo the others), reduced
inline void check_partial_identity(vf::Ctx& ctx, const Range& r, uint64_t qmask, const mpz_class& v, const char* tag) {
  VF_CHECK(v >= 0 && v < r.P, tag, r.text() << " Q=" << sub_product(r, qmask) << ": value " << v << " not reduced");
  for (size_t i = 0; i < r.primes.size(); ++i) {
    bool inQ = (qmask >> (i % 64)) & 1;
    uint64_t rv = mpz_fdiv_ui(v.get_mpz_t(), r.primes[i]);
    VF_CHECK(rv == (inQ ? 1u % r.primes[i] : 0u), tag,
             r.text() << " Q=" << sub_product(r, qmask) << ": value " << v << " is " << rv << " modulo " << r.primes[i]);
  }
}

// non-trivial rule for the multi-fields
inline void classify_multi(vf::Ctx& ctx, const Range& r, const mpz_class& a) {
  if (r.primes.size() == 1) {
    ctx.hit("single_prime_range");
    ctx.mark_nontrivial();
  }
  if (vanishes_somewhere(r, a)) {
    ctx.hit("operand_vanishes_modulo_some_prime");
    ctx.mark_nontrivial();
  }
  if (a == r.P - 1) {
    ctx.hit("operand_p_minus_1");
    ctx.mark_nontrivial();
  }
}

}  // namespace c10

#endif  // C10_MULTI_H_
