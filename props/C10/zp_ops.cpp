// C10 (part): run-time Z_p operator class Zp_field_operators<unsigned int> against exact 128-bit arithmetic.
#include "vf.h"
#include <gudhi/Fields/Zp_field_operators.h>
#include <climits>
#include <map>

namespace {
using Ops = Gudhi::persistence_fields::Zp_field_operators<unsigned int>;
typedef __int128 I128;

unsigned int refmod(I128 x, unsigned int p) {
  I128 r = x % I128(p);
  if (r < 0) r += p;
  return (unsigned int)r;
}
bool is_prime(unsigned int n) {
  if (n < 2) return false;
  for (unsigned int d = 2; (unsigned long)d * d <= n; ++d)
    if (n % d == 0) return false;
  return true;
}
const unsigned int kBoundary[] = {2, 3, 5, 7, 11, 13, 251, 257, 32749, 46327, 46337, 65497, 65519, 65521};
}  // namespace

namespace vf {
const char* harness_name() { return "C10/zp_ops"; }

void run_case(Tape& t, Ctx& ctx) {
  unsigned mode = t.weighted({3, 3, 2, 2});
  if (mode == 3) {  // refusal of non-primes / acceptance of primes, n <= 5000
    unsigned int n = t.below(5001);
    ctx.desc << "set_characteristic(" << n << ")\n";
    bool threw = false;
    Ops ops;
    try {
      ops.set_characteristic(n);
    } catch (const std::invalid_argument&) {
      threw = true;
    }
    VF_CHECK(threw == !is_prime(n), "refusal", "n=" << n << " threw=" << threw);
    if (!threw) VF_CHECK(ops.get_characteristic() == n, "characteristic", "n=" << n);
    ctx.hit(is_prime(n) ? "accept_prime" : "refuse_nonprime");
    if (n < 2 || !is_prime(n)) ctx.mark_nontrivial();
    return;
  }
  unsigned int p;
  if (mode == 0) {
    static const unsigned int small[] = {2, 3, 5, 7, 11, 13, 17, 19, 23, 29, 31};
    p = small[t.below(11)];
  } else if (mode == 1) {
    p = kBoundary[t.below(sizeof(kBoundary) / sizeof(kBoundary[0]))];
  } else {
    p = 2 + t.below(65520);
    while (!is_prime(p)) --p;
  }
  static std::map<unsigned int, Ops> cache;  // the inverse table costs O(p^2) to build; Ops is immutable afterwards
  auto it = cache.find(p);
  if (it == cache.end()) it = cache.emplace(p, Ops(p)).first;
  const Ops& ops = it->second;
  ctx.desc << "p=" << p << "\n";
  auto operand = [&]() -> unsigned int {
    switch (t.below(8)) {
      case 0: return 0;
      case 1: return 1;
      case 2: return p - 1;
      case 3: return p - 2 < p ? p - 2 : 0;
      case 4: return p / 2;
      case 5: return 2 % p;
      default: return t.u16() % p;
    }
  };
  unsigned nops = 1 + t.below(8);
  for (unsigned k = 0; k < nops; ++k) {
    unsigned what = t.below(4);
    if (what == 0) {  // conversion of arbitrary machine integers
      long long cands[] = {LLONG_MIN, -2LL * p - 1, -(long long)p - 1, -(long long)p, -1, 0, (long long)p, INT_MAX,
                           (long long)UINT_MAX, INT_MIN, (long long)(int)t.u32(), (long long)t.u64()};
      long long v = cands[t.below(12)];
      ctx.desc << " get_value(" << v << ") as ";
      unsigned ty = t.below(4);
      if (ty == 0) {
        int x = (int)v;
        ctx.desc << "int\n";
        VF_CHECK(ops.get_value(x) == refmod(x, p), "get_value_int", "p=" << p << " x=" << x << " got " << ops.get_value(x));
        if (x < -(long long)p) { ctx.hit("negative_below_minus_p"); ctx.mark_nontrivial(); }
      } else if (ty == 1) {
        long long x = v;
        ctx.desc << "long long\n";
        VF_CHECK(ops.get_value(x) == refmod(x, p), "get_value_ll", "p=" << p << " x=" << x << " got " << ops.get_value(x));
        if (x < -(long long)p) { ctx.hit("negative_below_minus_p"); ctx.mark_nontrivial(); }
      } else if (ty == 2) {
        unsigned int x = (unsigned int)v;
        ctx.desc << "unsigned\n";
        VF_CHECK(ops.get_value(x) == refmod(x, p), "get_value_u", "p=" << p << " x=" << x);
      } else {
        short x = (short)v;
        ctx.desc << "short\n";
        VF_CHECK(ops.get_value(x) == refmod(x, p), "get_value_short", "p=" << p << " x=" << x << " got " << ops.get_value(x));
        if (x < -(long long)p) { ctx.hit("negative_below_minus_p"); ctx.mark_nontrivial(); }
      }
      continue;
    }
    unsigned int a = operand(), b = operand(), c = operand();
    ctx.desc << " ops on (" << a << "," << b << "," << c << ")\n";
    if (a == p - 1 || b == p - 1 || c == p - 1) { ctx.hit("operand_p_minus_1"); ctx.mark_nontrivial(); }
    I128 A = a, B = b, C = c;
    VF_CHECK(ops.add(a, b) == refmod(A + B, p), "add", p << ":" << a << "+" << b);
    VF_CHECK(ops.subtract(a, b) == refmod(A - B, p), "subtract", p << ":" << a << "-" << b);
    VF_CHECK(ops.multiply(a, b) == refmod(A * B, p), "multiply", p << ":" << a << "*" << b << " got " << ops.multiply(a, b));
    VF_CHECK(ops.multiply_and_add(a, b, c) == refmod(A * B + C, p), "multiply_and_add", p << ":" << a << "," << b << "," << c);
    VF_CHECK(ops.add_and_multiply(a, b, c) == refmod((A + B) * C, p), "add_and_multiply", p << ":" << a << "," << b << "," << c);
    unsigned int x;
    x = a; ops.add_inplace(x, b); VF_CHECK(x == refmod(A + B, p), "add_inplace", p << ":" << a << "," << b);
    x = a; ops.subtract_inplace_front(x, b); VF_CHECK(x == refmod(A - B, p), "subtract_inplace_front", p << ":" << a << "," << b);
    x = b; ops.subtract_inplace_back(a, x); VF_CHECK(x == refmod(A - B, p), "subtract_inplace_back", p << ":" << a << "," << b);
    x = a; ops.multiply_inplace(x, b); VF_CHECK(x == refmod(A * B, p), "multiply_inplace", p << ":" << a << "," << b);
    x = a; ops.multiply_and_add_inplace_front(x, b, c); VF_CHECK(x == refmod(A * B + C, p), "maa_front", p << ":" << a << "," << b << "," << c);
    x = c; ops.multiply_and_add_inplace_back(a, b, x); VF_CHECK(x == refmod(A * B + C, p), "maa_back", p << ":" << a << "," << b << "," << c);
    x = a; ops.add_and_multiply_inplace_front(x, b, c); VF_CHECK(x == refmod((A + B) * C, p), "aam_front", p << ":" << a << "," << b << "," << c);
    x = c; ops.add_and_multiply_inplace_back(a, b, x); VF_CHECK(x == refmod((A + B) * C, p), "aam_back", p << ":" << a << "," << b << "," << c);
    VF_CHECK(ops.are_equal(a, b) == (a == b), "are_equal", p << ":" << a << "," << b);
    VF_CHECK(ops.are_equal(a, a + p), "are_equal_residue", p << ":" << a);
    if (a != 0) {
      unsigned int inv = ops.get_inverse(a);
      VF_CHECK(inv < p && refmod(I128(inv) * A, p) == 1, "inverse", p << ":" << a << " inv " << inv);
      auto pi = ops.get_partial_inverse(a, c);
      VF_CHECK(pi.first == inv && pi.second == c, "partial_inverse", p << ":" << a);
    }
  }
}
}  // namespace vf
