// C10 target zp_ops: the stateless run-time operator classes Zp_field_operators<unsigned int>,
// Zp_field_operators<unsigned long> and Z2_field_operators against exact 128-bit arithmetic.
//
// Tape: byte 0 = 0xFE selects the exhaustive sub-domain [class, prime index, a, b, c] (enumerated by `enums`);
// anything else is a random case: class, mode (arithmetic / conversions / refusal / copies), prime, operations.
#include "c10.h"

#include <gudhi/Fields/Z2_field_operators.h>
#include <gudhi/Fields/Zp_field_operators.h>

#include <map>
#include <stdexcept>

namespace {
using namespace c10;
using Gudhi::persistence_fields::Z2_field_operators;
using Gudhi::persistence_fields::Zp_field_operators;

// The inverse table costs O(p^2) to build (4.8 s for p = 65521 under ASan): one immutable object per prime and process.
template <class E>
const Zp_field_operators<E>& cached_ops(uint32_t p) {
  static std::map<uint32_t, Zp_field_operators<E> > cache;
  auto it = cache.find(p);
  if (it == cache.end()) it = cache.emplace(p, Zp_field_operators<E>(E(p))).first;
  return it->second;
}

template <class E>
void zp_triple(vf::Ctx& ctx, const Zp_field_operators<E>& ops, uint32_t p, E a, E b, E c) {
  if (a == p - 1 || b == p - 1 || c == p - 1) {
    ctx.hit("operand_p_minus_1");
    ctx.mark_nontrivial();
  }
  // (e + a) * m exceeds 32 bits for reduced operands only when p > 46341 and E = unsigned int; e * m + a never does
  // _multiply keeps its accumulators in `unsigned int` whatever E is: wrong for every wider element type
  const char* kf_mul = sizeof(E) > sizeof(unsigned int) ? KF_ZP_WIDE_MUL : nullptr;
  check_ops_triple<Zp_field_operators<E>, E>(ctx, ops, p, a, b, c, KF_AAM, nullptr, kf_mul);
  const I128 A = a, C = c;
  if (a != 0) {
    E inv = ops.get_inverse(a);
    VF_CHECK(inv < p && mod(I128(inv) * A, p) == 1, "inverse", p << ":" << a << " inverse " << inv);
    auto pi = ops.get_partial_inverse(a, c);
    VF_CHECK(pi.first == inv && I128(pi.second) == C, "partial_inverse", p << ":" << a << " Q=" << c);
    if (!(kf_mul && ctx.excluded(kf_mul))) VF_CHECK(ops.multiply(a, inv) == 1 % p, "x_times_inverse", p << ":" << a);
  }
  VF_CHECK(ops.get_partial_multiplicative_identity(c) == 1, "partial_identity", p << ": Q=" << c);
}

template <class E>
void zp_refusal(vf::Tape& t, vf::Ctx& ctx, const char* ename, uint32_t n) {
  typedef Zp_field_operators<E> Ops;
  ctx.desc << "Zp_field_operators<" << ename << ">: set_characteristic(" << n << ")\n";
  bool threw = false;
  Ops ops;
  try {
    ops.set_characteristic(E(n));
  } catch (const std::invalid_argument&) {
    threw = true;
  }
  VF_CHECK(threw == !is_prime(n), "refusal", "n=" << n << " threw=" << threw);
  if (!threw) {
    VF_CHECK(ops.get_characteristic() == n, "characteristic", "n=" << n);
    E a = E(operand(t, n)), b = E(operand(t, n)), c = E(operand(t, n));
    ctx.desc << " then ops on (" << a << "," << b << "," << c << ")\n";
    zp_triple<E>(ctx, ops, n, a, b, c);
  } else if (n != 0) {
    bool threw2 = false;  // the constructor refuses as well (0 means "not initialised" there)
    try {
      Ops o2{E(n)};
    } catch (const std::invalid_argument&) {
      threw2 = true;
    }
    VF_CHECK(threw2, "refusal_constructor", "n=" << n);
  }
  ctx.hit(is_prime(n) ? "accept_prime" : "refuse_nonprime");
  if (!is_prime(n)) ctx.mark_nontrivial();
}

template <class E>
void zp_random(vf::Tape& t, vf::Ctx& ctx, const char* ename) {
  typedef Zp_field_operators<E> Ops;
  unsigned mode = t.weighted({6, 3, 2, 1, 1});
  if (mode == 2) {  // refusal of every n in {0,1} + composites, acceptance of primes (all n <= 5040 are also enumerated)
    uint32_t n = t.chance(3, 4) ? t.below(600) : t.below(5001);
    zp_refusal<E>(t, ctx, ename, n);
    return;
  }
  if (mode == 4) {  // a refused characteristic must leave a working field behind (or at least not a wrong one)
    uint32_t p = pick_prime(t, 257, 0);
    uint32_t n = 4 + t.below(300);
    while (is_prime(n)) ++n;
    ctx.desc << "Zp_field_operators<" << ename << ">: p=" << p << ", refused set_characteristic(" << n << "), then inverses mod p\n";
    if (ctx.excluded(KF_REFUSAL_STATE)) {
      ctx.hit(std::string("excluded:") + KF_REFUSAL_STATE);
      return;
    }
    Ops ops{E(p)};
    bool threw = false;
    try {
      ops.set_characteristic(E(n));
    } catch (const std::invalid_argument&) {
      threw = true;
    }
    VF_CHECK(threw, "refusal", "n=" << n);
    ctx.hit("refusal_on_initialised_object");
    ctx.mark_nontrivial();
    if (ops.get_characteristic() == p) {  // still claims to be Z_p: then it has to be Z_p
      for (uint32_t a = 1; a < p && a < 64; ++a) {
        E inv = ops.get_inverse(E(a));
        VF_CHECK(inv < p && mod(I128(inv) * a, p) == 1, "inverse_after_refusal",
                 "p=" << p << " refused n=" << n << " a=" << a << " inverse " << inv);
      }
    }
    return;
  }
  uint32_t p = pick_prime(t, 65521, sizeof(E) > 4 ? 0 : kNumBigPrimes);  // 64-bit elements have no boundary near 2^16
  if (mode == 3 && p > 8191) p = 251;  // copies of the operator object: small tables only
  ctx.desc << "Zp_field_operators<" << ename << ">: p=" << p << "\n";
  if (p > 46341) ctx.hit("p_above_46341");
  if (mode == 3) {  // copies, moves, assignment, swap of the operator object
    Ops src(cached_ops<E>(p));
    Ops cp(src);
    Ops mv(std::move(src));
    Ops as;
    as = cp;
    Ops other(cached_ops<E>(p == 7 ? 11 : 7));
    swap(other, cp);  // cp is now Z_7 (or Z_11), other is Z_p
    ctx.desc << " copy/move/assign/swap of the operators, p=" << p << "\n";
    VF_CHECK(mv.get_characteristic() == p && as.get_characteristic() == p && other.get_characteristic() == p &&
                 cp.get_characteristic() == (p == 7 ? 11u : 7u), "copy_characteristic", "p=" << p);
    unsigned steps = 0;
    do {
      E a = E(operand(t, p)), b = E(operand(t, p)), c = E(operand(t, p));
      ctx.desc << " ops on (" << a << "," << b << "," << c << ")\n";
      switch (steps % 3) {
        case 0: zp_triple<E>(ctx, mv, p, a, b, c); break;
        case 1: zp_triple<E>(ctx, as, p, a, b, c); break;
        default: zp_triple<E>(ctx, other, p, a, b, c); break;
      }
      uint32_t q = p == 7 ? 11 : 7;
      zp_triple<E>(ctx, cp, q, E(a % q), E(b % q), E(c % q));
    } while (!t.exhausted() && ++steps < 6);
    ctx.hit("copy_move_swap");
    return;
  }
  const Ops& ops = cached_ops<E>(p);
  unsigned steps = 0;
  do {
    if (mode == 1) {  // conversions of machine integers
      with_machine_integer(t, ctx, p, sizeof(E), [&](auto x, bool below) {
        typedef decltype(x) T;
        ctx.desc << " get_value(" << str(I128(x)) << " as " << type_name<T>() << ")\n";
        if (below) {
          ctx.hit("negative_below_minus_p");
          ctx.mark_nontrivial();
        }
        if (I128(x) < 0) ctx.hit("negative");
        // unsigned integers go through get_value(Element): a wider unsigned type is narrowed by the language before
        // the class sees it, so the value that reaches the class is E(x) (signed types have their own template)
        I128 seen = std::is_signed<T>::value ? I128(x) : I128(E(x));
        E got = ops.get_value(x);
        VF_CHECK(got == E(mod(seen, p)), std::is_signed<T>::value ? "get_value_signed" : "get_value_unsigned",
                 "p=" << p << " x=" << str(I128(x)) << " as " << type_name<T>() << " got " << got << " expected " << mod(seen, p));
      });
    } else {
      E a = E(operand(t, p)), b = E(operand(t, p)), c = E(operand(t, p));
      ctx.desc << " ops on (" << a << "," << b << "," << c << ")\n";
      zp_triple<E>(ctx, ops, p, a, b, c);
    }
  } while (!t.exhausted() && ++steps < 12);
}

// ---------------------------------------------------------------------------------------------------------- Z_2
template <class U>
void z2_triple(vf::Ctx& ctx, unsigned a, unsigned b, unsigned c) {
  typedef Z2_field_operators Z2;
  const U ua = U(a), ub = U(b), uc = U(c);
  const I128 A = a, B = b, C = c;
  auto R = [&](I128 x) { return bool(mod(x, 2)); };
#define Z2_CASE type_name<U>() << " (" << a << "," << b << "," << c << ")"
  VF_CHECK(Z2::get_value(ua) == bool(a), "z2_get_value", Z2_CASE);
  VF_CHECK(Z2::add(ua, ub) == R(A + B), "z2_add", Z2_CASE);
  VF_CHECK(Z2::subtract(ua, ub) == R(A - B), "z2_subtract", Z2_CASE);
  VF_CHECK(Z2::multiply(ua, ub) == R(A * B), "z2_multiply", Z2_CASE);
  VF_CHECK(Z2::multiply_and_add(ua, ub, uc) == R(A * B + C), "z2_multiply_and_add", Z2_CASE);
  VF_CHECK(Z2::add_and_multiply(ua, ub, uc) == R((A + B) * C), "z2_add_and_multiply", Z2_CASE);
  U x;
  x = ua; Z2::add_inplace(x, ub); VF_CHECK(x == U(R(A + B)), "z2_add_inplace", Z2_CASE);
  x = ua; Z2::subtract_inplace_front(x, ub); VF_CHECK(x == U(R(A - B)), "z2_subtract_inplace_front", Z2_CASE);
  x = ub; Z2::subtract_inplace_back(ua, x); VF_CHECK(x == U(R(A - B)), "z2_subtract_inplace_back", Z2_CASE);
  x = ua; Z2::multiply_inplace(x, ub); VF_CHECK(x == U(R(A * B)), "z2_multiply_inplace", Z2_CASE);
  x = ua; Z2::multiply_and_add_inplace_front(x, ub, uc); VF_CHECK(x == U(R(A * B + C)), "z2_multiply_and_add_inplace_front", Z2_CASE);
  x = uc; Z2::multiply_and_add_inplace_back(ua, ub, x); VF_CHECK(x == U(R(A * B + C)), "z2_multiply_and_add_inplace_back", Z2_CASE);
  x = ua; Z2::add_and_multiply_inplace_front(x, ub, uc); VF_CHECK(x == U(R((A + B) * C)), "z2_add_and_multiply_inplace_front", Z2_CASE);
  // documented: "Stores the result in the third element"
  bool aam_back_changes = U(R((A + B) * C)) != uc;
  if (aam_back_changes && ctx.excluded(KF_Z2_AAM_BACK)) {
    ctx.hit(std::string("excluded:") + KF_Z2_AAM_BACK);
  } else {
    U e = ua;
    x = uc;
    Z2::add_and_multiply_inplace_back(e, ub, x);
    VF_CHECK(x == U(R((A + B) * C)), "z2_add_and_multiply_inplace_back", Z2_CASE << " third element is " << unsigned(x));
    VF_CHECK(e == ua, "z2_add_and_multiply_inplace_back_first_untouched", Z2_CASE);
  }
  VF_CHECK(Z2::are_equal(ua, ub) == (a == b), "z2_are_equal", Z2_CASE);
  VF_CHECK(Z2::get_inverse(ua) == bool(a), "z2_inverse", Z2_CASE);
  auto pi = Z2::get_partial_inverse(ua, 35u);
  VF_CHECK(pi.first == bool(a) && pi.second == 35u, "z2_partial_inverse", Z2_CASE);
  VF_CHECK(Z2::get_characteristic() == 2 && Z2::get_additive_identity() == false && Z2::get_multiplicative_identity() == true &&
               Z2::get_partial_multiplicative_identity(7) == true, "z2_constants", Z2_CASE);
  if (a == 1 || b == 1 || c == 1) {  // p - 1 = 1 is an operand
    ctx.hit("operand_p_minus_1");
    ctx.mark_nontrivial();
  }
}

void z2_case(vf::Ctx& ctx, unsigned a, unsigned b, unsigned c) {
  ctx.desc << "Z2_field_operators: ops on (" << a << "," << b << "," << c << ") as bool, unsigned, unsigned long, unsigned char\n";
  z2_triple<bool>(ctx, a, b, c);
  z2_triple<unsigned int>(ctx, a, b, c);
  z2_triple<unsigned long>(ctx, a, b, c);
  z2_triple<unsigned char>(ctx, a, b, c);
}

void z2_random(vf::Tape& t, vf::Ctx& ctx) {
  if (t.below(3) == 0) {
    unsigned bits = t.below(8);
    z2_case(ctx, bits & 1, (bits >> 1) & 1, (bits >> 2) & 1);
    return;
  }
  ctx.desc << "Z2_field_operators conversions / non-reduced operands\n";
  unsigned steps = 0;
  do {
    with_machine_integer(t, ctx, 2, sizeof(bool), [&](auto x, bool below) {
      typedef decltype(x) T;
      ctx.desc << " get_value(" << str(I128(x)) << " as " << type_name<T>() << ")\n";
      if (I128(x) < -2) {
        ctx.hit("negative_below_minus_p");
        ctx.mark_nontrivial();
      }
      VF_CHECK(Z2_field_operators::get_value(x) == bool(mod(I128(x), 2)), "z2_get_value", str(I128(x)) << " as " << type_name<T>());
    });
    unsigned u = t.u32(), v = t.u32();  // operands of add/multiply/are_equal are reduced by the class itself
    ctx.desc << " unsigned operands " << u << "," << v << "\n";
    VF_CHECK(Z2_field_operators::add(u, v) == bool((u + v) & 1), "z2_add_unreduced", u << "," << v);
    VF_CHECK(Z2_field_operators::multiply(u, v) == bool(u & v & 1), "z2_multiply_unreduced", u << "," << v);
    VF_CHECK(Z2_field_operators::are_equal(u, v) == ((u & 1) == (v & 1)), "z2_are_equal_residue", u << "," << v);
  } while (!t.exhausted() && ++steps < 12);
}

}  // namespace

namespace vf {
const char* harness_name() { return "C10/zp_ops"; }

void run_case(Tape& t, Ctx& ctx) {
  unsigned sel = t.u8();
  if (sel == 0xFE) {  // exhaustive sub-domain: all triples of all primes <= 31
    unsigned cls = t.u8() % 3;
    if (cls == 2) {
      unsigned a = t.u8() & 1, b = t.u8() & 1, c = t.u8() & 1;
      z2_case(ctx, a, b, c);
      return;
    }
    uint32_t p = kSmallPrimes[t.u8() % 11];
    unsigned a = t.u8() % p, b = t.u8() % p, c = t.u8() % p;
    ctx.desc << "exhaustive Zp_field_operators<" << (cls ? "unsigned long" : "unsigned") << ">: p=" << p << " (" << a << "," << b << "," << c << ")\n";
    if (cls == 0)
      zp_triple<unsigned int>(ctx, cached_ops<unsigned int>(p), p, a, b, c);
    else
      zp_triple<unsigned long>(ctx, cached_ops<unsigned long>(p), p, a, b, c);
    return;
  }
  if (sel == 0xFD) {  // exhaustive sub-domain: set_characteristic(n) for every n <= 5040
    unsigned cls = t.u8() % 2;
    uint32_t n = (t.u8() % 71) + 71 * (t.u8() % 71);
    if (cls == 0)
      zp_refusal<unsigned int>(t, ctx, "unsigned", n);
    else
      zp_refusal<unsigned long>(t, ctx, "unsigned long", n);
    return;
  }
  switch (sel % 8) {
    case 5:
    case 6: zp_random<unsigned long>(t, ctx, "unsigned long"); break;
    case 7: z2_random(t, ctx); break;
    default: zp_random<unsigned int>(t, ctx, "unsigned"); break;
  }
}
}  // namespace vf
