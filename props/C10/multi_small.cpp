// C10 target multi_small: the native-integer multi-field classes Multi_field_operators_with_small_characteristics
// (run-time range), Shared_multi_field_element_with_small_characteristics (static run-time range) and
// Multi_field_element_with_small_characteristics<min,max[,type]> (compile-time range), for ranges whose product fits
// the element type, against exact 128-bit arithmetic and the CRT contract of partial inverses / identities.
//
// The shared class keeps its range in static state: every case that uses it calls initialize() first.
#include "c10_multi.h"

#include <gudhi/Fields/Multi_field_small.h>
#include <gudhi/Fields/Multi_field_small_operators.h>
#include <gudhi/Fields/Multi_field_small_shared.h>

#include <stdexcept>

namespace {
using namespace c10;
using Gudhi::persistence_fields::Multi_field_element_with_small_characteristics;
using Gudhi::persistence_fields::Multi_field_operators_with_small_characteristics;
using Gudhi::persistence_fields::Shared_multi_field_element_with_small_characteristics;
typedef Multi_field_operators_with_small_characteristics SmallOps;
typedef Shared_multi_field_element_with_small_characteristics<unsigned int> SmallShared;
typedef Shared_multi_field_element_with_small_characteristics<unsigned long> SmallShared64;

inline mpz_class to_mpz(uint64_t v) { return mpz_class((unsigned long)(v)); }

struct InvPlan {
  uint64_t qmask;
  bool evaluate;
};
// Domain / exclusions of a partial inverse of x w.r.t. the sub-product selected by qmask:
//  * C10-small-partial-inverse-gcd: the classes take gcd(x, product of ALL primes) instead of gcd(x, Q); wrong (or a
//    division by zero) as soon as x vanishes modulo a prime of the range outside Q. While listed, Q is enlarged by
//    those primes.
//  * C10-small-inverse-int-overflow (element classes only, int_euclid = true): their extended Euclid runs in `int`;
//    trigger x >= 2^31 or T >= 2^31 (T = product of the primes of Q where x is invertible). While listed, the inverse
//    is not evaluated for such (x, Q). (The operators class keeps A and M unsigned and its coefficients in long.)
InvPlan plan_inverse(vf::Ctx& ctx, const Range& r, uint64_t x, uint64_t qmask, bool int_euclid) {
  InvPlan p{qmask, true};
  bool outside = false;
  for (size_t i = 0; i < r.primes.size(); ++i)
    if (!((qmask >> i) & 1) && x % r.primes[i] == 0) outside = true;
  if (outside) {
    if (ctx.excluded(KF_SMALL_GCD)) {
      ctx.hit(std::string("excluded:") + KF_SMALL_GCD);
      for (size_t i = 0; i < r.primes.size(); ++i)
        if (x % r.primes[i] == 0) p.qmask |= uint64_t(1) << i;
    } else {
      ctx.hit("partial_inverse_x_vanishes_outside_Q");
    }
  }
  U128 T = 1;
  for (size_t i = 0; i < r.primes.size(); ++i)
    if (((p.qmask >> i) & 1) && x % r.primes[i] != 0) T *= r.primes[i];
  if (x >= (uint64_t(1) << 31) || T >= (U128(1) << 31)) {
    if (int_euclid && ctx.excluded(KF_SMALL_INV)) {
      ctx.hit(std::string("excluded:") + KF_SMALL_INV);
      p.evaluate = false;
    } else {
      ctx.hit("inverse_operand_or_modulus_above_2^31");
    }
  }
  return p;
}

uint64_t full_mask(const Range& r) { return r.primes.size() >= 64 ? ~uint64_t(0) : (uint64_t(1) << r.primes.size()) - 1; }

// ------------------------------------------------------------------------------------------------ operators
void ops_triple(vf::Ctx& ctx, const SmallOps& ops, const Range& r, unsigned a, unsigned b, unsigned c, uint64_t qmask) {
  const uint64_t P = r.P.get_ui();
  // e * m + a and (e + a) * m are computed in the 32-bit element type ("@warning Not overflow safe")
  check_ops_triple<SmallOps, unsigned int>(ctx, ops, P, a, b, c, KF_SMALL_FUSED, KF_SMALL_FUSED);
  const uint64_t full = full_mask(r);
  InvPlan pf = plan_inverse(ctx, r, a, full, false);
  if (pf.evaluate) {
    auto got = ops.get_partial_inverse(a, (unsigned int)(P));
    check_partial_inverse(ctx, r, to_mpz(a), full, to_mpz(got.first), to_mpz(got.second), "partial_inverse_full");
    VF_CHECK(ops.get_inverse(a) == got.first, "inverse", r.text() << " a=" << a);
    if (got.second == P) VF_CHECK(ops.multiply(a, got.first) == 1 % P, "x_times_inverse", r.text() << " a=" << a);
  }
  InvPlan pq = plan_inverse(ctx, r, a, qmask & full, false);
  if (pq.evaluate) {
    unsigned Q = (unsigned)(sub_product(r, pq.qmask).get_ui());
    auto got = ops.get_partial_inverse(a, Q);
    check_partial_inverse(ctx, r, to_mpz(a), pq.qmask, to_mpz(got.first), to_mpz(got.second), "partial_inverse");
  }
  unsigned Q = (unsigned)(sub_product(r, qmask & full).get_ui());
  check_partial_identity(ctx, r, qmask & full, to_mpz(ops.get_partial_multiplicative_identity(Q)), "partial_identity");
  check_partial_identity(ctx, r, full, to_mpz(ops.get_partial_multiplicative_identity((unsigned int)(P))), "partial_identity_full");
}

// ------------------------------------------------------------------------------------------------ elements
// 64-bit element type: _add tests `UINT_MAX - element < v` (the 32-bit constant); the wrap-around branch is then taken
// whenever element <= UINT_MAX < element + v, and it is wrong when element + v < P.
bool uint_max_trigger(uint64_t x, uint64_t y, uint64_t P) { return x <= UINT_MAX && x + y > UINT_MAX && x + y < P; }
bool skip_add_64(vf::Ctx& ctx, uint64_t x, uint64_t y, uint64_t P) {
  if (!uint_max_trigger(x, y, P)) return false;
  if (ctx.excluded(KF_SMALL_64)) {
    ctx.hit(std::string("excluded:") + KF_SMALL_64);
    return true;
  }
  ctx.hit("sum_crosses_UINT_MAX_in_64_bit_element");
  return false;
}
// the partial identity of Q is accumulated with _add over the CRT idempotents in the order of the primes
bool identity_hits_uint_max(const Range& r, uint64_t qmask) {
  const uint64_t P = r.P.get_ui();
  uint64_t acc = 0;
  for (size_t i = 0; i < r.primes.size(); ++i) {
    if (!((qmask >> i) & 1)) continue;
    std::vector<uint32_t> res(r.primes.size(), 0);
    res[i] = 1;
    uint64_t e = ref::modular::crt(r.primes, res);
    if (uint_max_trigger(acc, e, P)) return true;
    acc = uint64_t((U128(acc) + e) % P);
  }
  return false;
}

template <class F>
void elem_triple(vf::Ctx& ctx, const Range& r, uint64_t a, uint64_t b, uint64_t c, uint64_t qmask) {
  typedef typename F::Element E;
  const uint64_t P = r.P.get_ui();
  const bool wide = sizeof(E) > sizeof(unsigned int);
  check_elem_triple<F>(ctx, P, a, b, c, wide ? &skip_add_64 : nullptr);
  const F fa{E(a)};
  const uint64_t full = full_mask(r);
  auto identity_ok = [&](uint64_t mask) {
    if (!wide || !identity_hits_uint_max(r, mask)) return true;
    if (ctx.excluded(KF_SMALL_64)) {
      ctx.hit(std::string("excluded:") + KF_SMALL_64);
      return false;
    }
    return true;
  };
  InvPlan pf = plan_inverse(ctx, r, a, full, true);
  if (pf.evaluate && identity_ok(full)) {
    auto got = fa.get_partial_inverse(E(P));
    // T is needed to know which identity the class accumulates: evaluate only when that one is clean as well
    check_partial_inverse(ctx, r, to_mpz(a), full, to_mpz(got.first.get_value()), to_mpz(got.second), "partial_inverse_full");
    VF_CHECK(fa.get_inverse() == got.first, "inverse", r.text() << " a=" << a);
    if (got.second == P) VF_CHECK((fa * got.first).get_value() == E(1 % P), "x_times_inverse", r.text() << " a=" << a);
  }
  InvPlan pq = plan_inverse(ctx, r, a, qmask & full, true);
  if (pq.evaluate) {
    uint64_t tmask = 0;  // primes of Q where a is invertible: the identity accumulated inside the class
    for (size_t i = 0; i < r.primes.size(); ++i)
      if (((pq.qmask >> i) & 1) && a % r.primes[i] != 0) tmask |= uint64_t(1) << i;
    if (identity_ok(tmask)) {
      E Q = E(sub_product(r, pq.qmask).get_ui());
      auto got = fa.get_partial_inverse(Q);
      check_partial_inverse(ctx, r, to_mpz(a), pq.qmask, to_mpz(got.first.get_value()), to_mpz(got.second), "partial_inverse");
    }
  }
  if (identity_ok(qmask & full)) {
    E Q = E(sub_product(r, qmask & full).get_ui());
    check_partial_identity(ctx, r, qmask & full, to_mpz(F::get_partial_multiplicative_identity(Q).get_value()), "partial_identity");
  }
  if (identity_ok(full))
    check_partial_identity(ctx, r, full, to_mpz(F::get_partial_multiplicative_identity(E(P)).get_value()), "partial_identity_full");
}

template <class F>
void elem_steps(vf::Tape& t, vf::Ctx& ctx, const Range& r, bool mixed) {
  typedef typename F::Element E;
  const uint64_t P = r.P.get_ui();
  const bool wide = sizeof(E) > sizeof(unsigned int);
  unsigned steps = 0;
  do {
    mpz_class am = multi_operand(t, r);
    classify_multi(ctx, r, am);
    uint64_t a = am.get_ui();
    if (mixed) {
      with_machine_integer(t, ctx, P, sizeof(E), [&](auto x, bool below) {
        typedef decltype(x) T;
        ctx.desc << " a=" << a << " with integer " << str(I128(x)) << " as " << type_name<T>() << "\n";
        if (below) {
          ctx.hit("negative_below_minus_p");
          ctx.mark_nontrivial();
        }
        if (I128(x) < 0) ctx.hit("negative");
        check_elem_mixed<F, T>(ctx, P, a, x, wide ? &skip_add_64 : nullptr);
      });
    } else {
      uint64_t b = multi_operand(t, r).get_ui(), c = multi_operand(t, r).get_ui();
      uint64_t qmask = pick_qmask(t, r);
      ctx.desc << " ops on (" << a << "," << b << "," << c << ") Q=" << sub_product(r, qmask & full_mask(r)) << "\n";
      elem_triple<F>(ctx, r, a, b, c, qmask);
    }
  } while (!t.exhausted() && ++steps < 8);
}

template <unsigned LO, unsigned HI, class E>
void fixed_elem_case(vf::Tape& t, vf::Ctx& ctx) {
  Range r = make_range(LO, HI);
  bool mixed = t.weighted({2, 1}) == 1;
  ctx.desc << "Multi_field_element_with_small_characteristics<" << LO << "," << HI << "," << type_name<E>() << "> " << r.text()
           << (mixed ? ": mixed element/integer operators\n" : ": arithmetic\n");
  if (r.P >= (mpz_class(1) << 31)) ctx.hit("product_above_2^31");
  elem_steps<Multi_field_element_with_small_characteristics<LO, HI, E> >(t, ctx, r, mixed);
}

void pick_empty_interval(vf::Tape& t, int* lo, int* hi) {
  static const int fixed[][2] = {{0, 1}, {1, 1}, {0, 0}, {4, 4}, {8, 10}, {24, 28}, {90, 96}, {114, 126}, {5, 3}, {7, 2}, {9, 9}, {65522, 65536}};
  if (t.flip()) {
    unsigned k = t.below(sizeof(fixed) / sizeof(fixed[0]));
    *lo = fixed[k][0];
    *hi = fixed[k][1];
    return;
  }
  uint32_t q = prev_prime(7 + t.below(5000));
  uint32_t nq = next_prime_after(q);
  if (nq - q < 2) {
    *lo = 8;
    *hi = 10;
    return;
  }
  *lo = int(q + 1 + t.below(nq - q - 1));
  *hi = int(*lo + t.below(nq - *lo));
}
}  // namespace

namespace vf {
const char* harness_name() { return "C10/multi_small"; }

void run_case(Tape& t, Ctx& ctx) {
  unsigned cls = t.weighted({4, 3, 1, 1, 1, 1, 1, 1, 1, 2});
  switch (cls) {
    case 2: fixed_elem_case<2, 3, unsigned int>(t, ctx); return;
    case 3: fixed_elem_case<5, 13, unsigned int>(t, ctx); return;
    case 4: fixed_elem_case<2, 23, unsigned int>(t, ctx); return;
    case 5: fixed_elem_case<3, 29, unsigned int>(t, ctx); return;            // product 3234846615 in [2^31, 2^32)
    case 6: fixed_elem_case<7, 7, unsigned int>(t, ctx); return;
    case 7: fixed_elem_case<65519, 65521, unsigned int>(t, ctx); return;     // product 4292870399 in [2^31, 2^32)
    case 8: {  // 64-bit element type, products below 2^62. (The compile-time class cannot be instantiated with
               // unsigned long: its identity getters return the <min,max,unsigned int> class -> compile error.)
      Range r = t.flip() ? make_range(2, 43) : pick_range(t, 62);
      bool mixed = t.weighted({2, 1}) == 1;
      SmallShared64::initialize(r.lo, r.hi);  // static state: always set by the case itself
      ctx.desc << "Shared_multi_field_element_with_small_characteristics<unsigned long> " << r.text()
               << (mixed ? ": mixed element/integer operators\n" : ": arithmetic\n");
      if (r.P >= (mpz_class(1) << 32)) ctx.hit("product_above_2^32");
      elem_steps<SmallShared64>(t, ctx, r, mixed);
      return;
    }
    default: break;
  }
  if (cls == 9) {  // refusals
    bool shared = t.flip();
    bool empty = t.chance(3, 4);
    int lo, hi;
    if (empty) {
      pick_empty_interval(t, &lo, &hi);
    } else {
      Range r = pick_range(t, 32);
      lo = int(r.lo);
      hi = int(r.hi);
    }
    bool has_prime = lo <= hi && hi >= 2 && !primes_in(lo < 0 ? 0 : lo, hi).empty();
    ctx.desc << (shared ? "Shared_multi_field_element_with_small_characteristics::initialize(" : "Multi_field_operators_with_small_characteristics::set_characteristic(")
             << lo << "," << hi << ")\n";
    bool threw = false;
    uint64_t got = 0;
    try {
      if (shared) {
        SmallShared::initialize(unsigned(lo), unsigned(hi));
        got = SmallShared::get_characteristic();
      } else {
        SmallOps ops;
        ops.set_characteristic(lo, hi);
        got = ops.get_characteristic();
      }
    } catch (const std::invalid_argument&) {
      threw = true;
    }
    VF_CHECK(threw == !has_prime, "refusal", "[" << lo << "," << hi << "] threw=" << threw);
    if (!threw) VF_CHECK(to_mpz(got) == make_range(lo, hi).P, "characteristic", "[" << lo << "," << hi << "] got " << got);
    if (!has_prime && !shared) {
      bool threw2 = false;
      try {
        SmallOps o2(lo, hi);
      } catch (const std::invalid_argument&) {
        threw2 = true;
      }
      VF_CHECK(threw2, "refusal_constructor", "[" << lo << "," << hi << "]");
    }
    ctx.hit(has_prime ? "accept_range" : "refuse_empty_range");
    if (!has_prime) ctx.mark_nontrivial();
    return;
  }
  Range r = pick_range(t, 32);
  if (r.P >= (mpz_class(1) << 31)) ctx.hit("product_above_2^31");
  unsigned mode = t.weighted({5, 2, 1});
  if (cls == 1) {
    SmallShared::initialize(r.lo, r.hi);  // static state: always set by the case itself
    ctx.desc << "Shared_multi_field_element_with_small_characteristics " << r.text()
             << (mode == 1 ? ": mixed element/integer operators\n" : ": arithmetic\n");
    elem_steps<SmallShared>(t, ctx, r, mode == 1);
    return;
  }
  ctx.desc << "Multi_field_operators_with_small_characteristics " << r.text() << (mode == 2 ? ": copies of the operators\n" : ": arithmetic\n");
  SmallOps ops(int(r.lo), int(r.hi));
  SmallOps cp(ops), as, other(2, 3);
  as = ops;
  SmallOps mv(std::move(cp));
  if (mode == 2) {
    SmallOps o23(other);
    swap(o23, as);
    VF_CHECK(as.get_characteristic() == 6 && to_mpz(o23.get_characteristic()) == r.P, "swap_characteristic", r.text());
    as = o23;
    ctx.hit("copy_move_swap");
  }
  unsigned steps = 0;
  do {
    mpz_class am = multi_operand(t, r);
    classify_multi(ctx, r, am);
    unsigned a = unsigned(am.get_ui()), b = unsigned(multi_operand(t, r).get_ui()), c = unsigned(multi_operand(t, r).get_ui());
    uint64_t qmask = pick_qmask(t, r);
    ctx.desc << " ops on (" << a << "," << b << "," << c << ") Q=" << sub_product(r, qmask & full_mask(r)) << "\n";
    ops_triple(ctx, mode == 2 ? (steps % 2 ? mv : as) : ops, r, a, b, c, qmask);
  } while (!t.exhausted() && ++steps < 8);
}
}  // namespace vf
