#define C10_PART 0
#include "zp_elem_part.inc"
