// C10 target zp_elem: the field-element classes with a compile-time characteristic, Z2_field_element and
// Zp_field_element<p> for p in {2,3,5,7,13,251,257,32749,46349,65521}, against exact 128-bit arithmetic.
//
// Tape: byte 0 = 0xFE selects the exhaustive sub-domain [class, a, b, c] (enumerated by `enums`, one per class with
// p <= 13); anything else is a random case: class, mode (arithmetic / mixed integer operands), operations.
// Not observable here: Zp_field_element<non-prime> is refused by a static_assert (compile time), and
// Zp_field_element<p, unsigned long> does not compile (get_inverse() and the identity getters return
// Zp_field_element<p, unsigned int>, which does not convert to the class itself).
#include "vf.h"

void c10_zp_elem_part0(unsigned k, bool exhaustive, vf::Tape& t, vf::Ctx& ctx);  // Z2, 2, 3, 5
void c10_zp_elem_part1(unsigned k, bool exhaustive, vf::Tape& t, vf::Ctx& ctx);  // 7, 13, 251, 257
void c10_zp_elem_part2(unsigned k, bool exhaustive, vf::Tape& t, vf::Ctx& ctx);  // 65521, 46349, 32749

namespace vf {
const char* harness_name() { return "C10/zp_elem"; }

void run_case(Tape& t, Ctx& ctx) {
  unsigned sel = t.u8();
  if (sel == 0xFE) {  // classes 0..5 = Z2, 2, 3, 5, 7, 13
    unsigned cls = t.u8() % 6;
    if (cls < 4)
      c10_zp_elem_part0(cls, true, t, ctx);
    else
      c10_zp_elem_part1(cls - 4, true, t, ctx);
    return;
  }
  unsigned cls = sel % 14;  // the three large characteristics get two slots each
  if (cls < 4)
    c10_zp_elem_part0(cls, false, t, ctx);
  else if (cls < 8)
    c10_zp_elem_part1(cls - 4, false, t, ctx);
  else
    c10_zp_elem_part2((cls - 8) % 3, false, t, ctx);
}
}  // namespace vf
