// C10 target zp_shared (and zp_shared_big with -DC10_FIXED_P=<prime>): Shared_Zp_field_element<unsigned int>, the
// element class whose characteristic is static state shared by all elements, against exact 128-bit arithmetic.
//
// Static state: every case starts by (re)initialising the class to the characteristic it decodes, unless the class is
// provably already in exactly that state (same characteristic, and no refused initialize() since the last successful
// one - a refused initialize() leaves the inverse table half rewritten). initialize(p) costs O(p^2), therefore the
// general target draws p <= 1031 and the expensive boundary primes get one binary each (C10_FIXED_P, initialised once).
//
// Tape: byte 0 = 0xFE exhaustive triples [prime index, a, b, c]; 0xFD exhaustive refusal [d0, d1] n = d0 + 71 d1;
// anything else a random case.
#include "c10.h"

#include <gudhi/Fields/Zp_field_shared.h>

#include <stdexcept>

namespace {
using namespace c10;
typedef Gudhi::persistence_fields::Shared_Zp_field_element<unsigned int> SF;

bool g_dirty = true;  // true: the static tables of SF may not correspond to SF::get_characteristic()

void ensure_characteristic(uint32_t p) {
  if (g_dirty || SF::get_characteristic() != p) {
    SF::initialize(p);
    g_dirty = false;
  }
}

void shared_refusal(vf::Tape& t, vf::Ctx& ctx, uint32_t n) {
  ctx.desc << "Shared_Zp_field_element: initialize(" << n << ")\n";
  bool threw = false;
  g_dirty = true;
  try {
    SF::initialize(n);
  } catch (const std::invalid_argument&) {
    threw = true;
  }
  VF_CHECK(threw == !is_prime(n), "refusal", "n=" << n << " threw=" << threw);
  ctx.hit(is_prime(n) ? "accept_prime" : "refuse_nonprime");
  if (!is_prime(n)) ctx.mark_nontrivial();
  if (!threw) {
    g_dirty = false;
    VF_CHECK(SF::get_characteristic() == n, "characteristic", "n=" << n);
    uint64_t a = operand(t, n), b = operand(t, n), c = operand(t, n);
    ctx.desc << " then ops on (" << a << "," << b << "," << c << ")\n";
    check_elem_triple<SF>(ctx, n, a, b, c);
    check_elem_inverse<SF>(ctx, n, a, 35u);
  }
}
}  // namespace

namespace vf {
#ifdef C10_FIXED_P
const char* harness_name() { return "C10/zp_shared_big"; }

void run_case(Tape& t, Ctx& ctx) {
  const uint32_t p = C10_FIXED_P;
  ensure_characteristic(p);
  bool conversions = t.weighted({2, 1}) == 1;
  ctx.desc << "Shared_Zp_field_element p=" << p << (conversions ? ": mixed element/integer operators\n" : ": arithmetic\n");
  ctx.hit("p_above_46341");
  elem_random_steps<SF>(t, ctx, p, conversions);
}
#else
const char* harness_name() { return "C10/zp_shared"; }

void run_case(Tape& t, Ctx& ctx) {
  unsigned sel = t.u8();
  if (sel == 0xFE) {
    uint32_t p = kSmallPrimes[t.u8() % 11];
    uint64_t a = t.u8() % p, b = t.u8() % p, c = t.u8() % p;
    ensure_characteristic(p);
    ctx.desc << "exhaustive Shared_Zp_field_element p=" << p << " (" << a << "," << b << "," << c << ")\n";
    if (a == p - 1 || b == p - 1 || c == p - 1) {
      ctx.hit("operand_p_minus_1");
      ctx.mark_nontrivial();
    }
    check_elem_triple<SF>(ctx, p, a, b, c);
    check_elem_inverse<SF>(ctx, p, a, (unsigned int)(c));
    check_elem_mixed<SF, int>(ctx, p, a, int(b));
    check_elem_mixed<SF, unsigned>(ctx, p, a, unsigned(b));
    check_elem_mixed<SF, long long>(ctx, p, a, (long long)(b));
    check_elem_mixed<SF, int>(ctx, p, a, int(b) - int(p));
    return;
  }
  if (sel == 0xFD) {
    uint32_t n = (t.u8() % 71) + 71 * (t.u8() % 71);
    shared_refusal(t, ctx, n);
    return;
  }
  unsigned mode = t.weighted({6, 3, 2, 1});
  if (mode == 2) {
    shared_refusal(t, ctx, t.chance(3, 4) ? t.below(600) : t.below(5001));
    return;
  }
  if (mode == 3) {  // a refused characteristic must not leave a wrong field behind
    uint32_t p = pick_prime(t, 257, 0);
    uint32_t n = 4 + t.below(300);
    while (is_prime(n)) ++n;
    ctx.desc << "Shared_Zp_field_element: p=" << p << ", refused initialize(" << n << "), then inverses mod p\n";
    if (ctx.excluded(KF_REFUSAL_STATE)) {
      ctx.hit(std::string("excluded:") + KF_REFUSAL_STATE);
      return;
    }
    ensure_characteristic(p);
    bool threw = false;
    g_dirty = true;
    try {
      SF::initialize(n);
    } catch (const std::invalid_argument&) {
      threw = true;
    }
    VF_CHECK(threw, "refusal", "n=" << n);
    ctx.hit("refusal_on_initialised_class");
    ctx.mark_nontrivial();
    if (SF::get_characteristic() == p) {  // still claims to be Z_p: then it has to be Z_p
      for (uint32_t a = 1; a < p && a < 64; ++a) {
        uint64_t inv = SF(a).get_inverse().get_value();
        VF_CHECK(inv < p && mod(I128(inv) * a, p) == 1, "inverse_after_refusal",
                 "p=" << p << " refused n=" << n << " a=" << a << " inverse " << inv);
      }
    }
    return;
  }
  uint32_t p = pick_prime(t, 1031, 0);  // re-initialisation is O(p^2); 46349 and 65521 have their own binaries
  ensure_characteristic(p);
  ctx.desc << "Shared_Zp_field_element p=" << p << (mode == 1 ? ": mixed element/integer operators\n" : ": arithmetic\n");
  elem_random_steps<SF>(t, ctx, p, mode == 1);
}
#endif
}  // namespace vf
