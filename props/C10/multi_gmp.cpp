// C10 target multi_gmp: the GMP multi-field classes Multi_field_operators (run-time range), Shared_multi_field_element
// (static run-time range) and Multi_field_element<min,max> (compile-time range) against exact mpz arithmetic cross-
// checked through the residues modulo every prime of the range (CRT).
//
// Shared_multi_field_element keeps its range in static state: every case that uses it calls initialize() first.
#include "c10_multi.h"

#include <gudhi/Fields/Multi_field.h>
#include <gudhi/Fields/Multi_field_operators.h>
#include <gudhi/Fields/Multi_field_shared.h>

#include <stdexcept>

namespace {
using namespace c10;
using Gudhi::persistence_fields::Multi_field_element;
using Gudhi::persistence_fields::Multi_field_operators;
using Gudhi::persistence_fields::Shared_multi_field_element;

#define MG_CASE r.text() << " (" << a << "," << b << "," << c << ")"

// ------------------------------------------------------------------------------------------------ operators
void ops_triple(vf::Ctx& ctx, const Multi_field_operators& ops, const Range& r, const mpz_class& a, const mpz_class& b,
                const mpz_class& c, uint64_t qmask) {
  const mpz_class& P = r.P;
  mpz_class sum = reduce(a + b, P), dif = reduce(a - b, P), prd = reduce(a * b, P), maa = reduce(a * b + c, P),
            aam = reduce((a + b) * c, P);
  oracle_selfcheck(r, 0, a, b, c, sum);
  oracle_selfcheck(r, 1, a, b, c, dif);
  oracle_selfcheck(r, 2, a, b, c, prd);
  oracle_selfcheck(r, 3, a, b, c, maa);
  oracle_selfcheck(r, 4, a, b, c, aam);
  VF_CHECK(ops.get_characteristic() == P, "characteristic", MG_CASE << " got " << ops.get_characteristic());
  VF_CHECK(ops.get_value(a) == a, "get_value_reduced", MG_CASE);
  VF_CHECK(ops.add(a, b) == sum, "add", MG_CASE << " got " << ops.add(a, b));
  VF_CHECK(ops.subtract(a, b) == dif, "subtract", MG_CASE << " got " << ops.subtract(a, b));
  VF_CHECK(ops.multiply(a, b) == prd, "multiply", MG_CASE << " got " << ops.multiply(a, b));
  VF_CHECK(ops.multiply_and_add(a, b, c) == maa, "multiply_and_add", MG_CASE << " got " << ops.multiply_and_add(a, b, c));
  VF_CHECK(ops.add_and_multiply(a, b, c) == aam, "add_and_multiply", MG_CASE << " got " << ops.add_and_multiply(a, b, c));
  mpz_class x;
  x = a; ops.add_inplace(x, b); VF_CHECK(x == sum, "add_inplace", MG_CASE << " got " << x);
  x = a; ops.subtract_inplace_front(x, b); VF_CHECK(x == dif, "subtract_inplace_front", MG_CASE << " got " << x);
  x = b; ops.subtract_inplace_back(a, x); VF_CHECK(x == dif, "subtract_inplace_back", MG_CASE << " got " << x);
  x = a; ops.multiply_inplace(x, b); VF_CHECK(x == prd, "multiply_inplace", MG_CASE << " got " << x);
  x = a; ops.multiply_and_add_inplace_front(x, b, c); VF_CHECK(x == maa, "multiply_and_add_inplace_front", MG_CASE << " got " << x);
  x = c; ops.multiply_and_add_inplace_back(a, b, x); VF_CHECK(x == maa, "multiply_and_add_inplace_back", MG_CASE << " got " << x);
  x = a; ops.add_and_multiply_inplace_front(x, b, c); VF_CHECK(x == aam, "add_and_multiply_inplace_front", MG_CASE << " got " << x);
  x = c; ops.add_and_multiply_inplace_back(a, b, x); VF_CHECK(x == aam, "add_and_multiply_inplace_back", MG_CASE << " got " << x);
  VF_CHECK(ops.are_equal(a, b) == (a == b), "are_equal", MG_CASE);
  VF_CHECK(ops.are_equal(a + P, a) && ops.are_equal(a, a - 3 * P) && ops.are_equal(b - P, a) == (a == b), "are_equal_residue", MG_CASE);
  VF_CHECK(ops.get_additive_identity() == 0 && ops.get_multiplicative_identity() == 1, "identities", MG_CASE);
  // inverse = partial inverse w.r.t. the whole product; partial inverse / identity w.r.t. the sub-product Q
  const uint64_t full = ~uint64_t(0);
  auto pf = ops.get_partial_inverse(a, P);
  check_partial_inverse(ctx, r, a, full, pf.first, pf.second, "partial_inverse_full");
  VF_CHECK(ops.get_inverse(a) == pf.first, "inverse", MG_CASE);
  if (pf.second == P) VF_CHECK(ops.multiply(a, ops.get_inverse(a)) == 1 % P, "x_times_inverse", MG_CASE);
  mpz_class Q = sub_product(r, qmask);
  auto pq = ops.get_partial_inverse(a, Q);
  check_partial_inverse(ctx, r, a, qmask, pq.first, pq.second, "partial_inverse");
  check_partial_identity(ctx, r, qmask, ops.get_partial_multiplicative_identity(Q), "partial_identity");
  check_partial_identity(ctx, r, full, ops.get_partial_multiplicative_identity(P), "partial_identity_full");
}

void ops_conversion(vf::Tape& t, vf::Ctx& ctx, const Multi_field_operators& ops, const Range& r) {
  // any integer, negative ones included, as an mpz_class (the only integer type of the GMP classes)
  mpz_class v;
  switch (t.below(8)) {
    case 0: v = -r.P; break;
    case 1: v = -r.P - 1; break;
    case 2: v = -2 * r.P - 1; break;
    case 3: v = r.P; break;
    case 4: v = -1; break;
    case 5: v = mpz_class((long)(int64_t(t.u64()))); break;
    case 6: v = -(tape_mpz(t, r.P) + r.P * (1 + t.below(5))); break;
    default: v = tape_mpz(t, r.P) + r.P * t.below(5); break;
  }
  ctx.desc << " get_value(" << v << ")\n";
  if (v < -r.P) {
    ctx.hit("negative_below_minus_p");
    ctx.mark_nontrivial();
  }
  mpz_class e = reduce(v, r.P);
  VF_CHECK(ops.get_value(v) == e, "get_value", r.text() << " v=" << v << " got " << ops.get_value(v));
  mpz_class x = v;
  ops.get_value_inplace(x);
  VF_CHECK(x == e, "get_value_inplace", r.text() << " v=" << v << " got " << x);
}

// ------------------------------------------------------------------------------------------------ elements
template <class F>
void elem_triple(vf::Ctx& ctx, const Range& r, const mpz_class& a, const mpz_class& b, const mpz_class& c, uint64_t qmask) {
  const mpz_class& P = r.P;
  mpz_class sum = reduce(a + b, P), dif = reduce(a - b, P), prd = reduce(a * b, P), maa = reduce(a * b + c, P),
            aam = reduce((a + b) * c, P), bma = reduce(b - a, P);
  oracle_selfcheck(r, 0, a, b, c, sum);
  oracle_selfcheck(r, 1, a, b, c, dif);
  oracle_selfcheck(r, 1, b, a, c, bma);
  oracle_selfcheck(r, 2, a, b, c, prd);
  oracle_selfcheck(r, 3, a, b, c, maa);
  oracle_selfcheck(r, 4, a, b, c, aam);
  const F fa(a), fb(b), fc(c);
  VF_CHECK(F::get_characteristic() == P, "characteristic", MG_CASE << " got " << F::get_characteristic());
  VF_CHECK(fa.get_value() == a && fb.get_value() == b && fc.get_value() == c, "construct_reduced", MG_CASE);
  VF_CHECK(fa.operator mpz_class() == a, "cast_mpz", MG_CASE);
  if (a.fits_uint_p()) VF_CHECK(fa.operator unsigned int() == a.get_ui(), "cast_unsigned", MG_CASE);
  VF_CHECK((fa + fb).get_value() == sum, "elem+elem", MG_CASE << " got " << (fa + fb).get_value());
  VF_CHECK((fa - fb).get_value() == dif, "elem-elem", MG_CASE << " got " << (fa - fb).get_value());
  VF_CHECK((fa * fb).get_value() == prd, "elem*elem", MG_CASE << " got " << (fa * fb).get_value());
  VF_CHECK((fa * fb + fc).get_value() == maa, "elem*elem+elem", MG_CASE);
  VF_CHECK(((fa + fb) * fc).get_value() == aam, "(elem+elem)*elem", MG_CASE);
  F x;
  VF_CHECK(x.get_value() == 0, "default_is_zero", MG_CASE);
  x = fa; x += fb; VF_CHECK(x.get_value() == sum, "elem+=elem", MG_CASE);
  x = fa; x -= fb; VF_CHECK(x.get_value() == dif, "elem-=elem", MG_CASE);
  x = fa; x *= fb; VF_CHECK(x.get_value() == prd, "elem*=elem", MG_CASE);
  // reduced integer operands, both orders
  VF_CHECK((fa + b).get_value() == sum && (fa - b).get_value() == dif && (fa * b).get_value() == prd, "elem(op)int", MG_CASE);
  VF_CHECK((b + fa) == sum, "int+elem", MG_CASE << " got " << (b + fa));
  VF_CHECK((b - fa) == bma, "int-elem", MG_CASE << " got " << (b - fa));
  VF_CHECK((b * fa) == prd, "int*elem", MG_CASE << " got " << (b * fa));
  x = fa; x += b; VF_CHECK(x.get_value() == sum, "elem+=int", MG_CASE);
  x = fa; x -= b; VF_CHECK(x.get_value() == dif, "elem-=int", MG_CASE);
  x = fa; x *= b; VF_CHECK(x.get_value() == prd, "elem*=int", MG_CASE);
  x = b; VF_CHECK(x.get_value() == b, "assign_int", MG_CASE);
  VF_CHECK((fa == fb) == (a == b) && (fa != fb) == (a != b), "elem==elem", MG_CASE);
  VF_CHECK((fa == b) == (a == b) && (b == fa) == (a == b) && (fa != b) == (a != b) && (b != fa) == (a != b), "elem==int", MG_CASE);
  VF_CHECK(F::get_additive_identity().get_value() == 0 && F::get_multiplicative_identity().get_value() == 1, "identities", MG_CASE);
  // copy / move / assignment / swap
  F cp(fa);
  VF_CHECK(cp == fa && cp.get_value() == a, "copy", MG_CASE);
  F mv(std::move(cp));
  VF_CHECK(mv.get_value() == a, "move", MG_CASE);
  F as;
  as = fb;
  VF_CHECK(as.get_value() == b, "assign", MG_CASE);
  as = F(c);
  VF_CHECK(as.get_value() == c, "move_assign", MG_CASE);
  F s1(fa), s2(fb);
  swap(s1, s2);
  VF_CHECK(s1.get_value() == b && s2.get_value() == a, "swap", MG_CASE);
  // inverses
  const uint64_t full = ~uint64_t(0);
  auto pf = fa.get_partial_inverse(P);
  check_partial_inverse(ctx, r, a, full, pf.first.get_value(), pf.second, "partial_inverse_full");
  VF_CHECK(fa.get_inverse() == pf.first, "inverse", MG_CASE);
  if (pf.second == P) VF_CHECK((fa * fa.get_inverse()).get_value() == 1 % P, "x_times_inverse", MG_CASE);
  mpz_class Q = sub_product(r, qmask);
  auto pq = fa.get_partial_inverse(Q);
  check_partial_inverse(ctx, r, a, qmask, pq.first.get_value(), pq.second, "partial_inverse");
  check_partial_identity(ctx, r, qmask, F::get_partial_multiplicative_identity(Q).get_value(), "partial_identity");
  check_partial_identity(ctx, r, full, F::get_partial_multiplicative_identity(P).get_value(), "partial_identity_full");
}

// element (op) arbitrary integer v (mpz_class), negative ones included
template <class F>
void elem_mixed(vf::Tape& t, vf::Ctx& ctx, const Range& r, const mpz_class& a) {
  const mpz_class& P = r.P;
  mpz_class v;
  switch (t.below(8)) {
    case 0: v = -P; break;
    case 1: v = -P - 1; break;
    case 2: v = -2 * P - 1; break;
    case 3: v = P; break;
    case 4: v = -1; break;
    case 5: v = mpz_class((long)(int64_t(t.u64()))); break;
    case 6: v = -(tape_mpz(t, P) + P * t.below(5)); break;
    default: v = tape_mpz(t, P) + P * t.below(5); break;
  }
  bool neg_site = v < 0;  // known finding: `integer - element` and `integer == element` for a negative integer
  if (neg_site && ctx.excluded(KF_GMP_INT_NEG)) ctx.hit(std::string("excluded:") + KF_GMP_INT_NEG);
  bool skip_neg = neg_site && ctx.excluded(KF_GMP_INT_NEG);
  ctx.desc << " a=" << a << " with integer " << v << "\n";
  if (v < -P) {
    ctx.hit("negative_below_minus_p");
    ctx.mark_nontrivial();
  }
  if (v < 0) ctx.hit("negative");
  const F fa(a);
#define MG_MIX r.text() << " a=" << a << " v=" << v
  mpz_class rv = reduce(v, P);
  VF_CHECK(F(v).get_value() == rv, "construct_int", MG_MIX << " got " << F(v).get_value());
  F x;
  x = v; VF_CHECK(x.get_value() == rv, "assign_int", MG_MIX << " got " << x.get_value());
  VF_CHECK((fa + v).get_value() == reduce(a + v, P), "elem+int", MG_MIX);
  VF_CHECK((fa - v).get_value() == reduce(a - v, P), "elem-int", MG_MIX);
  VF_CHECK((fa * v).get_value() == reduce(a * v, P), "elem*int", MG_MIX);
  x = fa; x += v; VF_CHECK(x.get_value() == reduce(a + v, P), "elem+=int", MG_MIX);
  x = fa; x -= v; VF_CHECK(x.get_value() == reduce(a - v, P), "elem-=int", MG_MIX);
  x = fa; x *= v; VF_CHECK(x.get_value() == reduce(a * v, P), "elem*=int", MG_MIX);
  VF_CHECK((v + fa) == reduce(a + v, P), "int+elem", MG_MIX << " got " << (v + fa));
  VF_CHECK((v * fa) == reduce(a * v, P), "int*elem", MG_MIX << " got " << (v * fa));
  if (!skip_neg) {
    VF_CHECK((v - fa) == reduce(v - a, P), "int-elem_unreduced", MG_MIX << " got " << (v - fa));
    bool eq = rv == a;
    VF_CHECK((fa == v) == eq && (v == fa) == eq && (fa != v) == !eq && (v != fa) == !eq, "elem==int_unreduced", MG_MIX);
    F fr(rv);
    VF_CHECK(fr == v && v == fr, "elem==int_unreduced", MG_MIX << " (element " << rv << ")");
  }
}

template <class F>
void elem_steps(vf::Tape& t, vf::Ctx& ctx, const Range& r, bool mixed) {
  unsigned steps = 0;
  do {
    mpz_class a = multi_operand(t, r);
    classify_multi(ctx, r, a);
    if (mixed) {
      elem_mixed<F>(t, ctx, r, a);
    } else {
      mpz_class b = multi_operand(t, r), c = multi_operand(t, r);
      uint64_t qmask = pick_qmask(t, r);
      ctx.desc << " ops on (" << a << "," << b << "," << c << ") Q=" << sub_product(r, qmask) << "\n";
      elem_triple<F>(ctx, r, a, b, c, qmask);
    }
  } while (!t.exhausted() && ++steps < 8);
}

template <unsigned LO, unsigned HI>
void fixed_elem_case(vf::Tape& t, vf::Ctx& ctx) {
  Range r = make_range(LO, HI);
  bool mixed = t.weighted({2, 1}) == 1;
  ctx.desc << "Multi_field_element<" << LO << "," << HI << "> " << r.text() << (mixed ? ": mixed element/integer operators\n" : ": arithmetic\n");
  elem_steps<Multi_field_element<LO, HI> >(t, ctx, r, mixed);
}

// an interval without any prime (or not an interval)
void pick_empty_interval(vf::Tape& t, int* lo, int* hi) {
  static const int fixed[][2] = {{0, 1}, {1, 1}, {0, 0}, {4, 4}, {8, 10}, {24, 28}, {90, 96}, {114, 126}, {5, 3}, {7, 2}, {9, 9}, {65522, 65536}};
  if (t.flip()) {
    unsigned k = t.below(sizeof(fixed) / sizeof(fixed[0]));
    *lo = fixed[k][0];
    *hi = fixed[k][1];
    return;
  }
  uint32_t q = prev_prime(7 + t.below(5000));  // a gap between consecutive primes q < q', strictly inside
  uint32_t nq = next_prime_after(q);
  if (nq - q < 2) {
    *lo = 8;
    *hi = 10;
    return;
  }
  *lo = int(q + 1 + t.below(nq - q - 1));
  *hi = int(*lo + t.below(nq - *lo));
}

}  // namespace

namespace vf {
const char* harness_name() { return "C10/multi_gmp"; }

void run_case(Tape& t, Ctx& ctx) {
  unsigned cls = t.weighted({4, 3, 1, 1, 1, 1, 1, 2});
  switch (cls) {
    case 2: fixed_elem_case<2, 3>(t, ctx); return;
    case 3: fixed_elem_case<5, 13>(t, ctx); return;
    case 4: fixed_elem_case<3, 30>(t, ctx); return;
    case 5: fixed_elem_case<7, 7>(t, ctx); return;
    case 6: fixed_elem_case<2, 97>(t, ctx); return;
    default: break;
  }
  if (cls == 7) {  // refusals: an interval that contains no prime is refused; one that contains primes is accepted
    bool shared = t.flip();
    bool empty = t.chance(3, 4);
    int lo, hi;
    if (empty) {
      pick_empty_interval(t, &lo, &hi);
    } else {
      Range r = pick_range(t, 0);
      lo = int(r.lo);
      hi = int(r.hi);
    }
    bool has_prime = lo <= hi && hi >= 2 && !primes_in(lo < 0 ? 0 : lo, hi).empty();
    ctx.desc << (shared ? "Shared_multi_field_element::initialize(" : "Multi_field_operators::set_characteristic(") << lo << "," << hi << ")\n";
    bool threw = false;
    mpz_class got;
    try {
      if (shared) {
        Shared_multi_field_element::initialize(unsigned(lo), unsigned(hi));
        got = Shared_multi_field_element::get_characteristic();
      } else {
        Multi_field_operators ops;
        ops.set_characteristic(lo, hi);
        got = ops.get_characteristic();
      }
    } catch (const std::invalid_argument&) {
      threw = true;
    }
    VF_CHECK(threw == !has_prime, "refusal", "[" << lo << "," << hi << "] threw=" << threw);
    if (!threw) VF_CHECK(got == make_range(lo, hi).P, "characteristic", "[" << lo << "," << hi << "] got " << got);
    if (!has_prime && !shared) {
      bool threw2 = false;
      try {
        Multi_field_operators o2(lo, hi);
      } catch (const std::invalid_argument&) {
        threw2 = true;
      }
      VF_CHECK(threw2, "refusal_constructor", "[" << lo << "," << hi << "]");
    }
    ctx.hit(has_prime ? "accept_range" : "refuse_empty_range");
    if (!has_prime) ctx.mark_nontrivial();
    return;
  }
  Range r = pick_range(t, 0);
  unsigned mode = t.weighted({5, 2, 1});
  if (cls == 1) {
    Shared_multi_field_element::initialize(r.lo, r.hi);  // static state: always set by the case itself
    ctx.desc << "Shared_multi_field_element " << r.text() << (mode == 1 ? ": mixed element/integer operators\n" : ": arithmetic\n");
    elem_steps<Shared_multi_field_element>(t, ctx, r, mode == 1);
    return;
  }
  ctx.desc << "Multi_field_operators " << r.text() << (mode == 1 ? ": conversions\n" : mode == 2 ? ": copies of the operators\n" : ": arithmetic\n");
  Multi_field_operators ops(int(r.lo), int(r.hi));
  Multi_field_operators cp(ops), as, other(2, 3);
  as = ops;
  Multi_field_operators mv(std::move(cp));
  if (mode == 2) {
    Multi_field_operators o23(other);
    swap(o23, as);  // as is now [2,3], o23 the range of the case
    VF_CHECK(as.get_characteristic() == 6 && o23.get_characteristic() == r.P, "swap_characteristic", r.text());
    as = o23;
    ctx.hit("copy_move_swap");
  }
  unsigned steps = 0;
  do {
    if (mode == 1) {
      ops_conversion(t, ctx, ops, r);
    } else {
      mpz_class a = multi_operand(t, r), b = multi_operand(t, r), c = multi_operand(t, r);
      uint64_t qmask = pick_qmask(t, r);
      classify_multi(ctx, r, a);
      ctx.desc << " ops on (" << a << "," << b << "," << c << ") Q=" << sub_product(r, qmask) << "\n";
      ops_triple(ctx, mode == 2 ? (steps % 2 ? mv : as) : ops, r, a, b, c, qmask);
    }
  } while (!t.exhausted() && ++steps < 8);
}
}  // namespace vf
