#define C10_PART 2
#include "zp_elem_part.inc"
