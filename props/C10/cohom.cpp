// C10 target cohom: the two coefficient classes of the persistent cohomology engine, Field_Zp (p <= 46337) and
// Multi_field (GMP, CRT over a range of primes), against exact 128-bit / mpz arithmetic.
//
// Domain, from Persistent_cohomology.h (the only caller): operands are reduced elements; the second operand of
// times() is also called with the signed multiplicity of a boundary (a small negative or positive int);
// inverse(x, Q) is called with Q a sub-product of the range. Multi_field::init() appends to its tables, so every case
// builds a fresh object; Field_Zp::init is O(p^2), objects are cached per prime (no method mutates them).
#include "c10_multi.h"

#include <cassert>   // the two cohomology headers are not self-contained (assert, std::cerr, std::invalid_argument)
#include <iostream>
#include <stdexcept>
#include <utility>
#include <vector>

#include <gudhi/Persistent_cohomology/Field_Zp.h>
#include <gudhi/Persistent_cohomology/Multi_field.h>

#include <map>
#include <memory>
#include <stdexcept>

namespace {
using namespace c10;
using Gudhi::persistent_cohomology::Field_Zp;
typedef Gudhi::persistent_cohomology::Multi_field CMulti;

Field_Zp& cached_field(int p) {
  static std::map<int, std::unique_ptr<Field_Zp> > cache;
  auto it = cache.find(p);
  if (it == cache.end()) {
    std::unique_ptr<Field_Zp> f(new Field_Zp());
    f->init(p);
    it = cache.emplace(p, std::move(f)).first;
  }
  return *it->second;
}

void zp_triple(vf::Ctx& ctx, Field_Zp& f, int p, int a, int b, int c) {
  const I128 A = a, B = b, C = c;
  auto R = [&](I128 x) { return int(mod(x, uint64_t(p))); };
  if (a == p - 1 || b == p - 1 || c == p - 1) {
    ctx.hit("operand_p_minus_1");
    ctx.mark_nontrivial();
  }
#define FZ_CASE p << ":(" << a << "," << b << "," << c << ")"
  VF_CHECK(f.characteristic() == p, "characteristic", FZ_CASE);
  VF_CHECK(f.plus_times_equal(a, b, c) == R(A + C * B), "plus_times_equal", FZ_CASE << " got " << f.plus_times_equal(a, b, c));
  VF_CHECK(f.times(a, b) == R(A * B), "times", FZ_CASE << " got " << f.times(a, b));
  VF_CHECK(f.plus_equal(a, b) == R(A + B), "plus_equal", FZ_CASE << " got " << f.plus_equal(a, b));
  VF_CHECK(f.times_minus(a, b) == R(-A * B), "times_minus", FZ_CASE << " got " << f.times_minus(a, b));
  VF_CHECK(f.additive_identity() == 0 && f.multiplicative_identity() == 1 && f.multiplicative_identity(c) == 1, "identities", FZ_CASE);
  if (a != 0) {
    auto inv = f.inverse(a, c);
    VF_CHECK(inv.first > 0 && inv.first < p && mod(I128(inv.first) * A, uint64_t(p)) == 1, "inverse", FZ_CASE << " inverse " << inv.first);
    VF_CHECK(inv.second == c, "inverse_product", FZ_CASE);
    VF_CHECK(f.times(a, inv.first) == 1 % p, "x_times_inverse", FZ_CASE);
  }
}

void zp_refusal(vf::Tape& t, vf::Ctx& ctx, int n) {
  ctx.desc << "Field_Zp::init(" << n << ")\n";
  bool threw = false;
  Field_Zp f;
  try {
    f.init(n);
  } catch (const std::invalid_argument&) {
    threw = true;
  }
  bool ok = n >= 2 && n <= 46337 && is_prime(uint64_t(n));  // documented maximum 46337
  VF_CHECK(threw == !ok, "refusal", "n=" << n << " threw=" << threw);
  ctx.hit(ok ? "accept_prime" : "refuse_nonprime");
  if (!ok) ctx.mark_nontrivial();
  if (ok) {
    int a = int(operand(t, n)), b = int(operand(t, n)), c = int(operand(t, n));
    ctx.desc << " then ops on (" << a << "," << b << "," << c << ")\n";
    zp_triple(ctx, f, n, a, b, c);
  }
}

void zp_random(vf::Tape& t, vf::Ctx& ctx) {
  unsigned mode = t.weighted({6, 2, 1});
  if (mode == 1) {
    int n;
    switch (t.below(6)) {
      case 0: n = -int(t.below(100)); break;
      case 1: n = 46337 + int(t.below(40)); break;           // 46349 and 46351 are primes above the documented maximum
      case 2: n = int(t.below(5001)); break;
      default: n = int(t.below(600)); break;
    }
    zp_refusal(t, ctx, n);
    return;
  }
  int p = int(pick_prime(t, 46337, 4));
  Field_Zp& f = cached_field(p);
  ctx.desc << "Field_Zp p=" << p << (mode == 2 ? ": re-initialised copy\n" : "\n");
  Field_Zp copy;
  if (mode == 2) {  // copies and re-initialisation (init clears the inverse table)
    if (p > 257) p = 251;  // init is O(p^2)
    copy = cached_field(p);
    Field_Zp other(copy);
    other.init(7);
    copy = other;
    copy.init(p);
    ctx.hit("copy_reinit");
  }
  Field_Zp& use = mode == 2 ? copy : (p == f.characteristic() ? f : cached_field(p));
  unsigned steps = 0;
  do {
    int a = int(operand(t, p)), b = int(operand(t, p)), c = int(operand(t, p));
    ctx.desc << " ops on (" << a << "," << b << "," << c << ")\n";
    zp_triple(ctx, use, p, a, b, c);
    int w = int(t.below(17)) - 8;  // times(coefficient, signed multiplicity of a boundary face)
    ctx.desc << " times(" << a << "," << w << ")\n";
    if (w < 0) ctx.hit("negative");
    VF_CHECK(use.times(a, w) == int(mod(I128(a) * w, uint64_t(p))), "times_multiplicity", p << ": " << a << "*" << w << " got " << use.times(a, w));
  } while (!t.exhausted() && ++steps < 12);
}

// ---------------------------------------------------------------------------------------------------- Multi_field
void multi_random(vf::Tape& t, vf::Ctx& ctx) {
  if (t.chance(1, 10)) {  // an interval without primes has to be refused
    int lo, hi;
    static const int fixed[][2] = {{0, 1}, {1, 1}, {4, 4}, {8, 10}, {24, 28}, {90, 96}, {114, 126}, {5, 3}, {9, 9}};
    unsigned k = t.below(sizeof(fixed) / sizeof(fixed[0]));
    lo = fixed[k][0];
    hi = fixed[k][1];
    ctx.desc << "cohomology Multi_field::init(" << lo << "," << hi << ") (no prime in the interval)\n";
    if (ctx.excluded(KF_COHOM_NO_REFUSAL)) {
      ctx.hit(std::string("excluded:") + KF_COHOM_NO_REFUSAL);
      return;
    }
    bool threw = false;
    CMulti f;
    try {
      f.init(lo, hi);
    } catch (const std::exception&) {  // any standard exception counts as a refusal
      threw = true;
    }
    ctx.hit("refuse_empty_range");
    ctx.mark_nontrivial();
    VF_CHECK(threw, "refusal", "[" << lo << "," << hi << "] accepted, characteristic " << f.characteristic());
    return;
  }
  Range r = pick_range(t, 0);
  ctx.desc << "cohomology Multi_field " << r.text() << "\n";
  CMulti f;
  f.init(int(r.lo), int(r.hi));
  const mpz_class& P = r.P;
  VF_CHECK(f.characteristic() == P, "characteristic", r.text() << " got " << f.characteristic());
  VF_CHECK(f.additive_identity() == 0, "additive_identity", r.text());
  VF_CHECK(f.multiplicative_identity() == 1 % P, "multiplicative_identity", r.text() << " got " << f.multiplicative_identity());
  const uint64_t full = ~uint64_t(0);
  unsigned steps = 0;
  do {
    mpz_class a = multi_operand(t, r), b = multi_operand(t, r), c = multi_operand(t, r);
    uint64_t qmask = pick_qmask(t, r);
    classify_multi(ctx, r, a);
    mpz_class Q = sub_product(r, qmask);
    ctx.desc << " ops on (" << a << "," << b << "," << c << ") Q=" << Q << "\n";
#define CM_CASE r.text() << " (" << a << "," << b << "," << c << ")"
    mpz_class pte = reduce(a + c * b, P), prd = reduce(a * b, P), sum = reduce(a + b, P), neg = reduce(-(a * b), P);
    oracle_selfcheck(r, 3, c, b, a, pte);
    oracle_selfcheck(r, 2, a, b, c, prd);
    oracle_selfcheck(r, 0, a, b, c, sum);
    VF_ORACLE(reduce(neg + prd, P) == 0, "oracle: -(ab) + ab != 0");
    VF_CHECK(f.plus_times_equal(a, b, c) == pte, "m_plus_times_equal", CM_CASE << " got " << f.plus_times_equal(a, b, c));
    VF_CHECK(f.times(a, b) == prd, "m_times", CM_CASE << " got " << f.times(a, b));
    VF_CHECK(f.plus_equal(a, b) == sum, "m_plus_equal", CM_CASE << " got " << f.plus_equal(a, b));
    if (prd == 0 && ctx.excluded(KF_TIMES_MINUS)) {
      ctx.hit(std::string("excluded:") + KF_TIMES_MINUS);  // known: returns the modulus instead of 0
    } else {
      if (prd == 0) ctx.hit("times_minus_product_is_zero");
      VF_CHECK(f.times_minus(a, b) == neg, "m_times_minus", CM_CASE << " got " << f.times_minus(a, b));
    }
    int w = int(t.below(17)) - 8;
    if (w < 0) ctx.hit("negative");
    VF_CHECK(f.times(a, w) == reduce(a * w, P), "m_times_multiplicity", r.text() << " " << a << "*" << w << " got " << f.times(a, w));
    auto pf = f.inverse(a, P);
    check_partial_inverse(ctx, r, a, full, pf.first, pf.second, "m_inverse_full");
    if (pf.second == P) VF_CHECK(f.times(a, pf.first) == 1 % P, "m_x_times_inverse", CM_CASE);
    auto pq = f.inverse(a, Q);
    check_partial_inverse(ctx, r, a, qmask, pq.first, pq.second, "m_inverse");
    check_partial_identity(ctx, r, qmask, f.multiplicative_identity(Q), "m_partial_identity");
    check_partial_identity(ctx, r, full, f.multiplicative_identity(P), "m_partial_identity_full");
  } while (!t.exhausted() && ++steps < 8);
}
}  // namespace

namespace vf {
const char* harness_name() { return "C10/cohom"; }

void run_case(Tape& t, Ctx& ctx) {
  unsigned sel = t.u8();
  if (sel == 0xFE) {  // exhaustive: all triples of all primes <= 31
    int p = int(kSmallPrimes[t.u8() % 11]);
    int a = t.u8() % p, b = t.u8() % p, c = t.u8() % p;
    ctx.desc << "exhaustive Field_Zp p=" << p << " (" << a << "," << b << "," << c << ")\n";
    zp_triple(ctx, cached_field(p), p, a, b, c);
    return;
  }
  if (sel == 0xFD) {  // exhaustive: init(n) for every n <= 5040
    zp_refusal(t, ctx, int(t.u8() % 71) + 71 * int(t.u8() % 71));
    return;
  }
  if (sel % 2 == 0)
    zp_random(t, ctx);
  else
    multi_random(t, ctx);
}
}  // namespace vf
