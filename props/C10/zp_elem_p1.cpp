#define C10_PART 1
#include "zp_elem_part.inc"
