// C11: the intervals streamed by Gudhi::ripser (ripser_auto / ripser / the three simplex encodings) equal, once
// zero-length intervals are dropped, the barcode of the Rips flag filtration truncated at the threshold, computed
// independently by ref::clique_complex + ref::reduce over Z_p. Every accepted input form is fed with the same
// dissimilarity and compared with the same oracle, so agreement between forms / encodings follows.
//
// Build parameters: -DC11_VT=float|double (value type), -DC11_FORMS=<bit mask of forms compiled in>, -DC11_ST (also run
// the GUDHI simplex tree + Persistent_cohomology route, see st_route.cpp).
#include "vf.h"
#include "complex.h"
#include "reduce.h"
#include "families.h"
#include "flaggraph.h"

#include <gudhi/ripser.h>

#include <climits>
#include <cmath>
#include <limits>

#ifndef C11_VT
#define C11_VT double
#endif
#ifndef C11_FORMS
#define C11_FORMS 0x7f
#endif

#define VT_STR2(x) #x
#define VT_STR(x) VT_STR2(x)

#ifdef C11_ST
// defined in st_route.cpp: barcode through Simplex_tree::expansion + Persistent_cohomology<Field_Zp>
std::vector<ref::Bar> c11_st_route(int n, const std::vector<std::tuple<int, int, double>>& edges, int eff_dim, int p);
#endif

namespace {
namespace R = Gudhi::ripser;
typedef C11_VT value_t;
typedef R::TParams2<value_t> P;  // vertex_t = int, value_t; the parameter type ripser_auto uses for its own conversions
typedef R::Full_distance_matrix<P> FullM;
typedef R::Compressed_distance_matrix<P, R::LOWER_TRIANGULAR> LowerM;
typedef R::Compressed_distance_matrix<P, R::UPPER_TRIANGULAR> UpperM;
typedef R::Sparse_distance_matrix<P> SparseM;
typedef R::Euclidean_distance_matrix<P> EuclM;
// The kind of user-side matrix the python binding passes to ripser_auto (a view on a square array).
struct RawFull {
  typedef R::Tag_dense Category;
  typedef int vertex_t;
  typedef C11_VT value_t;
  const std::vector<value_t>* data;
  int n;
  int size() const { return n; }
  value_t operator()(int i, int j) const { return (*data)[size_t(i) * size_t(n) + size_t(j)]; }
};

const value_t kInf = std::numeric_limits<value_t>::infinity();
const value_t kMax = std::numeric_limits<value_t>::max();

enum Form { F_FULL = 0, F_RAW = 1, F_LOWER = 2, F_UPPER = 3, F_SPARSE = 4, F_EUCL = 5, F_UP2LOW = 6, F_COUNT = 7 };
const char* kFormName[] = {"full", "rawfull", "lower", "upper", "sparse", "euclid", "upper2lower"};

struct Case {
  int n = 0;
  std::vector<value_t> d;                  // n*n, symmetric, zero diagonal, finite, >= 0
  std::vector<std::vector<value_t>> pts;   // non-empty: the dissimilarity is the Euclidean distance of these points
  value_t thr = kInf;                      // kInf or kMax = no threshold
  int dim_max = 0;
  unsigned p = 2;
  bool big = false;                        // large sparse family: never run without a threshold
  bool refusal_ok = false;                 // std::overflow_error is an acceptable answer (sizes beyond the encodings)
  value_t at(int i, int j) const { return d[size_t(i) * size_t(n) + size_t(j)]; }
  bool no_threshold() const { return !(thr < kMax); }
};

struct Collector {
  std::vector<ref::Bar> bars;
  int cur = -1;
  bool order_ok = true;
  void dim(int k) {
    if (k != cur + 1) order_ok = false;
    cur = k;
  }
  void pair(value_t b, value_t e) {
    if (cur < 0) order_ok = false;
    if (b == e) return;  // zero-length intervals are dropped (property text)
    bars.push_back(ref::Bar{cur, double(b), double(e)});
  }
};

std::string show(const std::vector<ref::Bar>& v) {  // sorted input; equal bars are printed once with a multiplicity
  std::ostringstream o;
  for (size_t i = 0; i < v.size();) {
    size_t j = i;
    while (j < v.size() && v[j] == v[i]) ++j;
    o << " H" << v[i].dim << "[" << v[i].b << "," << v[i].d << ")";
    if (j - i > 1) o << "x" << (j - i);
    i = j;
  }
  return o.str();
}

// ------------------------------------------------------------------------------------------------ matrix builders
std::vector<value_t> lower_vec(const Case& c) {
  std::vector<value_t> v;
  for (int i = 1; i < c.n; ++i)
    for (int j = 0; j < i; ++j) v.push_back(c.at(i, j));
  return v;
}
std::vector<value_t> upper_vec(const Case& c) {
  std::vector<value_t> v;
  for (int i = 0; i + 1 < c.n; ++i)
    for (int j = i + 1; j < c.n; ++j) v.push_back(c.at(i, j));
  return v;
}
SparseM sparse_of(const Case& c, bool count_edges) {  // neighbour lists as the CLI / python binding build them
  typedef SparseM::vertex_diameter_t VD;
  std::vector<std::vector<VD>> nb(size_t(c.n));
  size_t m = 0;
  for (int i = 0; i < c.n; ++i)
    for (int j = i + 1; j < c.n; ++j)
      if (c.at(i, j) <= c.thr) {
        nb[size_t(i)].emplace_back(j, c.at(i, j));
        nb[size_t(j)].emplace_back(i, c.at(i, j));
        ++m;
      }
  for (auto& l : nb) std::sort(l.begin(), l.end());
  return count_edges ? SparseM(std::move(nb), m) : SparseM(std::move(nb));
}

// ------------------------------------------------------------------------------------------------ running Ripser
enum Route { R_AUTO = 0, R_DIRECT = 1, R_B64 = 2, R_B128 = 3, R_CNS = 4 };
const char* kRouteName[] = {"auto", "direct", "bitfield64", "bitfield128", "cns128"};

template <class M>
void run_route(M&& m, Route r, int dim_max, value_t thr, unsigned p, Collector& col) {
  auto od = [&](int k) { col.dim(k); };
  auto op = [&](value_t b, value_t e) { col.pair(b, e); };
  typedef std::decay_t<M> MM;
  if constexpr (std::is_same_v<typename MM::Category, R::Tag_other>) {
    // Euclidean points: "Do not feed this directly to ripser (slow), first convert to another matrix type"
    VF_ORACLE(r == R_AUTO, "harness: Euclidean matrix is only given to ripser_auto");
    R::ripser_auto(std::move(m), dim_max, thr, p, od, op);
    return;
  } else
  switch (r) {
    case R_AUTO: R::ripser_auto(std::move(m), dim_max, thr, p, od, op); break;
    case R_DIRECT: R::ripser(std::move(m), dim_max, thr, p, od, op); break;
    case R_B64:
      if (p == 2) {
        typedef R::TParams<false, uint64_t, value_t> TP;
        R::help2<TP, R::Bitfield_encoding<TP>>(MM(std::move(m)), dim_max, thr, p, od, op);
      } else {
        typedef R::TParams<true, uint64_t, value_t> TP;
        R::help2<TP, R::Bitfield_encoding<TP>>(MM(std::move(m)), dim_max, thr, p, od, op);
      }
      break;
    case R_B128:
      if (p == 2) {
        typedef R::TParams<false, Gudhi::numbers::uint128_t, value_t> TP;
        R::help2<TP, R::Bitfield_encoding<TP>>(MM(std::move(m)), dim_max, thr, p, od, op);
      } else {
        typedef R::TParams<true, Gudhi::numbers::uint128_t, value_t> TP;
        R::help2<TP, R::Bitfield_encoding<TP>>(MM(std::move(m)), dim_max, thr, p, od, op);
      }
      break;
    case R_CNS:
      if (p == 2) {
        typedef R::TParams<false, Gudhi::numbers::uint128_t, value_t> TP;
        R::help2<TP, R::Cns_encoding<TP>>(MM(std::move(m)), dim_max, thr, p, od, op);
      } else {
        typedef R::TParams<true, Gudhi::numbers::uint128_t, value_t> TP;
        R::help2<TP, R::Cns_encoding<TP>>(MM(std::move(m)), dim_max, thr, p, od, op);
      }
      break;
  }
}

// Builds the requested form afresh (Ripser consumes its argument) and runs one route on it.
void run_form(const Case& c, Form f, Route r, int dim_max, value_t thr, bool variant, Collector& col) {
  RawFull raw{&c.d, c.n};
  switch (f) {
#if C11_FORMS & 1
    case F_FULL: run_route(FullM(raw), r, dim_max, thr, c.p, col); break;
#endif
#if C11_FORMS & 2
    case F_RAW: run_route(RawFull(raw), r, dim_max, thr, c.p, col); break;
#endif
#if C11_FORMS & 4
    case F_LOWER:
      if (variant)
        run_route(LowerM(raw), r, dim_max, thr, c.p, col);  // converting constructor
      else
        run_route(LowerM(lower_vec(c)), r, dim_max, thr, c.p, col);
      break;
#endif
#if C11_FORMS & 8
    case F_UPPER:
      if (variant)
        run_route(UpperM(raw), r, dim_max, thr, c.p, col);
      else
        run_route(UpperM(upper_vec(c)), r, dim_max, thr, c.p, col);
      break;
#endif
#if C11_FORMS & 16
    case F_SPARSE: {
      // The edge list holds exactly the pairs at distance <= threshold (what the CLI and the python layer build); the
      // sparse engine is documented to ignore the threshold argument, both values must therefore give the same result.
      run_route(sparse_of(c, variant), r, dim_max, variant ? kInf : thr, c.p, col);
      break;
    }
#endif
#if C11_FORMS & 32
    case F_EUCL: {
      std::vector<std::vector<value_t>> pts = c.pts;
      run_route(EuclM(std::move(pts)), r, dim_max, thr, c.p, col);
      break;
    }
#endif
#if C11_FORMS & 4
    case F_UP2LOW:  // how the CLI reads the upper-distance format
      run_route(LowerM(UpperM(upper_vec(c))), r, dim_max, thr, c.p, col);
      break;
#endif
    default: break;
  }
}

bool form_compiled(Form f) {
  static const unsigned bit[] = {1, 2, 4, 8, 16, 32, 4};
  return (unsigned(C11_FORMS) & bit[f]) != 0;
}

// ------------------------------------------------------------------------------------------------ oracle
struct Expected {
  std::vector<ref::Bar> bars;  // dims 0..eff_dim, zero length dropped, sorted
  size_t cells = 0;
};

std::vector<std::tuple<int, int, double>> edges_upto(const Case& c, double thr) {
  std::vector<std::tuple<int, int, double>> e;
  for (int i = 0; i < c.n; ++i)
    for (int j = i + 1; j < c.n; ++j)
      if (double(c.at(i, j)) <= thr) e.emplace_back(i, j, double(c.at(i, j)));
  return e;
}

Expected oracle(const Case& c, double thr, int eff_dim, ref::Z p) {
  Expected ex;
  if (eff_dim < 0) {  // a single point
    ex.bars.push_back(ref::Bar{0, 0.0, std::numeric_limits<double>::infinity()});
    ex.cells = 1;
    return ex;
  }
  ref::Graph g;
  for (int v = 0; v < c.n; ++v) g.vertices[v] = 0.0;
  for (auto& e : edges_upto(c, thr)) g.edges[{std::get<0>(e), std::get<1>(e)}] = std::get<2>(e);
  ref::Complex k = ref::clique_complex(g, eff_dim + 1);
  ex.cells = k.size();
  if (ex.cells > 4000) throw vf::Discard("oracle-too-large");
  auto order = ref::filtration_order(k);
  auto cells = ref::simplicial_cells(order);
  ref::Reduction red = ref::reduce(cells, p);
  if (cells.size() <= 120) VF_ORACLE(ref::self_check(cells, red), "reference reduction inconsistent (R != B*V)");
  {  // Euler characteristic of the whole complex = alternating number of unpaired cells
    long e = 0;
    for (auto& pr : red.pairs)
      if (pr.death < 0) e += (pr.dim % 2 == 0) ? 1 : -1;
    VF_ORACLE(e == k.euler_characteristic(), "reference reduction: Euler characteristic mismatch");
  }
  for (auto& pr : red.pairs) {
    if (pr.dim > eff_dim) continue;
    double b = k.value(order[size_t(pr.birth)]);
    double d = pr.death < 0 ? std::numeric_limits<double>::infinity() : k.value(order[size_t(pr.death)]);
    if (b == d) continue;
    ex.bars.push_back(ref::Bar{pr.dim, b, d});
  }
  std::sort(ex.bars.begin(), ex.bars.end());
  return ex;
}

// ------------------------------------------------------------------------------------------------ generators
const unsigned kPrimes[] = {2, 3, 5, 7, 65521};

// Raw choices read at the very beginning of the tape (so that short tapes still vary them); applied once n and the
// distances are known.
struct Header {
  unsigned dim_kind = 0, dim_raw = 0, thr_kind = 0, thr_raw = 0, mask = 0;
};

int choose_dim_max(const Header& h, vf::Ctx& ctx, int n) {
  switch (h.dim_kind) {
    case 0: return n >= 3 ? int((1 + h.dim_raw) % unsigned(n - 1)) : 0;  // 0 .. n-2, a zero byte gives 1
    case 1: ctx.hit("dim:n-1"); return n - 1;
    case 2: ctx.hit("dim:above"); return n + int(h.dim_raw % 6);
    default: ctx.hit("dim:INT_MAX"); return INT_MAX;  // default value of the python binding
  }
}

// threshold from the set of distinct distances
void choose_threshold(const Header& h, vf::Ctx& ctx, Case& c) {
  std::vector<value_t> vals;
  for (int i = 0; i < c.n; ++i)
    for (int j = i + 1; j < c.n; ++j) vals.push_back(c.at(i, j));
  std::sort(vals.begin(), vals.end());
  vals.erase(std::unique(vals.begin(), vals.end()), vals.end());
  unsigned kind = h.thr_kind;
  if (vals.empty()) kind = kind % 2;  // one point: no distance to refer to
  if (kind == 2 && !(vals.front() > 0)) kind = 3;  // nothing lies strictly between the vertices (0) and a distance 0
  switch (kind) {
    case 0: c.thr = kInf; ctx.hit("thr:inf"); break;
    case 1: c.thr = kMax; ctx.hit("thr:max()"); break;
    case 2: c.thr = vals.front() / 2; ctx.hit("thr:below-min"); break;
    case 3: c.thr = vals[h.thr_raw % vals.size()]; ctx.hit(c.thr == vals.back() ? "thr:=max-dist" : "thr:=a-distance"); break;
    case 4: {
      size_t i = h.thr_raw % vals.size();
      c.thr = i + 1 < vals.size() ? (vals[i] + vals[i + 1]) / 2 : vals[i] + 1;
      ctx.hit(i + 1 < vals.size() ? "thr:between" : "thr:above-max");
      break;
    }
    default: c.thr = vals.back() + value_t(0.5); ctx.hit("thr:above-max"); break;
  }
}

// largest m <= want such that `per(m)` bytes are still left on the tape (never below lo): short tapes give small
// inputs instead of inputs padded with equal distances
template <class F>
int fit(vf::Tape& t, int want, int lo, F per) {
  size_t left = t.size() > t.consumed() ? t.size() - t.consumed() : 0;
  int m = want;
  while (m > lo && size_t(per(m)) > left) --m;
  return m;
}

void gen_small(vf::Tape& t, vf::Ctx& ctx, Case& c) {
  unsigned b0 = t.u8(), b1 = t.u8();
  static const int kWant[] = {4, 5, 5, 6, 6, 6, 7, 7, 7, 8, 8, 9, 10, 3, 3, 2};
  int want = kWant[b0 % 16];
  unsigned k = 1 + (b0 / 16) % 6;  // palette size: ties are the norm
  bool cycle = (b0 / 16) >= 8;     // plant a cycle 0-1-...-(n-1)-0 at the smallest palette value
  bool single = b1 == 255;
  // palette: k distinct dyadic values in (0,10] (exact in float and double); 0 (= duplicate points) now and then
  std::vector<value_t> pal;
  for (unsigned i = 0; i < k; ++i) pal.push_back(value_t(1 + (b1 + i * (1 + b1 % 7)) % 39) / 4);
  if (b1 % 32 == 31) pal[b1 % k] = 0;
  c.n = single ? 1 : fit(t, want, 2, [](int m) { return (m * (m - 1) / 2 + 1) / 2; });
  c.d.assign(size_t(c.n) * size_t(c.n), 0);
  unsigned packed = 0;
  bool have = false;  // one byte chooses two distances
  for (int i = 1; i < c.n; ++i)
    for (int j = 0; j < i; ++j) {
      if (!have) packed = t.u8();
      value_t v = pal[have ? (packed / k) % k : packed % k];
      have = !have;
      c.d[size_t(i) * size_t(c.n) + size_t(j)] = c.d[size_t(j) * size_t(c.n) + size_t(i)] = v;
    }
  if (cycle && c.n >= 4) {
    value_t lo = *std::min_element(pal.begin(), pal.end());
    for (int i = 0; i < c.n; ++i) {
      int j = (i + 1) % c.n;
      c.d[size_t(i) * size_t(c.n) + size_t(j)] = c.d[size_t(j) * size_t(c.n) + size_t(i)] = lo;
    }
    ctx.hit("small:planted-cycle");
  }
  ctx.desc << "family=small n=" << c.n << "\n";
}

void gen_points(vf::Tape& t, vf::Ctx& ctx, Case& c) {
  unsigned b0 = t.u8();
  static const int kWant[] = {4, 5, 5, 6, 6, 6, 7, 7, 7, 8, 8, 9, 9, 3, 3, 2};
  int want = kWant[b0 % 16];
  unsigned shape = (b0 / 16) % 4;  // 0,1: lattice box; 2,3: points on the boundary of a lattice square (rings)
  int dim = 1 + int((b0 / 64) % 3);
  unsigned span = 2 + (b0 / 16) % 4;
  c.n = fit(t, want, 2, [](int m) { return m; });
  if (shape >= 2 && dim == 1) dim = 2;
  c.pts.assign(size_t(c.n), std::vector<value_t>(size_t(dim), 0));
  for (auto& pt : c.pts) {
    unsigned b = t.u8();  // one byte per point
    if (shape >= 2) {
      unsigned side = shape;  // square [0,side]^2 in lattice units of 1/2, 4*side boundary points
      unsigned q = b % (4 * side), e = q / side, o = q % side;
      unsigned x = e == 0 ? o : e == 1 ? side : e == 2 ? side - o : 0;
      unsigned y = e == 0 ? 0 : e == 1 ? o : e == 2 ? side : side - o;
      pt[0] = value_t(x) / 2;
      pt[1] = value_t(y) / 2;
      if (dim == 3) pt[2] = value_t((b / (4 * side)) % 2) / 2;
    } else {
      for (auto& x : pt) {  // coordinates = digits of the byte in base span (span^3 <= 125), duplicates possible
        x = value_t(b % span) / 2;
        b /= span;
      }
    }
  }
  c.d.assign(size_t(c.n) * size_t(c.n), 0);
  for (int i = 0; i < c.n; ++i)
    for (int j = 0; j < c.n; ++j) {
      if (i == j) continue;
      value_t s = 0;  // exact: small dyadic numbers
      for (int a = 0; a < dim; ++a) {
        value_t u = c.pts[size_t(i)][size_t(a)] - c.pts[size_t(j)][size_t(a)];
        s += u * u;
      }
      c.d[size_t(i) * size_t(c.n) + size_t(j)] = std::sqrt(s);  // correctly rounded in value_t, as the library computes it
    }
  ctx.hit(shape >= 2 ? "points:square-boundary" : "points:box");
  ctx.desc << "family=points n=" << c.n << " ambient=" << dim << "\n";
  for (auto& pt : c.pts) {
    ctx.desc << " (";
    for (size_t a = 0; a < pt.size(); ++a) ctx.desc << (a ? "," : "") << pt[a];
    ctx.desc << ")";
  }
  ctx.desc << "\n";
}

// Large sparse graphs (tiny cliques): torsion examples as flag complexes, random sparse graphs with planted cliques.
// Non-edges get values above the threshold. Used to reach the 128-bit and combinatorial encodings through the
// dispatcher (bits = ceil(log2 n) * (dim_max+2) + coefficient bits) and to exercise Z_p coefficients.
void gen_big(vf::Tape& t, vf::Ctx& ctx, Case& c) {
  ref::PlainGraph pg;
  unsigned b0 = t.u8();
#ifdef C11_LARGE
  static const unsigned kKind[] = {0, 0, 0, 0, 0, 0, 0, 0, 1, 5, 0, 0};
#else
  static const unsigned kKind[] = {0, 1, 0, 2, 0, 3, 0, 4, 1, 5, 0, 1};
#endif
  unsigned kind = kKind[b0 % 12];
  unsigned k = 1 + (b0 / 12) % 4 + ((b0 / 12) % 4 == 0 && b0 >= 96 ? 2 : 0);  // 1 (rarely) .. 4 edge values
  bool relabel = b0 >= 128;
  const char* nm = "";
  switch (kind) {
    case 1: pg = ref::barycentric_graph(ref::rp2_triangles()); nm = "sd(RP2)"; break;
    case 2: pg = ref::barycentric_graph(ref::torus_triangles()); nm = "sd(torus7)"; break;
    case 3: pg = ref::barycentric_graph(ref::klein_triangles()); nm = "sd(klein)"; break;
    case 4: pg = ref::barycentric_graph(ref::moore_triangles(2)); nm = "sd(moore2)"; break;
    case 5: pg = ref::barycentric_graph(ref::moore_triangles(3)); nm = "sd(moore3)"; break;
    default: {
      nm = "sparse-random";
#ifdef C11_LARGE
      pg.n = 11 + int(t.below(290));  // thorough tier: up to 300 points, cliques stay tiny
#else
      pg.n = 11 + int(t.below(54));
#endif
      std::set<std::pair<int, int>> es;
      unsigned ncl = t.below(4);
      for (unsigned q = 0; q < ncl; ++q) {
        unsigned sz = 3 + t.below(4);
        std::vector<int> vs;
        bool high = t.flip();  // cliques among the highest-numbered vertices stress the simplex encodings
        for (unsigned i = 0; i < sz; ++i) vs.push_back(high ? pg.n - 1 - int(t.below(10)) : int(t.below(uint32_t(pg.n))));
        for (int a : vs)
          for (int b : vs)
            if (a < b) es.insert({a, b});
      }
      unsigned m = t.below(uint32_t(2 * pg.n));
      m = unsigned(fit(t, int(m), 0, [](int e) { return 2 * e; }));
      for (unsigned i = 0; i < m; ++i) {
        int a = int(t.below(uint32_t(pg.n))), b = int(t.below(uint32_t(pg.n)));
        if (a != b) es.insert({std::min(a, b), std::max(a, b)});
      }
      pg.edges.assign(es.begin(), es.end());
    }
  }
  ctx.hit(std::string("big:") + nm);
  c.big = true;
  c.n = pg.n;
  unsigned b1 = t.u8();
  std::vector<value_t> pal;
  for (unsigned i = 0; i < k; ++i) pal.push_back(value_t(1 + (b1 + i * (1 + b1 % 5)) % 16) / 4);
  value_t top = *std::max_element(pal.begin(), pal.end());
  c.thr = (b1 & 128) ? top : top + value_t(0.125);
  c.d.assign(size_t(c.n) * size_t(c.n), 0);
  for (int i = 0; i < c.n; ++i)
    for (int j = 0; j < c.n; ++j)
      if (i != j) c.d[size_t(i) * size_t(c.n) + size_t(j)] = top + 1 + value_t((i + j) % 3);  // non-edges, symmetric
  std::vector<value_t> ev;
  unsigned packed = 0, left = 0;  // one byte chooses four edge values
  for (size_t e = 0; e < pg.edges.size(); ++e) {
    if (left == 0) {
      packed = t.u8();
      left = 4;
    }
    ev.push_back(pal[(packed % 4) % k]);
    packed /= 4;
    --left;
  }
  // random relabelling (last: a short tape keeps the identity)
  std::vector<int> perm(size_t(c.n));
  for (int i = 0; i < c.n; ++i) perm[size_t(i)] = i;
  if (relabel)
    for (int i = c.n - 1; i >= 1; --i) std::swap(perm[size_t(i)], perm[t.below(uint32_t(i + 1))]);
  for (size_t e = 0; e < pg.edges.size(); ++e) {
    int a = perm[size_t(pg.edges[e].first)], b = perm[size_t(pg.edges[e].second)];
    c.d[size_t(a) * size_t(c.n) + size_t(b)] = c.d[size_t(b) * size_t(c.n) + size_t(a)] = ev[e];
  }
  ctx.desc << "family=big " << nm << " n=" << c.n << " (pairs not listed lie above the threshold)\n";
}

void describe_matrix(vf::Ctx& ctx, const Case& c) {
  if (!c.big) {
    for (int i = 1; i < c.n; ++i) {
      ctx.desc << " d[" << i << "]:";
      for (int j = 0; j < i; ++j) ctx.desc << " " << c.at(i, j);
      ctx.desc << "\n";
    }
  } else {
    ctx.desc << " edges:";
    for (int i = 0; i < c.n; ++i)
      for (int j = i + 1; j < c.n; ++j)
        if (c.at(i, j) <= c.thr) ctx.desc << " " << i << "-" << j << ":" << c.at(i, j);
    ctx.desc << "\n";
  }
}

}  // namespace

namespace vf {
const char* harness_name() { return "C11/ripser<" VT_STR(C11_VT) ">"; }

void run_case(Tape& t, Ctx& ctx) {
  Case c;
  // four header bytes: family + modulus, dim_max choice, threshold choice, routes mask
  unsigned h0 = t.u8(), h1 = t.u8(), h2 = t.u8();
  static const unsigned kFam[] = {0, 0, 1, 2, 0, 0, 1, 2, 0, 0, 1, 2};
  static const unsigned kMod[] = {0, 1, 0, 1, 2, 3, 0, 1, 2, 3, 4, 0, 1, 2, 3, 4, 1, 0, 1, 0, 1, 1};  // 256/12 = 22 slots
  unsigned fam = kFam[h0 % 12];
#ifdef C11_LARGE
  fam = 2;
#endif
  c.p = kPrimes[kMod[(h0 / 12) % 22]];
  Header h;
  static const unsigned kDimKind[] = {0, 0, 0, 0, 0, 0, 0, 0, 0, 1, 2, 3};
  h.dim_kind = kDimKind[h1 % 12];
  h.dim_raw = h1 / 12;
  static const unsigned kThrKind[] = {3, 0, 3, 4, 3, 1, 3, 4, 3, 2, 0, 4, 5};
  h.thr_kind = kThrKind[h2 % 13];
  h.thr_raw = h2 / 13;
  h.mask = t.u8();  // bit f: form f also goes through the three forced encodings; bit 7: construction variant
  if (fam == 0)
    gen_small(t, ctx, c);
  else if (fam == 1)
    gen_points(t, ctx, c);
  else
    gen_big(t, ctx, c);
  ctx.hit(fam == 0 ? "family:small" : fam == 1 ? "family:points" : "family:big");
  if (!c.big) {
    c.dim_max = choose_dim_max(h, ctx, c.n);
    choose_threshold(h, ctx, c);
  } else {
    // target an encoding through the dispatcher: bits = ceil(log2 n) * (dim_max+2) + bits of (modulus-2)
    int bpv = R::log2up(c.n), bc = R::log2up(c.p - 1);
    unsigned want = h.dim_raw % 8;  // dim_raw in 0..21
    if (want == 0)
      c.dim_max = 1 + int(h.thr_raw % 3);
    else if (want <= 2)
      c.dim_max = std::max(1, (64 - bc) / bpv - 1 + int(h.thr_raw % 3));   // first dimensions needing more than 64 bits
    else if (want <= 5)
      c.dim_max = std::max(1, (128 - bc) / bpv - 1 + int(h.thr_raw % 3));  // ... more than 128 bits
    else if (want == 6)
      c.dim_max = c.n - 2 + int(h.thr_raw % 3);
    else
      c.dim_max = c.n >= 258 ? 256 + int(h.thr_raw % 2) : INT_MAX;
    // Refusals are not the subject: keep to sizes the combinatorial encoding can hold (the python layer does the same
    // test before calling Ripser): C(n, min(n/2, dim+2)) * 2^(coefficient bits) must stay below 2^128.
    auto log2_binom = [](int n, int k) {
      return (std::lgamma(double(n) + 1) - std::lgamma(double(k) + 1) - std::lgamma(double(n - k) + 1)) / std::log(2.0);
    };
    int e = std::min(c.dim_max, c.n - 2);
    // Known finding: TParams::dimension_t is int8_t and help1 hands min(dim_max, n-2) (an int) over without a check;
    // from 126 on, dim_max + 2 wraps (dim_max = 256 silently becomes 0).
    if (e > 125 && ctx.excluded("C11-dimension-int8-wrap")) {
      ctx.hit("excluded:C11-dimension-int8-wrap");
      c.dim_max = e = 15;
    }
    if (e > 125) {
      c.refusal_ok = true;  // (probe of the finding only) a repaired library may well refuse such sizes
    } else if (log2_binom(c.n, std::min(c.n / 2, e + 2)) + bc > 120) {
      ctx.hit("big:dim-reduced-to-fit-128-bits");
      c.dim_max = 15;
    }
  }
  int eff_dim = std::min(c.dim_max, c.n - 2);
  ctx.desc << "value_t=" VT_STR(C11_VT) " dim_max=" << c.dim_max << " modulus=" << c.p << " threshold=";
  if (c.thr == kInf)
    ctx.desc << "inf";
  else if (c.thr == kMax)
    ctx.desc << "max()";
  else
    ctx.desc << c.thr;
  ctx.desc << "\n";
  describe_matrix(ctx, c);
  ctx.hit("n:" + std::string(c.n < 10 ? "0" : "") + std::to_string(std::min(c.n, 99)));
  ctx.hit("modulus:" + std::to_string(c.p));

  // ---- oracle
  double thr_d = c.no_threshold() ? std::numeric_limits<double>::infinity() : double(c.thr);
  Expected ex = oracle(c, thr_d, eff_dim, ref::Z(c.p));
  value_t enclosing = kInf;  // min over i of max over j
  for (int i = 0; i < c.n; ++i) {
    value_t r = 0;
    for (int j = 0; j < c.n; ++j) r = std::max(r, c.at(i, j));
    enclosing = std::min(enclosing, r);
  }
  if (c.no_threshold() && ex.cells <= 300) {
    // the property's remark, checked on the reference itself: truncating at the enclosing radius changes nothing
    Expected ex2 = oracle(c, double(enclosing), eff_dim, ref::Z(c.p));
    VF_ORACLE(ex2.bars == ex.bars, "reference: truncation at the enclosing radius changed the positive-length bars");
  }
  bool tie = false, finite_high = false;
  {
    std::vector<double> vs;
    for (auto& e : edges_upto(c, thr_d)) vs.push_back(std::get<2>(e));
    std::sort(vs.begin(), vs.end());
    tie = std::adjacent_find(vs.begin(), vs.end()) != vs.end();
    for (auto& b : ex.bars)
      if (b.dim >= 1 && b.d != std::numeric_limits<double>::infinity()) finite_high = true;
  }
  if (tie) ctx.hit("tie-among-distances");
  if (finite_high) ctx.hit("finite-bar-dim>=1");
  for (auto& b : ex.bars)
    if (b.dim >= 2) {
      ctx.hit("bar-dim>=2");
      break;
    }
  if (tie && finite_high) ctx.mark_nontrivial();
  if (c.p != 2 && (c.big || t.chance(1, 4))) {
    Expected e2 = oracle(c, thr_d, eff_dim, 2);
    if (e2.bars != ex.bars) ctx.hit("torsion:differs-from-Z2");
  }
  ctx.hit(ex.cells < 50 ? "cells:<50" : ex.cells < 200 ? "cells:50-199" : ex.cells < 600 ? "cells:200-599" : "cells:>=600");

#ifdef C11_ST
  if (c.p <= 46337 && eff_dim >= 0) {
    std::vector<ref::Bar> st = c11_st_route(c.n, edges_upto(c, thr_d), eff_dim, int(c.p));
    ctx.hit("st-route-run");
    // Both sides of the property's equation are compared with the independent reference; this one localises blame.
    VF_CHECK(st == ex.bars, "simplex-tree-route",
             "Simplex_tree+Persistent_cohomology differs from the reference: got" << show(st) << " expected" << show(ex.bars));
  }
#endif

  // ---- which encoding does the dispatcher pick for this input
  int bpv = R::log2up(c.n), bc = R::log2up(c.p - 1);
  int bits = bpv * (std::max(eff_dim, -1) + 2) + bc;
  ctx.hit(bits <= 64 ? "dispatch:bitfield64" : bits <= 128 ? "dispatch:bitfield128" : "dispatch:cns128");

  // ---- run every compiled form through the routes
  auto compare = [&](Form f, Route r, const Collector& col, const char* extra) {
    std::vector<ref::Bar> got = col.bars;
    std::sort(got.begin(), got.end());
    std::string tag = std::string(kFormName[f]) + "/" + kRouteName[r];
    ctx.hit(std::string("run:") + tag);
    VF_CHECK(col.order_ok, "dims-" + tag, "output_dim not called with 0,1,2,... before the pairs" << extra);
    VF_CHECK(col.cur <= std::max(eff_dim, 0), "dims-" + tag, "output_dim called beyond dim_max: " << col.cur << extra);
    VF_CHECK(got == ex.bars, "barcode-" + tag, extra << " got" << show(got) << " expected" << show(ex.bars));
  };
  unsigned forced_mask = h.mask;
  for (int fi = 0; fi < F_COUNT; ++fi) {
    Form f = Form(fi);
    if (!form_compiled(f)) continue;
    if (f == F_EUCL && c.pts.empty()) continue;
    if (c.n == 1 && (f == F_LOWER || f == F_UPPER || f == F_UP2LOW)) continue;  // no entry at all: nothing to give
    try {
    bool variant = (forced_mask >> 7) & 1;
    if (f == F_UPPER && variant && ctx.excluded("C11-upper-converting-ctor")) {
      ctx.hit("excluded:C11-upper-converting-ctor");
      variant = false;
    }
    {
      Collector col;
      run_form(c, f, R_AUTO, c.dim_max, c.thr, variant, col);
      compare(f, R_AUTO, col, "");
    }
    if (f == F_EUCL) continue;  // only through ripser_auto (documented: not to be fed directly to ripser)
    if (f == F_SPARSE) {
      // direct == auto for sparse input; only the forced encodings add something
    } else if (!c.big || !c.no_threshold()) {
      // ripser(): dense engines apply the threshold themselves (no conversion to sparse, no enclosing radius)
      Collector col;
      run_form(c, f, R_DIRECT, c.dim_max, c.thr, variant, col);
      compare(f, R_DIRECT, col, "");
      if (c.no_threshold() && f != F_EUCL) {
        // what the command-line tool does without --threshold: pass the enclosing radius explicitly
        Collector col2;
        run_form(c, f, R_DIRECT, c.dim_max, enclosing, variant, col2);
        compare(f, R_DIRECT, col2, " (threshold = enclosing radius)");
        ctx.hit("enclosing-radius-explicit");
        if (enclosing < kInf) {
          bool cut = false;
          for (int i = 0; i < c.n; ++i)
            for (int j = 0; j < i; ++j) cut = cut || c.at(i, j) > enclosing;
          if (cut) ctx.hit("enclosing-radius-cuts-edges");
        }
      }
    }
    if ((forced_mask >> (fi % 7)) & 1) {
      int dm = std::max(eff_dim, 0);  // help2 is only ever reached with dim_max already clamped to n-2
      if (c.n == 1) continue;
      for (Route r : {R_B64, R_B128, R_CNS}) {
        int need = bpv * (dm + 2) + bc;
        if (r == R_B64 && need > 64) continue;
        if (r == R_B128 && need > 128) continue;
        Collector col;
        run_form(c, f, r, dm, c.thr, variant, col);
        compare(f, r, col, "");
      }
    }
    } catch (const std::overflow_error&) {  // "cannot encode all simplices ..." - only where the case allows a refusal
      if (!c.refusal_ok) throw;
      ctx.hit("refused:overflow_error");
    }
  }
}
}  // namespace vf
