// C11, second route named by the property text: Rips flag filtration through Simplex_tree::expansion and
// Persistent_cohomology<Field_Zp>, used the way the python layer uses it as a fallback for Ripser
// (persistence_dim_max = (requested dimension >= dimension of the tree)). Separate TU to keep compile times down.
#include <gudhi/Simplex_tree.h>
#include <gudhi/Persistent_cohomology.h>

#include <limits>
#include <tuple>
#include <vector>

#include "reduce.h"

std::vector<ref::Bar> c11_st_route(int n, const std::vector<std::tuple<int, int, double>>& edges, int eff_dim, int p) {
  typedef Gudhi::Simplex_tree<> ST;
  typedef Gudhi::persistent_cohomology::Persistent_cohomology<ST, Gudhi::persistent_cohomology::Field_Zp> PC;
  ST st;
  for (int v = 0; v < n; ++v) st.insert_simplex({v}, 0.0);
  for (auto& e : edges) st.insert_simplex({std::get<0>(e), std::get<1>(e)}, std::get<2>(e));
  st.expansion(eff_dim + 1);
  PC pc(st, eff_dim >= st.dimension());
  pc.init_coefficients(p);
  pc.compute_persistent_cohomology(0);
  std::vector<ref::Bar> out;
  for (auto& pr : pc.get_persistent_pairs()) {
    auto bs = std::get<0>(pr), ds = std::get<1>(pr);
    int dim = st.dimension(bs);
    if (dim > eff_dim) continue;
    double b = st.filtration(bs);
    double d = ds == st.null_simplex() ? std::numeric_limits<double>::infinity() : st.filtration(ds);
    if (b == d) continue;
    out.push_back(ref::Bar{dim, b, d});
  }
  std::sort(out.begin(), out.end());
  return out;
}
