// C02 - persistent cohomology of simplicial carriers: Simplex_tree (option set selected by -DCFG) and, for CFG 0 and 2,
// the Hasse_complex converted from it. Fields Field_Zp and Multi_field.
//
// CFG 0 Simplex_tree_options_default        (+ Hasse_complex<>)
// CFG 1 Simplex_tree_options_fast_persistence (float values, contiguous vertices)
// CFG 2 Simplex_tree_options_full_featured  (+ Hasse_complex<>)
// CFG 3 MiniSTOptions of the unit tests     (short labels, uint8 keys, no stored filtration => every value is 0)
#include "common.h"
#include "families.h"

#include <gudhi/Simplex_tree.h>
#include <gudhi/Hasse_complex.h>

#ifndef CFG
#define CFG 0
#endif

namespace {

struct MiniSTOptions {
  typedef Gudhi::linear_indexing_tag Indexing_tag;
  typedef short Vertex_handle;
  typedef double Filtration_value;
  typedef std::uint8_t Simplex_key;  // at most 255 simplices (one value is reserved for null_key)
  static const bool store_key = true;
  static const bool store_filtration = false;
  static const bool contiguous_vertices = false;
  static const bool link_nodes_by_label = false;
  static const bool stable_simplex_handles = false;
};

#if CFG == 0
typedef Gudhi::Simplex_tree<Gudhi::Simplex_tree_options_default> ST;
const char* kName = "C02/st_default";
const bool kHasse = true, kContiguous = false, kStoresValues = true;
#elif CFG == 1
typedef Gudhi::Simplex_tree<Gudhi::Simplex_tree_options_fast_persistence> ST;
const char* kName = "C02/st_fast_persistence";
const bool kHasse = false, kContiguous = true, kStoresValues = true;
#elif CFG == 2
typedef Gudhi::Simplex_tree<Gudhi::Simplex_tree_options_full_featured> ST;
const char* kName = "C02/st_full_featured";
const bool kHasse = true, kContiguous = false, kStoresValues = true;
#else
typedef Gudhi::Simplex_tree<MiniSTOptions> ST;
const char* kName = "C02/st_mini";
const bool kHasse = false, kContiguous = false, kStoresValues = false;
#endif

typedef Gudhi::Hasse_complex<> Hasse;

using ref::Simplex;
using ref::Vertex;

const size_t kMaxSimplices = 260;

struct Family {
  const char* name;
  int prime;  // the prime at which the torsion shows (0: none)
};
const Family kFamilies[] = {{"random", 0}, {"rp2", 2}, {"moore2", 2}, {"moore3", 3}, {"klein", 2}, {"moore5", 5}, {"torus", 0}};

std::vector<Simplex> family_triangles(unsigned f) {
  switch (f) {
    case 1: return ref::rp2_triangles();
    case 2: return ref::moore_triangles(2);
    case 3: return ref::moore_triangles(3);
    case 4: return ref::klein_triangles();
    case 5: return ref::moore_triangles(5);
    case 6: return ref::torus_triangles();
    default: return {};
  }
}

// the set of simplices (closed under faces), vertices relabelled to 0..n-1
std::set<Simplex> closure_contiguous(const std::vector<Simplex>& maxs) {
  std::map<Vertex, Vertex> relabel;
  for (auto& s : maxs)
    for (auto v : s) relabel[v] = 0;
  Vertex k = 0;
  for (auto& kv : relabel) kv.second = k++;
  std::set<Simplex> out;
  for (auto& s : maxs) {
    Simplex r;
    for (auto v : s) r.push_back(relabel[v]);
    for (auto& f : ref::all_faces(ref::make_simplex(r))) out.insert(f);
  }
  return out;
}

}  // namespace

namespace vf {
const char* harness_name() { return kName; }

void run_case(Tape& t, Ctx& ctx) {
  // Tape layout (compact, so that short tapes reach every part): family | palette | value mode | operations | runs |
  // labels, construction route | per-simplex value draws.
  unsigned fam = unsigned(t.weighted({6, 3, 2, 2, 2, 1, 1}));
  ctx.hit(std::string("family:") + kFamilies[fam].name);
  c02::Palette pal = c02::decode_palette(t, 8, true);
  unsigned vmode = kStoresValues ? unsigned(t.weighted({2, 4, 2, 1, 7})) : 0;
  uint64_t vseed = (vmode == 4) ? t.u16() : 0;
  static const unsigned kNops[] = {0, 1, 2, 3, 4, 6, 10, 20};
  unsigned nops = kNops[t.weighted({1, 1, 2, 3, 3, 3, 2, 1})];

  // ------------------------------------------------------------------------------------------------ the complex
  std::set<Simplex> S = closure_contiguous(family_triangles(fam));
  Vertex nv = 0;
  for (auto& s : S) nv = std::max(nv, s.back() + 1);
  const Vertex max_new = (fam == 0) ? 9 : nv + 3;
  auto add_closed = [&](const Simplex& s) {
    for (auto& f : ref::all_faces(s)) S.insert(f);
    nv = std::max(nv, s.back() + 1);
  };
  std::ostringstream ops;
  unsigned cones = 0;
  for (unsigned step = 0; step < nops; ++step) {  // 3 bytes per operation
    unsigned o = t.u8();
    unsigned x = t.u16();
    unsigned op = (o % 13 < 10) ? 0 : (o % 13 < 12) ? 1 : 2;
    if (op == 0) {  // a random simplex (1-4 vertices) on old vertices and at most one new one
      static const unsigned kSize[] = {2, 3, 1, 3, 4, 2};
      unsigned k = kSize[(o / 13) % 6];
      unsigned pool = unsigned(std::max<Vertex>(1, std::min<Vertex>(nv + 1, max_new)));
      std::vector<Vertex> vs = {Vertex(x % pool), Vertex((x / pool) % pool), Vertex((x / pool / pool) % pool)};
      vs.push_back((vs[0] + vs[1] + vs[2]) % Vertex(pool));
      vs.resize(k);
      Simplex s = ref::make_simplex(vs);
      if (S.size() + (size_t(1) << s.size()) > kMaxSimplices) continue;
      add_closed(s);
      ops << " +" << ref::to_string(s);
    } else if (op == 1) {  // cone with a new apex over a random part of the complex
      unsigned keep_num = 4 - (o / 13) % 4;  // each simplex taken with probability keep_num/4 (zero: everything)
      uint64_t bits = c02::expand(x, 0);
      if (S.empty() || cones >= 2 || nv >= max_new + 2) continue;
      if (2 * S.size() + 1 > kMaxSimplices) continue;  // the cone over a closed part at most doubles the complex
      std::vector<Simplex> add;
      Vertex apex = nv;
      size_t idx = 0;
      for (auto& s : S) {
        bool take = (keep_num == 4) || (((bits >> ((idx % 32) * 2)) & 3) < keep_num);
        ++idx;
        if (!take) continue;
        Simplex c = s;
        c.push_back(apex);
        add.push_back(c);
      }
      ++cones;
      for (auto& c : add) add_closed(c);
      ops << " cone(" << apex << "," << keep_num << "/4," << x << ")";
    } else {  // a higher simplex: the first 6-8 vertices without up to three of them (3-6 vertices)
      unsigned pool = unsigned(std::max<Vertex>(std::min<Vertex>(nv, 8), 6));
      std::set<Vertex> vs;
      for (unsigned i = 0; i < pool; ++i) vs.insert(Vertex(i));
      vs.erase(Vertex(x % pool));
      vs.erase(Vertex((x / pool) % pool));
      if ((o / 13) % 2) vs.erase(Vertex((x / pool / pool) % pool));
      while (vs.size() > 6) vs.erase(std::prev(vs.end()));
      Simplex s(vs.begin(), vs.end());
      if (S.size() + (size_t(1) << s.size()) > kMaxSimplices) continue;
      add_closed(s);
      ops << " +" << ref::to_string(s);
    }
  }
  {  // logical vertices 0..n-1 without holes (contiguous option sets demand it; harmless for the others)
    std::vector<Simplex> all(S.begin(), S.end());
    S = closure_contiguous(all);
    nv = 0;
    for (auto& s : S) nv = std::max(nv, s.back() + 1);
  }
  // ------------------------------------------------------------------------------------------------ fields, options
  unsigned nruns = 1 + t.below(3);
  std::vector<c02::RunSpec> runs;
  std::vector<bool> run_on_hasse;
  for (unsigned r = 0; r < nruns; ++r) {
    bool second = false;
    runs.push_back(c02::decode_run(t, pal, kFamilies[fam].prime, ctx, &second));
    run_on_hasse.push_back(kHasse && second);
  }
  unsigned lmode = kContiguous ? 0 : unsigned(t.weighted({3, 2, 2, 1}));
  bool route_b = t.below(4) == 1;
  bool explicit_init = t.flip();
  // ------------------------------------------------------------------------------------------------ the values
  std::map<Simplex, double> val;
  {
    // simplices by dimension, then lexicographic
    std::vector<Simplex> order(S.begin(), S.end());
    std::stable_sort(order.begin(), order.end(), [](const Simplex& a, const Simplex& b) { return a.size() < b.size(); });
    std::map<Vertex, double> vval;
    for (auto& s : order) {
      double v = pal.v[0];
      if (!kStoresValues) {
        v = 0;
      } else if (vmode == 1) {  // own draw, then max with the faces (any monotone function arises this way)
        v = pal.v[t.below(uint32_t(pal.v.size()))];
        for (auto& f : ref::facets(s)) v = std::max(v, val[f]);
      } else if (vmode == 2) {  // lower star of vertex values
        if (s.size() == 1) {
          v = pal.v[t.below(uint32_t(pal.v.size()))];
          vval[s[0]] = v;
        } else {
          v = -c02::kInf;
          for (auto x : s) v = std::max(v, vval[x]);
        }
      } else if (vmode == 4) {  // like mode 1 with the draws expanded from 4 tape bytes
        v = pal.v[c02::expand(vseed, val.size()) % pal.v.size()];
        for (auto& f : ref::facets(s)) v = std::max(v, val[f]);
      } else if (vmode == 3) {  // by dimension: the k-skeleton enters at the k-th palette value
        v = pal.v[std::min(pal.v.size() - 1, s.size() - 1)];
      }
      val[s] = v;
    }
  }
  // ------------------------------------------------------------------------------------------------ labels
  // logical vertex i -> label; contiguous option sets need the identity
  std::vector<long> label;
  for (Vertex i = 0; i <= nv; ++i) {
    long L = long(i);
    if (lmode == 1) L = long(nv) - long(i);                          // reversed
    if (lmode == 2) L = -7 + 5 * long(i) * ((i % 2) ? 1 : -1);       // sparse, negative and positive, distinct
    if (lmode == 3) L = 32000 - 3 * long(i);                         // near the top of short
    label.push_back(L);
  }
  ctx.desc << "family=" << kFamilies[fam].name << " ops:" << ops.str() << "\nvalues mode " << vmode << " seed " << vseed << " palette";
  for (double v : pal.v) ctx.desc << " " << c02::fmt(v);
  ctx.desc << " labels mode " << lmode << "\nsimplices (" << S.size() << "):";
  for (auto& kv : val) ctx.desc << " " << ref::to_string(kv.first) << ":" << c02::fmt(kv.second);
  ctx.desc << "\n";

  // ------------------------------------------------------------------------------------------------ build the tree
  ST st;
  {
    std::vector<Simplex> order;
    for (auto& kv : val) order.push_back(kv.first);
    std::stable_sort(order.begin(), order.end(), [](const Simplex& a, const Simplex& b) { return a.size() < b.size(); });
    auto labelled = [&](const Simplex& s) {
      std::vector<typename ST::Vertex_handle> r;
      for (auto v : s) r.push_back(typename ST::Vertex_handle(label[size_t(v)]));
      return r;
    };
    if (!route_b) {
      for (auto& s : order) st.insert_simplex(labelled(s), typename ST::Filtration_value(val[s]));
    } else {  // maximal simplices with all faces, then every value assigned explicitly
      for (auto it = order.rbegin(); it != order.rend(); ++it) st.insert_simplex_and_subfaces(labelled(*it), typename ST::Filtration_value(0));
      if (kStoresValues)
        for (auto& s : order) st.assign_filtration(st.find(labelled(s)), typename ST::Filtration_value(val[s]));
    }
  }
  ctx.desc << "built by " << (route_b ? "insert_simplex_and_subfaces+assign_filtration" : "insert_simplex")
           << (explicit_init ? ", initialize_filtration()" : "") << "\n";
  VF_CHECK(st.num_simplices() == S.size(), "build-mismatch", "tree has " << st.num_simplices() << " simplices, model " << S.size());
  if (explicit_init) st.initialize_filtration();

  // ------------------------------------------------------------------------------------------------ exposure/oracle
  auto st_id = [](ST& c, typename ST::Simplex_handle sh) {
    std::vector<long> v;
    for (auto x : c.simplex_vertex_range(sh)) v.push_back(long(x));
    std::sort(v.begin(), v.end());
    return v;
  };
  c02::Exposure e = c02::expose(st, st_id, ctx);
  {  // the tree holds the model (precondition of everything below; C01/C03 own these facts)
    std::map<std::vector<long>, double> have, want;
    size_t i = 0;
    for (auto sh : st.filtration_simplex_range()) have[st_id(st, sh)] = e.val[i++];
    for (auto& kv : val) {
      std::vector<long> v;
      for (auto x : kv.first) v.push_back(label[size_t(x)]);
      std::sort(v.begin(), v.end());
      want[v] = double(typename ST::Filtration_value(kv.second));
    }
    VF_CHECK(have == want, "build-mismatch", "simplices/values of the tree differ from the model");
  }
  std::vector<c02::Z> tp = {2, 3};
  if (kFamilies[fam].prime == 5) tp.push_back(5);
  c02::classify(e, ctx, tp);
  if (ctx.nontrivial) ctx.hit(std::string("nontrivial:") + kFamilies[fam].name);
  ctx.hit("vmode" + std::to_string(vmode) + (ctx.nontrivial ? ":nontrivial" : ":trivial"));
  if (e.topdim >= 3) ctx.hit("dimension>=3");
  if (S.empty()) ctx.hit("empty-complex");

  // ------------------------------------------------------------------------------------------------ runs
  for (unsigned r = 0; r < nruns; ++r) {
    c02::RunSpec rs = runs[r];
    bool on_hasse = run_on_hasse[r];
    c02::avoid_known_findings(e, rs, ctx);
    ctx.desc << "run " << r << ": " << (on_hasse ? "Hasse_complex " : "Simplex_tree ") << rs.str() << " probes";
    for (double v : rs.probes) ctx.desc << " " << c02::fmt(v);
    ctx.desc << "\n";
    if (std::numeric_limits<typename ST::Simplex_key>::max() < 256 && st.num_simplices() > 255) {
      // documented: "@exception std::out_of_range In case the number of simplices is more than Simplex_key type numeric limit."
      bool threw = false;
      try {
        Gudhi::persistent_cohomology::Persistent_cohomology<ST, c02::Field_Zp> pcoh(st, rs.dim_max_flag);
      } catch (const std::out_of_range&) {
        threw = true;
      }
      VF_CHECK(threw, "key-limit-exception", "no std::out_of_range with " << st.num_simplices() << " simplices and 8-bit keys");
      ctx.hit("key-limit-exception");
      continue;
    }
    if (!on_hasse) {
      c02::check_run_any(st, e, rs, "Simplex_tree", ctx);
    } else {
#if CFG == 0 || CFG == 2
      // as in example/rips_persistence_via_boundary_matrix.cpp: keys = position in the filtration, then convert
      int count = 0;
      for (auto sh : st.filtration_simplex_range()) st.assign_key(sh, typename ST::Simplex_key(count++));
      Hasse h(st);
      auto h_id = [](Hasse&, int sh) { return sh; };
      c02::Exposure eh = c02::expose(h, h_id, ctx);
      // the converted complex exposes the same filtered chain complex
      VF_CHECK(eh.val == e.val && eh.topdim == e.topdim, "hasse-conversion", "values or dimension differ from the simplex tree");
      for (size_t i = 0; i < e.cells.size(); ++i)
        VF_CHECK(eh.cells[i].dim == e.cells[i].dim && eh.cells[i].bdry == e.cells[i].bdry, "hasse-conversion", "cell #" << i << " differs from the simplex tree");
      c02::check_run_any(h, eh, rs, "Hasse_complex", ctx);
#endif
    }
  }
}
}  // namespace vf
