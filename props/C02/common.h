// C02 - shared part of the harnesses: the oracle built from what a FilteredComplex itself exposes, one GUDHI run
// (Persistent_cohomology<Complex, Field>) checked against it, and the derived queries.
//
// Oracle (independent side): the cells in the order of filtration_simplex_range(), the boundaries enumerated by
// boundary_simplex_range() with alternating signs +,-,+,... (FilteredComplex concept: "the alternate sum of the simplices
// given by the iterator gives the chains corresponding to the boundary"), reduced by ref::reduce over Z_p; pairs are
// mapped to (dimension, value of birth, value of death) and compared as multisets (never by index: the union-find elder
// rule breaks value ties differently, which the property allows).
#ifndef C02_COMMON_H_
#define C02_COMMON_H_

#include "vf.h"
#include "reduce.h"

#include <gudhi/Persistent_cohomology.h>
#include <gudhi/Persistent_cohomology/Field_Zp.h>
#include <gudhi/Persistent_cohomology/Multi_field.h>

#include <cmath>
#include <csignal>
#include <fcntl.h>
#include <sys/wait.h>
#include <unistd.h>
#include <iostream>
#include <set>
#include <limits>
#include <map>
#include <memory>
#include <sstream>
#include <string>
#include <type_traits>
#include <vector>

namespace c02 {

using ref::Z;
typedef Gudhi::persistent_cohomology::Field_Zp Field_Zp;
typedef Gudhi::persistent_cohomology::Multi_field Multi_field;

const double kInf = std::numeric_limits<double>::infinity();

inline std::string fmt(double v) {
  std::ostringstream o;
  if (v == kInf)
    o << "inf";
  else if (v == -kInf)
    o << "-inf";
  else
    o << v;
  return o.str();
}

// one interval as a value triple; ess = the class never dies (death handle is null_simplex)
struct Bar {
  int dim;
  double b, d;
  bool ess;
  bool operator<(const Bar& o) const { return std::tie(dim, b, d, ess) < std::tie(o.dim, o.b, o.d, o.ess); }
  bool operator==(const Bar& o) const { return dim == o.dim && b == o.b && d == o.d && ess == o.ess; }
};
inline std::string show(const std::vector<Bar>& v) {
  std::ostringstream o;
  for (auto& x : v) o << " (" << x.dim << ":" << fmt(x.b) << "," << (x.ess ? std::string("ess") : fmt(x.d)) << ")";
  return o.str();
}

inline bool is_prime(long n) {
  if (n < 2) return false;
  for (long d = 2; d * d <= n; ++d)
    if (n % d == 0) return false;
  return true;
}

// What the complex exposes, turned into reference cells.
struct Exposure {
  std::vector<ref::Cell> cells;
  std::vector<double> val;  // filtration value of the i-th cell of the exposed order
  int topdim = -1;
  bool has_tie = false;
  std::map<Z, ref::Reduction> red;  // per prime, lazily

  const ref::Reduction& reduction(Z p) {
    auto it = red.find(p);
    if (it != red.end()) return it->second;
    ref::Reduction r = ref::reduce(cells, p);
    VF_ORACLE(ref::self_check(cells, r), "ref::reduce self-check (R = B*V, distinct pivots) failed for p=" << p);
    // Euler characteristic = alternating sum of the final Betti numbers
    long chi = 0, alt = 0;
    for (auto& c : cells) chi += (c.dim % 2 == 0) ? 1 : -1;
    for (auto& pr : r.pairs)
      if (pr.death < 0) alt += (pr.dim % 2 == 0) ? 1 : -1;
    VF_ORACLE(chi == alt, "Euler characteristic " << chi << " != alternating Betti sum " << alt << " for p=" << p);
    return red.emplace(p, std::move(r)).first->second;
  }
  // all pairs over Z_p as value triples, no filtering
  std::vector<Bar> all_bars(Z p) {
    std::vector<Bar> out;
    for (auto& pr : reduction(p).pairs)
      out.push_back(Bar{pr.dim, val[size_t(pr.birth)], pr.death < 0 ? kInf : val[size_t(pr.death)], pr.death < 0});
    std::sort(out.begin(), out.end());
    return out;
  }
  // the documented filters: a finite interval is kept iff its length is > min_len (compute_persistent_cohomology:
  // "discards all intervals of length less or equal than min_interval_length"), classes of dimension >= dim(complex)
  // are dropped unless persistence_dim_max. FV = the Filtration_value type of the complex (lengths are formed in it).
  template <class FV>
  std::vector<Bar> expected(Z p, FV min_len, bool dim_max_flag) {
    std::vector<Bar> out;
    int dmax = topdim + (dim_max_flag ? 1 : 0);
    for (auto& pr : reduction(p).pairs) {
      if (pr.dim >= dmax) continue;
      FV fb = FV(val[size_t(pr.birth)]);
      if (pr.death < 0) {
        out.push_back(Bar{pr.dim, double(fb), kInf, true});
      } else {
        FV fd = FV(val[size_t(pr.death)]);
        FV len = fd - fb;  // NaN for inf-inf: neither "longer" nor "not longer"; dropped on both sides
        if (len > min_len) out.push_back(Bar{pr.dim, double(fb), double(fd), false});
      }
    }
    std::sort(out.begin(), out.end());
    return out;
  }
};

// Build the exposure. IdFn maps a Simplex_handle to something ordered that identifies the cell (the handle itself for
// integer handles, the vertex list for a simplex tree).
template <class Cpx, class IdFn>
Exposure expose(Cpx& cpx, IdFn id, vf::Ctx& ctx) {
  Exposure e;
  typedef decltype(id(cpx, *std::begin(cpx.filtration_simplex_range()))) Id;
  std::map<Id, int> pos;
  int i = 0;
  std::map<double, int> seen_val;
  for (auto sh : cpx.filtration_simplex_range()) {
    ref::Cell c;
    c.dim = int(cpx.dimension(sh));
    int k = 0;
    for (auto b : cpx.boundary_simplex_range(sh)) {
      auto it = pos.find(id(cpx, b));
      VF_CHECK(it != pos.end(), "exposed-order-not-faces-first", "cell #" << i << " has a boundary cell that does not come earlier in filtration_simplex_range()");
      c.bdry.push_back({it->second, (k % 2 == 0) ? 1 : -1});
      ++k;
    }
    bool fresh = pos.emplace(id(cpx, sh), i).second;
    VF_CHECK(fresh, "exposed-order-duplicate", "cell #" << i << " appears twice in filtration_simplex_range()");
    double v = double(cpx.filtration(sh));
    VF_CHECK(v == v, "exposed-value-nan", "cell #" << i);
    if (++seen_val[v] == 2) e.has_tie = true;
    e.val.push_back(v);
    e.topdim = std::max(e.topdim, c.dim);
    e.cells.push_back(c);
    ++i;
  }
  VF_CHECK(size_t(i) == cpx.num_simplices(), "exposed-order-size", "filtration_simplex_range() has " << i << " cells, num_simplices() = " << cpx.num_simplices());
  // the exposed boundaries must form a chain complex over Z (d*d = 0), otherwise "its persistence" is undefined
  for (size_t j = 0; j < e.cells.size(); ++j) {
    std::map<int, long> dd;
    for (auto& f : e.cells[j].bdry)
      for (auto& g : e.cells[size_t(f.first)].bdry) dd[g.first] += long(f.second) * long(g.second);
    for (auto& kv : dd)
      VF_CHECK(kv.second == 0, "exposed-boundary-not-a-chain-complex", "d*d of cell #" << j << " has coefficient " << kv.second << " on cell #" << kv.first);
  }
  return e;
}

struct FieldSpec {
  bool multi = false;
  int p = 2;           // Field_Zp
  int lo = 2, hi = 3;  // Multi_field
  std::string str() const {
    std::ostringstream o;
    if (multi)
      o << "Multi_field[" << lo << "," << hi << "]";
    else
      o << "Z_" << p;
    return o.str();
  }
  std::vector<int> primes() const {
    std::vector<int> r;
    if (!multi) {
      r.push_back(p);
    } else {
      for (int q = lo; q <= hi; ++q)
        if (is_prime(q)) r.push_back(q);
    }
    return r;
  }
};

// Field_Zp::init builds its inverse table in O(p^2); for the large primes the table is built once per process by the
// library's own Field_Zp::init and copied into the (public) coeff_field_ member. Immutable afterwards.
inline const Field_Zp& cached_zp(int p) {
  static std::map<int, std::unique_ptr<Field_Zp>> cache;
  auto it = cache.find(p);
  if (it == cache.end()) {
    std::unique_ptr<Field_Zp> f(new Field_Zp());
    f->init(p);
    it = cache.emplace(p, std::move(f)).first;
  }
  return *it->second;
}

inline unsigned long charac_value(int c) { return (unsigned long)c; }
inline unsigned long charac_value(const mpz_class& c) { return c.fits_ulong_p() ? c.get_ui() : 0UL; }

struct RunSpec {
  FieldSpec field;
  double min_len = 0;
  bool default_min_len = false;  // call compute_persistent_cohomology() without argument
  bool dim_max_flag = false;
  std::vector<double> probes;    // values used as from/to of the persistent Betti queries
  std::string str() const {
    std::ostringstream o;
    o << field.str() << " min_interval_length=" << (default_min_len ? std::string("default(0)") : fmt(min_len)) << " persistence_dim_max=" << dim_max_flag;
    return o.str();
  }
};

// One GUDHI run on cpx, checked against the exposure e (which must have been taken from the same cpx).
template <class Cpx, class Field>
void check_run(Cpx& cpx, Exposure& e, const RunSpec& rs, const std::string& carrier, vf::Ctx& ctx) {
  typedef typename Cpx::Filtration_value FV;
  typedef Gudhi::persistent_cohomology::Persistent_cohomology<Cpx, Field> PH;
  const bool multi = std::is_same<Field, Multi_field>::value;
  std::vector<int> primes = rs.field.primes();
  unsigned long prod = 1;
  for (int q : primes) prod *= (unsigned long)q;
  const std::string where = carrier + " " + rs.str();

  PH pcoh(cpx, rs.dim_max_flag);
  if constexpr (std::is_same<Field, Field_Zp>::value) {
    if (rs.field.p > 2000)
      pcoh.coeff_field_ = cached_zp(rs.field.p);
    else
      pcoh.init_coefficients(rs.field.p);
  } else {
    pcoh.init_coefficients(rs.field.lo, rs.field.hi);
  }
  FV min_len = rs.default_min_len ? FV(0) : FV(rs.min_len);
  if (rs.default_min_len)
    pcoh.compute_persistent_cohomology();
  else
    pcoh.compute_persistent_cohomology(min_len);

  // ---- reported pairs as value triples + characteristic
  struct Rep {
    Bar bar;
    unsigned long ch;
  };
  auto collect = [&]() {
    std::vector<Rep> reps;
    for (auto& pr : pcoh.get_persistent_pairs()) {
      auto bsh = std::get<0>(pr);
      auto dsh = std::get<1>(pr);
      bool ess = (dsh == cpx.null_simplex());
      Rep r;
      r.bar = Bar{int(cpx.dimension(bsh)), double(cpx.filtration(bsh)), ess ? kInf : double(cpx.filtration(dsh)), ess};
      r.ch = charac_value(std::get<2>(pr));
      reps.push_back(r);
    }
    return reps;
  };
  std::vector<Rep> reps = collect();
  for (auto& r : reps) {
    VF_CHECK(r.ch > 1 && prod % r.ch == 0, "interval-characteristic", where << ": interval" << show({r.bar}) << " carries " << r.ch << ", not a product of primes of the field (" << prod << ")");
    if (!multi) VF_CHECK(r.ch == (unsigned long)rs.field.p, "interval-characteristic", where << ": carries " << r.ch);
  }
  // ---- the pairs, per prime of the field
  for (int q : primes) {
    std::vector<Bar> got;
    for (auto& r : reps)
      if (r.ch % (unsigned long)q == 0) got.push_back(r.bar);
    std::sort(got.begin(), got.end());
    std::vector<Bar> want = e.expected<FV>(q, min_len, rs.dim_max_flag);
    VF_CHECK(got == want, multi ? "pairs-multi-field" : "pairs",
             where << " over Z_" << q << ":\n  reported:" << show(got) << "\n  expected:" << show(want));
  }

  // ---- derived queries = what the reported pairs imply
  int dmax = e.topdim + (rs.dim_max_flag ? 1 : 0);
  size_t nb = size_t(std::max(dmax, 0));
  std::vector<int> betti(nb, 0);
  for (auto& r : reps)
    if (r.bar.ess) {
      VF_CHECK(r.bar.dim >= 0 && size_t(r.bar.dim) < nb, "pairs", where << ": essential class of dimension " << r.bar.dim << " beyond the computed dimensions");
      ++betti[size_t(r.bar.dim)];
    }
  std::vector<int> gb = pcoh.betti_numbers();
  VF_CHECK(gb == betti, "betti_numbers", where << ": betti_numbers() size " << gb.size() << " vs " << nb << " or content differs");
  for (int d = -1; d <= dmax + 1; ++d) {
    int want = (d >= 0 && size_t(d) < nb) ? betti[size_t(d)] : 0;
    VF_CHECK(pcoh.betti_number(d) == want, "betti_number", where << ": betti_number(" << d << ") = " << pcoh.betti_number(d) << ", pairs imply " << want);
  }
  if (!multi) {  // for a single field the Betti numbers are also the oracle's (when no dimension is cut)
    std::map<int, int> ob = ref::betti_at(e.reduction(rs.field.p), int(e.cells.size()));
    for (size_t d = 0; d < nb; ++d) VF_CHECK(gb[d] == ob[int(d)], "betti_numbers", where << ": betti[" << d << "] = " << gb[d] << ", reference " << ob[int(d)]);
  }
  for (size_t a = 0; a < rs.probes.size(); ++a)
    for (size_t b = 0; b < rs.probes.size(); ++b) {
      FV from = FV(rs.probes[a]), to = FV(rs.probes[b]);
      std::vector<int> want(nb, 0);
      for (auto& r : reps)
        if (FV(r.bar.b) <= from && (r.bar.ess || FV(r.bar.d) > to)) ++want[size_t(r.bar.dim)];
      std::vector<int> got = pcoh.persistent_betti_numbers(from, to);
      VF_CHECK(got == want, "persistent_betti_numbers", where << ": persistent_betti_numbers(" << fmt(from) << "," << fmt(to) << ")");
      for (int d = -1; d <= dmax; ++d) {
        int w = (d >= 0 && size_t(d) < nb) ? want[size_t(d)] : 0;
        int g = pcoh.persistent_betti_number(d, from, to);
        VF_CHECK(g == w, "persistent_betti_number", where << ": persistent_betti_number(" << d << "," << fmt(from) << "," << fmt(to) << ") = " << g << ", pairs imply " << w);
      }
    }
  for (int d = -1; d <= dmax + 1; ++d) {
    std::vector<std::pair<double, double>> want, got;
    for (auto& r : reps)
      if (r.bar.dim == d) want.push_back({r.bar.b, r.bar.d});
    for (auto& iv : pcoh.intervals_in_dimension(d)) got.push_back({double(iv.first), double(iv.second)});
    std::sort(want.begin(), want.end());
    std::sort(got.begin(), got.end());
    VF_CHECK(got == want, "intervals_in_dimension", where << ": intervals_in_dimension(" << d << ") has " << got.size() << " intervals, pairs imply " << want.size() << " (or values differ)");
  }
  // output_diagram sorts the pairs by length in place with a comparator that is not a strict weak order when a length
  // is NaN (inf - inf); such diagrams (outside "finite filtered complexes") are not sent through it.
  bool nan_len = false;
  for (auto& r : reps) {
    double len = r.bar.d - r.bar.b;
    if (len != len) nan_len = true;
  }
  if (nan_len) {
    ctx.hit("output_diagram-skipped-nan-length");
  } else {
    std::ostringstream os;
    pcoh.output_diagram(os);
    std::istringstream is(os.str());
    std::vector<std::pair<unsigned long, Bar>> got, want;
    std::string line;
    while (std::getline(is, line)) {
      if (line.find_first_not_of(" \t\r") == std::string::npos) continue;
      std::istringstream ls(line);
      std::string sc, sb, sd;
      int dim = -99;
      ls >> sc >> dim >> sb >> sd;
      VF_CHECK(!ls.fail(), "output_diagram", where << ": cannot parse line '" << line << "'");
      char* end = nullptr;
      unsigned long ch = strtoul(sc.c_str(), &end, 10);
      double b = strtod(sb.c_str(), nullptr), d = strtod(sd.c_str(), nullptr);
      got.push_back({ch, Bar{dim, b, d, false}});
    }
    for (auto& r : reps) want.push_back({r.ch, Bar{r.bar.dim, r.bar.b, r.bar.d, false}});
    std::sort(got.begin(), got.end());
    std::sort(want.begin(), want.end());
    VF_CHECK(got == want, "output_diagram", where << ": printed diagram differs from get_persistent_pairs():\n" << os.str());
    // the in-place sort must not have changed the set of pairs
    std::vector<Rep> again = collect();
    std::vector<std::pair<unsigned long, Bar>> a2;
    for (auto& r : again) a2.push_back({r.ch, Bar{r.bar.dim, r.bar.b, r.bar.d, false}});
    std::sort(a2.begin(), a2.end());
    VF_CHECK(a2 == want, "output_diagram", where << ": get_persistent_pairs() changed after output_diagram()");
    // ... nor what the derived queries answer: they must not depend on the order in which the pairs are stored
    std::vector<int> gb2 = pcoh.betti_numbers();
    VF_CHECK(gb2 == betti, "betti_numbers-after-output", where << ": betti_numbers() changed after output_diagram()");
    for (int d = -1; d <= dmax + 1; ++d) {
      int w = (d >= 0 && size_t(d) < nb) ? betti[size_t(d)] : 0;
      VF_CHECK(pcoh.betti_number(d) == w, "betti_number-after-output", where << ": after output_diagram(), betti_number(" << d << ") = " << pcoh.betti_number(d) << ", pairs imply " << w);
    }
    for (size_t a = 0; a < rs.probes.size(); ++a)
      for (size_t b = 0; b < rs.probes.size(); ++b) {
        FV from = FV(rs.probes[a]), to = FV(rs.probes[b]);
        std::vector<int> w(nb, 0);
        for (auto& r : reps)
          if (FV(r.bar.b) <= from && (r.bar.ess || FV(r.bar.d) > to)) ++w[size_t(r.bar.dim)];
        VF_CHECK(pcoh.persistent_betti_numbers(from, to) == w, "persistent_betti_numbers-after-output", where << ": after output_diagram(), persistent_betti_numbers(" << fmt(from) << "," << fmt(to) << ") differs from what the pairs imply");
        for (int d = -1; d <= dmax; ++d) {
          int wd = (d >= 0 && size_t(d) < nb) ? w[size_t(d)] : 0;
          int g = pcoh.persistent_betti_number(d, from, to);
          VF_CHECK(g == wd, "persistent_betti_number-after-output", where << ": after output_diagram(), persistent_betti_number(" << d << "," << fmt(from) << "," << fmt(to) << ") = " << g << ", pairs imply " << wd);
        }
      }
    for (int d = -1; d <= dmax + 1; ++d) {
      std::vector<std::pair<double, double>> w, g;
      for (auto& r : reps)
        if (r.bar.dim == d) w.push_back({r.bar.b, r.bar.d});
      for (auto& iv : pcoh.intervals_in_dimension(d)) g.push_back({double(iv.first), double(iv.second)});
      std::sort(w.begin(), w.end());
      std::sort(g.begin(), g.end());
      VF_CHECK(g == w, "intervals_in_dimension-after-output", where << ": after output_diagram(), intervals_in_dimension(" << d << ") differs from what the pairs imply");
    }
  }
  ctx.hit(std::string("run:") + carrier + (multi ? ":multi" : ":zp"));
}

// crashes (sanitizer aborts) lose the replay driver's rendering of the case: with C02_TRACE set the decoded case is
// written to stderr before each GUDHI run
inline void trace(vf::Ctx& ctx) {
  static const bool on = getenv("C02_TRACE") != nullptr;
  if (on) std::cerr << "---- case so far ----\n" << ctx.desc.str() << std::flush;
}

inline bool multifield_erased_row_trigger(Exposure& e, const std::vector<int>& primes);
// Known findings: replace the trigger by something else so that the search continues (HARNESS_GUIDE section 1).
inline void avoid_known_findings(Exposure& e, RunSpec& rs, vf::Ctx& ctx) {
  if (rs.field.multi) {
    bool trig = multifield_erased_row_trigger(e, rs.field.primes());
    if (trig) ctx.hit("multi-field:erased-row-trigger");
    if (trig && ctx.excluded("C02-multifield-erased-row")) {
      ctx.hit("excluded:C02-multifield-erased-row");
      rs.field.p = rs.field.primes().front();  // the same complex over the first prime of the range instead
      rs.field.multi = false;
    }
  }
}

// dispatch on the field kind
template <class Cpx>
void check_run_any(Cpx& cpx, Exposure& e, const RunSpec& rs, const std::string& carrier, vf::Ctx& ctx) {
  trace(ctx);
  // development aid (never set by ./check): run multi-field cases in a forked child and count prediction of the
  // known-finding trigger against what actually happens
  static const bool forktest = getenv("C02_FORKTEST") != nullptr;
  if (forktest && rs.field.multi) {
    bool pred = multifield_erased_row_trigger(e, rs.field.primes());
    fflush(stdout);
    fflush(stderr);
    pid_t pid = fork();
    if (pid == 0) {
      int dn = open("/dev/null", O_WRONLY);
      if (dn >= 0) dup2(dn, 2);
      for (int sg : {SIGABRT, SIGSEGV, SIGFPE, SIGILL, SIGBUS}) signal(sg, SIG_DFL);
      alarm(60);
      int code = 0;
      try {
        check_run<Cpx, Multi_field>(cpx, e, rs, carrier, ctx);
      } catch (const vf::Violation& v) {
        code = 7;
      }
      _exit(code);
    }
    int st = 0;
    waitpid(pid, &st, 0);
    std::string actual = WIFEXITED(st) ? (WEXITSTATUS(st) == 0 ? "ok" : (WEXITSTATUS(st) == 7 ? "violation" : "crash")) : "crash";
    ctx.hit(std::string("forktest:predicted=") + (pred ? "1" : "0") + ":actual=" + actual);
    return;
  }
  if (rs.field.multi)
    check_run<Cpx, Multi_field>(cpx, e, rs, carrier, ctx);
  else
    check_run<Cpx, Field_Zp>(cpx, e, rs, carrier, ctx);
}

// ---------------------------------------------------------------------------------------------------------------
// Trigger of the known finding C02-multifield-erased-row (see findings/C02-multifield-erased-row.md), decided on the
// reference side from the per-prime pairings by index: some cell j (dimension >= 2) is a destroyer with different
// partners over two primes of the range, and a partner a that is not the smallest one is alive, just before j, only
// over primes where j kills it. Persistent_cohomology then erases row a completely and the next destroy_cocycle call
// for the same j re-inserts an explicit zero cell with key a (plus_equal_column keeps zero coefficients), whose row no
// longer exists: null pointer in transverse_idx_[a].row_->push_front().
inline bool multifield_erased_row_trigger(Exposure& e, const std::vector<int>& primes) {
  if (primes.size() < 2) return false;
  std::vector<const ref::Reduction*> rd;
  for (int q : primes) rd.push_back(&e.reduction(q));
  int n = int(e.cells.size());
  for (int j = 0; j < n; ++j) {
    if (e.cells[size_t(j)].dim < 2) continue;
    std::set<int> partners;
    for (auto* r : rd) {
      int a = r->partner[size_t(j)];
      if (a >= 0 && a < j) partners.insert(a);
    }
    if (partners.size() < 2) continue;
    int smallest = *partners.begin();
    for (int a : partners) {
      if (a == smallest) continue;
      bool erased = true;
      for (auto* r : rd) {
        bool creator = r->R[size_t(a)].empty();
        int pa = r->partner[size_t(a)];
        bool alive_before_j = creator && (pa < 0 || pa >= j);
        if (alive_before_j && pa != j) erased = false;
      }
      if (erased) return true;
    }
  }
  return false;
}

// ---------------------------------------------------------------------------------------------------------------
// tape decoding shared by the simplicial and the cubical harness
struct Palette {
  std::vector<double> v;  // sorted ascending
};
// 1..maxn dyadic values; optionally +inf / -inf (rare). Zero tape: the single value 0.
inline Palette decode_palette(vf::Tape& t, unsigned maxn, bool allow_inf) {
  Palette p;
  unsigned n = 1 + t.below(maxn);
  std::set<double> s;
  s.insert(0.0);
  for (unsigned k = 1; k < n; ++k) {
    unsigned char b = t.u8();
    double x = (int(b % 33) - 16) * 0.25;  // -4 .. 4 step 1/4
    if (!s.insert(x).second) s.insert(4.0 + double(k));  // repeats / exhausted tape: a fresh value above the range
  }
  if (allow_inf) {
    unsigned r = t.below(16);
    if (r == 1 || r == 3) s.insert(kInf);
    if (r == 2 || r == 3) s.insert(-kInf);
  }
  p.v.assign(s.begin(), s.end());
  return p;
}

// Expansion of a few tape bytes into many draws (still a pure function of the tape): lets short tapes assign varied
// values to hundreds of cells. splitmix64 finaliser.
inline uint64_t expand(uint64_t seed, uint64_t index) {
  uint64_t z = seed + 0x9E3779B97F4A7C15ULL * (index + 1);
  z = (z ^ (z >> 30)) * 0xBF58476D1CE4E5B9ULL;
  z = (z ^ (z >> 27)) * 0x94D049BB133111EBULL;
  return z ^ (z >> 31);
}

// One run = 4-6 tape bytes (short tapes must still reach varied fields and options). Zero bytes: Z_2, default
// min_interval_length, persistence_dim_max = false.
inline RunSpec decode_run(vf::Tape& t, const Palette& pal, int family_prime, vf::Ctx& ctx, bool* on_second_carrier = nullptr) {
  static const int small[] = {2, 3, 5, 7, 11, 13};
  static const int medium[] = {17, 251, 1009, 1999};
  static const int large[] = {46337, 46327};
  static const int ranges[][2] = {{2, 3}, {2, 7}, {3, 13}, {5, 5}, {2, 2}, {2, 13}, {4, 6}, {3, 5}};
  RunSpec rs;
  const uint32_t n = uint32_t(pal.v.size());
  unsigned kind = unsigned(t.weighted({12, 6, 2, 1}));
  unsigned x = t.u8();
  if (kind == 0) {
    rs.field.p = small[x % 6];
    if (family_prime > 0 && (x / 6) % 2 == 1) rs.field.p = family_prime;
  } else if (kind == 1) {
    rs.field.multi = true;
    rs.field.lo = ranges[x % 8][0];
    rs.field.hi = ranges[x % 8][1];
  } else if (kind == 2) {
    rs.field.p = medium[x % 4];
    if (x >= 16) {  // any prime below 1800
      int q = 3 + 7 * int(x);
      while (!is_prime(q)) --q;
      rs.field.p = q;
    }
  } else {
    rs.field.p = large[x % 2];
    ctx.hit("field:large-prime");
  }
  unsigned y = t.u8();
  switch (y % 12) {
    case 0: case 1: case 2: rs.default_min_len = true; rs.min_len = 0; break;
    case 3: case 4: case 5: case 6: rs.min_len = -1; break;
    case 7: case 8: case 9: {  // a difference of two palette values (so that "length == min" happens), possibly negative
      unsigned z = t.u8();
      double d = pal.v[z % n] - pal.v[(z / n) % n];
      rs.min_len = (d == d) ? d : 0.25;
      break;
    }
    case 10: rs.min_len = kInf; break;
    default: rs.min_len = 0.25 * double((y / 12) % 9); break;
  }
  unsigned w = t.u8();
  rs.dim_max_flag = (w & 1) != 0;
  if (on_second_carrier) *on_second_carrier = ((w >> 1) % 3) == 1;
  // probes for persistent Betti numbers: two palette values (one possibly shifted off the palette), +-inf now and then
  unsigned u = t.u8();
  rs.probes.push_back(pal.v[u % n]);
  rs.probes.push_back(pal.v[(u / n) % n] + (((u >> 6) & 1) ? 0.125 : 0.0));
  if ((w >> 5) == 5) rs.probes.push_back(kInf);
  if ((w >> 5) == 6) rs.probes.push_back(-kInf);
  return rs;
}

// classification shared by both harnesses: non-trivial rule of DESIGN 5/C02 and the torsion counter
inline void classify(Exposure& e, vf::Ctx& ctx, const std::vector<Z>& primes_for_torsion) {
  bool pos_len_high = false;
  if (!primes_for_torsion.empty()) {
    std::vector<std::vector<Bar>> ds;
    for (Z p : primes_for_torsion) ds.push_back(e.all_bars(p));
    for (auto& d : ds)
      for (auto& b : d)
        if (!b.ess && b.dim >= 1 && b.d > b.b) pos_len_high = true;
    bool differ = false;
    for (size_t i = 1; i < ds.size(); ++i)
      if (!(ds[i] == ds[0])) differ = true;
    if (differ) ctx.hit("torsion:diagram-differs-between-primes");
  }
  if (pos_len_high) ctx.hit("finite-interval-dim>=1-positive-length");
  if (e.has_tie) ctx.hit("value-tie");
  if (pos_len_high && e.has_tie) ctx.mark_nontrivial();
}

}  // namespace c02

#endif  // C02_COMMON_H_
