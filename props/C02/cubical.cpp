// C02 - persistent cohomology of cubical carriers: Bitmap_cubical_complex over the plain base and over the base with
// periodic boundary conditions, built from top-cell values or from vertex values. Fields Field_Zp and Multi_field.
// The oracle is the reduction of what the bitmap itself exposes (see common.h); the geometric correctness of that
// exposure is property C13.
#include "common.h"

#include <gudhi/Bitmap_cubical_complex.h>
#include <gudhi/Bitmap_cubical_complex_base.h>
#include <gudhi/Bitmap_cubical_complex_periodic_boundary_conditions_base.h>

namespace {
typedef Gudhi::cubical_complex::Bitmap_cubical_complex_base<double> Base;
typedef Gudhi::cubical_complex::Bitmap_cubical_complex_periodic_boundary_conditions_base<double> PBase;
typedef Gudhi::cubical_complex::Bitmap_cubical_complex<Base> Cub;
typedef Gudhi::cubical_complex::Bitmap_cubical_complex<PBase> PCub;

template <class C>
void run_all(C& cpx, const std::vector<c02::RunSpec>& runs, const std::string& carrier, vf::Ctx& ctx) {
  auto id = [](C&, std::size_t sh) { return sh; };
  c02::Exposure e = c02::expose(cpx, id, ctx);
  VF_CHECK(e.topdim == int(cpx.dimension()), "cubical-dimension", "dimension() = " << cpx.dimension() << ", largest cell dimension " << e.topdim);
  c02::classify(e, ctx, {2, 3});
  for (size_t r = 0; r < runs.size(); ++r) {
    c02::RunSpec rs = runs[r];
    c02::avoid_known_findings(e, rs, ctx);
    ctx.desc << "run " << r << ": " << carrier << " " << rs.str() << " probes";
    for (double v : rs.probes) ctx.desc << " " << c02::fmt(v);
    ctx.desc << "\n";
    c02::check_run_any(cpx, e, rs, carrier, ctx);
  }
}
}  // namespace

namespace vf {
const char* harness_name() { return "C02/cubical"; }

void run_case(Tape& t, Ctx& ctx) {
  // Tape layout: dimension | carrier+input | one byte per direction | palette | value seed | runs | per-cell draws.
  // shape: 1-3 directions (4 now and then), 1-4 top cells per direction, at most ~400 cells
  unsigned d = 1 + unsigned(t.weighted({4, 6, 4, 1}));
  unsigned cb = t.u8();
  unsigned carrier = (cb % 5) < 2 ? 0 : 1;  // 0 plain base, 1 periodic base (mask may be empty)
  bool from_vertices = ((cb / 5) % 2) == 1;
  std::vector<unsigned> n(d);
  std::vector<bool> periodic(d, false);
  size_t cells = 1;
  for (unsigned j = 0; j < d; ++j) {
    unsigned x = t.u8();
    n[j] = 1 + x % 4;
    bool per = carrier == 1 && ((x / 4) % 2) == 1;
    while (n[j] > 1 && cells * (2 * n[j] + 1) > 400) --n[j];
    // periodic directions: at least 2 cells (a regular CW structure needs 3; 2 still is a chain complex and the engine
    // takes it; 1 identifies the two ends of every edge and is left to a rare class)
    if (per && n[j] == 1 && (x / 8) % 8 != 7) per = false;
    periodic[j] = per;
    cells *= per ? 2 * n[j] : 2 * n[j] + 1;
  }
  c02::Palette pal = c02::decode_palette(t, 6, true);
  unsigned sb = t.u8();
  bool seeded = (sb % 3) != 1;  // draws expanded from two tape bytes instead of one byte per value
  uint64_t vseed = seeded ? (t.u8() | (uint64_t(sb) << 8)) : 0;
  unsigned nruns = 1 + t.below(3);
  std::vector<c02::RunSpec> runs;
  for (unsigned r = 0; r < nruns; ++r) runs.push_back(c02::decode_run(t, pal, 0, ctx));
  // values: one per top cell, or one per vertex (n+1 vertices in a plain direction, n in a periodic one)
  std::vector<unsigned> dims(d);
  size_t count = 1;
  for (unsigned j = 0; j < d; ++j) {
    dims[j] = from_vertices ? (periodic[j] ? n[j] : n[j] + 1) : n[j];
    count *= dims[j];
  }
  std::vector<double> vals(count);
  for (size_t i = 0; i < count; ++i)
    vals[i] = seeded ? pal.v[c02::expand(vseed, i) % pal.v.size()] : pal.v[t.below(uint32_t(pal.v.size()))];

  ctx.desc << (carrier ? "periodic base" : "plain base") << " top cells";
  for (unsigned j = 0; j < d; ++j) ctx.desc << " " << n[j] << (periodic[j] ? "p" : "");
  ctx.desc << " input=" << (from_vertices ? "vertices" : "top cells") << " values:";
  for (double v : vals) ctx.desc << " " << c02::fmt(v);
  ctx.desc << "\n";
  bool any_per = false, per1 = false, side1 = false;
  for (unsigned j = 0; j < d; ++j) {
    any_per = any_per || periodic[j];
    per1 = per1 || (periodic[j] && n[j] == 1);
    side1 = side1 || n[j] == 1;
  }
  ctx.hit(carrier ? (any_per ? "cubical:periodic" : "cubical:periodic-class-empty-mask") : "cubical:plain");
  ctx.hit(from_vertices ? "cubical:from-vertices" : "cubical:from-top-cells");
  if (per1) ctx.hit("cubical:periodic-side-1");
  if (side1) ctx.hit("cubical:side-1");
  ctx.hit("cubical:dim" + std::to_string(d));

  if (carrier == 0) {
    Cub cpx(dims, vals, !from_vertices);
    run_all(cpx, runs, "Bitmap_cubical_complex<base>", ctx);
  } else {
    PCub cpx(dims, vals, periodic, !from_vertices);
    run_all(cpx, runs, "Bitmap_cubical_complex<periodic>", ctx);
  }
}
}  // namespace vf
