// C12: flag_complex_collapse_edges returns edges of the input, each with a value >= its input value, and the flag
// filtration they induce on the same vertex set has the same persistence diagram as the flag filtration of the input, in
// every dimension (oracle: ref::clique_complex + ref::reduce over Z_2 and Z_3, independent of GUDHI).
// Build variants (targets): -DGUDHI_COLLAPSE_USE_DENSE_ARRAY (dense neighbour table), -DGUDHI_USE_TBB (tbb::parallel_sort).
#include "vf.h"
#include "complex.h"
#include "reduce.h"

#include <gudhi/Flag_complex_edge_collapser.h>

#include <list>
#include <numeric>

namespace {

struct Edge {
  int a, b;     // logical vertices (indices into labels), a != b, as oriented in the input
  double w;
};

struct Case {
  int n = 0;                   // logical vertices 0..n-1
  std::vector<long> label;     // distinct non-negative labels
  std::vector<Edge> edges;     // input order and orientation
  int cap = -1;                // flag complexes are expanded up to this dimension (-1: completely)
  unsigned types = 0;          // 0 <int,double> 1 <short,float> 2 <long,double> 3 <int,float>
  unsigned call = 0;           // 0 const vector& (documented overload) 1 vector&& + identity delay (python binding)
                               // 2 std::list const&
  int iterations = 1;
};

std::string show(const std::vector<ref::Bar>& v) {
  std::ostringstream o;
  for (size_t i = 0; i < v.size();) {
    size_t j = i;
    while (j < v.size() && v[j] == v[i]) ++j;
    o << " H" << v[i].dim << "[" << v[i].b << "," << v[i].d << ")";
    if (j - i > 1) o << "x" << (j - i);
    i = j;
  }
  return o.str();
}

// ------------------------------------------------------------------------------------------------ oracle
struct Diagram {
  std::vector<ref::Bar> bars;  // positive length, dims <= dim_limit (when >= 0), sorted
  bool truncated = false;      // the expansion stopped at the cap while larger cliques may exist
  int dimension = -1;
  size_t cells = 0;
};

// flag filtration on vertices 0..n-1 (all at vval) with the given weighted edges (logical vertices)
Diagram flag_diagram(int n, double vval, const std::vector<Edge>& edges, int cap, int dim_limit, ref::Z p) {
  ref::Graph g;
  for (int v = 0; v < n; ++v) g.vertices[v] = vval;
  for (auto& e : edges) g.edges[{std::min(e.a, e.b), std::max(e.a, e.b)}] = e.w;
  ref::Complex k = ref::clique_complex(g, cap);
  Diagram d;
  d.cells = k.size();
  d.dimension = k.dimension();
  d.truncated = cap >= 0 && d.dimension >= cap;
  if (d.cells > 6000) throw vf::Discard("oracle-too-large");
  auto order = ref::filtration_order(k);
  auto cells = ref::simplicial_cells(order);
  ref::Reduction red = ref::reduce(cells, p);
  if (cells.size() <= 100) VF_ORACLE(ref::self_check(cells, red), "reference reduction inconsistent (R != B*V)");
  long eu = 0;
  for (auto& pr : red.pairs)
    if (pr.death < 0) eu += (pr.dim % 2 == 0) ? 1 : -1;
  VF_ORACLE(eu == k.euler_characteristic(), "reference reduction: Euler characteristic mismatch");
  for (auto& pr : red.pairs) {
    if (dim_limit >= 0 && pr.dim > dim_limit) continue;
    double b = k.value(order[size_t(pr.birth)]);
    double de = pr.death < 0 ? std::numeric_limits<double>::infinity() : k.value(order[size_t(pr.death)]);
    if (b == de) continue;
    d.bars.push_back(ref::Bar{pr.dim, b, de});
  }
  std::sort(d.bars.begin(), d.bars.end());
  return d;
}

// ------------------------------------------------------------------------------------------------ calling GUDHI
template <class V, class F>
std::vector<Edge> collapse_once(const Case& c, const std::vector<Edge>& in, const std::map<long, int>& logical, vf::Ctx& ctx) {
  typedef std::tuple<V, V, F> FE;
  std::vector<FE> ve;
  for (auto& e : in) ve.emplace_back(V(c.label[size_t(e.a)]), V(c.label[size_t(e.b)]), F(e.w));
  std::vector<FE> out;
  if (c.call == 0) {
    const std::vector<FE>& cref = ve;
    out = Gudhi::collapse::flag_complex_collapse_edges(cref);
  } else if (c.call == 1) {
    out = Gudhi::collapse::flag_complex_collapse_edges(std::move(ve), [](auto const& d) { return d; });
  } else {
    std::list<FE> le(ve.begin(), ve.end());
    out = Gudhi::collapse::flag_complex_collapse_edges(le);
  }
  std::vector<Edge> res;
  for (auto& e : out) {
    long u = long(std::get<0>(e)), v = long(std::get<1>(e));
    auto iu = logical.find(u), iv = logical.find(v);
    VF_CHECK(iu != logical.end() && iv != logical.end(), "not-an-input-edge",
             "output edge (" << u << "," << v << ") uses a vertex that is not in the input");
    res.push_back(Edge{iu->second, iv->second, double(std::get<2>(e))});
  }
  return res;
}

std::vector<Edge> collapse_dispatch(const Case& c, const std::vector<Edge>& in, const std::map<long, int>& logical, vf::Ctx& ctx) {
  switch (c.types) {
    case 0: return collapse_once<int, double>(c, in, logical, ctx);
    case 1: return collapse_once<short, float>(c, in, logical, ctx);
    case 2: return collapse_once<long, double>(c, in, logical, ctx);
    default: return collapse_once<int, float>(c, in, logical, ctx);
  }
}

// ------------------------------------------------------------------------------------------------ generators
template <class F>
int fit(vf::Tape& t, int want, int lo, F per) {
  size_t left = t.size() > t.consumed() ? t.size() - t.consumed() : 0;
  int m = want;
  while (m > lo && size_t(per(m)) > left) --m;
  return m;
}

std::vector<double> palette(unsigned b, unsigned k) {  // k distinct dyadic values (exact in float); negative now and then
  std::vector<double> pal;
  double shift = (b % 16 == 15) ? -3.0 : 0.0;
  for (unsigned i = 0; i < k; ++i) pal.push_back(double(1 + (b + i * (1 + b % 7)) % 39) / 4 + shift);
  return pal;
}

void gen_small(vf::Tape& t, vf::Ctx& ctx, Case& c, bool medium) {
  unsigned b0 = t.u8(), b1 = t.u8();
  static const int kWantS[] = {5, 6, 6, 7, 7, 7, 8, 8, 8, 9, 9, 10, 4, 4, 3, 2};
  static const int kWantM[] = {11, 11, 12, 12, 12, 13, 13, 13, 14, 14, 14, 15, 15, 16, 16, 11};
  int want = (medium ? kWantM : kWantS)[b0 % 16];
  unsigned dens = medium ? 2 + (b0 / 16) % 3 : 1 + (b0 / 16) % 8;  // an edge is present when (byte % 8) < dens
  unsigned k = 1 + (b0 / 128) * 3 + b1 % 3;                        // 1..6 values: ties everywhere
  std::vector<double> pal = palette(b1, k);
  c.n = fit(t, want, 2, [](int m) { return (m * (m - 1) / 2 + 1) / 2; });
  c.cap = c.n <= 10 ? -1 : 5;
  unsigned packed = 0;
  bool have = false;  // one byte decides two pairs: presence, value, orientation
  for (int i = 0; i < c.n; ++i)
    for (int j = i + 1; j < c.n; ++j) {
      if (!have) packed = t.u8();
      unsigned nib = have ? packed / 16 : packed % 16;
      have = !have;
      if (nib % 8 >= dens) continue;
      double w = pal[(nib / 8 + unsigned(i) * 2 + unsigned(j) * 3 + (packed >> 2)) % k];
      if ((nib + unsigned(i + j)) & 1)
        c.edges.push_back(Edge{j, i, w});
      else
        c.edges.push_back(Edge{i, j, w});
    }
  ctx.desc << (medium ? "family=medium" : "family=small");
}

// complete graph on lattice points of the plane weighted by the squared Euclidean distance: a Rips-like filtration,
// where many edges are dominated
void gen_rips(vf::Tape& t, vf::Ctx& ctx, Case& c) {
  unsigned b0 = t.u8();
  static const int kWant[] = {5, 6, 6, 7, 7, 7, 8, 8, 8, 9, 9, 10, 4, 4, 3, 10};
  int want = kWant[b0 % 16];
  unsigned span = 2 + (b0 / 16) % 4;
  unsigned cut = (b0 / 64);  // 0: complete graph; otherwise drop the longest edges
  c.n = fit(t, want, 2, [](int m) { return m; });
  c.cap = -1;
  std::vector<std::pair<int, int>> pts;
  for (int i = 0; i < c.n; ++i) {
    unsigned b = t.u8();
    pts.push_back({int(b % span), int((b / span) % span)});
  }
  int maxw = 0;
  for (int i = 0; i < c.n; ++i)
    for (int j = i + 1; j < c.n; ++j) {
      int dx = pts[size_t(i)].first - pts[size_t(j)].first, dy = pts[size_t(i)].second - pts[size_t(j)].second;
      maxw = std::max(maxw, dx * dx + dy * dy);
    }
  for (int i = 0; i < c.n; ++i)
    for (int j = i + 1; j < c.n; ++j) {
      int dx = pts[size_t(i)].first - pts[size_t(j)].first, dy = pts[size_t(i)].second - pts[size_t(j)].second;
      int w = dx * dx + dy * dy;
      if (cut && w * 4 > maxw * int(4 - cut) + 3) continue;
      c.edges.push_back((i + j) % 3 == 0 ? Edge{j, i, double(w)} : Edge{i, j, double(w)});
    }
  ctx.desc << "family=rips(points";
  for (auto& q : pts) ctx.desc << " " << q.first << "," << q.second;
  ctx.desc << ")";
}

// more than 500 edges, so that tbb::parallel_sort really sorts in parallel: an arithmetic family of graphs on many
// vertices (72..88) with few values (many ties), expanded up to dimension 3 only
void gen_wide(vf::Tape& t, vf::Ctx& ctx, Case& c) {
  unsigned b0 = t.u8(), b1 = t.u8(), b2 = t.u8(), b3 = t.u8();
  c.n = 72 + int(b0 % 17);
  c.cap = 3;
  unsigned m = 11 + b1 % 10, a = 1 + b2 % 11, bq = 1 + (b2 / 11) % 11, cq = b3 % 5;
  unsigned k = 1 + b3 % 4;
  std::vector<double> pal = palette(b1, k);
  // density: keep between ~520 and ~750 edges
  for (unsigned thr = 2; thr <= m; ++thr) {
    c.edges.clear();
    for (int i = 0; i < c.n; ++i)
      for (int j = i + 1; j < c.n; ++j) {
        unsigned hsh = (unsigned(i) * a + unsigned(j) * bq + unsigned(i) * unsigned(j) * cq + unsigned(i + j) / 3) % m;
        if (hsh < thr) c.edges.push_back(Edge{i, j, pal[(unsigned(i) * 3 + unsigned(j) * 5 + hsh) % k]});
      }
    if (c.edges.size() > 520) break;
  }
  ctx.desc << "family=wide(m=" << m << ",a=" << a << ",b=" << bq << ",c=" << cq << ")";
}

}  // namespace

namespace vf {
const char* harness_name() {
  return "C12/collapse"
#ifdef GUDHI_COLLAPSE_USE_DENSE_ARRAY
         "+dense"
#endif
#ifdef GUDHI_USE_TBB
         "+tbb"
#endif
      ;
}

void run_case(Tape& t, Ctx& ctx) {
  Case c;
  unsigned h0 = t.u8(), h1 = t.u8();
  static const unsigned kFam[] = {0, 0, 0, 0, 0, 0, 0, 0, 2, 2, 2, 2, 1, 1, 0, 3};  // small, medium, rips, wide
  unsigned fam = kFam[h0 % 16];
  if (fam == 3 && ((h0 / 16) % 8 != 0 || h1 % 2 != 0)) fam = 0;  // the wide family is expensive: below 1 % of the cases
  c.types = (h0 / 64) % 4;
  c.call = h1 % 3;
  c.iterations = (h1 / 3) % 4 == 3 ? 2 : (h1 / 3) % 16 == 5 ? 3 : 1;
  unsigned label_kind = (h1 / 48) % 5;
  unsigned order_kind = t.u8();
  if (fam == 0)
    gen_small(t, ctx, c, false);
  else if (fam == 1)
    gen_small(t, ctx, c, true);
  else if (fam == 2)
    gen_rips(t, ctx, c);
  else
    gen_wide(t, ctx, c);
  static const char* kFamName[] = {"small", "medium", "rips", "wide"};
  ctx.hit(std::string("family:") + kFamName[fam]);

  // labels: distinct, non-negative; gaps = vertices the collapser sees as isolated
  c.label.resize(size_t(c.n));
  for (int i = 0; i < c.n; ++i) {
    switch (label_kind) {
      case 0: c.label[size_t(i)] = i; break;                             // contiguous
      case 1: c.label[size_t(i)] = c.n - 1 - i; break;                   // reversed
      case 2: c.label[size_t(i)] = 2 * i + 1; break;                     // gaps, 0 unused
      case 3: c.label[size_t(i)] = (long(i) * 7 + 3) % (c.n % 7 == 0 ? c.n + 1 : c.n); break;  // a permutation, possibly one gap
      default: c.label[size_t(i)] = 3 * ((long(i) * 5 + 2) % (c.n % 5 == 0 ? c.n + 1 : c.n)) + (i % 2); break;
    }
  }
  {  // the arithmetic maps above are injective by construction; make sure
    std::set<long> s(c.label.begin(), c.label.end());
    VF_ORACLE(int(s.size()) == c.n && *s.begin() >= 0, "harness: labels not distinct");
  }
  static const char* kLabelName[] = {"contiguous", "reversed", "odd", "permuted", "permuted-with-gaps"};
  ctx.hit(std::string("labels:") + kLabelName[label_kind]);

  // input order of the edges ("no need for the range to be sorted")
  {
    size_t m = c.edges.size();
    std::vector<Edge> e2;
    switch (order_kind % 5) {
      case 0: break;
      case 1: std::reverse(c.edges.begin(), c.edges.end()); break;
      case 2: std::stable_sort(c.edges.begin(), c.edges.end(), [](const Edge& x, const Edge& y) { return x.w < y.w; }); break;
      case 3: std::stable_sort(c.edges.begin(), c.edges.end(), [](const Edge& x, const Edge& y) { return x.w > y.w; }); break;
      default: {
        size_t s = 1 + (order_kind / 5) % 37;
        while (m > 1 && std::gcd(s, m) != 1) ++s;
        for (size_t i = 0; i < m; ++i) e2.push_back(c.edges[(i * s + order_kind) % m]);
        c.edges.swap(e2);
      }
    }
  }
  if (c.edges.empty()) ctx.hit("no-edge");

  static const char* kTypes[] = {"<int,double>", "<short,float>", "<long,double>", "<int,float>"};
  static const char* kCall[] = {"const vector&", "vector&& + identity delay", "const std::list&"};
  ctx.desc << " n=" << c.n << " types=" << kTypes[c.types] << " call=" << kCall[c.call] << " iterations=" << c.iterations
           << " cap=" << c.cap << "\n labels:";
  for (long l : c.label) ctx.desc << " " << l;
  ctx.desc << "\n edges:";
  for (auto& e : c.edges) ctx.desc << " (" << c.label[size_t(e.a)] << "," << c.label[size_t(e.b)] << "):" << e.w;
  ctx.desc << "\n";
  ctx.hit(std::string("types:") + kTypes[c.types]);
  ctx.hit(std::string("call:") + kCall[c.call]);
  ctx.hit("iterations:" + std::to_string(c.iterations));
  ctx.hit(c.edges.size() > 500 ? "edges:>500" : c.edges.size() >= 20 ? "edges:20-500" : c.edges.size() >= 8 ? "edges:8-19" : "edges:<8");

  std::map<long, int> logical;
  for (int i = 0; i < c.n; ++i) logical[c.label[size_t(i)]] = i;
  double vval = 0;
  for (auto& e : c.edges) vval = std::min(vval, e.w);
  vval -= 1;  // common vertex value below all weights ("the filtration value of vertices is irrelevant")

  // ---- reference diagrams of the input
  Diagram in2 = flag_diagram(c.n, vval, c.edges, c.cap, -1, 2);
  int dim_limit = in2.truncated ? c.cap - 1 : -1;  // dimensions that the capped expansion determines
  if (in2.truncated) {
    ctx.hit("expansion-capped");
    std::vector<ref::Bar> keep;
    for (auto& b : in2.bars)
      if (b.dim <= dim_limit) keep.push_back(b);
    in2.bars.swap(keep);
  }
  Diagram in3 = flag_diagram(c.n, vval, c.edges, c.cap, dim_limit, 3);
  if (in2.bars != in3.bars) ctx.hit("torsion:Z2-differs-from-Z3");
  bool high_bar = false;
  for (auto& b : in2.bars) high_bar = high_bar || b.dim >= 1;
  for (auto& b : in3.bars) high_bar = high_bar || b.dim >= 1;
  if (high_bar) ctx.hit("input-has-bar-dim>=1");
  ctx.hit("clique-dimension:" + std::to_string(std::min(in2.dimension, 9)));

  // ---- collapse, possibly several times (the output of one run is a valid input of the next)
  std::vector<Edge> cur = c.edges;
  bool changed = false;
  for (int it = 0; it < c.iterations; ++it) {
    std::vector<Edge> out = collapse_dispatch(c, cur, logical, ctx);
    std::map<std::pair<int, int>, double> inw;
    for (auto& e : cur) inw[{std::min(e.a, e.b), std::max(e.a, e.b)}] = e.w;
    std::set<std::pair<int, int>> seen;
    size_t delayed = 0;
    for (auto& e : out) {
      std::pair<int, int> key{std::min(e.a, e.b), std::max(e.a, e.b)};
      auto f = inw.find(key);
      VF_CHECK(f != inw.end(), "not-an-input-edge",
               "iteration " << it << ": output edge (" << c.label[size_t(e.a)] << "," << c.label[size_t(e.b)] << ") is not an input edge");
      VF_CHECK(seen.insert(key).second, "duplicate-output-edge",
               "iteration " << it << ": edge (" << c.label[size_t(e.a)] << "," << c.label[size_t(e.b)] << ") returned twice");
      VF_CHECK(e.w >= f->second, "value-decreased",
               "iteration " << it << ": edge (" << c.label[size_t(e.a)] << "," << c.label[size_t(e.b)] << ") input " << f->second << " output " << e.w);
      if (e.w > f->second) ++delayed;
    }
    size_t removed = cur.size() - out.size();
    if (removed) ctx.hit("edges-removed");
    if (delayed) ctx.hit("edges-delayed");
    if (removed || delayed) changed = true;
    if (it > 0 && (removed || delayed)) ctx.hit("later-iteration-still-collapses");
    Diagram o2 = flag_diagram(c.n, vval, out, c.cap, dim_limit, 2);
    VF_CHECK(o2.bars == in2.bars, "persistence-Z2",
             "iteration " << it << ": output" << show(o2.bars) << " input" << show(in2.bars));
    Diagram o3 = flag_diagram(c.n, vval, out, c.cap, dim_limit, 3);
    VF_CHECK(o3.bars == in3.bars, "persistence-Z3",
             "iteration " << it << ": output" << show(o3.bars) << " input" << show(in3.bars));
    cur.swap(out);
  }
  if (changed) ctx.hit("collapsed-something");
  if (changed && high_bar) ctx.mark_nontrivial();
}
}  // namespace vf
