// C08: representative cycles of the RU and chain flavours, checked by linear algebra over the field against
// ref::reduce. Included by props/C05/pm_harness.h when PMH_CHECK_CYCLES is defined (member of pmh::Driver<O>).
//
// For a bar (dim, b, d) with returned cycle z (K_i = the first i+1 cells):
//   * every cell of z has dimension dim, the youngest cell of z is b, the boundary of z is zero;
//   * z is not in Z(K_{b-1}) + B(K_{d-1}) (hence in none of the Z(K_{b-1}) + B(K_i), b <= i < d; d = n when infinite);
//   * if d is finite, z is in Z(K_{b-1}) + B(K_d); chain flavour: z is in B(K_d);
//   * for every index i the cycles of the bars alive at i are independent modulo B(K_i) (their number equals the Betti
//     number because the barcode equals the reference barcode).
// Z(K_{b-1}) is spanned by the columns V_j (j < b) of the reference reduction with R_j = 0, B(K_i) by the boundary
// columns B_0..B_i.
#ifndef PM_CYCLES_CHECK_H_
#define PM_CYCLES_CHECK_H_

namespace pmh {

template <class O>
void Driver<O>::check_cycles(const ref::Reduction& r) {
  if constexpr (kRep) {
    size_t n = cells.size();
    auto pos = id_to_pos();

    if constexpr (kRU && !kZ2) {
      // known finding: the Z_p branch of RU_representative_cycles::update_representative_cycles never clears the
      // cycle container, so a second call appends. Trigger: second update on one matrix.
      if (cycles_requested && ctx.excluded("C08-ru-zp-update-appends")) {
        ctx.hit("excluded:C08-ru-zp-update-appends");
        return;
      }
    }
    // the first request may rely on the documented lazy computation; later ones must call update first
    bool explicit_update = cycles_requested || t.flip();
    ctx.desc << "  " << (explicit_update ? "update_representative_cycles + " : "") << "get_representative_cycles\n";
    trace();
    if (explicit_update) m->update_representative_cycles();
    cycles_requested = true;

    // reference U = V^{-1} (needed only to recognise the trigger of the known RU/Z2 finding)
    std::vector<bool> ru_trigger(n, false);
    bool any_trigger = false;
    if constexpr (kRU && kZ2) {
      if (ctx.excluded("C08-ru-z2-cycle-from-u")) {
        // column e of U over Z2: U = V^{-1}, V unit upper triangular; solve V * x = e_e by back substitution
        for (size_t e = 0; e < n; ++e) {
          if (!r.R[e].empty()) continue;
          SVec x, rhs;
          rhs[int(e)] = 1;
          // process rows from e downwards: x_k = rhs_k - sum_{j>k} V[k][j] x_j ; V[k][j] = r.V[j].count(k)
          for (int k = int(e); k >= 0; --k) {
            Z v = rhs.count(k) ? rhs[k] : 0;
            for (auto& kv : x)
              if (kv.first > k && r.V[size_t(kv.first)].count(k)) v = ref::mod_norm(v - r.V[size_t(kv.first)].at(k) * kv.second, p);
            if (v != 0) x[k] = v;
          }
          if (x != r.V[e]) {
            ru_trigger[e] = true;
            any_trigger = true;
          }
        }
        if (any_trigger) ctx.hit("excluded:C08-ru-z2-cycle-from-u");
      }
    }

    // ---- read the bars and their cycles
    struct BarCycle {
      int dim, b, d;
      SVec z;
      std::vector<unsigned> raw;
    };
    std::vector<BarCycle> bcs;
    size_t longest = 0;
    for (const auto& bar : m->get_current_barcode()) {
      BarCycle bc;
      bc.dim = int(bar.dim);
      bc.b = int(bar.birth);
      bc.d = bar.death == M::Bar::inf ? -1 : int(bar.death);
      const auto& cyc = m->get_representative_cycle(bar);
      bc.raw.assign(cyc.begin(), cyc.end());
      std::sort(bc.raw.begin(), bc.raw.end());
      // support -> positions
      std::set<int> support;
      bool dup = false;
      for (unsigned e : bc.raw) {
        auto it = pos.find(e);
        VF_CHECK(it != pos.end(), "cycle_unknown_cell",
                 "bar (" << bc.dim << ":" << bc.b << "," << bc.d << ") cycle contains " << e << " which is no present cell");
        if (!support.insert(it->second).second) {
          dup = true;
          support.erase(it->second);  // over Z2 a repeated cell cancels
        }
      }
      bool dup_excused = false;
      if (dup) {
        // known finding: with HEAP columns the cycle is a dump of the lazy heap (cancelled entries appear twice)
        if (O::column_type == Column_types::HEAP && known("heap-raw-entries")) {
          hit_excluded("heap-raw-entries");
          dup_excused = true;
        } else {
          std::ostringstream o;
          for (unsigned e : bc.raw) o << " " << e;
          VF_CHECK(false, "cycle_repeated_cell",
                   "bar (" << bc.dim << ":" << bc.b << "," << bc.d << ") cycle lists a cell twice:" << o.str());
        }
      }
      if constexpr (kZ2) {
        for (int c : support) bc.z[c] = 1;
      } else {
        // coefficients from the exposed column of the birth cell; its support must be the returned cycle
        SVec coef;
        if constexpr (kChain) {
          coef = read_by_id(m->get_column(handle(size_t(bc.b))), pos, "chain", size_t(bc.b));
        } else {
          coef = read_raw(m->get_column(unsigned(bc.b), false), "U", size_t(bc.b));
        }
        std::set<int> cs;
        for (auto& kv : coef) cs.insert(kv.first);
        VF_CHECK(dup_excused || cs == support, "cycle_support",
                 "bar (" << bc.dim << ":" << bc.b << "," << bc.d << ") returned support differs from the exposed column "
                         << show(coef));
        bc.z = coef;
      }
      longest = std::max(longest, bc.z.size());
      bcs.push_back(bc);
    }
    if (longest >= 4 && r.chained2) big_cycle_and_chain = true;
    if (longest >= 4) ctx.hit("cycle>=4cells");

    // ---- get_representative_cycles() must be exactly the cycles of the bars
    {
      std::vector<std::vector<unsigned>> listed;
      for (const auto& c : m->get_representative_cycles()) {
        std::vector<unsigned> v(c.begin(), c.end());
        std::sort(v.begin(), v.end());
        listed.push_back(v);
      }
      std::vector<std::vector<unsigned>> perbar;
      for (auto& bc : bcs) perbar.push_back(bc.raw);
      std::sort(listed.begin(), listed.end());
      std::sort(perbar.begin(), perbar.end());
      VF_CHECK(listed == perbar, "cycles_list_mismatch",
               "get_representative_cycles() returns " << listed.size() << " cycles, the barcode has " << perbar.size()
                                                     << " bars (or the cycles differ)");
    }

    // ---- per-bar checks
    // incremental spans: ZB[i] is not stored; we rebuild what is needed per bar (n <= 40)
    for (auto& bc : bcs) {
      if (ru_trigger.size() > size_t(bc.b) && ru_trigger[size_t(bc.b)]) continue;  // known finding, see above
      std::string tagbar;
      {
        std::ostringstream o;
        o << "bar (" << bc.dim << ":" << bc.b << "," << bc.d << ") cycle " << show(bc.z);
        tagbar = o.str();
      }
      VF_CHECK(!bc.z.empty(), "cycle_empty", tagbar);
      for (auto& kv : bc.z)
        VF_CHECK(cells[size_t(kv.first)].dim == bc.dim, "cycle_dimension",
                 tagbar << ": cell at position " << kv.first << " has dimension " << cells[size_t(kv.first)].dim);
      VF_CHECK(ref::low(bc.z) == bc.b, "cycle_youngest", tagbar << ": youngest cell is " << ref::low(bc.z));
      SVec dz = ref::boundary_of(bc.z, r.B, p);
      VF_CHECK(dz.empty(), "cycle_not_closed", tagbar << " has boundary " << show(dz));
      // Z(K_{b-1}) + B(K_{last}) with last = d-1 (or n-1)
      ref::Span S(p);
      for (int j = 0; j < bc.b; ++j)
        if (r.R[size_t(j)].empty()) S.add(r.V[size_t(j)]);
      int last = bc.d < 0 ? int(n) - 1 : bc.d - 1;
      for (int j = 0; j <= last; ++j) S.add(r.B[size_t(j)]);
      VF_CHECK(!S.contains(bc.z), "cycle_dead_early",
               tagbar << " is a combination of older cycles and boundaries already in K_" << last);
      // second route for the same statement (ref::in_span on the generating family), oracle self-consistency
      if (n <= 14) {
        std::vector<SVec> fam;
        for (int j = 0; j < bc.b; ++j)
          if (r.R[size_t(j)].empty()) fam.push_back(r.V[size_t(j)]);
        for (int j = 0; j <= last; ++j) fam.push_back(r.B[size_t(j)]);
        VF_ORACLE(!ref::in_span(bc.z, fam, p), "Span and ref::in_span disagree");
      }
      if (bc.d >= 0) {
        S.add(r.B[size_t(bc.d)]);
        VF_CHECK(S.contains(bc.z), "cycle_not_dying",
                 tagbar << " is still independent of older cycles and boundaries in K_" << bc.d);
        if constexpr (kChain) {
          ref::Span Bd(p);
          for (int j = 0; j <= bc.d; ++j) Bd.add(r.B[size_t(j)]);
          VF_CHECK(Bd.contains(bc.z), "cycle_not_boundary_at_death", tagbar << " is not a boundary in K_" << bc.d);
        }
      }
    }

    // ---- basis of H(K_i) at every index
    if (!any_trigger) {
      ref::Span SB(p);
      for (size_t i = 0; i < n; ++i) {
        SB.add(r.B[i]);
        ref::Span S2 = SB;
        size_t alive = 0;
        for (auto& bc : bcs) {
          if (bc.b > int(i) || (bc.d >= 0 && bc.d <= int(i))) continue;
          ++alive;
          VF_CHECK(S2.add(bc.z), "cycle_basis",
                   "at index " << i << " the cycle of bar (" << bc.dim << ":" << bc.b << "," << bc.d
                               << ") depends on the other alive cycles modulo boundaries");
        }
        size_t betti = 0;
        for (auto& kv : ref::betti_at(r, int(i) + 1)) betti += size_t(kv.second);
        VF_ORACLE(alive == betti, "alive bars " << alive << " vs Betti sum " << betti << " at index " << i);
      }
    }
  }
}

}  // namespace pmh

#endif  // PM_CYCLES_CHECK_H_
