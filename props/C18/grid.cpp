// C18 (gridded form): Gudhi::Persistence_representations::Persistence_landscape_on_grid against the definition
// (ref/landscape.h). Diagrams have even-integer end points and the grid has step 1 or 1/2 with integer bounds, so every
// breakpoint of every landscape level is a grid point ("grid-aligned"): the gridded form then *is* the landscape, at and
// between grid points, and all integrals are those of the exact functions.
//
// |f| and the L^p distances are only compared when no level of f changes sign strictly inside a grid cell (the header
// documents that inaccuracy as a FIXME; with step 1/2 and plain differences of landscapes it never happens).
//
// Tolerance for every numeric comparison: |x - y| <= 1e-9 + 1e-9 * max(|x|, |y|).
#include "vf.h"
#include "landscape.h"

#include <gudhi/Persistence_landscape_on_grid.h>

#include <cmath>
#include <limits>
#include <sstream>
#include <string>
#include <vector>

namespace {
namespace rl = ref::landscape;
using Gudhi::Persistence_representations::Persistence_landscape_on_grid;
typedef Persistence_landscape_on_grid Grid;
typedef rl::R R;
typedef std::vector<std::pair<double, double>> GDiagram;

const char* kAtGridPoint = "C18-grid-value-at-grid-point";
const char* kFlatSegment = "C18-grid-lp-integral-skips-flat-segments";
const char* kHeapLevels = "C18-grid-truncated-levels-heap";
const char* kSupNegative = "C18-grid-sup-distance-negative-extra-levels";
const char* kIntAbs = "C18-grid-sup-distance-integer-abs";

bool close(double x, R y) {
  if (!std::isfinite(x)) return false;
  R d = std::fabs(R(x) - y);
  return d <= 1e-9L + 1e-9L * std::max(std::fabs(R(x)), std::fabs(y));
}

struct Case {
  vf::Ctx& ctx;
  bool at_grid_points;  // also call compute_value_at_a_given_point exactly on the grid points
  int gmin, gmax;   // grid bounds (integers)
  int per_unit;     // grid points per unit: 1 or 2
  unsigned npts;    // number_of_points_ passed to the constructor (= number of cells)
  unsigned max_levels;
  R dx() const { return R(1) / R(per_unit); }
};

// values at the grid points through vectorize(level) (the stored gridded form) for every level < number of grid points,
// values at and between grid points through compute_value_at_a_given_point
void check_pointwise(Case& cs, const char* tag, const std::string& what, const Grid& g, const rl::Func& f) {
  vf::Ctx& ctx = cs.ctx;
  unsigned top = std::max(cs.max_levels, f.levels) + 2;
  for (unsigned k = 0; k < top && k < cs.npts + 1; ++k) {
    std::vector<double> v = g.vectorize(int(k));
    VF_CHECK(v.size() == cs.npts + 1, tag, what << ": vectorize(" << k << ") has " << v.size() << " entries for " << cs.npts + 1 << " grid points");
    for (unsigned i = 0; i <= cs.npts; ++i) {
      R t = R(cs.gmin) + R(i) * cs.dx();
      VF_CHECK(close(v[i], f.value(k, t)), tag,
               what << ": vectorize(" << k << ")[" << i << "] (t=" << double(t) << ") = " << v[i] << " expected " << double(f.value(k, t)));
    }
  }
  bool skip_grid_points = !cs.at_grid_points;
  if (cs.at_grid_points && ctx.excluded(kAtGridPoint)) {
    ctx.hit(std::string("excluded:") + kAtGridPoint);
    skip_grid_points = true;
  }
  for (unsigned k = 0; k < top; ++k) {
    // quarter steps from one unit before the grid to one unit after it
    for (int q = -4 * cs.per_unit; q <= int(4 * cs.npts) + 4 * cs.per_unit; ++q) {
      bool on_grid_point = q >= 0 && q <= int(4 * cs.npts) && q % 4 == 0;
      if (on_grid_point && skip_grid_points) continue;
      R t = R(cs.gmin) + R(q) * cs.dx() / 4;
      double got = g.compute_value_at_a_given_point(k, double(t));
      R want = f.value(k, t);
      VF_CHECK(close(got, want), on_grid_point ? "value_at_grid_point" : tag,
               what << ": level " << k << " at t=" << double(t) << (on_grid_point ? " (grid point)" : "") << " got " << got
                    << " expected " << double(want));
    }
  }
}

// no level changes sign strictly inside a grid cell
bool sign_changes_on_grid_only(const Case& cs, const rl::Func& f) {
  for (unsigned k = 0; k < f.levels; ++k)
    for (unsigned i = 0; i < cs.npts; ++i) {
      R u = f.value(k, R(cs.gmin) + R(i) * cs.dx()), v = f.value(k, R(cs.gmin) + R(i + 1) * cs.dx());
      if ((u < 0 && v > 0) || (u > 0 && v < 0)) return false;
    }
  return true;
}
// some level is constant and non-zero on a grid cell
bool has_flat_nonzero_cell(const Case& cs, const rl::Func& f) {
  for (unsigned k = 0; k < f.levels; ++k)
    for (unsigned i = 0; i < cs.npts; ++i) {
      R u = f.value(k, R(cs.gmin) + R(i) * cs.dx()), v = f.value(k, R(cs.gmin) + R(i + 1) * cs.dx());
      if (u == v && u != 0) return true;
    }
  return false;
}

// Known finding C18-grid-sup-distance-negative-extra-levels: at a grid point where one operand stores more levels than
// the other, compute_max_norm_distance_of_landscapes takes the raw value (not its absolute value) of the extra levels.
// A gridded landscape stores at grid point i as many levels as there are intervals whose tent is positive there.
bool sup_negative_trigger(const Case& cs, const rl::Func& f1, const rl::Func& f2) {
  for (unsigned i = 0; i <= cs.npts; ++i) {
    R t = R(cs.gmin) + R(i) * cs.dx();
    for (unsigned k = 0; k < std::max(f1.levels, f2.levels); ++k) {
      R a = f1.value(k, t), b = f2.value(k, t);
      if ((a < 0 && b == 0) || (b < 0 && a == 0)) return true;  // conservative: a negative value facing a zero one
    }
  }
  return false;
}

// Known finding C18-grid-sup-distance-integer-abs: the same function calls the unqualified abs(), which resolves to the
// C function abs(int) unless a header that exports std::abs to the global namespace happens to be included first: the
// difference is truncated towards zero. Trigger (conservative): some level differs by a non-integer at a grid point.
bool int_abs_trigger(const Case& cs, const rl::Func& f1, const rl::Func& f2) {
  for (unsigned i = 0; i <= cs.npts; ++i) {
    R t = R(cs.gmin) + R(i) * cs.dx();
    for (unsigned k = 0; k < std::max(f1.levels, f2.levels); ++k) {
      R d = f1.value(k, t) - f2.value(k, t);
      if (d != std::floor(d)) return true;
    }
  }
  return false;
}

const double kScalars[] = {1, -1, 0.5, 3, -2, 0};
const double kInf = std::numeric_limits<double>::max();

}  // namespace

namespace vf {
const char* harness_name() { return "C18/grid"; }

void run_case(Tape& t, Ctx& ctx) {
  bool at_grid_points = t.u8() % 4 != 3;
  unsigned nd = 1 + t.below(3);
  int offset = t.flip() ? -8 : 0;
  unsigned psize = 2 + t.below(5);
  std::vector<int> pal;
  for (unsigned i = 0; i < psize; ++i) pal.push_back(2 * int(t.below(11)) + offset);
  std::vector<GDiagram> gd(nd);
  std::vector<rl::Diagram> rd(nd);
  int lo = offset, hi = offset + 2;
  bool shared_endpoint = false, level1 = false;
  for (unsigned i = 0; i < nd; ++i) {
    unsigned n = t.chance(1, 4) ? t.below(9) : t.below(5);
    ctx.desc << "D" << i << ":";
    for (unsigned j = 0; j < n; ++j) {
      int b = pal[t.below(psize)], d = pal[t.below(psize)];
      if (b > d) std::swap(b, d);
      if (b == d) d = b + 2 * (1 + int(t.below(3)));
      for (auto& o : gd[i])
        if (o.first == b || o.second == d) shared_endpoint = true;
      gd[i].push_back({double(b), double(d)});
      rd[i].push_back({R(b), R(d)});
      lo = std::min(lo, b);
      hi = std::max(hi, d);
      ctx.desc << " (" << b << "," << d << ")";
    }
    ctx.desc << "\n";
    if (rl::nonzero_levels(rd[i]) >= 2) level1 = true;
  }
  Case cs{ctx, at_grid_points, 0, 0, 1, 0, 0};
  cs.per_unit = t.flip() ? 2 : 1;
  cs.gmin = lo - 2 * int(t.below(2));
  cs.gmax = hi + 2 * int(t.below(2));
  cs.npts = unsigned((cs.gmax - cs.gmin) * cs.per_unit);
  for (auto& d : rd) cs.max_levels = std::max<unsigned>(cs.max_levels, unsigned(d.size()));
  ctx.desc << (at_grid_points ? "" : "(compute_value_at_a_given_point is not called on grid points)\n");
  ctx.desc << "grid [" << cs.gmin << "," << cs.gmax << "] step " << (cs.per_unit == 2 ? "1/2" : "1") << " (number_of_points=" << cs.npts << ")\n";
  if (shared_endpoint) ctx.hit("shared_birth_or_death");
  if (level1) ctx.hit("level>=1_nonzero");
  if (shared_endpoint && level1) ctx.mark_nontrivial();
  ctx.hit(cs.per_unit == 2 ? "step_1/2" : "step_1");
  ctx.hit((cs.gmin == lo || cs.gmax == hi) ? "tight_grid_side" : "grid_with_margins");
  R h = cs.dx();

  // ---- construction and values --------------------------------------------------------------------------------
  std::vector<Grid> L;
  std::vector<rl::Func> F;
  for (unsigned i = 0; i < nd; ++i) {
    L.emplace_back(gd[i], double(cs.gmin), double(cs.gmax), size_t(cs.npts));
    F.push_back(rl::of_diagram(rd[i]));
    VF_ORACLE(rl::linear_on_cells(F.back(), h), "landscape oracle: a level is not linear on the grid cells");
    std::ostringstream w;
    w << "gridded landscape of D" << i;
    check_pointwise(cs, "value", w.str(), L[i], F[i]);
    VF_CHECK(close(L[i].compute_integral_of_landscape(), rl::integral(F[i], h)), "integral",
             w.str() << ": compute_integral_of_landscape() = " << L[i].compute_integral_of_landscape() << " expected "
                     << double(rl::integral(F[i], h)));
    for (unsigned k = 0; k < rd[i].size() + 2; ++k)
      VF_CHECK(close(L[i].compute_integral_of_landscape(size_t(k)), rl::integral_level(F[i], k, h)), "integral_level",
               w.str() << ": level " << k << " integral " << L[i].compute_integral_of_landscape(size_t(k)) << " expected "
                       << double(rl::integral_level(F[i], k, h)));
    VF_CHECK(close(L[i].compute_integral_of_landscape(2.0), rl::integral_square(F[i], h)), "integral_p2",
             w.str() << ": compute_integral_of_landscape(2.0) = " << L[i].compute_integral_of_landscape(2.0) << " expected "
                     << double(rl::integral_square(F[i], h)));
  }
  // truncated construction: the first `nl` levels must be the same functions
  if (t.chance(1, 3)) {
    unsigned nl = 1 + t.below(3);
    bool trigger = nl >= 2 && rl::nonzero_levels(rd[0]) > nl;
    if (trigger && ctx.excluded(kHeapLevels)) {
      ctx.hit(std::string("excluded:") + kHeapLevels);
    } else {
      ctx.desc << "truncated: D0 with number_of_levels=" << nl << "\n";
      Grid T(gd[0], double(cs.gmin), double(cs.gmax), size_t(cs.npts), nl);
      for (unsigned k = 0; k < nl && k < cs.npts + 1; ++k) {
        std::vector<double> v = T.vectorize(int(k));
        for (unsigned i = 0; i <= cs.npts; ++i) {
          R x = R(cs.gmin) + R(i) * h;
          VF_CHECK(close(v[i], F[0].value(k, x)), "value_truncated",
                   "number_of_levels=" << nl << ": level " << k << " at grid point t=" << double(x) << " got " << v[i]
                                       << " expected " << double(F[0].value(k, x)));
        }
      }
      ctx.hit("truncated_construction");
    }
  }

  const Grid &A = L[0], &B = L[1 % nd], &C = L[2 % nd];
  const rl::Func &FA = F[0], &FB = F[1 % nd], &FC = F[2 % nd];

  // ---- algebra ---------------------------------------------------------------------------------------------------
  double s1 = kScalars[t.below(6)], s2 = kScalars[t.below(6)];
  unsigned form = t.below(4);
  Grid E;
  rl::Func FE;
  switch (form) {
    case 0:
      ctx.desc << "E = A + B\n";
      E = A + B;
      FE = rl::combine(1, FA, 1, FB);
      break;
    case 1:
      ctx.desc << "E = A - B\n";
      E = A - B;
      FE = rl::combine(1, FA, -1, FB);
      break;
    case 2:
      ctx.desc << "E = " << s1 << "*A + B*" << s2 << "\n";
      E = s1 * A + B * s2;
      FE = rl::combine(s1, FA, s2, FB);
      break;
    default:
      ctx.desc << "E = A; E += B; E *= " << s1 << "; E -= C; E /= 2\n";
      E = A;
      E += B;
      E *= s1;
      E -= C;
      E /= 2;
      FE = rl::combine(0.5L, rl::combine(s1, FA, s1, FB), -0.5L, FC);
      break;
  }
  VF_ORACLE(rl::linear_on_cells(FE, h), "landscape oracle: a combination is not linear on the grid cells");
  check_pointwise(cs, "algebra", "E", E, FE);
  VF_CHECK(close(E.compute_integral_of_landscape(), rl::integral(FE, h)), "integral_of_combination",
           "compute_integral_of_landscape() of E = " << E.compute_integral_of_landscape() << " expected " << double(rl::integral(FE, h)));
  if (sign_changes_on_grid_only(cs, FE)) {
    Grid absE = E;
    absE.abs();
    rl::Func FabsE = rl::absolute(FE);
    check_pointwise(cs, "abs", "|E|", absE, FabsE);
    VF_CHECK(close(absE.compute_integral_of_landscape(), rl::integral_abs(FE, h)), "integral_of_abs",
             "integral of |E| = " << absE.compute_integral_of_landscape() << " expected " << double(rl::integral_abs(FE, h)));
    if (has_flat_nonzero_cell(cs, FE) && ctx.excluded(kFlatSegment)) {
      ctx.hit(std::string("excluded:") + kFlatSegment);
    } else {
      VF_CHECK(close(absE.compute_integral_of_landscape(2.0), rl::integral_square(FE, h)), "integral_p2_of_abs",
               "integral of |E|^2 = " << absE.compute_integral_of_landscape(2.0) << " expected " << double(rl::integral_square(FE, h)));
    }
    ctx.hit("abs_checked");
  } else {
    ctx.hit("abs_skipped:sign_change_inside_a_cell");
  }
  {
    Grid av;
    std::vector<Grid*> ptrs;
    std::vector<Grid> copies(L.begin(), L.end());
    for (auto& c : copies) ptrs.push_back(&c);
    av.compute_average(ptrs);
    rl::Func Fav = rl::scale(R(1) / R(nd), F[0]);
    for (unsigned i = 1; i < nd; ++i) Fav = rl::combine(1, Fav, R(1) / R(nd), F[i]);
    check_pointwise(cs, "average", "average of the diagrams' landscapes", av, Fav);
  }

  // ---- distances ---------------------------------------------------------------------------------------------------
  struct Operand {
    const char* name;
    Grid* g;
    const rl::Func* f;
  };
  std::vector<Grid> copies(L.begin(), L.end());
  Grid Ecopy = E;
  bool with_combo = t.chance(1, 3);
  std::vector<Operand> ops = {{"A", &copies[0], &FA}, {"B", &copies[1 % nd], &FB}, {"C", &copies[2 % nd], &FC}};
  if (with_combo) {
    ops[1] = Operand{"E", &Ecopy, &FE};
    ctx.hit("distance_with_a_linear_combination");
    ctx.desc << "distances / inner products on (A, E, C)\n";
  }
  const int ps[3] = {1, 2, 0};
  for (int p : ps) {
    double gp = p == 0 ? kInf : double(p);
    const char* pn = p == 0 ? "sup" : (p == 1 ? "L1" : "L2");
    double dg[3][3];
    bool have[3][3];
    for (int i = 0; i < 3; ++i)
      for (int j = 0; j < 3; ++j) {
        rl::Func diff = rl::combine(1, *ops[i].f, -1, *ops[j].f);
        have[i][j] = false;
        if (p != 0 && !sign_changes_on_grid_only(cs, diff)) {
          ctx.hit("distance_skipped:sign_change_inside_a_cell");
          continue;
        }
        if (p == 2 && has_flat_nonzero_cell(cs, diff) && ctx.excluded(kFlatSegment)) {
          ctx.hit(std::string("excluded:") + kFlatSegment);
          continue;
        }
        if (p == 0 && ctx.excluded(kIntAbs) && int_abs_trigger(cs, *ops[i].f, *ops[j].f)) {
          ctx.hit(std::string("excluded:") + kIntAbs);
          continue;
        }
        if (p == 0 && ctx.excluded(kSupNegative) && sup_negative_trigger(cs, *ops[i].f, *ops[j].f)) {
          ctx.hit(std::string("excluded:") + kSupNegative);
          continue;
        }
        have[i][j] = true;
        dg[i][j] = ops[i].g->distance(*ops[j].g, gp);
        R want = rl::distance(*ops[i].f, *ops[j].f, p, h);
        VF_CHECK(close(dg[i][j], want), with_combo ? "distance_combination" : "distance",
                 pn << " distance(" << ops[i].name << "," << ops[j].name << ") = " << dg[i][j] << " expected " << double(want));
      }
    for (int i = 0; i < 3; ++i) {
      if (have[i][i])
        VF_CHECK(std::fabs(dg[i][i]) <= 1e-9, "distance_self", pn << " distance(" << ops[i].name << "," << ops[i].name << ") = " << dg[i][i]);
      for (int j = 0; j < 3; ++j) {
        if (have[i][j] && have[j][i])
          VF_CHECK(std::fabs(dg[i][j] - dg[j][i]) <= 1e-9 * (1 + std::fabs(dg[i][j])), "distance_symmetry",
                   pn << " d(" << ops[i].name << "," << ops[j].name << ")=" << dg[i][j] << " but reversed " << dg[j][i]);
        for (int k = 0; k < 3; ++k)
          if (have[i][k] && have[i][j] && have[j][k])
            VF_CHECK(dg[i][k] <= dg[i][j] + dg[j][k] + 1e-9 * (1 + dg[i][k]), "triangle_inequality",
                     pn << " d(" << ops[i].name << "," << ops[k].name << ")=" << dg[i][k] << " > " << dg[i][j] << " + " << dg[j][k]);
      }
    }
  }
  // ---- inner product ---------------------------------------------------------------------------------------------
  {
    double ip[3][3];
    for (int i = 0; i < 3; ++i)
      for (int j = 0; j < 3; ++j) {
        ip[i][j] = ops[i].g->compute_scalar_product(*ops[j].g);
        R want = rl::inner_product(*ops[i].f, *ops[j].f, h);
        VF_CHECK(close(ip[i][j], want), with_combo ? "inner_product_combination" : "inner_product",
                 "<" << ops[i].name << "," << ops[j].name << "> = " << ip[i][j] << " expected " << double(want));
      }
    for (int i = 0; i < 3; ++i)
      for (int j = 0; j < 3; ++j)
        VF_CHECK(std::fabs(ip[i][j] - ip[j][i]) <= 1e-9 * (1 + std::fabs(ip[i][j])), "inner_product_symmetry",
                 "<" << ops[i].name << "," << ops[j].name << ">=" << ip[i][j] << " reversed " << ip[j][i]);
    Grid lin = s1 * A + s2 * B;
    Grid Cc = C, Ac = A, Bc = B;
    double lhs = lin.compute_scalar_product(Cc);
    double rhs = s1 * Ac.compute_scalar_product(Cc) + s2 * Bc.compute_scalar_product(Cc);
    VF_CHECK(std::fabs(lhs - rhs) <= 1e-9 * (1 + std::fabs(lhs) + std::fabs(rhs)), "inner_product_bilinear",
             "<" << s1 << "A+" << s2 << "B, C> = " << lhs << " but " << s1 << "<A,C>+" << s2 << "<B,C> = " << rhs);
  }
}
}  // namespace vf
