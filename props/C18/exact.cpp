// C18 (exact piecewise-linear form): Gudhi::Persistence_representations::Persistence_landscape against the definition
// (ref/landscape.h: k-th largest tent value, pointwise algebra, exact cell-wise integrals in long double).
//
// Tape: number of diagrams (1..3), offset, palette of even integers, then per diagram its size and (birth, death)
// picks from the palette (so that repeated, nested and touching intervals and shared births/deaths are the norm);
// then the algebra / distance choices. All end points are even integers, so every breakpoint of every landscape level
// is an integer, every value at a dyadic point is exact, and linear combinations are linear on unit cells.
//
// Tolerance for every numeric comparison: |x - y| <= 1e-9 + 1e-9 * max(|x|, |y|).
#include "vf.h"
#include "landscape.h"

#include <gudhi/Persistence_landscape.h>

#include <cmath>
#include <limits>
#include <sstream>
#include <string>
#include <vector>

namespace {
namespace rl = ref::landscape;
using Gudhi::Persistence_representations::Persistence_landscape;
typedef rl::R R;
typedef std::vector<std::pair<double, double>> GDiagram;

bool close(double x, R y) {
  if (!std::isfinite(x)) return false;
  R d = std::fabs(R(x) - y);
  return d <= 1e-9L + 1e-9L * std::max(std::fabs(R(x)), std::fabs(y));
}

struct Case {
  vf::Ctx& ctx;
  int lo, hi;                 // range of all end points of the case
  std::vector<R> extra_points;  // dyadic points drawn from the tape
  unsigned max_levels;
};

// pointwise comparison at every half-integer of [lo-2, hi+2], at the extra dyadic points, for levels 0 .. levels+1
void check_pointwise(Case& cs, const char* tag, const std::string& what, const Persistence_landscape& g, const rl::Func& f) {
  vf::Ctx& ctx = cs.ctx;
  unsigned top = std::max(cs.max_levels, f.levels) + 2;
  for (unsigned k = 0; k < top; ++k) {
    for (int h = 2 * (cs.lo - 2); h <= 2 * (cs.hi + 2); ++h) {
      R t = R(h) / 2;
      double got = g.compute_value_at_a_given_point(k, double(t));
      R want = f.value(k, t);
      VF_CHECK(close(got, want), tag, what << ": level " << k << " at t=" << double(t) << " got " << got << " expected " << double(want));
    }
    for (R t : cs.extra_points) {
      double got = g.compute_value_at_a_given_point(k, double(t));
      R want = f.value(k, t);
      VF_CHECK(close(got, want), tag, what << ": level " << k << " at t=" << double(t) << " got " << got << " expected " << double(want));
    }
  }
}

// Known finding C18-sup-distance-negative-extra-levels: compute_maximal_distance_non_symmetric takes the raw ordinate
// (not its absolute value) on the levels that only one operand has. Trigger: max-norm distance, one operand has more
// levels than the other and is negative somewhere on one of those extra levels.
const char* kSupNegative = "C18-sup-distance-negative-extra-levels";
bool negative_beyond(const rl::Func& f, unsigned from, int lo, int hi) {
  for (unsigned k = from; k < f.levels; ++k)
    for (int x = lo; x <= hi; ++x)
      if (f.value(k, R(x)) < 0) return true;
  return false;
}
bool sup_negative_trigger(const Persistence_landscape& g1, const rl::Func& f1, const Persistence_landscape& g2,
                          const rl::Func& f2, int lo, int hi) {
  unsigned m = unsigned(std::min(g1.size(), g2.size()));
  return (g1.size() > m && negative_beyond(f1, m, lo, hi)) || (g2.size() > m && negative_beyond(f2, m, lo, hi));
}

const double kScalars[] = {1, -1, 0.5, 3, -2, 0};
const double kInf = std::numeric_limits<double>::max();

}  // namespace

namespace vf {
const char* harness_name() { return "C18/exact"; }

void run_case(Tape& t, Ctx& ctx) {
  unsigned nd = 1 + t.below(3);
  int offset = t.flip() ? -8 : 0;
  unsigned psize = 2 + t.below(5);
  std::vector<int> pal;
  for (unsigned i = 0; i < psize; ++i) pal.push_back(2 * int(t.below(11)) + offset);
  std::vector<GDiagram> gd(nd);
  std::vector<rl::Diagram> rd(nd);
  int lo = offset, hi = offset + 2;
  bool shared_endpoint = false, level1 = false;
  for (unsigned i = 0; i < nd; ++i) {
    unsigned n = t.chance(1, 4) ? t.below(9) : t.below(5);
    ctx.desc << "D" << i << ":";
    for (unsigned j = 0; j < n; ++j) {
      int b = pal[t.below(psize)], d = pal[t.below(psize)];
      if (b > d) std::swap(b, d);
      if (b == d) d = b + 2 * (1 + int(t.below(3)));
      for (auto& o : gd[i])
        if (o.first == b || o.second == d) shared_endpoint = true;
      gd[i].push_back({double(b), double(d)});
      rd[i].push_back({R(b), R(d)});
      lo = std::min(lo, b);
      hi = std::max(hi, d);
      ctx.desc << " (" << b << "," << d << ")";
    }
    ctx.desc << "\n";
    if (rl::nonzero_levels(rd[i]) >= 2) level1 = true;
  }
  Case cs{ctx, lo, hi, {}, 0};
  unsigned nx = t.below(4);
  for (unsigned i = 0; i < nx; ++i) cs.extra_points.push_back(R(lo - 2) + R(t.below(unsigned(8 * (hi - lo + 4)) + 1)) / 8);
  for (auto& d : rd) cs.max_levels = std::max<unsigned>(cs.max_levels, unsigned(d.size()));
  if (shared_endpoint) ctx.hit("shared_birth_or_death");
  if (level1) ctx.hit("level>=1_nonzero");
  if (shared_endpoint && level1) ctx.mark_nontrivial();
  ctx.hit(nd == 1 ? "1_diagram" : (nd == 2 ? "2_diagrams" : "3_diagrams"));

  // ---- construction and values --------------------------------------------------------------------------------
  std::vector<Persistence_landscape> L;
  std::vector<rl::Func> F;
  for (unsigned i = 0; i < nd; ++i) {
    L.emplace_back(gd[i]);
    F.push_back(rl::of_diagram(rd[i]));
    VF_ORACLE(rl::linear_on_cells(F.back(), 1), "landscape oracle: a level is not linear on unit cells");
    std::ostringstream w;
    w << "landscape of D" << i;
    check_pointwise(cs, "value", w.str(), L[i], F[i]);
    unsigned nz = rl::nonzero_levels(rd[i]);
    ctx.hit(L[i].size() == nz ? "size()=number_of_nonzero_levels" : "size()!=number_of_nonzero_levels");
    // integrals of the landscape itself
    VF_CHECK(close(L[i].compute_integral_of_landscape(), rl::integral(F[i], 1)), "integral",
             w.str() << ": compute_integral_of_landscape() = " << L[i].compute_integral_of_landscape() << " expected "
                     << double(rl::integral(F[i], 1)));
    for (unsigned k = 0; k < rd[i].size() + 2; ++k)
      VF_CHECK(close(L[i].compute_integral_of_a_level_of_a_landscape(k), rl::integral_level(F[i], k, 1)), "integral_level",
               w.str() << ": level " << k << " integral " << L[i].compute_integral_of_a_level_of_a_landscape(k)
                       << " expected " << double(rl::integral_level(F[i], k, 1)));
    VF_CHECK(close(L[i].compute_integral_of_landscape(2.0), rl::integral_square(F[i], 1)), "integral_p2",
             w.str() << ": compute_integral_of_landscape(2) = " << L[i].compute_integral_of_landscape(2.0) << " expected "
                     << double(rl::integral_square(F[i], 1)));
    // vectorize(k) lists the ordinates of the breakpoints of level k: its maximum is sup lambda_k (attained at an integer)
    for (unsigned k = 0; k < L[i].size(); ++k) {
      std::vector<double> v = L[i].vectorize(int(k));
      double m = 0;
      for (double y : v) m = std::max(m, y);
      R want = 0;
      for (int x = lo; x <= hi; ++x) want = std::max(want, F[i].value(k, R(x)));
      VF_CHECK(close(m, want), "vectorize_max", w.str() << ": max of vectorize(" << k << ") = " << m << " expected " << double(want));
    }
  }
  // truncated construction: the first `nl` levels must be the same functions
  if (t.chance(1, 3)) {
    unsigned nl = 1 + t.below(3);
    ctx.desc << "truncated: D0 with number_of_levels=" << nl << "\n";
    Persistence_landscape T(gd[0], nl);
    for (unsigned k = 0; k < nl; ++k)
      for (int h = 2 * (lo - 2); h <= 2 * (hi + 2); ++h) {
        R x = R(h) / 2;
        double got = T.compute_value_at_a_given_point(k, double(x));
        VF_CHECK(close(got, F[0].value(k, x)), "value_truncated",
                 "number_of_levels=" << nl << ": level " << k << " at t=" << double(x) << " got " << got << " expected "
                                     << double(F[0].value(k, x)));
      }
    ctx.hit("truncated_construction");
  }

  const Persistence_landscape &A = L[0], &B = L[1 % nd], &C = L[2 % nd];
  const rl::Func &FA = F[0], &FB = F[1 % nd], &FC = F[2 % nd];

  // ---- algebra ---------------------------------------------------------------------------------------------------
  double s1 = kScalars[t.below(6)], s2 = kScalars[t.below(6)];
  unsigned form = t.below(4);
  Persistence_landscape E;
  rl::Func FE;
  switch (form) {
    case 0:
      ctx.desc << "E = A + B\n";
      E = A + B;
      FE = rl::combine(1, FA, 1, FB);
      break;
    case 1:
      ctx.desc << "E = A - B\n";
      E = A - B;
      FE = rl::combine(1, FA, -1, FB);
      break;
    case 2:
      ctx.desc << "E = " << s1 << "*A + B*" << s2 << "\n";
      E = s1 * A + B * s2;
      FE = rl::combine(s1, FA, s2, FB);
      break;
    default:
      ctx.desc << "E = A; E += B; E *= " << s1 << "; E -= C; E /= 2\n";
      E = A;
      E += B;
      E *= s1;
      E -= C;
      E /= 2;
      FE = rl::combine(0.5L, rl::combine(s1, FA, s1, FB), -0.5L, FC);
      break;
  }
  VF_ORACLE(rl::linear_on_cells(FE, 1), "landscape oracle: a combination is not linear on unit cells");
  check_pointwise(cs, "algebra", "E", E, FE);
  VF_CHECK(close(E.compute_integral_of_landscape(), rl::integral(FE, 1)), "integral_of_combination",
           "compute_integral_of_landscape() of E = " << E.compute_integral_of_landscape() << " expected " << double(rl::integral(FE, 1)));
  {
    Persistence_landscape Ecopy = E;
    Persistence_landscape absE = Ecopy.abs();
    rl::Func FabsE = rl::absolute(FE);
    check_pointwise(cs, "abs", "|E|", absE, FabsE);
    VF_CHECK(close(absE.compute_integral_of_landscape(), rl::integral_abs(FE, 1)), "integral_of_abs",
             "integral of |E| = " << absE.compute_integral_of_landscape() << " expected " << double(rl::integral_abs(FE, 1)));
    VF_CHECK(close(absE.compute_integral_of_landscape(2.0), rl::integral_square(FE, 1)), "integral_p2_of_abs",
             "integral of |E|^2 = " << absE.compute_integral_of_landscape(2.0) << " expected " << double(rl::integral_square(FE, 1)));
    check_pointwise(cs, "abs_modified_its_argument", "E after abs()", Ecopy, FE);
  }
  {
    Persistence_landscape av;
    std::vector<Persistence_landscape*> ptrs;
    std::vector<Persistence_landscape> copies(L.begin(), L.end());
    for (auto& c : copies) ptrs.push_back(&c);
    av.compute_average(ptrs);
    rl::Func Fav = rl::scale(R(1) / R(nd), F[0]);
    for (unsigned i = 1; i < nd; ++i) Fav = rl::combine(1, Fav, R(1) / R(nd), F[i]);
    check_pointwise(cs, "average", "average of the diagrams' landscapes", av, Fav);
  }

  // ---- distances ---------------------------------------------------------------------------------------------------
  struct Operand {
    const char* name;
    const Persistence_landscape* g;
    const rl::Func* f;
  };
  bool with_combo = t.chance(1, 3);
  std::vector<Operand> ops = {{"A", &A, &FA}, {"B", &B, &FB}, {"C", &C, &FC}};
  if (with_combo) {
    ops[1] = Operand{"E", &E, &FE};
    ctx.hit("distance_with_a_linear_combination");
    ctx.desc << "distances / inner products on (A, E, C)\n";
  }
  const int ps[3] = {1, 2, 0};
  for (int p : ps) {
    double gp = p == 0 ? kInf : double(p);
    const char* pn = p == 0 ? "sup" : (p == 1 ? "L1" : "L2");
    double dg[3][3];
    for (int i = 0; i < 3; ++i)
      for (int j = 0; j < 3; ++j) {
        R want = rl::distance(*ops[i].f, *ops[j].f, p, 1);
        if (p == 0 && ctx.excluded(kSupNegative) && sup_negative_trigger(*ops[i].g, *ops[i].f, *ops[j].g, *ops[j].f, lo, hi)) {
          ctx.hit(std::string("excluded:") + kSupNegative);
          dg[i][j] = double(want);  // keeps the law checks below meaningful for the other pairs
          continue;
        }
        dg[i][j] = ops[i].g->distance(*ops[j].g, gp);
        VF_CHECK(close(dg[i][j], want), with_combo ? "distance_combination" : "distance",
                 pn << " distance(" << ops[i].name << "," << ops[j].name << ") = " << dg[i][j] << " expected " << double(want));
      }
    if (p == 0) {
      // not asserted: the friend compute_distance_of_landscapes(first, second, p) is documented \private and its own
      // "p == infinity" branch (maximum of level 0 of |first - second| only) is unreachable through distance(), which
      // diverts p >= DBL_MAX to compute_max_norm_distance_of_landscapes. Only measured.
      double priv = compute_distance_of_landscapes(*ops[0].g, *ops[2].g, kInf);
      ctx.hit(close(priv, rl::distance(*ops[0].f, *ops[2].f, 0, 1)) ? "private_lp_routine_with_p=max:agrees_with_sup"
                                                                      : "private_lp_routine_with_p=max:differs_from_sup");
    }
    for (int i = 0; i < 3; ++i) {
      VF_CHECK(std::fabs(dg[i][i]) <= 1e-9, "distance_self", pn << " distance(" << ops[i].name << "," << ops[i].name << ") = " << dg[i][i]);
      for (int j = 0; j < 3; ++j) {
        VF_CHECK(std::fabs(dg[i][j] - dg[j][i]) <= 1e-9 * (1 + std::fabs(dg[i][j])), "distance_symmetry",
                 pn << " d(" << ops[i].name << "," << ops[j].name << ")=" << dg[i][j] << " but reversed " << dg[j][i]);
        for (int k = 0; k < 3; ++k)
          VF_CHECK(dg[i][k] <= dg[i][j] + dg[j][k] + 1e-9 * (1 + dg[i][k]), "triangle_inequality",
                   pn << " d(" << ops[i].name << "," << ops[k].name << ")=" << dg[i][k] << " > " << dg[i][j] << " + " << dg[j][k]);
      }
    }
  }
  // ---- inner product ---------------------------------------------------------------------------------------------
  {
    double ip[3][3];
    for (int i = 0; i < 3; ++i)
      for (int j = 0; j < 3; ++j) {
        ip[i][j] = ops[i].g->compute_scalar_product(*ops[j].g);
        R want = rl::inner_product(*ops[i].f, *ops[j].f, 1);
        VF_CHECK(close(ip[i][j], want), with_combo ? "inner_product_combination" : "inner_product",
                 "<" << ops[i].name << "," << ops[j].name << "> = " << ip[i][j] << " expected " << double(want));
      }
    for (int i = 0; i < 3; ++i)
      for (int j = 0; j < 3; ++j)
        VF_CHECK(std::fabs(ip[i][j] - ip[j][i]) <= 1e-9 * (1 + std::fabs(ip[i][j])), "inner_product_symmetry",
                 "<" << ops[i].name << "," << ops[j].name << ">=" << ip[i][j] << " reversed " << ip[j][i]);
    // bilinearity: <s1*A + s2*B, C> = s1<A,C> + s2<B,C>
    Persistence_landscape lin = s1 * A + s2 * B;
    double lhs = lin.compute_scalar_product(C);
    double rhs = s1 * A.compute_scalar_product(C) + s2 * B.compute_scalar_product(C);
    VF_CHECK(std::fabs(lhs - rhs) <= 1e-9 * (1 + std::fabs(lhs) + std::fabs(rhs)), "inner_product_bilinear",
             "<" << s1 << "A+" << s2 << "B, C> = " << lhs << " but " << s1 << "<A,C>+" << s2 << "<B,C> = " << rhs);
  }
}
}  // namespace vf
