// C04: flag (clique) expansions build exactly the clique complex, by every route.
// One option set per binary (-DCFG=n). Oracle: brute-force clique enumeration (ref::clique_complex) and a brute-force
// "largest subcomplex without blocked simplex" model; nothing of GUDHI is used on the oracle side.
#include "vf.h"
#include "complex.h"
#include "st_compare.h"

#include <gudhi/Simplex_tree.h>
#include <gudhi/Rips_complex.h>
#include <gudhi/graph_simplicial_complex.h>

#include <boost/graph/adjacency_list.hpp>

#include <algorithm>
#include <climits>
#include <cmath>
#include <limits>
#include <map>
#include <set>
#include <vector>

#ifndef CFG
#define CFG 0
#endif

namespace c04 {

struct Opt_fast_cofaces : Gudhi::Simplex_tree_options_default {
  static const bool link_nodes_by_label = true;
};

#if CFG == 0
typedef Gudhi::Simplex_tree_options_default Opt;
static const char* kName = "C04/flag[default]";
#elif CFG == 1
typedef Gudhi::Simplex_tree_options_full_featured Opt;
static const char* kName = "C04/flag[full_featured]";
#define C04_LINKED 1
#elif CFG == 2
typedef Opt_fast_cofaces Opt;
static const char* kName = "C04/flag[fast_cofaces]";
#define C04_LINKED 1
#elif CFG == 3
typedef Gudhi::Simplex_tree_options_fast_persistence Opt;
static const char* kName = "C04/flag[fast_persistence]";
#elif CFG == 4
typedef Gudhi::Simplex_tree_options_minimal Opt;
static const char* kName = "C04/flag[minimal]";
#else
#error "unknown CFG"
#endif

typedef Gudhi::Simplex_tree<Opt> ST;
typedef ST::Vertex_handle VH;
typedef ST::Filtration_value FV;
typedef ST::Simplex_handle SH;
static const bool kLinked = Opt::link_nodes_by_label;
static const bool kContig = Opt::contiguous_vertices;
static const bool kFilt = Opt::store_filtration;

// ---------------------------------------------------------------------------------------------------------------
// A user-side one-skeleton graph with arbitrary vertex labels: model of the part of VertexAndEdgeListGraph +
// PropertyGraph that the documentation of insert_graph asks for (vertex_descriptor == Vertex_handle).
struct LEdge {
  VH u, v;
  FV f;
};
struct LGraph {
  std::vector<VH> verts;
  std::vector<FV> vfil;  // parallel to verts
  std::vector<LEdge> es;
  FV vertex_value(VH v) const {
    for (size_t i = 0; i < verts.size(); ++i)
      if (verts[i] == v) return vfil[i];
    return FV(0);
  }
};
inline std::pair<std::vector<VH>::const_iterator, std::vector<VH>::const_iterator> vertices(const LGraph& g) {
  return std::make_pair(g.verts.begin(), g.verts.end());
}
inline std::pair<std::vector<LEdge>::const_iterator, std::vector<LEdge>::const_iterator> edges(const LGraph& g) {
  return std::make_pair(g.es.begin(), g.es.end());
}
inline size_t num_vertices(const LGraph& g) { return g.verts.size(); }
inline size_t num_edges(const LGraph& g) { return g.es.size(); }
inline VH source(const LEdge& e, const LGraph&) { return e.u; }
inline VH target(const LEdge& e, const LGraph&) { return e.v; }
inline FV get(Gudhi::vertex_filtration_t, const LGraph& g, VH v) { return g.vertex_value(v); }
inline FV get(Gudhi::edge_filtration_t, const LGraph&, const LEdge& e) { return e.f; }
struct LGraph_traversal : boost::vertex_list_graph_tag, boost::edge_list_graph_tag {};

}  // namespace c04

namespace boost {
template <>
struct graph_traits<c04::LGraph> {
  typedef c04::VH vertex_descriptor;
  typedef c04::LEdge edge_descriptor;
  typedef directed_tag directed_category;
  typedef allow_parallel_edge_tag edge_parallel_category;
  typedef c04::LGraph_traversal traversal_category;
  typedef std::vector<c04::VH>::const_iterator vertex_iterator;
  typedef std::vector<c04::LEdge>::const_iterator edge_iterator;
  typedef size_t vertices_size_type;
  typedef size_t edges_size_type;
  typedef size_t degree_size_type;
  static vertex_descriptor null_vertex() { return -1; }
};
}  // namespace boost

namespace c04 {

typedef boost::adjacency_list<boost::vecS, boost::vecS, boost::directedS,
                              boost::property<Gudhi::vertex_filtration_t, FV>,
                              boost::property<Gudhi::edge_filtration_t, FV>>
    BGraphD;
typedef boost::adjacency_list<boost::vecS, boost::vecS, boost::undirectedS,
                              boost::property<Gudhi::vertex_filtration_t, FV>,
                              boost::property<Gudhi::edge_filtration_t, FV>>
    BGraphU;

// ---------------------------------------------------------------------------------------------------------------
// Deterministic blocking predicates on vertex sets (sorted). Never block a simplex with fewer than 3 vertices: the
// documented oracle is only consulted on candidates inserted by the expansion (dimension >= 2).
struct Pred {
  int kind = 0;  // 0 never, 1 hash, 2 contains pair, 3 dimension, 4 always
  uint32_t salt = 0;
  uint32_t k = 2;
  ref::Vertex a = 0, b = 0;
  int dim = 2;
  bool operator()(const ref::Simplex& s) const {
    if (s.size() < 3) return false;
    switch (kind) {
      case 0: return false;
      case 1: {
        uint64_t h = 1469598103934665603ULL ^ salt;
        for (auto v : s) {
          h ^= uint64_t(v) + 0x9E3779B97F4A7C15ULL;
          h *= 1099511628211ULL;
          h ^= h >> 29;
        }
        return (h >> 7) % k == 0;
      }
      case 2: return std::binary_search(s.begin(), s.end(), a) && std::binary_search(s.begin(), s.end(), b);
      case 3: return int(s.size()) - 1 == dim;
      default: return true;
    }
  }
  std::string str() const {
    std::ostringstream o;
    switch (kind) {
      case 0: o << "never"; break;
      case 1: o << "hash(salt=" << salt << ")%" << k << "==0"; break;
      case 2: o << "contains{" << a << "," << b << "}"; break;
      case 3: o << "dim==" << dim; break;
      default: o << "always";
    }
    return o.str();
  }
};

// full = clique complex up to dimension d. Result: largest subcomplex of `full` containing no blocked simplex;
// candidates = the simplices on which the documented algorithm consults the oracle (dim >= 2, all proper faces kept).
ref::Complex blocked_model(const ref::Complex& full, const Pred& p, std::set<ref::Simplex>* candidates) {
  std::vector<ref::Simplex> by_dim = full.simplices();
  std::stable_sort(by_dim.begin(), by_dim.end(),
                   [](const ref::Simplex& x, const ref::Simplex& y) { return x.size() < y.size(); });
  ref::Complex kept;
  for (auto& s : by_dim) {
    if (s.size() <= 2) {
      kept.s[s] = full.value(s);
      continue;
    }
    bool faces = true;
    for (auto& f : ref::facets(s)) faces = faces && kept.contains(f);
    if (!faces) continue;
    if (candidates) candidates->insert(s);
    if (!p(s)) kept.s[s] = full.value(s);
  }
  // second route: a simplex survives iff none of its faces (itself included) is blocked
  ref::Complex kept2;
  for (auto& kv : full.s) {
    bool ok = true;
    for (auto& f : ref::all_faces(kv.first)) ok = ok && !p(f);
    if (ok) kept2.s[kv.first] = kv.second;
  }
  VF_ORACLE(kept == kept2, "blocked_model: incremental and face-wise definitions disagree");
  VF_ORACLE(kept.is_closed(), "blocked_model: result is not a complex");
  return kept;
}

struct Item {  // a vertex (u == v) or an edge (u < v) with its value
  ref::Vertex u, v;
  double f;
  bool is_vertex() const { return u == v; }
};

// ---------------------------------------------------------------------------------------------------------------
struct Case {
  vf::Tape& t;
  vf::Ctx& ctx;
  ref::Graph g;
  std::vector<ref::Vertex> labels;

  Case(vf::Tape& tape, vf::Ctx& c) : t(tape), ctx(c) {}

  static const double* palette_table(size_t* n) {
    static const double tab[] = {0, 1, 2, 0.5, 3, 1.5, 4, -1, 0.125, 7, 2.5, -0.25,
                                 std::numeric_limits<double>::infinity()};
    *n = sizeof(tab) / sizeof(tab[0]);
    return tab;
  }

  std::vector<double> draw_palette(bool nonneg) {
    size_t ntab;
    const double* tab = palette_table(&ntab);
    std::vector<double> pal;
    unsigned np = 1 + t.below(4);
    for (unsigned i = 0; i < np; ++i) {
      double v = kFilt ? tab[t.below(uint32_t(ntab))] : 0.0;
      if (nonneg && v < 0) v = -v;
      pal.push_back(v);
    }
    return pal;
  }

  void draw_labels(unsigned n) {
    labels.clear();
    unsigned lm = kContig ? 0 : unsigned(t.weighted({5, 4, 2, 1}));
    if (lm == 0) {
      for (unsigned i = 0; i < n; ++i) labels.push_back(i);
      ctx.hit("labels:contiguous");
    } else if (lm == 1) {
      long long cur = t.below(5);
      for (unsigned i = 0; i < n; ++i) {
        labels.push_back(cur);
        cur += 1 + t.below(8);
      }
      ctx.hit("labels:sparse");
    } else if (lm == 2) {
      long long cur = -40 + (long long)t.below(30);
      for (unsigned i = 0; i < n; ++i) {
        if (cur == -1) cur = 0;  // -1 is null_vertex()
        labels.push_back(cur);
        cur += 1 + t.below(12);
      }
      ctx.hit("labels:negative");
    } else {
      // extremes of the Vertex_handle type
      long long lo = std::numeric_limits<VH>::min(), hi = std::numeric_limits<VH>::max();
      unsigned nlow = t.below(n + 1);
      for (unsigned i = 0; i < nlow; ++i) labels.push_back(lo + i * (1 + (long long)t.below(3)));
      for (unsigned i = nlow; i < n; ++i) labels.push_back(hi - (n - 1 - i));
      std::sort(labels.begin(), labels.end());
      labels.erase(std::unique(labels.begin(), labels.end()), labels.end());
      ctx.hit("labels:extreme");
    }
  }

  void draw_graph() {
    static const unsigned n_table[] = {0, 3, 4, 5, 6, 2, 7, 8, 1, 5, 6, 7};
    unsigned n = n_table[t.below(12)];
    draw_labels(n);
    n = unsigned(labels.size());
    std::vector<double> pal = draw_palette(false);
    std::vector<double> vv(n);
    for (unsigned i = 0; i < n; ++i) {
      vv[i] = pal[t.below(uint32_t(pal.size()))];
      g.vertices[labels[i]] = vv[i];
    }
    static const unsigned thr[] = {64, 40, 24, 12, 52};
    unsigned th = thr[t.below(5)];
    for (unsigned i = 0; i < n; ++i)
      for (unsigned j = i + 1; j < n; ++j) {
        unsigned b = t.u8();
        if ((b >> 2) < th) {
          double ev = std::max(pal[(b & 3) % pal.size()], std::max(vv[i], vv[j]));
          g.edges[{labels[i], labels[j]}] = ev;
        }
      }
    ctx.desc << "graph: vertices";
    for (auto& kv : g.vertices) ctx.desc << " " << kv.first << "@" << stc::fmt(kv.second);
    ctx.desc << "\n edges";
    for (auto& kv : g.edges) ctx.desc << " (" << kv.first.first << "," << kv.first.second << ")@" << stc::fmt(kv.second);
    ctx.desc << "\n";
  }

  // Known finding C04-expansion-empty-dimension: expansion(max_dim >= 2) of a tree without any vertex leaves
  // dimension() == 0 instead of -1. While it is listed, the dimension of that one case is not compared.
  bool check_dim(bool tree_was_empty_when_expanded, int d) {
    if (tree_was_empty_when_expanded && d >= 2 && ctx.excluded("C04-expansion-empty-dimension")) {
      ctx.hit("excluded:C04-expansion-empty-dimension");
      return false;
    }
    return true;
  }

  // ------------------------------------------------------------------------------------------- insert_graph
  void do_insert_graph(ST& st, const ref::Graph& gr, const char* where) {
    bool contiguous = true;
    {
      long long k = 0;
      for (auto& kv : gr.vertices) contiguous = contiguous && kv.first == k++;
    }
    unsigned how = contiguous ? unsigned(t.weighted({2, 1, 1})) : 0;
    if (how == 0) {
      LGraph lg;
      for (auto& kv : gr.vertices) {
        lg.verts.push_back(VH(kv.first));
        lg.vfil.push_back(FV(kv.second));
      }
      // iteration order of the vertices is not specified by the graph concept: rotate/reverse
      if (!lg.verts.empty()) {
        unsigned rot = t.below(uint32_t(lg.verts.size()));
        std::rotate(lg.verts.begin(), lg.verts.begin() + rot, lg.verts.end());
        std::rotate(lg.vfil.begin(), lg.vfil.begin() + rot, lg.vfil.end());
        if (t.flip()) {
          std::reverse(lg.verts.begin(), lg.verts.end());
          std::reverse(lg.vfil.begin(), lg.vfil.end());
        }
      }
      unsigned orient = t.below(4);  // 0 u<v, 1 v<u, 2 alternate, 3 both orientations (same value)
      size_t idx = 0;
      for (auto& kv : gr.edges) {
        VH a = VH(kv.first.first), b = VH(kv.first.second);
        FV f = FV(kv.second);
        bool swap = orient == 1 || (orient == 2 && (idx & 1));
        lg.es.push_back(swap ? LEdge{b, a, f} : LEdge{a, b, f});
        if (orient == 3) lg.es.push_back(LEdge{b, a, f});
        ++idx;
      }
      if (t.flip()) std::reverse(lg.es.begin(), lg.es.end());
      ctx.desc << " " << where << ": insert_graph(custom graph, orient=" << orient << ")\n";
      ctx.hit("insert_graph:custom");
      st.insert_graph(lg);
    } else if (how == 1) {
      BGraphD bg(gr.vertices.size());
      for (auto& kv : gr.vertices) boost::put(Gudhi::vertex_filtration_t(), bg, size_t(kv.first), FV(kv.second));
      bool rev = t.flip();
      for (auto& kv : gr.edges) {
        if (rev)
          boost::add_edge(size_t(kv.first.second), size_t(kv.first.first), FV(kv.second), bg);
        else
          boost::add_edge(size_t(kv.first.first), size_t(kv.first.second), FV(kv.second), bg);
      }
      ctx.desc << " " << where << ": insert_graph(adjacency_list directedS, reversed=" << rev << ")\n";
      ctx.hit("insert_graph:boost-directed");
      st.insert_graph(bg);
    } else {
      BGraphU bg(gr.vertices.size());
      for (auto& kv : gr.vertices) boost::put(Gudhi::vertex_filtration_t(), bg, size_t(kv.first), FV(kv.second));
      for (auto& kv : gr.edges) boost::add_edge(size_t(kv.first.second), size_t(kv.first.first), FV(kv.second), bg);
      ctx.desc << " " << where << ": insert_graph(adjacency_list undirectedS)\n";
      ctx.hit("insert_graph:boost-undirected");
      st.insert_graph(bg);
    }
  }

  // ------------------------------------------------------------------------------------------- routes 1, 2, 5
  void route_expansion(int d, const ref::Complex& want) {
    ST st;
    do_insert_graph(st, g, "route1");
    stc::compare(st, ref::clique_complex(g, 1), ctx, "graph", "after insert_graph");
    ctx.desc << " route1: expansion(" << d << ")\n";
    st.expansion(d);
    stc::compare(st, want, ctx, "exp", "insert_graph+expansion", 0.0, check_dim(g.vertices.empty(), d));
    ctx.hit("route:expansion");
  }

  Pred draw_pred(int d) {
    Pred p;
    p.kind = 1 + int(t.weighted({4, 3, 2, 1}));
    p.salt = t.u8();
    p.k = 2 + t.below(7);
    if (!labels.empty()) {
      p.a = labels[t.below(uint32_t(labels.size()))];
      p.b = labels[t.below(uint32_t(labels.size()))];
    }
    p.dim = 2 + int(t.below(uint32_t(std::max(1, d - 1))));
    return p;
  }

  // returns true when the case is non-trivial for blockers (something blocked, something kept in a higher dimension)
  bool route_blockers(int d, const ref::Complex& full, const Pred& p) {
    std::set<ref::Simplex> candidates;
    ref::Complex want = blocked_model(full, p, &candidates);
    ST st;
    do_insert_graph(st, g, "route2");
    ctx.desc << " route2: expansion_with_blockers(" << d << ", " << p.str() << ")\n";
    std::vector<std::pair<ref::Simplex, double>> calls;
    st.expansion_with_blockers(d, [&](SH sh) {
      ref::Simplex s = stc::vertices_of(st, sh);
      calls.emplace_back(s, double(st.filtration(sh)));
      return p(s);
    });
    std::string tag = p.kind == 0 ? "noblock" : "block";
    stc::compare(st, want, ctx, tag, "expansion_with_blockers(" + p.str() + ")");
    // the oracle contract: consulted exactly on the candidates, each once, with the max of the faces' values
    std::set<ref::Simplex> seen;
    int min_blocked_dim = 1000;
    for (auto& c : calls) {
      VF_CHECK(candidates.count(c.first) != 0, tag + "-oracle-call-not-candidate",
               "oracle consulted on " << ref::to_string(c.first) << " which is not a candidate (" << p.str() << ")");
      VF_CHECK(seen.insert(c.first).second, tag + "-oracle-call-twice", "oracle consulted twice on " << ref::to_string(c.first));
      VF_CHECK(c.second == full.value(c.first), tag + "-oracle-call-value",
               "value seen by the oracle on " << ref::to_string(c.first) << " is " << stc::fmt(c.second) << " want "
                                              << stc::fmt(full.value(c.first)));
      if (p(c.first)) min_blocked_dim = std::min(min_blocked_dim, int(c.first.size()) - 1);
    }
    VF_CHECK(seen.size() == candidates.size(), tag + "-oracle-call-missing",
             "oracle consulted on " << seen.size() << " simplices, " << candidates.size() << " candidates");
    ctx.hit(p.kind == 0 ? "route:blockers-never" : "route:blockers-blocking");
    if (want.size() != full.size()) ctx.hit("blockers:something-removed");
    return min_blocked_dim < 1000 && want.dimension() > min_blocked_dim;
  }

  // ------------------------------------------------------------------------------------------- route 3
#ifdef C04_LINKED
  std::vector<Item> items_of(const ref::Graph& gr) {
    std::vector<Item> v;
    for (auto& kv : gr.vertices) v.push_back({kv.first, kv.first, kv.second});
    for (auto& kv : gr.edges) v.push_back({kv.first.first, kv.first.second, kv.second});
    return v;
  }

  // One insert_edge_as_flag call, checked against the model difference.
  void flag_step(ST& st, ref::Graph& cur, ref::Complex& cur_model, const Item& it, int md,
                 std::vector<SH>& added, bool values_exact, const char* where) {
    if (it.is_vertex())
      cur.vertices[it.u] = it.f;
    else
      cur.edges[{it.u, it.v}] = it.f;
    ref::Complex next = ref::clique_complex(cur, md);
    std::map<ref::Simplex, double> want_new;
    for (auto& kv : next.s)
      if (!cur_model.contains(kv.first)) want_new[kv.first] = kv.second;
    for (auto& kv : cur_model.s) VF_ORACLE(next.contains(kv.first), "flag_step: model lost a simplex");
    bool fresh_vector = t.chance(1, 4);
    std::vector<SH> local;
    std::vector<SH>& out = fresh_vector ? local : added;
    size_t before = out.size();
    bool swap = t.flip();
    VH a = VH(swap ? it.v : it.u), b = VH(swap ? it.u : it.v);
    st.insert_edge_as_flag(a, b, FV(it.f), md, out);
    VF_CHECK(out.size() >= before, "flag-added-shrunk", where << ": added_simplices shrank");
    std::set<ref::Simplex> got_new;
    for (size_t i = before; i < out.size(); ++i) {
      VF_CHECK(out[i] != st.null_simplex(), "flag-added-null", where << ": null handle in added_simplices");
      ref::Simplex s = stc::vertices_of(st, out[i]);
      VF_CHECK(got_new.insert(s).second, "flag-added-duplicate",
               where << ": " << ref::to_string(s) << " reported twice for (" << it.u << "," << it.v << ")");
      VF_CHECK(want_new.count(s) != 0, "flag-added-extra",
               where << ": " << ref::to_string(s) << " reported as added by (" << it.u << "," << it.v << ") but is not new");
      if (values_exact)
        VF_CHECK(double(st.filtration(out[i])) == want_new[s], "flag-added-model-value",
                 where << ": " << ref::to_string(s) << " want " << stc::fmt(want_new[s]));
    }
    VF_CHECK(got_new.size() == want_new.size(), "flag-added-missing",
             where << ": insertion of (" << it.u << "," << it.v << ") reported " << got_new.size() << " new simplices, the model has "
                   << want_new.size());
    if (want_new.size() >= 4) ctx.hit("flag:step-adds>=4");
    cur_model = next;
  }

  void route_flag_sorted(int md, const ref::Complex& want) {
    std::vector<Item> items = items_of(g);
    std::vector<std::pair<unsigned, size_t>> key(items.size());
    for (size_t i = 0; i < items.size(); ++i) key[i] = {t.u8(), i};
    std::vector<size_t> ord(items.size());
    for (size_t i = 0; i < ord.size(); ++i) ord[i] = i;
    std::sort(ord.begin(), ord.end(), [&](size_t x, size_t y) {
      if (items[x].f != items[y].f) return items[x].f < items[y].f;
      if (items[x].is_vertex() != items[y].is_vertex()) return items[x].is_vertex();
      return key[x] < key[y];
    });
    ctx.desc << " route3a: insert_edge_as_flag(dim_max=" << md << ") in filtration order:";
    for (size_t i : ord) ctx.desc << " (" << items[i].u << "," << items[i].v << ")";
    ctx.desc << "\n";
    ST st;
    ref::Graph cur;
    ref::Complex cur_model;
    std::vector<SH> added;
    unsigned full_every = 1 + t.below(4);
    unsigned step = 0;
    for (size_t i : ord) {
      flag_step(st, cur, cur_model, items[i], md, added, true, "route3a");
      if (++step % full_every == 0 && cur_model.size() <= 120)
        stc::compare(st, cur_model, ctx, "flag", "after sorted insertion step " + std::to_string(step));
    }
    VF_ORACLE(cur_model == want, "route_flag_sorted: incremental model differs from the one-shot model");
    stc::compare(st, want, ctx, "flag", "insert_edge_as_flag in filtration order");
    ctx.hit("route:flag-sorted");
  }

  // any order in which every edge comes after its two vertices, followed by make_filtration_non_decreasing
  void insert_any_order(ST& st, ref::Graph& cur, ref::Complex& cur_model, std::vector<Item> rest, int md,
                        const char* where) {
    std::vector<std::pair<unsigned, size_t>> key(rest.size());
    for (size_t i = 0; i < rest.size(); ++i) key[i] = {t.u8(), i};
    std::sort(key.begin(), key.end());
    std::vector<Item> seq;
    std::set<ref::Vertex> have;
    for (auto& kv : cur.vertices) have.insert(kv.first);
    std::map<ref::Vertex, double> vval;
    for (auto& it : rest)
      if (it.is_vertex()) vval[it.u] = it.f;
    for (auto& kk : key) {
      const Item& it = rest[kk.second];
      if (it.is_vertex()) {
        if (have.insert(it.u).second) seq.push_back(it);
      } else {
        for (ref::Vertex x : {it.u, it.v})
          if (have.insert(x).second) seq.push_back({x, x, vval.at(x)});
        seq.push_back(it);
      }
    }
    ctx.desc << " " << where << ": insert_edge_as_flag(dim_max=" << md << ") in order:";
    for (auto& it : seq) ctx.desc << " (" << it.u << "," << it.v << ")";
    ctx.desc << " then make_filtration_non_decreasing\n";
    std::vector<SH> added;
    for (auto& it : seq) flag_step(st, cur, cur_model, it, md, added, false, where);
    st.make_filtration_non_decreasing();
  }

  void route_flag_any_order(int md, const ref::Complex& want) {
    ST st;
    ref::Graph cur;
    ref::Complex cur_model;
    insert_any_order(st, cur, cur_model, items_of(g), md, "route3b");
    VF_ORACLE(cur_model == want, "route_flag_any_order: incremental model differs from the one-shot model");
    stc::compare(st, want, ctx, "flagmfnd", "insert_edge_as_flag in any order + make_filtration_non_decreasing");
    ctx.hit("route:flag-any-order");
  }

  // expansion of a sub-graph, then the remaining vertices and edges incrementally
  void route_flag_mixed(int md, const ref::Complex& want) {
    ref::Graph part;
    std::vector<Item> rest;
    for (auto& kv : g.vertices) {
      if (t.chance(3, 4))
        part.vertices[kv.first] = kv.second;
      else
        rest.push_back({kv.first, kv.first, kv.second});
    }
    for (auto& kv : g.edges) {
      bool both = part.vertices.count(kv.first.first) && part.vertices.count(kv.first.second);
      if (both && t.flip())
        part.edges[kv.first] = kv.second;
      else
        rest.push_back({kv.first.first, kv.first.second, kv.second});
    }
    int d = md < 0 ? int(std::max<size_t>(2, g.vertices.size())) : md;
    ST st;
    ctx.desc << " route3c: sub-graph with " << part.vertices.size() << " vertices, " << part.edges.size() << " edges\n";
    do_insert_graph(st, part, "route3c");
    st.expansion(d);
    ref::Complex cur_model = ref::clique_complex(part, md);
    bool cd = check_dim(part.vertices.empty(), d);
    stc::compare(st, cur_model, ctx, "exp", "route3c expansion of the sub-graph", 0.0, cd);
    insert_any_order(st, part, cur_model, rest, md, "route3c");
    VF_ORACLE(cur_model == want, "route_flag_mixed: incremental model differs from the one-shot model");
    stc::compare(st, want, ctx, "flagmixed", "expansion of a sub-graph + insert_edge_as_flag + make_filtration_non_decreasing",
                 0.0, cd || !g.vertices.empty());
    ctx.hit("route:flag-mixed");
  }

#endif  // C04_LINKED

  // ------------------------------------------------------------------------------------------- graph group
  void run_graph_group() {
    draw_graph();
    static const int md_table[] = {2, 1, 3, 0, 4, 5, 6, -1};
    int md = md_table[t.below(8)];
    if (md == -1 && !kLinked) md = 3;  // -1 (no limit) is documented for insert_edge_as_flag only
    ctx.desc << "max_dim " << md << "\n";
    int clique_number = ref::clique_complex(g, -1).dimension() + 1;
    ctx.hit("clique_number:" + std::to_string(std::min(clique_number, 5)) + (clique_number >= 5 ? "+" : ""));
    ctx.hit("max_dim:" + std::to_string(md));
    bool has_edges = !g.edges.empty();
    bool nt = clique_number >= 4 && (md >= 2 || md == -1);

    if (md >= 1 || (md == 0 && !has_edges)) {
      ref::Complex want = ref::clique_complex(g, md);
      VF_ORACLE(want.is_closed() && want.is_monotone(), "clique model not a monotone complex");
      route_expansion(md, want);
      Pred never;
      route_blockers(md, want, never);
      unsigned npred = unsigned(t.weighted({1, 2, 1}));
      for (unsigned k = 0; k < npred; ++k) {
        Pred p = draw_pred(md);
        if (route_blockers(md, want, p)) {
          ctx.hit("blockers:nontrivial");
          ctx.mark_nontrivial();
        }
      }
    } else if (md == 0) {
      // The one-skeleton is already of dimension 1: nothing may be added by either expansion, and they must agree.
      ref::Complex skeleton = ref::clique_complex(g, 1);
      route_expansion(0, skeleton);
      if (ctx.excluded("C04-blockers-maxdim0")) {
        ctx.hit("excluded:C04-blockers-maxdim0");
      } else {
        ST st;
        do_insert_graph(st, g, "route2");
        ctx.desc << " route2: expansion_with_blockers(0, never)\n";
        st.expansion_with_blockers(0, [&](SH) { return false; });
        stc::compare(st, skeleton, ctx, "blockers-maxdim0", "expansion_with_blockers(0, never) vs expansion(0)");
        ctx.hit("route:blockers-maxdim0");
      }
    }
#ifdef C04_LINKED
    {
      ref::Complex want = ref::clique_complex(g, md);
      unsigned which = unsigned(t.weighted({2, 3, 3}));
      if (which == 0 || t.chance(1, 3)) route_flag_sorted(md, want);
      if (which == 1) route_flag_any_order(md, want);
      if (which == 2) {
        if (md >= 1 || md == -1)
          route_flag_mixed(md, want);
        else
          route_flag_any_order(md, want);
      }
    }
#endif
    if (nt) {
      ctx.hit("nontrivial:clique>=4,dim>=2");
      ctx.mark_nontrivial();
    }
  }

  // ------------------------------------------------------------------------------------------- Rips
  struct Dist {
    FV operator()(const std::vector<double>& a, const std::vector<double>& b) const {
      double s = 0;
      for (size_t i = 0; i < a.size(); ++i) s += (a[i] - b[i]) * (a[i] - b[i]);
      return FV(std::sqrt(s));
    }
  };

  void finish_rips(ST& st, int d, const char* where) {
    int clique_number = ref::clique_complex(g, -1).dimension() + 1;
    ref::Complex want = d >= 1 ? ref::clique_complex(g, d) : ref::clique_complex(g, g.edges.empty() ? 0 : 1);
    stc::compare(st, want, ctx, "rips", where, 0.0, check_dim(g.vertices.empty(), d));
    if (clique_number >= 4 && d >= 2) {
      ctx.hit("nontrivial:rips clique>=4,dim>=2");
      ctx.mark_nontrivial();
    }
  }

  void run_rips_points() {
    unsigned n = t.below(9);
    unsigned amb = 1 + t.below(3);
    unsigned side = 2 + t.below(3);
    std::vector<std::vector<double>> pts(n, std::vector<double>(amb));
    for (auto& p : pts)
      for (auto& c : p) c = double(t.below(side));
    unsigned tk = t.below(6);
    FV thr;
    unsigned sq = t.below(28);
    if (tk <= 2)
      thr = FV(std::sqrt(double(sq)));  // exactly a possible distance: tests inclusiveness
    else if (tk == 3)
      thr = FV(std::sqrt(double(sq) + 0.5));
    else if (tk == 4)
      thr = std::numeric_limits<FV>::infinity();
    else
      thr = FV(-1);
    int d = int(t.below(6));
    ctx.desc << "rips from points (dim " << amb << "):";
    for (auto& p : pts) {
      ctx.desc << " (";
      for (size_t i = 0; i < p.size(); ++i) ctx.desc << (i ? "," : "") << p[i];
      ctx.desc << ")";
    }
    ctx.desc << "\n threshold " << stc::fmt(double(thr)) << " max_dim " << d << "\n";
    Dist dist;
    bool boundary = false;
    for (unsigned i = 0; i < n; ++i) g.vertices[i] = 0.0;
    for (unsigned i = 0; i < n; ++i)
      for (unsigned j = i + 1; j < n; ++j) {
        FV x = dist(pts[i], pts[j]);
        if (x <= thr) g.edges[{i, j}] = double(x);
        if (x == thr) boundary = true;
      }
    if (boundary) ctx.hit("rips:edge-at-threshold");
    if (d == 0 && !g.edges.empty()) d = 1;
    {
      ST st;
      Gudhi::rips_complex::Rips_complex<FV> rc(pts, thr, dist);
      rc.create_complex(st, d);
      finish_rips(st, d, "Rips_complex(points).create_complex");
    }
    {
      ST st;
      auto pg = Gudhi::compute_proximity_graph<ST>(pts, thr, dist);
      st.insert_graph(pg);
      st.expansion(d);
      finish_rips(st, d, "compute_proximity_graph + insert_graph + expansion");
    }
    ctx.hit("route:rips-points");
  }

  void run_rips_matrix() {
    unsigned n = t.below(9);
    std::vector<double> pal = draw_palette(true);
    std::vector<std::vector<FV>> m(n);
    for (unsigned i = 0; i < n; ++i)
      for (unsigned j = 0; j < i; ++j) m[i].push_back(FV(pal[t.below(uint32_t(pal.size()))]));
    unsigned tk = t.below(5);
    FV thr;
    if (tk <= 1)
      thr = FV(pal[t.below(uint32_t(pal.size()))]);
    else if (tk == 2)
      thr = FV(pal[t.below(uint32_t(pal.size()))] + 0.25);
    else if (tk == 3)
      thr = std::numeric_limits<FV>::infinity();
    else
      thr = FV(-1);
    int d = int(t.below(6));
    ctx.desc << "rips from lower-triangular matrix:";
    for (unsigned i = 0; i < n; ++i) {
      ctx.desc << " [";
      for (unsigned j = 0; j < i; ++j) ctx.desc << (j ? "," : "") << stc::fmt(double(m[i][j]));
      ctx.desc << "]";
    }
    ctx.desc << "\n threshold " << stc::fmt(double(thr)) << " max_dim " << d << "\n";
    bool boundary = false;
    for (unsigned i = 0; i < n; ++i) g.vertices[i] = 0.0;
    for (unsigned i = 0; i < n; ++i)
      for (unsigned j = 0; j < i; ++j) {
        if (m[i][j] <= thr) g.edges[{j, i}] = double(m[i][j]);
        if (m[i][j] == thr) boundary = true;
      }
    if (boundary) ctx.hit("rips:edge-at-threshold");
    if (d == 0 && !g.edges.empty()) d = 1;
    ST st;
    Gudhi::rips_complex::Rips_complex<FV> rc(m, thr);
    rc.create_complex(st, d);
    finish_rips(st, d, "Rips_complex(matrix).create_complex");
    ctx.hit("route:rips-matrix");
  }

  void run() {
    unsigned group = kFilt ? unsigned(t.weighted({6, 2, 2})) : 0;
    if (group == 0)
      run_graph_group();
    else if (group == 1)
      run_rips_points();
    else
      run_rips_matrix();
  }
};

}  // namespace c04

namespace vf {
const char* harness_name() { return c04::kName; }
void run_case(Tape& t, Ctx& ctx) {
  c04::Case c(t, ctx);
  c.run();
}
}  // namespace vf
