// Compare the observable state of a Gudhi::Simplex_tree with a ref::Complex (independent model).
// Used by C04 and C03. Deliberately does not use star/coface ranges (their known defects belong to C01/C15).
#ifndef STC_ST_COMPARE_H_
#define STC_ST_COMPARE_H_

#include "vf.h"
#include "complex.h"

#include <cmath>
#include <limits>
#include <sstream>
#include <string>
#include <vector>

namespace stc {

template <class ST>
ref::Simplex vertices_of(const ST& st, typename ST::Simplex_handle sh) {
  ref::Simplex s;
  for (auto v : st.simplex_vertex_range(sh)) s.push_back(ref::Vertex(v));
  // documented: decreasing order of vertex handles
  for (size_t i = 1; i < s.size(); ++i)
    if (!(s[i - 1] > s[i])) throw vf::Violation("vertex-range-order", "simplex_vertex_range not strictly decreasing");
  std::reverse(s.begin(), s.end());
  return s;
}

template <class ST>
std::vector<typename ST::Vertex_handle> to_handles(const ref::Simplex& s) {
  std::vector<typename ST::Vertex_handle> v;
  for (auto x : s) v.push_back(typename ST::Vertex_handle(x));
  return v;
}

inline std::string fmt(double v) {
  std::ostringstream o;
  o.precision(17);
  o << v;
  return o.str();
}

inline bool same_value(double a, double b, double tol) {
  if (a == b) return true;  // also equal infinities
  if (std::isnan(a) || std::isnan(b)) return false;
  if (std::isinf(a) || std::isinf(b)) return false;
  return std::fabs(a - b) <= tol;
}

// The complex enumerated by complex_simplex_range with the stored values (as double).
template <class ST>
ref::Complex to_complex(const ST& st, vf::Ctx& ctx, const std::string& where) {
  ref::Complex c;
  for (auto sh : st.complex_simplex_range()) {
    ref::Simplex s = vertices_of(st, sh);
    VF_CHECK(!c.contains(s), "duplicate-simplex", where << ": " << ref::to_string(s) << " enumerated twice");
    c.s[s] = double(st.filtration(sh));
  }
  return c;
}

inline std::string diff(const ref::Complex& got, const ref::Complex& want, double tol) {
  std::ostringstream o;
  int n = 0;
  for (auto& kv : want.s) {
    auto it = got.s.find(kv.first);
    if (it == got.s.end()) {
      if (n++ < 8) o << " missing " << ref::to_string(kv.first) << "@" << fmt(kv.second);
    } else if (!same_value(it->second, kv.second, tol)) {
      if (n++ < 8) o << " value " << ref::to_string(kv.first) << " got " << fmt(it->second) << " want " << fmt(kv.second);
    }
  }
  for (auto& kv : got.s)
    if (!want.contains(kv.first))
      if (n++ < 8) o << " extra " << ref::to_string(kv.first) << "@" << fmt(kv.second);
  if (n > 8) o << " ... (" << n << " differences)";
  return o.str();
}

// Full comparison. tag_prefix distinguishes the route ("exp", "flag", ...) in the failure class.
template <class ST>
void compare(const ST& st, const ref::Complex& model, vf::Ctx& ctx, const std::string& tag_prefix,
             const std::string& where, double tol = 0.0, bool check_dimension = true) {
  ref::Complex got = to_complex(st, ctx, where);
  bool same = got.s.size() == model.s.size();
  if (same)
    for (auto& kv : model.s) {
      auto it = got.s.find(kv.first);
      if (it == got.s.end() || !same_value(it->second, kv.second, tol)) {
        same = false;
        break;
      }
    }
  bool same_set = got.s.size() == model.s.size();
  if (same_set)
    for (auto& kv : model.s)
      if (!got.contains(kv.first)) {
        same_set = false;
        break;
      }
  VF_CHECK(same_set, tag_prefix + "-simplices", where << ":" << diff(got, model, tol));
  VF_CHECK(same, tag_prefix + "-values", where << ":" << diff(got, model, tol));
  VF_CHECK(st.num_simplices() == model.size(), tag_prefix + "-num_simplices",
           where << ": num_simplices " << st.num_simplices() << " want " << model.size());
  VF_CHECK(st.num_vertices() == model.vertices().size(), tag_prefix + "-num_vertices",
           where << ": num_vertices " << st.num_vertices() << " want " << model.vertices().size());
  VF_CHECK(st.is_empty() == model.empty(), tag_prefix + "-is_empty", where);
  // find() on every model simplex
  for (auto& kv : model.s) {
    auto sh = st.find(to_handles<ST>(kv.first));
    VF_CHECK(sh != st.null_simplex(), tag_prefix + "-find", where << ": find(" << ref::to_string(kv.first) << ") is null");
    VF_CHECK(same_value(double(st.filtration(sh)), kv.second, tol), tag_prefix + "-find-value",
             where << ": filtration(find(" << ref::to_string(kv.first) << ")) = " << fmt(double(st.filtration(sh)))
                   << " want " << fmt(kv.second));
    VF_CHECK(st.dimension(sh) == int(kv.first.size()) - 1, tag_prefix + "-simplex-dimension",
             where << ": dimension(" << ref::to_string(kv.first) << ") = " << st.dimension(sh));
  }
  if (check_dimension) {
    int d = st.dimension();
    VF_CHECK(d == model.dimension(), tag_prefix + "-dimension",
             where << ": dimension() = " << d << " want " << model.dimension());
    VF_CHECK(st.upper_bound_dimension() >= model.dimension(), tag_prefix + "-upper_bound_dimension",
             where << ": upper_bound_dimension() = " << st.upper_bound_dimension() << " < " << model.dimension());
    std::vector<size_t> nb = st.num_simplices_by_dimension();
    std::vector<size_t> want = model.count_by_dimension();
    VF_CHECK(nb == want, tag_prefix + "-num_simplices_by_dimension", where << ": sizes " << nb.size() << " vs " << want.size());
  }
}

inline void describe(std::ostream& o, const ref::Complex& c, size_t max_items = 400) {
  size_t k = 0;
  for (auto& kv : c.s) {
    if (k++ >= max_items) {
      o << " ...(" << c.size() << " simplices)";
      break;
    }
    o << " " << ref::to_string(kv.first) << "@" << fmt(kv.second);
  }
  o << "\n";
}

}  // namespace stc

#endif  // STC_ST_COMPARE_H_
