// C20 (point location): Freudenthal_triangulation / Coxeter_triangulation locate_point, cartesian_coordinates and
// barycenter under affine maps and scales.
//
// A case fixes a triangulation (identity constructor, (matrix, offset) constructors, change_matrix/change_offset,
// Coxeter), a scale, a simplex tau of the lattice model (fk_model.h: a chain of Z^d inside a unit cube - independent
// of GUDHI) and non-negative weights on its vertices.  The query point is the weighted combination of the vertices
// (mapped to Cartesian coordinates by the harness's own arithmetic); the expected answer is the face of tau carrying
// the non-zero weights.
//
// Floating point.  Classes of cases and what is asserted for each:
//   exact    identity constructor, scale a power of two, weights multiples of 1/64: every quantity GUDHI computes is
//            exact, the located simplex must be the expected face whatever it is (including points with integer
//            lattice coordinates).
//   robust   any other triangulation/scale/weights, expected face contains u and u+(1,..,1): all fractional lattice
//            coordinates lie in [1/72, 71/72] and distinct ones differ by >= 1/72, equal ones differ only by rounding
//            (<= 1e-10 by construction: cond(matrix) <= 50, |coordinates| <= 32) which is far below locate_point's
//            tolerance 1e-9 => the located simplex must be the expected face.
//   lattice  any other triangulation, some lattice coordinate of the point is an integer: the computed coordinate may
//            round to either side of the integer, and locate_point's tolerance must absorb both (it did not before fix
//            e214e02a7, see findings/C20-locate-lattice-coordinate.md).  Rounding <= 1e-10 is far inside the 1e-9
//            tolerance, so the located simplex must again be the expected face; asserted under its own tag, and relaxed
//            to "expected face + extra vertices of weight <= 1e-7" only while that finding is listed as known.
// For every case the barycentric coordinates of the point with respect to the returned vertices are recomputed from
// cartesian_coordinates() by a small linear solve: residual <= 1e-7 (1+|p|), every weight >= 1e-9 (no negligible
// weight), weights sum to 1.
#include "vf.h"
#include "fk_model.h"

#include <gudhi/Freudenthal_triangulation.h>
#include <gudhi/Coxeter_triangulation.h>

#include <cmath>
#include <memory>
#include <set>

namespace {
using fk::Partition;
using fk::Vertex;
using fk::VSet;
using FK = Gudhi::coxeter_triangulation::Freudenthal_triangulation<>;
using Cox = Gudhi::coxeter_triangulation::Coxeter_triangulation<>;
using Simplex = FK::Simplex_handle;
using Eigen::MatrixXd;
using Eigen::VectorXd;

std::string show(const Simplex& s) { return fk::show(s.vertex()) + fk::show(s.partition()); }

double pow2(int e) { return std::ldexp(1.0, e); }

MatrixXd decode_matrix(vf::Tape& t, std::size_t d, vf::Ctx& ctx, std::string& name) {
  unsigned fam = t.below(5);
  MatrixXd m = MatrixXd::Identity(d, d);
  if (fam == 0) {
    name = "identity";
  } else if (fam == 1) {
    name = "diag";
    for (std::size_t i = 0; i < d; ++i) m(i, i) = (t.flip() ? -1.0 : 1.0) * pow2(t.range(-2, 2));
  } else if (fam == 2) {
    name = "LDU";
    MatrixXd L = MatrixXd::Identity(d, d), U = MatrixXd::Identity(d, d), D = MatrixXd::Identity(d, d);
    for (std::size_t i = 0; i < d; ++i) D(i, i) = (t.flip() ? -1.0 : 1.0) * pow2(t.range(-1, 1));
    unsigned nl = t.below(unsigned(d)), nu = t.below(unsigned(d));
    for (unsigned k = 0; k < nl && d > 1; ++k) {
      std::size_t i = 1 + t.below(unsigned(d - 1)), j = t.below(unsigned(i));
      L(i, j) = t.flip() ? -1 : 1;
    }
    for (unsigned k = 0; k < nu && d > 1; ++k) {
      std::size_t j = 1 + t.below(unsigned(d - 1)), i = t.below(unsigned(j));
      U(i, j) = t.flip() ? -1 : 1;
    }
    m = L * D * U;
  } else if (fam == 3) {
    name = "signed-permutation";
    std::vector<std::size_t> perm(d);
    for (std::size_t i = 0; i < d; ++i) perm[i] = i;
    for (std::size_t i = d; i > 1; --i) std::swap(perm[i - 1], perm[t.below(unsigned(i))]);
    m.setZero();
    for (std::size_t i = 0; i < d; ++i) m(i, perm[i]) = (t.flip() ? -1.0 : 1.0) * pow2(t.range(-1, 1));
  } else {
    name = "coxeter-root";
    Cox c(d);
    m = c.matrix() * pow2(t.range(-1, 1));
  }
  // keep rounding far below the 1e-9 tolerance of locate_point: condition number <= 50 (else fall back)
  Eigen::JacobiSVD<MatrixXd> svd(m);
  double smax = svd.singularValues()(0), smin = svd.singularValues()(d - 1);
  if (!(smin > 0) || smax / smin > 50) {
    ctx.hit("matrix_fallback");
    name += "->identity(cond)";
    m = MatrixXd::Identity(d, d);
  }
  return m;
}

VectorXd decode_offset(vf::Tape& t, std::size_t d, std::string& name) {
  VectorXd b = VectorXd::Zero(d);
  unsigned k = t.below(3);
  if (k == 0) {
    name = "zero";
  } else if (k == 1) {
    name = "dyadic";
    for (std::size_t i = 0; i < d; ++i) b(i) = t.range(-32, 32) / 8.0;
  } else {
    name = "integer";
    for (std::size_t i = 0; i < d; ++i) b(i) = t.range(-16, 16);
  }
  return b;
}

std::string show(const VectorXd& v) {
  std::ostringstream o;
  o.precision(17);
  o << "(";
  for (Eigen::Index i = 0; i < v.size(); ++i) o << (i ? "," : "") << v(i);
  o << ")";
  return o.str();
}
std::string show(const MatrixXd& m) {
  std::ostringstream o;
  o.precision(17);
  o << "[";
  for (Eigen::Index i = 0; i < m.rows(); ++i) {
    o << (i ? "; " : "");
    for (Eigen::Index j = 0; j < m.cols(); ++j) o << (j ? " " : "") << m(i, j);
  }
  o << "]";
  return o.str();
}

// own affine map lattice -> Cartesian, accumulated in long double
VectorXd own_cartesian(const MatrixXd& M, const VectorXd& b, const std::vector<double>& lattice, double scale) {
  std::size_t d = lattice.size();
  VectorXd r(d);
  for (std::size_t i = 0; i < d; ++i) {
    long double acc = 0;
    for (std::size_t j = 0; j < d; ++j) acc += (long double)M(i, j) * ((long double)lattice[j] / (long double)scale);
    r(i) = double(acc + (long double)b(i));
  }
  return r;
}

VSet gudhi_vertices(const Simplex& s, vf::Ctx& ctx, const char* what) {
  std::string bad = fk::malformed(s.vertex(), s.partition());
  VF_CHECK(bad.empty(), "malformed", what << " " << show(s) << ": " << bad);
  std::vector<Vertex> got;
  for (auto& v : s.vertex_range()) got.push_back(v);
  VF_CHECK(got == fk::model_vertices(s.vertex(), s.partition()), "vertex_range", what << " " << show(s));
  VSet vs = fk::make_vset(got);
  VF_CHECK(vs.size() == s.dimension() + 1 && fk::is_clique(vs), "not_a_simplex", what << " " << show(s) << " vertices " << fk::show(vs));
  return vs;
}
}  // namespace

namespace vf {
const char* harness_name() { return "C20/locate"; }

void run_case(Tape& t, Ctx& ctx) {
  const std::size_t d = 1 + t.u8() % 6;
  const unsigned kind = unsigned(t.weighted({3, 3, 2, 1, 1, 1}));  // which triangulation (built below, its parameters are read last)
  // ---- scale
  static const double exact_scales[] = {1, 2, 4, 0.5, 0.25, 8};
  static const double other_scales[] = {3, 1.5, 10, 0.3, 7, 0.75};
  bool exact_scale = t.below(3) != 2;
  double scale = exact_scale ? exact_scales[t.below(6)] : other_scales[t.below(6)];
  bool use_default_scale = (scale == 1) && t.flip();
  // ---- simplex tau of the model and weights
  std::vector<unsigned> labels(d + 1);
  for (auto& x : labels) x = t.u8() % unsigned(d + 1);
  // "diagonal" request: d alone in its block and both end vertices weighted => the face contains u and u+(1,..,1)
  const bool diagonal = t.below(3) != 0;
  if (diagonal) labels[d] = unsigned(d + 1);
  Vertex base(d);
  for (auto& c : base) c = t.range(-8, 8);
  Vertex v;
  Partition parts;
  fk::simplex_through(base, labels, v, parts);
  std::vector<Vertex> U = fk::model_vertices(v, parts);
  VF_ORACLE(fk::is_clique(fk::make_vset(U)) && U.size() == parts.size(), "generated chain is not a simplex of the model");
  std::vector<unsigned> r(U.size());
  bool any = false;
  bool allow_zero = t.below(4) != 0;
  for (auto& x : r) {
    unsigned byte = t.u8();
    x = (allow_zero && byte % 4 == 3) ? 0 : 1 + (byte / 4) % 8;  // exhausted tape: weight 1 everywhere
    any = any || x;
  }
  if (diagonal) {
    if (!r.front()) r.front() = 1;
    if (!r.back()) r.back() = 1;
    any = true;
  }
  if (!any) r[0] = 1;
  bool dyadic = t.flip() || kind == 0;
  unsigned S = 0;
  for (unsigned x : r) S += x;
  if (dyadic) {  // top up the first non-zero weight so that the weights are multiples of 1/64 summing to 1
    for (auto& x : r)
      if (x) {
        x += 64 - S;
        break;
      }
    S = 64;
  }
  // ---- triangulation
  std::unique_ptr<FK> tr;
  MatrixXd M = MatrixXd::Identity(d, d);
  VectorXd b = VectorXd::Zero(d);
  std::string mname = "identity", bname = "zero", kname;
  bool exact_path = false;
  switch (kind) {
    case 0:
      kname = "FK(d)";
      tr.reset(new FK(d));
      exact_path = true;
      break;
    case 1:
      kname = "FK(d,matrix,offset)";
      M = decode_matrix(t, d, ctx, mname);
      b = decode_offset(t, d, bname);
      tr.reset(new FK(unsigned(d), M, b));
      break;
    case 2:
      kname = "Coxeter(d)";
      tr.reset(new Cox(d));
      M = tr->matrix();
      mname = "coxeter-root";
      break;
    case 3:
      kname = "FK(d,matrix)";
      M = decode_matrix(t, d, ctx, mname);
      tr.reset(new FK(d, M));
      break;
    case 4:
      kname = "FK(d)+change_matrix+change_offset";
      tr.reset(new FK(d));
      M = decode_matrix(t, d, ctx, mname);
      b = decode_offset(t, d, bname);
      tr->change_matrix(M);
      tr->change_offset(b);
      break;
    default:
      kname = "Coxeter(d)+change_offset";
      tr.reset(new Cox(d));
      M = tr->matrix();
      mname = "coxeter-root";
      b = decode_offset(t, d, bname);
      tr->change_offset(b);
      break;
  }
  VF_CHECK(tr->dimension() == d, "dimension", tr->dimension());
  VF_CHECK(tr->matrix() == M && tr->offset() == b, "matrix_offset_accessors", "matrix()/offset() differ from what was set");
  VSet expected;
  for (std::size_t i = 0; i < U.size(); ++i)
    if (r[i]) expected.push_back(U[i]);
  expected = fk::make_vset(expected);
  bool robust_face = true;  // expected face spans a full diagonal: no integer lattice coordinate
  for (std::size_t c = 0; c < d; ++c)
    if (expected.back()[c] - expected.front()[c] != 1) robust_face = false;
  // lattice coordinates of the query point (exact rationals N/S), then Cartesian
  std::vector<double> lattice(d);
  for (std::size_t c = 0; c < d; ++c) {
    long n = 0;
    for (std::size_t i = 0; i < U.size(); ++i) n += long(r[i]) * U[i][c];
    lattice[c] = double(n) / double(S);
  }
  VectorXd p(d);
  if (exact_path)
    for (std::size_t c = 0; c < d; ++c) p(c) = lattice[c] / scale;
  else
    p = own_cartesian(M, b, lattice, scale);
  const bool exact_class = exact_path && exact_scale && dyadic;
  const char* cls = exact_class ? "exact" : (robust_face ? "robust" : "lattice");

  ctx.desc << "d=" << d << " " << kname << " matrix=" << mname << " " << show(M) << " offset=" << bname << " " << show(b)
           << " scale=" << scale << (use_default_scale ? " (default argument)" : "") << "\n tau=" << fk::show(v) << fk::show(parts)
           << " weights/" << S << "=";
  for (std::size_t i = 0; i < r.size(); ++i) ctx.desc << (i ? "," : "") << r[i];
  ctx.desc << "\n point=" << show(p) << " expected face " << fk::show(expected) << " class=" << cls << "\n";
  ctx.hit(std::string("class_") + cls);
  ctx.hit("kind_" + kname);
  ctx.hit("face_dim" + std::to_string(expected.size() - 1) + (expected.size() - 1 == d ? "(top)" : ""));

  // ---- cartesian_coordinates and barycenter of tau
  Simplex tau(v, parts);
  double cmax = 1;
  std::vector<VectorXd> cart;
  for (auto& u : U) {
    VectorXd got = use_default_scale ? tr->cartesian_coordinates(u) : tr->cartesian_coordinates(u, scale);
    std::vector<double> ud(u.begin(), u.end());
    VectorXd want = own_cartesian(M, b, ud, scale);
    cmax = std::max(cmax, want.cwiseAbs().maxCoeff());
    VF_CHECK((got - want).cwiseAbs().maxCoeff() <= 1e-9 * (1 + want.cwiseAbs().maxCoeff()), "cartesian_coordinates",
             fk::show(u) << " -> " << show(got) << " expected " << show(want));
    cart.push_back(want);
  }
  {
    VectorXd mean = VectorXd::Zero(d);
    for (auto& c : cart) mean += c;
    mean /= double(cart.size());
    VectorXd got = use_default_scale ? tr->barycenter(tau) : tr->barycenter(tau, scale);
    VF_CHECK((got - mean).cwiseAbs().maxCoeff() <= 1e-9 * cmax, "barycenter", show(tau) << " -> " << show(got) << " expected " << show(mean));
  }

  // ---- locate
  Simplex loc;
  if (t.flip()) {
    std::vector<double> pv(p.data(), p.data() + d);
    loc = use_default_scale ? tr->locate_point(pv) : tr->locate_point(pv, scale);
  } else {
    loc = use_default_scale ? tr->locate_point(p) : tr->locate_point(p, scale);
  }
  VSet got = gudhi_vertices(loc, ctx, "located");
  VF_CHECK(loc.vertex() == got.front(), "vertex_not_minimal", show(loc));
  if (!fk::parts_sorted(loc.partition())) ctx.hit("located_parts_unsorted");
  // the located simplex (its parts may be in sort order rather than ascending) must work as a simplex of the lattice
  if (d <= 4) {
    const std::size_t k = loc.dimension();
    if (k < d) {
      std::set<VSet> want = fk::model_cofaces(got, k + 1), seen;
      for (auto& c : loc.cofacet_range()) {
        VSet C = gudhi_vertices(c, ctx, "cofacet of located");
        VF_CHECK(seen.size() <= want.size(), "located_cofacets", show(loc) << " lists too many cofacets");
        VF_CHECK(seen.insert(C).second, "located_cofacets", show(loc) << " lists cofacet " << fk::show(C) << " twice");
        VF_CHECK(loc.is_face_of(c), "located_is_face_of", show(loc) << " is_face_of its cofacet " << show(c) << " is false");
      }
      VF_CHECK(seen == want, "located_cofacets", show(loc) << " lists " << seen.size() << " cofacets, the model has " << want.size());
    }
    if (k >= 1) {
      std::set<VSet> seen;
      for (auto& f : loc.facet_range()) {
        VSet F = gudhi_vertices(f, ctx, "facet of located");
        VF_CHECK(seen.size() <= k, "located_facets", show(loc) << " lists too many facets");
        VF_CHECK(F.size() == k && fk::subset(F, got) && seen.insert(F).second, "located_facets", show(loc) << " facet " << show(f));
        VF_CHECK(f.is_face_of(loc), "located_is_face_of", show(f) << " is_face_of " << show(loc) << " is false");
      }
      VF_CHECK(seen.size() == k + 1, "located_facets", show(loc) << " lists " << seen.size() << " facets");
    }
  }
  std::ostringstream why;
  why << "located " << show(loc) << " = " << fk::show(got) << ", expected " << fk::show(expected);
  const bool kf_lattice = !exact_class && !robust_face && ctx.excluded("C20-locate-lattice-coordinate");
  if (exact_class)
    VF_CHECK(got == expected, "locate_exact", why.str());
  else if (robust_face)
    VF_CHECK(got == expected, "locate_face", why.str());
  else if (!kf_lattice)
    VF_CHECK(got == expected, "locate_lattice_coordinate", why.str());
  else {
    // known finding: a lattice coordinate that is an integer may be computed just below it, which adds vertices with
    // a weight of the order of the rounding error. While the finding is open only that precise deviation is tolerated:
    // the expected face must be a face of the answer and every additional vertex must carry a weight below 1e-7.
    ctx.hit("excluded:C20-locate-lattice-coordinate");
    if (got != expected) ctx.hit("kf_lattice_deviation");
    VF_CHECK(fk::subset(expected, got), "locate_lattice_superset", why.str());
  }
  // ---- barycentric coordinates with respect to the returned vertices, from cartesian_coordinates()
  {
    std::size_t m = got.size();
    MatrixXd A(d + 1, m);
    for (std::size_t i = 0; i < m; ++i) {
      VectorXd c = use_default_scale ? tr->cartesian_coordinates(got[i]) : tr->cartesian_coordinates(got[i], scale);
      for (std::size_t k = 0; k < d; ++k) A(k, i) = c(k);
      A(d, i) = 1;
    }
    VectorXd rhs(d + 1);
    for (std::size_t k = 0; k < d; ++k) rhs(k) = p(k);
    rhs(d) = 1;
    VectorXd lam = A.colPivHouseholderQr().solve(rhs);
    double res = (A * lam - rhs).cwiseAbs().maxCoeff();
    VF_CHECK(res <= 1e-7 * (1 + p.cwiseAbs().maxCoeff()), "point_not_in_span", why.str() << " residual " << res);
    VF_CHECK(std::fabs(lam.sum() - 1) <= 1e-7, "weights_sum", why.str() << " sum " << lam.sum());
    for (std::size_t i = 0; i < m; ++i) {
      VF_CHECK(lam(i) >= -1e-7, "negative_weight", why.str() << " weight " << lam(i) << " on " << fk::show(got[i]));
      bool extra = kf_lattice && !std::binary_search(expected.begin(), expected.end(), got[i]);
      if (extra)
        VF_CHECK(lam(i) <= 1e-7, "locate_lattice_superset", why.str() << " weight " << lam(i) << " on additional vertex " << fk::show(got[i]));
      else
        VF_CHECK(lam(i) >= 1e-9, "negligible_weight", why.str() << " weight " << lam(i) << " on " << fk::show(got[i]));
    }
  }
  // barycenter of the located simplex = average of its vertices
  {
    VectorXd mean = VectorXd::Zero(d);
    for (auto& u : got) {
      std::vector<double> ud(u.begin(), u.end());
      mean += own_cartesian(M, b, ud, scale);
    }
    mean /= double(got.size());
    VectorXd bc = use_default_scale ? tr->barycenter(loc) : tr->barycenter(loc, scale);
    VF_CHECK((bc - mean).cwiseAbs().maxCoeff() <= 1e-9 * cmax, "barycenter", show(loc) << " -> " << show(bc) << " expected " << show(mean));
  }
  std::size_t k = got.size() - 1;
  if (k > 0 && k < d) ctx.mark_nontrivial();
}
}  // namespace vf
