// C20: independent model of the Freudenthal-Kuhn triangulation of R^d, used as the oracle.
//
// Model: the vertices are the points of Z^d; two distinct vertices u, w are adjacent iff w - u or u - w lies in
// {0,1}^d; the simplices are the cliques of that graph (= chains u_0 < u_1 < ... < u_k for the componentwise order
// with u_k - u_0 in {0,1}^d).  This is the classical description of the Freudenthal-Kuhn triangulation as the order
// complex of Z^d cut by unit cubes; nothing of it is shared with GUDHI's ordered-set-partition arithmetic.
//
// The only place where the permutahedral representation (v, [P_0..P_k]) is interpreted is model_vertices(), straight
// from its definition: u_0 = v, u_{i+1} = u_i + sum_{j in P_i} e_j with e_d = -(1,..,1).
#ifndef C20_FK_MODEL_H_
#define C20_FK_MODEL_H_

#include <algorithm>
#include <cstddef>
#include <set>
#include <sstream>
#include <string>
#include <vector>

namespace fk {

using Vertex = std::vector<int>;
using Part = std::vector<std::size_t>;
using Partition = std::vector<Part>;
using VSet = std::vector<Vertex>;  // sorted lexicographically (for a chain: the chain order), distinct

inline VSet make_vset(VSet v) {
  std::sort(v.begin(), v.end());
  v.erase(std::unique(v.begin(), v.end()), v.end());
  return v;
}
inline bool subset(const VSet& a, const VSet& b) { return std::includes(b.begin(), b.end(), a.begin(), a.end()); }

// +1 if w - u in {0,1}^d \ {0}, -1 if u - w is, 0 otherwise (also for u == w)
inline int adjacency(const Vertex& u, const Vertex& w) {
  bool up = true, down = true, diff = false;
  for (std::size_t i = 0; i < u.size(); ++i) {
    int x = w[i] - u[i];
    if (x != 0) diff = true;
    if (x != 0 && x != 1) up = false;
    if (x != 0 && x != -1) down = false;
  }
  if (!diff) return 0;
  return up ? 1 : (down ? -1 : 0);
}
inline bool is_clique(const VSet& s) {
  for (std::size_t i = 0; i < s.size(); ++i)
    for (std::size_t j = i + 1; j < s.size(); ++j)
      if (adjacency(s[i], s[j]) == 0) return false;
  return true;
}

// vertices of (v, parts) from the definition of the permutahedral representation
inline std::vector<Vertex> model_vertices(const Vertex& v, const Partition& parts) {
  std::size_t d = v.size();
  std::vector<Vertex> r;
  Vertex cur = v;
  r.push_back(cur);
  for (std::size_t i = 0; i + 1 < parts.size(); ++i) {
    for (std::size_t j : parts[i]) {
      if (j < d)
        cur[j] += 1;
      else
        for (std::size_t c = 0; c < d; ++c) cur[c] -= 1;
    }
    r.push_back(cur);
  }
  return r;
}

// why a (vertex, partition) pair is not a well-formed canonical permutahedral representation; "" when it is
inline std::string malformed(const Vertex& v, const Partition& parts) {
  std::size_t d = v.size();
  if (parts.empty()) return "empty partition";
  std::vector<int> seen(d + 1, 0);
  for (auto& p : parts) {
    if (p.empty()) return "empty part";
    for (std::size_t j : p) {
      if (j > d) return "index out of range";
      if (seen[j]++) return "index repeated";
    }
  }
  for (std::size_t j = 0; j <= d; ++j)
    if (!seen[j]) return "index missing";
  return "";
}
inline bool last_part_has_d(const Vertex& v, const Partition& parts) {
  const Part& l = parts.back();
  return std::find(l.begin(), l.end(), v.size()) != l.end();
}
inline bool parts_sorted(const Partition& parts) {
  for (auto& p : parts)
    if (!std::is_sorted(p.begin(), p.end())) return false;
  return true;
}

inline std::string show(const Vertex& v) {
  std::ostringstream o;
  o << "(";
  for (std::size_t i = 0; i < v.size(); ++i) o << (i ? "," : "") << v[i];
  o << ")";
  return o.str();
}
inline std::string show(const Partition& p) {
  std::ostringstream o;
  o << "[";
  for (std::size_t i = 0; i < p.size(); ++i) {
    o << (i ? " " : "") << "{";
    for (std::size_t j = 0; j < p[i].size(); ++j) o << (j ? "," : "") << p[i][j];
    o << "}";
  }
  o << "]";
  return o.str();
}
inline std::string show(const VSet& s) {
  std::ostringstream o;
  o << "<";
  for (std::size_t i = 0; i < s.size(); ++i) o << (i ? " " : "") << show(s[i]);
  o << ">";
  return o.str();
}

// all simplices of the model with exactly l+1 vertices that contain the clique s (brute force over the 3^d box)
inline std::set<VSet> model_cofaces(const VSet& s, std::size_t l) {
  std::set<VSet> out;
  if (s.empty() || l + 1 < s.size()) return out;
  std::size_t d = s[0].size();
  // candidates: adjacent to every vertex of s
  std::vector<Vertex> cand;
  Vertex lo(d), hi(d);
  for (std::size_t c = 0; c < d; ++c) {
    int mn = s[0][c], mx = s[0][c];
    for (auto& u : s) {
      mn = std::min(mn, u[c]);
      mx = std::max(mx, u[c]);
    }
    lo[c] = mx - 1;
    hi[c] = mn + 1;
  }
  Vertex w = lo;
  bool done = false;
  for (std::size_t c = 0; c < d; ++c)
    if (lo[c] > hi[c]) done = true;
  while (!done) {
    bool ok = true;
    for (auto& u : s)
      if (adjacency(u, w) == 0) {
        ok = false;
        break;
      }
    if (ok) cand.push_back(w);
    std::size_t c = 0;
    for (; c < d; ++c) {
      if (w[c] < hi[c]) {
        ++w[c];
        break;
      }
      w[c] = lo[c];
    }
    if (c == d) done = true;
  }
  std::size_t need = l + 1 - s.size();
  std::vector<std::size_t> chosen;
  // depth-first extension by candidates of increasing index, pairwise adjacent
  struct Rec {
    const std::vector<Vertex>& cand;
    const VSet& s;
    std::size_t need;
    std::set<VSet>& out;
    std::vector<std::size_t> chosen;
    void go(std::size_t from) {
      if (chosen.size() == need) {
        VSet r = s;
        for (std::size_t i : chosen) r.push_back(cand[i]);
        out.insert(make_vset(r));
        return;
      }
      for (std::size_t i = from; i < cand.size(); ++i) {
        bool ok = true;
        for (std::size_t j : chosen)
          if (adjacency(cand[j], cand[i]) == 0) {
            ok = false;
            break;
          }
        if (!ok) continue;
        chosen.push_back(i);
        go(i + 1);
        chosen.pop_back();
      }
    }
  } rec{cand, s, need, out, {}};
  rec.go(0);
  return out;
}

inline unsigned long binom(unsigned n, unsigned k) {
  if (k > n) return 0;
  unsigned long r = 1;
  for (unsigned i = 1; i <= k; ++i) r = r * (n - k + i) / i;
  return r;
}
// number of ordered partitions of an n-set into m non-empty blocks = m! * S(n,m)
inline unsigned long ordered_partitions(unsigned n, unsigned m) {
  // inclusion-exclusion: surjections n -> m
  long r = 0;
  for (unsigned j = 0; j <= m; ++j) {
    long term = long(binom(m, j));
    long pw = 1;
    for (unsigned i = 0; i < n; ++i) pw *= long(m - j);
    r += (j % 2 ? -1 : 1) * term * pw;
  }
  return (unsigned long)r;
}

// Decode block labels (one per element 0..d) into the simplex through the vertex `origin` whose cyclic ordered
// partition, read from `origin`, is the ordered partition induced by the labels (blocks ordered by label value).
// Returns the canonical representation: minimal vertex + parts rotated so that d lies in the last part, parts sorted.
inline void simplex_through(const Vertex& origin, const std::vector<unsigned>& labels, Vertex& v, Partition& parts) {
  std::size_t d = origin.size();
  std::vector<unsigned> used(labels.begin(), labels.end());
  std::sort(used.begin(), used.end());
  used.erase(std::unique(used.begin(), used.end()), used.end());
  Partition cyc(used.size());
  for (std::size_t j = 0; j <= d; ++j) {
    std::size_t r = std::size_t(std::lower_bound(used.begin(), used.end(), labels[j]) - used.begin());
    cyc[r].push_back(j);
  }
  std::size_t r = 0;
  for (; r < cyc.size(); ++r)
    if (std::find(cyc[r].begin(), cyc[r].end(), d) != cyc[r].end()) break;
  // minimal vertex = origin + blocks 0..r (block r contains d, i.e. subtracts the all-ones vector)
  v = origin;
  for (std::size_t i = 0; i <= r; ++i)
    for (std::size_t j : cyc[i]) {
      if (j < d)
        v[j] += 1;
      else
        for (std::size_t c = 0; c < d; ++c) v[c] -= 1;
    }
  parts.clear();
  for (std::size_t i = r + 1; i < cyc.size(); ++i) parts.push_back(cyc[i]);
  for (std::size_t i = 0; i <= r; ++i) parts.push_back(cyc[i]);
}

}  // namespace fk

#endif  // C20_FK_MODEL_H_
