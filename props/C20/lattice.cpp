// C20 (face lattice): Permutahedral_representation vertex/face/coface ranges and is_face_of against an independent
// model of the Freudenthal-Kuhn triangulation (cliques of the "unit-cube order" graph on Z^d, see fk_model.h).
//
// Tape layout
//   byte 0  mode      (u8 % 32: 3 = whole neighbourhood of a vertex, anything else = one simplex)
//   byte 1  d         (table[u8 % 16], bytes 0..5 -> 1..6, the rest favours 3 and 4; neighbourhood mode: 1 + u8 % 4)
//   byte 2  base kind (u8 % 4: 0 origin, 1 (-1,-2,..), 2 coordinates from the tape in [-9,9], 3 large +-1000)
//   simplex mode: d+1 block labels (u8 % (d+1)) -> ordered partition through the base vertex, then coordinates (kind 2),
//                 then one byte bounding the coface codimension when d >= 5
// Exhaustive sub-domains are enumerated as tapes "00 <d-1> <kind> <labels...>" and "03 <d-1> <kind>".
#include "vf.h"
#include "fk_model.h"

#include <gudhi/Permutahedral_representation.h>

#include <map>

namespace {
using fk::Part;
using fk::Partition;
using fk::Vertex;
using fk::VSet;
using Simplex = Gudhi::coxeter_triangulation::Permutahedral_representation<Vertex, Partition>;

std::string show(const Simplex& s) { return fk::show(s.vertex()) + fk::show(s.partition()); }

// vertices of a GUDHI simplex as observed through vertex_range(), checked against the definition
VSet observed_vertices(const Simplex& s, vf::Ctx& ctx, const char* what) {
  std::string bad = fk::malformed(s.vertex(), s.partition());
  VF_CHECK(bad.empty(), "malformed", what << " " << show(s) << ": " << bad);
  std::vector<Vertex> got;
  for (auto& v : s.vertex_range()) got.push_back(v);
  std::vector<Vertex> want = fk::model_vertices(s.vertex(), s.partition());
  VF_CHECK(got.size() == s.dimension() + 1, "vertex_count",
           what << " " << show(s) << " dimension " << s.dimension() << " but " << got.size() << " vertices");
  VF_CHECK(got == want, "vertex_range", what << " " << show(s) << " vertex_range differs from the definition");
  VSet vs = fk::make_vset(got);
  VF_CHECK(vs.size() == got.size(), "vertex_distinct", what << " " << show(s) << " repeated vertex");
  VF_CHECK(fk::is_clique(vs), "not_a_simplex", what << " " << show(s) << " vertices " << fk::show(vs)
                                                   << " are not a simplex of the triangulation");
  // documented: vertex() is the lexicographically minimal vertex
  VF_CHECK(s.vertex() == vs.front(), "vertex_not_minimal", what << " " << show(s) << " minimal vertex is " << fk::show(vs.front()));
  return vs;
}

struct Listed {
  std::vector<Simplex> reps;
  std::vector<VSet> keys;
};

Vertex decode_base(vf::Tape& t, unsigned kind, std::size_t d, bool read_coords) {
  Vertex o(d, 0);
  if (kind == 1)
    for (std::size_t c = 0; c < d; ++c) o[c] = -int(c) - 1;
  else if (kind == 2 && read_coords)
    for (std::size_t c = 0; c < d; ++c) o[c] = t.range(-9, 9) ;
  else if (kind == 3)
    for (std::size_t c = 0; c < d; ++c) o[c] = (c % 2 ? -1000 : 1000) + int(c);
  return o;
}

// ---------------------------------------------------------------------------------------------- one simplex
void check_simplex(const Simplex& s, std::size_t d, std::size_t max_codim, vf::Ctx& ctx) {
  const std::size_t k = s.dimension();
  VSet V = observed_vertices(s, ctx, "input");
  VF_ORACLE(V.size() == k + 1, "generated simplex has a wrong vertex count");

  // ---- faces of every dimension
  for (std::size_t fd = 0; fd <= k; ++fd) {
    std::set<VSet> seen;
    std::size_t n = 0;
    for (auto& f : s.face_range(fd)) {
      ++n;
      VF_CHECK(n <= fk::binom(unsigned(k + 1), unsigned(fd + 1)), "face_count", show(s) << " face_range(" << fd << ") yields more than C(" << k + 1 << "," << fd + 1 << ") faces");
      VF_CHECK(f.dimension() == fd, "face_dimension", show(s) << " face_range(" << fd << ") yields " << show(f));
      VSet F = observed_vertices(f, ctx, "face");
      VF_CHECK(fk::subset(F, V), "face_not_subset", show(s) << " face " << show(f) << " = " << fk::show(F) << " is not a vertex subset");
      VF_CHECK(seen.insert(F).second, "face_duplicate", show(s) << " face_range(" << fd << ") lists " << fk::show(F) << " twice");
      VF_CHECK(f.is_face_of(s), "is_face_of_false", show(f) << " listed by face_range(" << fd << ") of " << show(s) << " but is_face_of says no");
      VF_CHECK(fk::parts_sorted(f.partition()) && fk::last_part_has_d(f.vertex(), f.partition()), "face_not_canonical", show(f));
      if (fd == k) VF_CHECK(f == s, "face_self", show(s) << " face_range(dim) yields " << show(f));
      // the simplex is listed among the cofaces of its face
      if (k - fd <= max_codim) {
        bool found_key = false, found_eq = false;
        for (auto& c : f.coface_range(k)) {
          VSet C = observed_vertices(c, ctx, "coface-of-face");
          if (C == V) found_key = true;
          if (c == s) found_eq = true;
        }
        VF_CHECK(found_key, "coface_of_face_missing", show(s) << " is not listed by coface_range(" << k << ") of its face " << show(f));
        VF_CHECK(found_eq, "eq_inconsistent", show(s) << " listed among cofaces of " << show(f) << " only up to representation");
      }
    }
    // distinct vertex subsets of the right size, as many as there are subsets => exactly the subsets
    VF_CHECK(n == fk::binom(unsigned(k + 1), unsigned(fd + 1)), "face_count",
             show(s) << " face_range(" << fd << ") yields " << n << " faces, expected C(" << k + 1 << "," << fd + 1 << ")");
    if (k >= 1 && fd == k - 1) {
      std::set<VSet> fac;
      std::size_t m = 0;
      for (auto& f : s.facet_range()) {
        ++m;
        fac.insert(observed_vertices(f, ctx, "facet"));
      }
      VF_CHECK(m == n && fac == seen, "facet_range", show(s) << " facet_range differs from face_range(dim-1)");
    }
  }

  // ---- cofaces
  for (std::size_t l = k; l <= d && l - k <= max_codim; ++l) {
    std::set<VSet> want = fk::model_cofaces(V, l);
    std::set<VSet> seen;
    for (auto& c : s.coface_range(l)) {
      VF_CHECK(seen.size() < want.size() + 1, "coface_count", show(s) << " coface_range(" << l << ") yields more than " << want.size() << " cofaces");
      VF_CHECK(c.dimension() == l, "coface_dimension", show(s) << " coface_range(" << l << ") yields " << show(c));
      VSet C = observed_vertices(c, ctx, "coface");
      VF_CHECK(fk::subset(V, C), "coface_not_superset", show(s) << " coface " << show(c) << " = " << fk::show(C) << " does not contain it");
      VF_CHECK(seen.insert(C).second, "coface_duplicate", show(s) << " coface_range(" << l << ") lists " << fk::show(C) << " twice");
      VF_CHECK(fk::parts_sorted(c.partition()) && fk::last_part_has_d(c.vertex(), c.partition()), "coface_not_canonical", show(c));
      VF_CHECK(s.is_face_of(c), "is_face_of_false", show(s) << " has coface " << show(c) << " but is_face_of says no");
      if (l == k) VF_CHECK(c == s, "coface_self", show(s) << " coface_range(dim) yields " << show(c));
      // the simplex is listed among the faces of its coface
      bool found_key = false, found_eq = false;
      for (auto& f : c.face_range(k)) {
        if (f == s) found_eq = true;
        std::vector<Vertex> fv;
        for (auto& v : f.vertex_range()) fv.push_back(v);
        if (fk::make_vset(fv) == V) found_key = true;
      }
      VF_CHECK(found_key, "face_of_coface_missing", show(s) << " is not listed by face_range(" << k << ") of its coface " << show(c));
      VF_CHECK(found_eq, "eq_inconsistent", show(s) << " listed among faces of " << show(c) << " only up to representation");
    }
    if (seen != want) {
      for (auto& w : want)
        VF_CHECK(seen.count(w), "coface_missing", show(s) << " coface_range(" << l << ") misses " << fk::show(w) << " (" << seen.size() << " of " << want.size() << " listed)");
      VF_CHECK(false, "coface_extra", show(s) << " coface_range(" << l << ") lists " << seen.size() << " simplices, model has " << want.size());
    }
    ctx.checks += 1;
    if (l == k + 1) {
      std::set<VSet> cof;
      std::size_t m = 0;
      for (auto& c : s.cofacet_range()) {
        ++m;
        cof.insert(observed_vertices(c, ctx, "cofacet"));
      }
      VF_CHECK(m == seen.size() && cof == seen, "cofacet_range", show(s) << " cofacet_range differs from coface_range(dim+1)");
    }
  }
}

// ---------------------------------------------------------------------------------------------- neighbourhood
void check_neighbourhood(const Vertex& origin, std::size_t d, vf::Ctx& ctx) {
  Partition one(1);
  for (std::size_t j = 0; j <= d; ++j) one[0].push_back(j);
  Simplex O(origin, one);
  VSet VO = {origin};
  // all simplices through the vertex, as GUDHI lists them, dimension by dimension
  std::vector<Simplex> reps;
  std::vector<VSet> keys;
  std::map<VSet, std::size_t> index;
  for (std::size_t l = 0; l <= d; ++l) {
    std::set<VSet> want = fk::model_cofaces(VO, l);
    VF_ORACLE(want.size() == fk::ordered_partitions(unsigned(d + 1), unsigned(l + 1)),
              "model star of a vertex has " << want.size() << " " << l << "-simplices, expected (l+1)! S(d+1,l+1)");
    std::size_t n = 0;
    for (auto& c : O.coface_range(l)) {
      ++n;
      VF_CHECK(n <= want.size(), "coface_count", "star of " << fk::show(origin) << ": coface_range(" << l << ") yields too many");
      VF_CHECK(c.dimension() == l, "coface_dimension", show(c));
      VSet C = observed_vertices(c, ctx, "star");
      VF_CHECK(want.count(C), "coface_extra", "star of " << fk::show(origin) << " lists " << fk::show(C));
      VF_CHECK(index.emplace(C, reps.size()).second, "coface_duplicate", "star of " << fk::show(origin) << " lists " << fk::show(C) << " twice");
      reps.push_back(c);
      keys.push_back(C);
    }
    VF_CHECK(n == want.size(), "coface_missing", "star of " << fk::show(origin) << ": " << n << " of " << want.size() << " " << l << "-simplices listed");
  }
  const std::size_t N = reps.size();
  ctx.hit("nbhd_simplices", N);
  // is_face_of on every ordered pair <=> vertex-set inclusion
  for (std::size_t a = 0; a < N; ++a)
    for (std::size_t b = 0; b < N; ++b) {
      bool want = fk::subset(keys[a], keys[b]);
      bool got = reps[a].is_face_of(reps[b]);
      VF_CHECK(got == want, want ? "is_face_of_false" : "is_face_of_true",
               show(reps[a]) << " is_face_of " << show(reps[b]) << " = " << got << ", vertex sets " << fk::show(keys[a]) << " vs " << fk::show(keys[b]));
      bool eq = reps[a] == reps[b];
      VF_CHECK(eq == (a == b), "eq_inconsistent", show(reps[a]) << " == " << show(reps[b]) << " is " << eq);
    }
  // coface ranges of every member = the members containing it; face ranges of every member restricted to the
  // neighbourhood = the members contained in it
  for (std::size_t a = 0; a < N; ++a) {
    const std::size_t k = reps[a].dimension();
    for (std::size_t l = k; l <= d; ++l) {
      std::set<std::size_t> got;
      for (auto& c : reps[a].coface_range(l)) {
        std::vector<Vertex> cv;
        for (auto& v : c.vertex_range()) cv.push_back(v);
        VSet C = fk::make_vset(cv);
        auto it = index.find(C);
        VF_CHECK(it != index.end(), "coface_extra", show(reps[a]) << " coface_range(" << l << ") lists " << show(c) << " which is not in the star of " << fk::show(origin));
        VF_CHECK(c == reps[it->second], "eq_inconsistent", show(c) << " vs " << show(reps[it->second]) << " (same vertices)");
        VF_CHECK(got.insert(it->second).second, "coface_duplicate", show(reps[a]) << " coface_range(" << l << ") lists " << show(c) << " twice");
      }
      std::set<std::size_t> want;
      for (std::size_t b = 0; b < N; ++b)
        if (reps[b].dimension() == l && fk::subset(keys[a], keys[b])) want.insert(b);
      VF_CHECK(got == want, got.size() < want.size() ? "coface_missing" : "coface_extra",
               show(reps[a]) << " coface_range(" << l << ") lists " << got.size() << " simplices, " << want.size() << " members of the star contain it");
    }
    for (std::size_t fd = 0; fd <= k; ++fd) {
      std::set<std::size_t> got;
      std::size_t n = 0;
      for (auto& f : reps[a].face_range(fd)) {
        ++n;
        std::vector<Vertex> fv;
        for (auto& v : f.vertex_range()) fv.push_back(v);
        VSet F = fk::make_vset(fv);
        VF_CHECK(F.size() == fd + 1 && fk::subset(F, keys[a]), "face_not_subset", show(reps[a]) << " face " << show(f));
        auto it = index.find(F);
        if (it == index.end()) continue;  // a face that avoids the centre vertex
        VF_CHECK(f == reps[it->second], "eq_inconsistent", show(f) << " vs " << show(reps[it->second]) << " (same vertices)");
        VF_CHECK(got.insert(it->second).second, "face_duplicate", show(reps[a]) << " face_range(" << fd << ") lists " << show(f) << " twice");
      }
      VF_CHECK(n == fk::binom(unsigned(k + 1), unsigned(fd + 1)), "face_count", show(reps[a]) << " face_range(" << fd << ") yields " << n);
      std::set<std::size_t> want;
      for (std::size_t b = 0; b < N; ++b)
        if (reps[b].dimension() == fd && fk::subset(keys[b], keys[a])) want.insert(b);
      VF_CHECK(got == want, "face_missing", show(reps[a]) << " face_range(" << fd << ") lists " << got.size() << " members of the star, " << want.size() << " are contained in it");
    }
  }
}
}  // namespace

namespace vf {
const char* harness_name() { return "C20/lattice"; }

void run_case(Tape& t, Ctx& ctx) {
  unsigned mode = t.u8() % 32;  // 3 = neighbourhood (about 3 % of the random cases: each one is a whole star)
  if (mode == 3) {
    std::size_t d = 1 + t.u8() % 4;
    unsigned kind = t.u8() % 4;
    Vertex origin = decode_base(t, kind, d, true);
    ctx.desc << "neighbourhood d=" << d << " centre " << fk::show(origin) << "\n";
    ctx.hit("nbhd_d" + std::to_string(d));
    check_neighbourhood(origin, d, ctx);
    if (d >= 2) ctx.mark_nontrivial();
    return;
  }
  static const unsigned dim_table[16] = {1, 2, 3, 4, 5, 6, 2, 3, 3, 4, 4, 3, 4, 5, 2, 3};  // bytes 0..5 -> d = 1..6 (enumeration prefixes)
  std::size_t d = dim_table[t.u8() % 16];
  unsigned kind = t.u8() % 4;
  std::vector<unsigned> labels(d + 1);
  for (auto& x : labels) x = t.u8() % unsigned(d + 1);
  Vertex origin = decode_base(t, kind, d, true);
  std::size_t max_codim = d;
  if (d >= 5) max_codim = 1 + t.u8() % 3;
  Vertex v;
  Partition parts;
  fk::simplex_through(origin, labels, v, parts);
  VF_ORACLE(fk::malformed(v, parts).empty() && fk::last_part_has_d(v, parts) && fk::parts_sorted(parts),
            "generator produced a non-canonical representation");
  Simplex s(v, parts);
  std::size_t k = s.dimension();
  ctx.desc << "simplex d=" << d << " through " << fk::show(origin) << ": " << show(s);
  if (d >= 5) ctx.desc << " max_codim=" << max_codim;
  ctx.desc << "\n";
  ctx.hit("d" + std::to_string(d));
  ctx.hit(k == 0 ? "vertex" : (k == d ? "top" : "middle"));
  {
    std::vector<Vertex> mv = fk::model_vertices(v, parts);
    VF_ORACLE(std::find(mv.begin(), mv.end(), origin) != mv.end(), "generated simplex does not pass through the base vertex");
  }
  check_simplex(s, d, max_codim, ctx);
  if (k > 0 && k < d) ctx.mark_nontrivial();  // some part then has size >= 2
}
}  // namespace vf
