// Stand-alone self-test of props/C14/lowerstar.h (not part of the check; build: g++ -std=gnu++17 -Iprops/C14 -Iref props/C14/test_lowerstar.cpp).
// Checks the weak-order unranking (bijection onto the Fubini number of weak orders for n <= 7) and a few hand-computed diagrams.
#include "lowerstar.h"
#include <set>
#include <cstdio>
int main(){
  for (int n=0;n<=9;++n){ printf("fubini(%d)=%llu\n",n,(unsigned long long)ls::fubini(n)); }
  for (int n=1;n<=7;++n){
    std::set<std::vector<int>> s; uint64_t F=ls::fubini(n);
    for(uint64_t i=0;i<F;++i){ auto l=ls::unrank_weak_order(i,n); 
      // check surjective levels
      int mx=0; for(int x:l){ if(x<0){printf("neg\n");return 1;} mx=std::max(mx,x);} std::set<int> lv(l.begin(),l.end()); if((int)lv.size()!=mx+1){printf("gap\n");return 1;}
      s.insert(l);} 
    printf("n=%d distinct=%zu of %llu\n",n,s.size(),(unsigned long long)F);
  }
  // 2D example: 3x3 ring
  std::vector<int> k={1,1,1,1,2,1,1,1,1};
  auto a=ls::rectangle_top_cells(k,3,3), b=ls::rectangle_union_find(k,3,3);
  printf("ring: finite=%zu cons=%d  eq=%d\n",a.finite.size(),a.consistent,(int)(a==b));
  for(auto&x:a.finite) printf(" (%d,%d,%d)",x[0],x[1],x[2]); printf("\n");
  std::vector<int> k2={0,5,1,5,5,5,2,5,3};
  a=ls::rectangle_top_cells(k2,3,3); b=ls::rectangle_union_find(k2,3,3);
  for(auto&x:a.finite) printf(" (%d,%d,%d)",x[0],x[1],x[2]); printf(" eq=%d zl=%d\n",(int)(a==b),a.zero_length);
  auto l1=ls::line_top_cells({0,3,1,4,2}), l2=ls::line_vertices({0,3,1,4,2});
  for(auto&x:l1.finite) printf(" (%d,%d,%d)",x[0],x[1],x[2]); printf(" eq=%d\n",(int)(l1==l2));
}
