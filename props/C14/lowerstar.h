// Reference lower-star cubical persistence in dimension 1 and 2, written for obviousness and independent of GUDHI.
//
// Input: integer keys of the top-dimensional cells (segments of a line, squares of an R x C rectangle, C order). A key
// is the rank of the value in whatever (weak or strict) order the caller wants; equal keys = tied values. Every lower
// cell gets the minimum key of the top cells containing it (lower-star filtration of top-cell values). The filtered
// cell complex is built explicitly (doubled coordinates) and reduced over Z_2 (standard column reduction, bit-vector
// columns; the shared ref::reduce runs on top for a deterministic sample of the cases and must give the same pairing).
//
// Second, differently written routes (used as internal consistency checks of the oracle, never as the oracle alone):
//  - line: the "values on vertices, edge = max of its end points" convention gives the same non-zero-length diagram;
//  - rectangle: H0 by union-find with the elder rule on 8-connected squares; H1 by Alexander duality = elder rule on the
//    4-connected complement (plus the exterior cell) while the threshold goes down.
#ifndef C14_LOWERSTAR_H_
#define C14_LOWERSTAR_H_

#include <algorithm>
#include <array>
#include <climits>
#include <cstdint>
#include <numeric>
#include <vector>

#include "reduce.h"

namespace ls {

// (dim, birth key, death key); death key == INT_MAX for the essential class
typedef std::array<int, 3> Bar;

struct Diagram {
  std::vector<Bar> finite;      // sorted, birth key < death key only
  std::vector<Bar> essential;   // sorted, death == INT_MAX
  int zero_length = 0;          // number of pairs with equal keys (dropped)
  bool consistent = true;       // reducer self-check + cell/pair bookkeeping
  bool operator==(const Diagram& o) const { return finite == o.finite && essential == o.essential; }
};

struct FCell {
  int key, dim, x, y;
  int nf;            // number of codimension-1 faces (0, 2 or 4)
  int fx[4], fy[4];  // their doubled coordinates
  void add_face(int a, int b) {
    fx[nf] = a;
    fy[nf] = b;
    ++nf;
  }
};
inline FCell make_cell(int key, int dim, int x, int y) {
  FCell f;
  f.key = key;
  f.dim = dim;
  f.x = x;
  f.y = y;
  f.nf = 0;
  return f;
}
struct Bdry {
  int n;
  int f[4];
};

// Standard left-to-right column reduction over Z_2 on bit-vector columns (own code, a few lines). Returns partner[i]
// (index paired with i, -1 if none). The pairing of the standard reduction is unique for a given order.
inline std::vector<int> reduce_z2_bits(const std::vector<Bdry>& bdry) {
  size_t n = bdry.size(), W = (n + 63) / 64;
  std::vector<uint64_t> col(n * W, 0);  // column j = words [j*W, (j+1)*W)
  std::vector<int> pivot_col(n, -1), partner(n, -1);
  for (size_t j = 0; j < n; ++j) {
    uint64_t* c = &col[j * W];
    for (int i = 0; i < bdry[j].n; ++i) c[size_t(bdry[j].f[i]) / 64] ^= uint64_t(1) << (size_t(bdry[j].f[i]) % 64);
    int l;
    for (;;) {
      l = -1;
      for (size_t w = W; w-- > 0;)
        if (c[w]) {
          l = int(w * 64 + 63 - size_t(__builtin_clzll(c[w])));
          break;
        }
      if (l < 0 || pivot_col[size_t(l)] < 0) break;
      const uint64_t* o = &col[size_t(pivot_col[size_t(l)]) * W];
      for (size_t w = 0; w < W; ++w) c[w] ^= o[w];
    }
    if (l >= 0) {
      pivot_col[size_t(l)] = int(j);
      partner[j] = l;
      partner[size_t(l)] = int(j);
    }
  }
  return partner;
}

// Sort the cells into a lower-star filtration order (key, dimension, position), reduce, read the diagram off.
// full_check: additionally run the shared reference reducer ref::reduce (sparse columns, keeps V, verifies R = B*V and
// d*d = 0) and require the identical pairing. The bit-vector reducer is the one that runs on every case because the
// shared one costs ~1 ms per 80 cells under ASan.
inline Diagram reduce_cells(std::vector<FCell> cells, int width /* stride for (x,y) -> id */, bool full_check = true) {
  std::sort(cells.begin(), cells.end(), [](const FCell& a, const FCell& b) {
    return std::tie(a.key, a.dim, a.x, a.y) < std::tie(b.key, b.dim, b.x, b.y);
  });
  std::vector<int> pos(size_t(width) * size_t(width) + size_t(width) + 1, -1);
  std::vector<Bdry> bdry(cells.size());
  Diagram dg;
  for (size_t i = 0; i < cells.size(); ++i) {
    bdry[i].n = cells[i].nf;
    for (int q = 0; q < cells[i].nf; ++q) {
      int p = pos[size_t(cells[i].fx[q]) * size_t(width) + size_t(cells[i].fy[q])];
      if (p < 0) dg.consistent = false;  // a face must come first in a lower-star order
      bdry[i].f[q] = p;
    }
    pos[size_t(cells[i].x) * size_t(width) + size_t(cells[i].y)] = int(i);
  }
  if (!dg.consistent) return dg;
  std::vector<int> partner = reduce_z2_bits(bdry);
  if (full_check) {
    std::vector<ref::Cell> rc;
    for (size_t i = 0; i < cells.size(); ++i) {
      ref::Cell c;
      c.dim = cells[i].dim;
      for (int q = 0; q < bdry[i].n; ++q) c.bdry.push_back({bdry[i].f[q], 1});
      rc.push_back(c);
    }
    ref::Reduction r = ref::reduce(rc, 2);
    if (!ref::self_check(rc, r)) dg.consistent = false;
    if (r.partner != partner) dg.consistent = false;
  }
  size_t paired = 0;
  for (size_t i = 0; i < cells.size(); ++i) {
    int q = partner[i];
    if (q < 0) {
      dg.essential.push_back(Bar{cells[i].dim, cells[i].key, INT_MAX});
      continue;
    }
    if (size_t(q) < i) continue;  // i is the birth cell of the pair (i, q)
    paired += 2;
    if (cells[size_t(q)].dim != cells[i].dim + 1) dg.consistent = false;
    int kb = cells[i].key, kd = cells[size_t(q)].key;
    if (kb > kd) dg.consistent = false;
    if (kb == kd)
      ++dg.zero_length;
    else
      dg.finite.push_back(Bar{cells[i].dim, kb, kd});
  }
  if (paired + dg.essential.size() != cells.size()) dg.consistent = false;
  std::sort(dg.finite.begin(), dg.finite.end());
  std::sort(dg.essential.begin(), dg.essential.end());
  return dg;
}

// ---------------------------------------------------------------------------------------------------------- line
// n segments with keys k[0..n-1] (top cells), n+1 vertices with the minimum key of the adjacent segments.
inline Diagram line_top_cells(const std::vector<int>& k, bool full_check = true) {
  int n = int(k.size());
  std::vector<FCell> cells;
  if (n == 0) return Diagram();
  for (int v = 0; v <= n; ++v) {
    int key = INT_MAX;
    if (v > 0) key = std::min(key, k[size_t(v - 1)]);
    if (v < n) key = std::min(key, k[size_t(v)]);
    cells.push_back(make_cell(key, 0, 2 * v, 0));
  }
  for (int e = 0; e < n; ++e) {
    FCell f = make_cell(k[size_t(e)], 1, 2 * e + 1, 0);
    f.add_face(2 * e, 0);
    f.add_face(2 * e + 2, 0);
    cells.push_back(f);
  }
  return reduce_cells(cells, 2 * n + 2, full_check);
}
// n vertices with keys k[0..n-1], n-1 edges with the maximum key of their end points (PL function on a line).
inline Diagram line_vertices(const std::vector<int>& k, bool full_check = true) {
  int n = int(k.size());
  std::vector<FCell> cells;
  if (n == 0) return Diagram();
  for (int v = 0; v < n; ++v) cells.push_back(make_cell(k[size_t(v)], 0, 2 * v, 0));
  for (int e = 0; e + 1 < n; ++e) {
    FCell f = make_cell(std::max(k[size_t(e)], k[size_t(e + 1)]), 1, 2 * e + 1, 0);
    f.add_face(2 * e, 0);
    f.add_face(2 * e + 2, 0);
    cells.push_back(f);
  }
  return reduce_cells(cells, 2 * n + 2, full_check);
}

// ----------------------------------------------------------------------------------------------------- rectangle
// rows x cols squares, key of square (r,c) = k[r*cols + c]
inline Diagram rectangle_top_cells(const std::vector<int>& k, int rows, int cols, bool full_check = true) {
  std::vector<FCell> cells;
  auto sq = [&](int r, int c) { return k[size_t(r) * size_t(cols) + size_t(c)]; };
  for (int x = 0; x <= 2 * rows; ++x)
    for (int y = 0; y <= 2 * cols; ++y) {
      FCell f = make_cell(INT_MAX, (x & 1) + (y & 1), x, y);
      // squares containing the cell: odd coordinates within distance 1 in each direction
      for (int sx = x - 1; sx <= x + 1; ++sx)
        for (int sy = y - 1; sy <= y + 1; ++sy) {
          if (!(sx & 1) || !(sy & 1)) continue;
          if (sx < 0 || sy < 0 || sx > 2 * rows || sy > 2 * cols) continue;
          f.key = std::min(f.key, sq(sx / 2, sy / 2));
        }
      if (x & 1) {
        f.add_face(x - 1, y);
        f.add_face(x + 1, y);
      }
      if (y & 1) {
        f.add_face(x, y - 1);
        f.add_face(x, y + 1);
      }
      cells.push_back(f);
    }
  return reduce_cells(cells, 2 * std::max(rows, cols) + 2, full_check);
}

struct UF {
  std::vector<int> p;
  explicit UF(int n) : p(size_t(n)) { std::iota(p.begin(), p.end(), 0); }
  int find(int x) {
    while (p[size_t(x)] != x) x = p[size_t(x)];
    return x;
  }
};

// second route: elder rule on squares (H0, 8-connectivity, increasing keys) and on the complement (H1, 4-connectivity
// plus one exterior cell that never dies, decreasing keys).
inline Diagram rectangle_union_find(const std::vector<int>& k, int rows, int cols) {
  Diagram dg;
  int n = rows * cols;
  std::vector<int> order(static_cast<size_t>(n));
  std::iota(order.begin(), order.end(), 0);
  std::stable_sort(order.begin(), order.end(), [&](int a, int b) { return k[size_t(a)] < k[size_t(b)]; });
  {  // H0
    UF uf(n);
    std::vector<int> birth(static_cast<size_t>(n), INT_MAX);
    std::vector<char> in(static_cast<size_t>(n), 0);
    for (int s : order) {
      int key = k[size_t(s)];
      birth[size_t(s)] = key;
      in[size_t(s)] = 1;
      int r = s / cols, c = s % cols;
      for (int dr = -1; dr <= 1; ++dr)
        for (int dc = -1; dc <= 1; ++dc) {
          int rr = r + dr, cc = c + dc;
          if ((dr == 0 && dc == 0) || rr < 0 || cc < 0 || rr >= rows || cc >= cols) continue;
          int o = rr * cols + cc;
          if (!in[size_t(o)]) continue;
          int a = uf.find(s), b = uf.find(o);
          if (a == b) continue;
          if (birth[size_t(a)] > birth[size_t(b)]) std::swap(a, b);  // a elder (smaller birth)
          if (birth[size_t(b)] < key)
            dg.finite.push_back(Bar{0, birth[size_t(b)], key});
          else
            ++dg.zero_length;
          uf.p[size_t(b)] = a;
        }
    }
    if (n > 0) dg.essential.push_back(Bar{0, k[size_t(order[0])], INT_MAX});
  }
  {  // H1: complement components, threshold decreasing; node n = exterior (birth +infinity)
    UF uf(n + 1);
    std::vector<int> birth(static_cast<size_t>(n) + 1, INT_MAX);
    std::vector<char> in(static_cast<size_t>(n) + 1, 0);
    in[size_t(n)] = 1;
    for (auto it = order.rbegin(); it != order.rend(); ++it) {
      int s = *it, key = k[size_t(s)];
      birth[size_t(s)] = key;
      in[size_t(s)] = 1;
      int r = s / cols, c = s % cols;
      const int dr[4] = {-1, 1, 0, 0}, dc[4] = {0, 0, -1, 1};
      for (int d = 0; d < 4; ++d) {
        int rr = r + dr[d], cc = c + dc[d];
        int o = (rr < 0 || cc < 0 || rr >= rows || cc >= cols) ? n : rr * cols + cc;
        if (!in[size_t(o)]) continue;
        int a = uf.find(s), b = uf.find(o);
        if (a == b) continue;
        if (birth[size_t(a)] < birth[size_t(b)]) std::swap(a, b);  // a elder in reversed time (larger birth)
        // the hole b appeared (going down) below birth[b] and is merged below key: H1 class on [key, birth[b])
        if (key < birth[size_t(b)])
          dg.finite.push_back(Bar{1, key, birth[size_t(b)]});
        else
          ++dg.zero_length;
        uf.p[size_t(b)] = a;
      }
    }
  }
  std::sort(dg.finite.begin(), dg.finite.end());
  return dg;
}

// ------------------------------------------------------------------------------------------------ weak orders
// Number of weak orders (ordered set partitions) of n elements, n <= 12 fits easily in 64 bits.
inline uint64_t fubini(int n) {
  static std::vector<uint64_t> f;
  if (f.empty()) {
    f.assign(16, 0);
    f[0] = 1;
    uint64_t binom[16][16] = {};
    for (int i = 0; i < 16; ++i) {
      binom[i][0] = 1;
      for (int j = 1; j <= i; ++j) binom[i][j] = binom[i - 1][j - 1] + (j <= i - 1 ? binom[i - 1][j] : 0);
    }
    for (int m = 1; m < 16; ++m)
      for (int j = 1; j <= m; ++j) f[size_t(m)] += binom[m][j] * f[size_t(m - j)];
  }
  return f[size_t(n)];
}
inline uint64_t binomial(int n, int k) {
  if (k < 0 || k > n) return 0;
  uint64_t r = 1;
  for (int i = 1; i <= k; ++i) r = r * uint64_t(n - k + i) / uint64_t(i);
  return r;
}
// The idx-th weak order of n elements (0 <= idx < fubini(n)) as a level per element: level 0 = the minimal block.
// Bijection: choose the size j of the minimal block, then which j of the remaining elements (combinatorial number
// system), then recursively a weak order of the rest.
inline std::vector<int> unrank_weak_order(uint64_t idx, int n) {
  std::vector<int> level(static_cast<size_t>(n), -1);
  std::vector<int> rest(static_cast<size_t>(n));
  std::iota(rest.begin(), rest.end(), 0);
  int lv = 0;
  while (!rest.empty()) {
    int m = int(rest.size());
    int j = 1;
    for (;; ++j) {
      uint64_t cnt = binomial(m, j) * fubini(m - j);
      if (idx < cnt) break;
      idx -= cnt;
    }
    uint64_t sub = idx / fubini(m - j);
    idx = idx % fubini(m - j);
    // sub-th j-subset of {0..m-1} in lexicographic order of the sorted subsets
    std::vector<int> chosen;
    int next = 0;
    for (int need = j; need > 0; --need) {
      for (;; ++next) {
        uint64_t c = binomial(m - next - 1, need - 1);  // subsets whose smallest remaining element is `next`
        if (sub < c) break;
        sub -= c;
      }
      chosen.push_back(next++);
    }
    std::vector<int> nrest;
    size_t ci = 0;
    for (int i = 0; i < m; ++i) {
      if (ci < chosen.size() && chosen[ci] == i) {
        level[size_t(rest[size_t(i)])] = lv;
        ++ci;
      } else
        nrest.push_back(rest[size_t(i)]);
    }
    rest.swap(nrest);
    ++lv;
  }
  return level;
}

// dense ranks of a sequence under a strict weak order `lt` (equivalent elements share a rank)
template <class V, class Lt>
std::vector<int> dense_ranks(const std::vector<V>& v, Lt lt) {
  std::vector<size_t> idx(v.size());
  std::iota(idx.begin(), idx.end(), size_t(0));
  std::stable_sort(idx.begin(), idx.end(), [&](size_t a, size_t b) { return lt(v[a], v[b]); });
  std::vector<int> rk(v.size(), 0);
  int cur = 0;
  for (size_t i = 0; i < idx.size(); ++i) {
    if (i > 0 && lt(v[idx[i - 1]], v[idx[i]])) ++cur;
    rk[idx[i]] = cur;
  }
  return rk;
}
// strict ranks: ties broken by position
template <class V, class Lt>
std::vector<int> strict_ranks(const std::vector<V>& v, Lt lt) {
  std::vector<size_t> idx(v.size());
  std::iota(idx.begin(), idx.end(), size_t(0));
  std::stable_sort(idx.begin(), idx.end(), [&](size_t a, size_t b) { return lt(v[a], v[b]); });
  std::vector<int> rk(v.size(), 0);
  for (size_t i = 0; i < idx.size(); ++i) rk[idx[i]] = int(i);
  return rk;
}

}  // namespace ls

#endif  // C14_LOWERSTAR_H_
