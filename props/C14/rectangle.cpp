// C14 (2D part): persistence_on_rectangle_from_top_cells against the lower-star filtration of the rectangle's cubical
// complex, built and reduced independently (props/C14/lowerstar.h + ref/reduce.h over Z_2), cross-checked inside the
// oracle by a union-find / Alexander-duality route.
//
// Tape: byte 0 % 3 = mode.
//   0 random:     size bytes, palette, then one byte per square.
//   1 pattern:    byte 1, 2 = rows-2, cols-2 (mod 7), then rows*cols raw bytes = the values (enumerations {0..b-1}^(RxC)).
//   2 weak order: byte 1, 2 = rows-2, cols-2, byte 3 = digit base B, then the digits (little endian, base B) of the rank
//                 of a weak order of the rows*cols squares (ls::unrank_weak_order); value = level.
// Every decoded array of small integers a[] is run through
//   R1 double / Index = unsigned    / values   (the instantiation of the Python binding)
//   R2 double / Index = std::size_t / indices  (the instantiation of the benchmark)
//   R3 float  / Index = std::size_t / values
//   R4 int    / Index = unsigned    / indices
// What is asserted: the multiset of (dimension, birth, death) - for index mode after looking the indices up in the
// input - equals the oracle's non-zero-length intervals; the returned value (index) is (an index of) the global
// minimum. Zero-length pairs (b == d as values) that the routine reports on tied inputs are dropped before comparing
// (both in-tree callers filter them) and counted as class "zero_length_pair_reported".
#include "vf.h"
#include "lowerstar.h"

#include <gudhi/Persistence_on_rectangle.h>

#include <limits>
#include <sstream>
#include <string>
#include <vector>

namespace {

const char* kFinding = "C14-rectangle-side-2";

std::string show(const std::vector<ls::Bar>& v) {
  std::ostringstream o;
  for (auto& b : v) o << " H" << b[0] << "[" << b[1] << "," << b[2] << ")";
  return o.str();
}

struct Want {
  ls::Diagram value;   // keys = dense ranks of the values
  ls::Diagram strict;  // keys = ranks in the (value, index) order
  std::vector<int> kv, ks;
};

// full: also run the shared ref::reduce (with its R = B*V self-check) and require the identical pairing; done on a
// deterministic sample because it costs ~10x the rest of the case.
ls::Diagram oracle(const std::vector<int>& keys, int rows, int cols, bool full) {
  ls::Diagram a = ls::rectangle_top_cells(keys, rows, cols, full);
  VF_ORACLE(a.consistent, "rectangle oracle: reduction self-check failed");
  VF_ORACLE(a.essential.size() == 1 && a.essential[0][0] == 0, "rectangle oracle: a rectangle must have one essential class");
  ls::Diagram b = ls::rectangle_union_find(keys, rows, cols);
  VF_ORACLE(a.finite == b.finite && a.essential == b.essential,
            "rectangle oracle: matrix reduction and union-find/duality routes disagree:" << show(a.finite) << " vs" << show(b.finite));
  return a;
}

template <class F, class Index>
void check_values(vf::Ctx& ctx, const char* name, const std::vector<F>& in, int rows, int cols, const Want& w) {
  std::vector<ls::Bar> got;
  size_t n = in.size();
  auto keyof = [&](F x) {
    for (size_t j = 0; j < n; ++j)
      if (in[j] == x) return w.kv[j];
    return -1;
  };
  unsigned zero = 0;
  bool bad_value = false, reversed = false;
  auto out = [&](int dim) {
    return [&, dim](F b, F d) {
      int kb = keyof(b), kd = keyof(d);
      if (kb < 0 || kd < 0) bad_value = true;
      else if (kb == kd) ++zero;
      else if (kb > kd) reversed = true;
      else got.push_back(ls::Bar{dim, kb, kd});
    };
  };
  F m = Gudhi::cubical_complex::persistence_on_rectangle_from_top_cells(in.data(), Index(rows), Index(cols), out(0), out(1));
  VF_CHECK(!bad_value, "rect_value_not_in_input", name << ": an interval end point is not an input value");
  VF_CHECK(!reversed, "rect_reversed_interval", name << ": an interval with death < birth was reported");
  std::sort(got.begin(), got.end());
  VF_CHECK(got == w.value.finite, "rect_value_diagram",
           name << ": intervals (as ranks of values) got" << show(got) << " expected" << show(w.value.finite));
  VF_CHECK(keyof(m) == 0, "rect_value_minimum", name << ": returned " << m << " which has rank " << keyof(m) << ", not the global minimum");
  if (zero) ctx.hit("zero_length_pair_reported(values)");
}

template <class F, class Index>
void check_indices(vf::Ctx& ctx, const char* name, const std::vector<F>& in, int rows, int cols, const Want& w) {
  std::vector<ls::Bar> got, got_strict;
  size_t n = in.size();
  unsigned zero = 0;
  bool out_of_range = false, reversed = false;
  auto out = [&](int dim) {
    return [&, dim](Index b, Index d) {
      if (std::size_t(b) >= n || std::size_t(d) >= n) {
        out_of_range = true;
        return;
      }
      int kb = w.kv[std::size_t(b)], kd = w.kv[std::size_t(d)];
      if (kb == kd) ++zero;
      else if (kb > kd) reversed = true;
      else got.push_back(ls::Bar{dim, kb, kd});
      if (b != d) got_strict.push_back(ls::Bar{dim, w.ks[std::size_t(b)], w.ks[std::size_t(d)]});
    };
  };
  Index gm = Gudhi::cubical_complex::persistence_on_rectangle_from_top_cells<true>(in.data(), Index(rows), Index(cols), out(0), out(1));
  VF_CHECK(!out_of_range, "rect_index_out_of_range", name << ": an index >= rows*cols was reported");
  VF_CHECK(!reversed, "rect_reversed_interval", name << ": an interval with death < birth was reported");
  std::sort(got.begin(), got.end());
  VF_CHECK(got == w.value.finite, "rect_index_diagram",
           name << ": intervals (ranks of the values at the reported indices) got" << show(got) << " expected" << show(w.value.finite));
  VF_CHECK(std::size_t(gm) < n && w.kv[std::size_t(gm)] == 0, "rect_index_minimum",
           name << ": returned index " << gm << " is not an index of the global minimum");
  if (zero) ctx.hit("zero_length_pair_reported(indices)");
  // not asserted (the documentation only promises "the index of this filtration value"): do the index pairs coincide
  // with the pairing under the strict total order (value, index)?
  std::sort(got_strict.begin(), got_strict.end());
  bool same = got_strict == w.strict.finite && w.ks[std::size_t(gm)] == 0;
  ctx.hit(same ? "index_pairs=strict(value,index)_pairing" : "index_pairs!=strict(value,index)_pairing");
}

}  // namespace

namespace vf {
const char* harness_name() { return "C14/rectangle"; }

void run_case(Tape& t, Ctx& ctx) {
  unsigned mode = t.u8() % 3;
  int rows, cols;
  std::vector<int> a;
  int inf_pos = -1;
  if (mode == 0) {
    auto side = [&]() { return int(t.weighted({3, 6, 6, 5, 4, 2, 1, 1})) + 2; };  // 2..9
    rows = side();
    cols = side();
    if ((rows == 2 || cols == 2) && ctx.excluded(kFinding)) {
      ctx.hit(std::string("excluded:") + kFinding);
      if (rows == 2) rows = 3;
      if (cols == 2) cols = 3;
    }
    static const unsigned pal[] = {2, 3, 4, 6, 16, 256};
    unsigned k = pal[t.below(6)];
    bool with_inf = t.chance(1, 16);
    for (int i = 0; i < rows * cols; ++i) a.push_back(int(t.below(k)));
    if (with_inf) {
      inf_pos = int(t.below(unsigned(rows * cols)));
      ctx.hit("with_infinite_value");
    }
    ctx.hit("random");
  } else if (mode == 1) {
    rows = 2 + t.u8() % 7;
    cols = 2 + t.u8() % 7;
    for (int i = 0; i < rows * cols; ++i) a.push_back(t.u8());
    ctx.hit("pattern");
  } else {
    rows = 2 + t.u8() % 7;
    cols = 2 + t.u8() % 7;
    if (rows > 6) rows = 6;
    if (rows * cols > 12) cols = std::max(2, 12 / rows);
    unsigned B = t.u8();
    if (B < 2) B = 256;
    uint64_t F = ls::fubini(rows * cols), span = 1, idx = 0, mul = 1;
    while (span < F) {
      idx += mul * (t.u8() % B);
      mul *= B;
      span *= B;
    }
    a = ls::unrank_weak_order(idx % F, rows * cols);
    ctx.hit("weak_order");
  }
  ctx.desc << "rectangle " << rows << "x" << cols << " (C order)\n";
  for (int r = 0; r < rows; ++r) {
    for (int c = 0; c < cols; ++c) {
      if (r * cols + c == inf_pos)
        ctx.desc << " +inf";
      else
        ctx.desc << " " << a[size_t(r * cols + c)];
    }
    ctx.desc << "\n";
  }
  bool side2 = rows == 2 || cols == 2;
  if (side2 && ctx.excluded(kFinding)) {  // enumerated modes: the decoded case *is* the trigger, nothing else to run
    ctx.hit(std::string("excluded:") + kFinding);
    return;
  }
  ctx.hit(side2 ? "a_side_of_length_2" : "sides>=3");
  {
    std::ostringstream s;
    s << "shape_" << std::min(rows, cols) << "x" << std::max(rows, cols);
    ctx.hit(s.str());
  }

  size_t n = a.size();
  std::vector<double> vd(n);
  for (size_t i = 0; i < n; ++i) vd[i] = a[i] * 0.5 - 1.0;
  if (inf_pos >= 0) vd[size_t(inf_pos)] = std::numeric_limits<double>::infinity();
  uint64_t h = 1469598103934665603ULL;
  for (int x : a) h = (h ^ uint64_t(x)) * 1099511628211ULL;
  h ^= h >> 29;
  bool full = mode == 0 ? (h % 2 == 0 || n <= 16) : (h % 8 == 0);
  if (full) ctx.hit("oracle_cross_checked_by_ref::reduce");
  Want wd;
  wd.kv = ls::dense_ranks(vd, std::less<double>());
  wd.ks = ls::strict_ranks(vd, std::less<double>());
  wd.value = oracle(wd.kv, rows, cols, full);
  wd.strict = oracle(wd.ks, rows, cols, full);

  bool repeated = false;
  {
    std::vector<int> s = wd.kv;
    std::sort(s.begin(), s.end());
    repeated = std::adjacent_find(s.begin(), s.end()) != s.end();
  }
  size_t h0 = 0, h1 = 0;
  for (auto& b : wd.value.finite) (b[0] == 0 ? h0 : h1)++;
  if (h0) ctx.hit("has_finite_H0");
  if (h1) ctx.hit("has_H1");
  if (h0 && h1) ctx.hit("has_H0_and_H1");
  if (repeated) ctx.hit("repeated_value");
  if (wd.value.finite.empty()) ctx.hit("no_finite_interval");
  if (wd.value.finite.size() + 1 >= 2 && repeated) ctx.mark_nontrivial();

  check_values<double, unsigned>(ctx, "R1 double/unsigned/values", vd, rows, cols, wd);
  check_indices<double, std::size_t>(ctx, "R2 double/size_t/indices", vd, rows, cols, wd);

  Want wa = wd;
  if (inf_pos >= 0) {  // the float / int variants use the finite values only
    wa.kv = ls::dense_ranks(a, std::less<int>());
    wa.ks = ls::strict_ranks(a, std::less<int>());
    wa.value = oracle(wa.kv, rows, cols, full);
    wa.strict = oracle(wa.ks, rows, cols, full);
  }
  std::vector<float> vfl(n);
  for (size_t i = 0; i < n; ++i) vfl[i] = float(a[i]) * 0.25f;
  check_values<float, std::size_t>(ctx, "R3 float/size_t/values", vfl, rows, cols, wa);
  std::vector<int> vi(n);
  for (size_t i = 0; i < n; ++i) vi[i] = a[i] - 2;
  check_indices<int, unsigned>(ctx, "R4 int/unsigned/indices", vi, rows, cols, wa);
}
}  // namespace vf
