// C14 (1D part): compute_persistence_of_function_on_line against the lower-star filtration of a path, built and
// reduced independently (props/C14/lowerstar.h + ref/reduce.h).
//
// Tape: byte 0 = mode (even: random sequence, odd: enumerated sequence).
//   enumerated: byte 1 = length L (clamped to 40), then L raw bytes = the values.
//   random:     size class, palette size, flags, then one or two bytes per value.
// Every decoded sequence of small integers a[i] is run through all of these instantiations:
//   V1 std::vector<double>  (a/2 - 1, optionally with +-infinity), default comparator (std::less<>)
//   V2 std::vector<float>   , std::greater<>          (super-level sets: the "minimum" is the maximum)
//   V3 std::list<int>       (a - 2), std::less<int>   (numeric_limits<int>::infinity() == 0 is the documented last argument)
//   V4 indices 0..n-1 (size_t) compared through their values (weak order, ties)       -> "index mode", weak
//   V5 indices 0..n-1 compared by (value, index) (strict total order)                  -> "index mode", strict: exact pairs
//   V6 struct {double value; unsigned index;} compared by (value, index)
#include "vf.h"
#include "lowerstar.h"

#include <gudhi/Persistence_on_a_line.h>

#include <functional>
#include <limits>
#include <list>
#include <sstream>
#include <string>
#include <vector>

namespace {

struct VI {
  double v = -12345.5;
  unsigned i = 4242;
};
struct VI_less {
  bool operator()(const VI& a, const VI& b) const { return a.v < b.v || (a.v == b.v && a.i < b.i); }
};
// The routine must use the comparator it is given and nothing else. The built-in operators of the element type exist
// (so that an accidental use still compiles) but are deliberately the OPPOSITE order: any use of them changes the answer.
inline bool operator<(const VI& a, const VI& b) { return VI_less()(b, a); }
inline bool operator>(const VI& a, const VI& b) { return VI_less()(a, b); }
inline bool operator<=(const VI& a, const VI& b) { return !VI_less()(a, b); }
inline bool operator>=(const VI& a, const VI& b) { return !VI_less()(b, a); }

std::string show(const std::vector<ls::Bar>& v) {
  std::ostringstream o;
  for (auto& b : v) o << " [" << b[1] << "," << b[2] << ")";
  return o.str();
}

// Runs one instantiation. `keyof(x)` maps an output value to the key (rank) of the input it is equal to, -1 if none.
template <class F, bool default_lt = false, class Range, class Lt, class KeyOf, class Eq>
void run_variant(vf::Ctx& ctx, const char* name, const Range& input, size_t n, Lt lt, KeyOf keyof, Eq same,
                 const ls::Diagram& want) {
  std::vector<std::pair<F, F>> calls;
  auto out = [&](F b, F d) { calls.push_back({b, d}); };
  if constexpr (default_lt)
    Gudhi::persistent_cohomology::compute_persistence_of_function_on_line(input, out);
  else
    Gudhi::persistent_cohomology::compute_persistence_of_function_on_line(input, out, lt);
  if (n == 0) {
    VF_CHECK(calls.empty(), "line_empty_input", name << ": " << calls.size() << " calls on an empty range");
    return;
  }
  VF_CHECK(!calls.empty(), "line_no_infinite_interval", name << ": no call at all");
  VF_ORACLE(want.essential.size() == 1, "line oracle: not exactly one essential class");
  int kmin = keyof(calls.back().first);
  VF_CHECK(kmin == want.essential[0][1], "line_minimum",
           name << ": last call reports key " << kmin << " as the minimum, expected key " << want.essential[0][1]);
  VF_CHECK(same(calls.back().second, std::numeric_limits<F>::infinity()), "line_infinity_convention",
           name << ": last call's second argument is not numeric_limits<Filtration>::infinity()");
  std::vector<ls::Bar> got;
  for (size_t c = 0; c + 1 < calls.size(); ++c) {
    int kb = keyof(calls[c].first), kd = keyof(calls[c].second);
    VF_CHECK(kb >= 0 && kd >= 0, "line_value_not_in_input", name << ": call " << c << " reports a value absent from the input");
    VF_CHECK(lt(calls[c].first, calls[c].second), "line_zero_length_or_reversed",
             name << ": call " << c << " has keys [" << kb << "," << kd << ")");
    got.push_back(ls::Bar{0, kb, kd});
  }
  std::sort(got.begin(), got.end());
  VF_CHECK(got == want.finite, "line_diagram",
           name << ": intervals (as ranks of values) got" << show(got) << " expected" << show(want.finite));
}

// full: also run the shared ref::reduce (with its R = B*V self-check) and require the identical pairing
ls::Diagram oracle(const std::vector<int>& keys, bool full) {
  ls::Diagram a = ls::line_top_cells(keys, full), b = ls::line_vertices(keys, full);
  VF_ORACLE(a.consistent && b.consistent, "line oracle: reduction self-check failed");
  VF_ORACLE(a == b, "line oracle: top-cell and vertex conventions disagree");
  return a;
}

}  // namespace

namespace vf {
const char* harness_name() { return "C14/line"; }

void run_case(Tape& t, Ctx& ctx) {
  unsigned mode = t.u8() & 1;
  std::vector<int> a;
  int inf_pos = -1, ninf_pos = -1;
  if (mode == 1) {
    unsigned L = std::min<unsigned>(t.u8(), 40);
    for (unsigned i = 0; i < L; ++i) a.push_back(t.u8());
    ctx.hit("enumerated");
  } else {
    unsigned n = t.chance(1, 2) ? t.below(41) : t.below(9);
    static const unsigned pal[] = {2, 3, 4, 6, 16, 256};
    unsigned k = pal[t.below(6)];
    bool plateaus = t.flip();
    bool with_inf = t.chance(1, 8);
    for (unsigned i = 0; i < n; ++i) {
      if (plateaus && i > 0 && t.chance(1, 3))
        a.push_back(a.back());
      else
        a.push_back(int(t.below(k)));
    }
    if (with_inf && n > 0) {
      inf_pos = int(t.below(n));
      if (t.flip()) ninf_pos = int(t.below(n));
      if (ninf_pos == inf_pos) ninf_pos = -1;
      ctx.hit("with_infinite_value");
    }
    ctx.hit("random");
  }
  size_t n = a.size();
  ctx.desc << "line n=" << n << " values:";
  for (size_t i = 0; i < n; ++i) {
    if (int(i) == inf_pos)
      ctx.desc << " +inf";
    else if (int(i) == ninf_pos)
      ctx.desc << " -inf";
    else
      ctx.desc << " " << a[i];
  }
  ctx.desc << "\n";
  ctx.hit(n <= 6 ? "len<=6" : (n <= 16 ? "len7-16" : "len17-40"));

  // --- V1: doubles (with optional infinities), default comparator
  std::vector<double> vd(n);
  for (size_t i = 0; i < n; ++i) vd[i] = a[i] * 0.5 - 1.0;
  if (inf_pos >= 0) vd[size_t(inf_pos)] = std::numeric_limits<double>::infinity();
  if (ninf_pos >= 0) vd[size_t(ninf_pos)] = -std::numeric_limits<double>::infinity();
  uint64_t h = 1469598103934665603ULL;
  for (int x : a) h = (h ^ uint64_t(x)) * 1099511628211ULL;
  h ^= h >> 29;
  bool full = n <= 8 || h % 4 == 0;
  if (full) ctx.hit("oracle_cross_checked_by_ref::reduce");
  std::vector<int> k_less = ls::dense_ranks(vd, std::less<double>());
  ls::Diagram want_less = oracle(k_less, full);
  {
    auto keyof = [&](double x) {
      for (size_t j = 0; j < n; ++j)
        if (vd[j] == x) return k_less[j];
      return -1;
    };
    run_variant<double, true>(ctx, "V1 vector<double>, default less", vd, n, std::less<double>(), keyof,
                        [](double x, double y) { return x == y; }, want_less);
  }
  // classification on the sub-level diagram of V1
  bool repeated = false;
  {
    std::vector<int> s = k_less;
    std::sort(s.begin(), s.end());
    repeated = std::adjacent_find(s.begin(), s.end()) != s.end();
  }
  size_t nint = want_less.finite.size() + want_less.essential.size();
  ctx.hit(want_less.finite.empty() ? "no_finite_interval" : (want_less.finite.size() == 1 ? "1_finite_interval" : ">=2_finite_intervals"));
  if (repeated) ctx.hit("repeated_value");
  if (want_less.zero_length > 0) ctx.hit("oracle_has_zero_length_pairs");
  if (nint >= 2 && repeated) ctx.mark_nontrivial();

  // the remaining variants use finite values only (a[i] as such)
  std::vector<int> k_a_less = ls::dense_ranks(a, std::less<int>());
  std::vector<int> k_a_greater = ls::dense_ranks(a, std::greater<int>());
  std::vector<int> k_a_strict = ls::strict_ranks(a, std::less<int>());
  ls::Diagram want_a_less = (inf_pos < 0 && ninf_pos < 0) ? want_less : oracle(k_a_less, full);
  ls::Diagram want_a_greater = oracle(k_a_greater, full);
  ls::Diagram want_a_strict = oracle(k_a_strict, full);

  // --- V2: floats, std::greater<>
  {
    std::vector<float> vfl(n);
    for (size_t i = 0; i < n; ++i) vfl[i] = float(a[i]) * 0.25f;
    auto keyof = [&](float x) {
      for (size_t j = 0; j < n; ++j)
        if (vfl[j] == x) return k_a_greater[j];
      return -1;
    };
    run_variant<float>(ctx, "V2 vector<float>, std::greater<>", vfl, n, std::greater<>(), keyof,
                       [](float x, float y) { return x == y; }, want_a_greater);
  }
  // --- V3: list<int>, std::less<int>
  {
    std::list<int> li;
    for (size_t i = 0; i < n; ++i) li.push_back(a[i] - 2);
    auto keyof = [&](int x) {
      for (size_t j = 0; j < n; ++j)
        if (a[j] - 2 == x) return k_a_less[j];
      return -1;
    };
    run_variant<int>(ctx, "V3 list<int>, std::less<int>", li, n, std::less<int>(), keyof,
                     [](int x, int y) { return x == y; }, want_a_less);
  }
  std::vector<std::size_t> idx(n);
  for (size_t i = 0; i < n; ++i) idx[i] = i;
  // --- V4: indices compared through their values (weak order)
  {
    auto lt = [&](std::size_t x, std::size_t y) { return a[x] < a[y]; };
    auto keyof = [&](std::size_t x) { return x < n ? k_a_less[x] : -1; };
    run_variant<std::size_t>(ctx, "V4 indices, compare values", idx, n, lt, keyof,
                             [](std::size_t x, std::size_t y) { return x == y; }, want_a_less);
  }
  // --- V5: indices compared by (value, index): strict order, the pairs are determined as indices
  {
    auto lt = [&](std::size_t x, std::size_t y) { return a[x] < a[y] || (a[x] == a[y] && x < y); };
    auto keyof = [&](std::size_t x) { return x < n ? k_a_strict[x] : -1; };
    run_variant<std::size_t>(ctx, "V5 indices, compare (value,index)", idx, n, lt, keyof,
                             [](std::size_t x, std::size_t y) { return x == y; }, want_a_strict);
  }
  // --- V6: (value,index) structs
  {
    std::vector<VI> vv(n);
    for (size_t i = 0; i < n; ++i) {
      vv[i].v = a[i] * 0.5;
      vv[i].i = unsigned(i);
    }
    auto keyof = [&](const VI& x) { return (x.i < n && vv[x.i].v == x.v) ? k_a_strict[x.i] : -1; };
    run_variant<VI>(ctx, "V6 struct(value,index), lexicographic", vv, n, VI_less(), keyof,
                    [](const VI& x, const VI& y) { return x.v == y.v && x.i == y.i; }, want_a_strict);
  }
}
}  // namespace vf
