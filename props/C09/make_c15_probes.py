#!/usr/bin/env python3
"""C15, matrix part (props/C09/main.cpp built with -DC09_COPY_OPS): appends the mat_base_* targets to props/C15/prop.json
(existing entries are kept untouched), writes the probe tapes of the findings met there, a few seed tapes, and the
per-property proposal files findings/C15.json and findings/C09.json (read by `check` next to known_findings.json).

Tape layout with -DC09_COPY_OPS (harness.h, run_pool): [option set index] [p index, Zp only] [ctor byte] [n]  then per step
one byte b: object = live[(b & 3) % #live], kind = (b >> 2) & 7;  kind <= 4: an ordinary C09 operation on that object
([0xF0 + op] [arguments], no read byte);  kind >= 5: a pool operation [what % 7: 0 copy-construct, 1 copy-assign, 2 move-
construct, 3 move-assign, 4 swap, 5 destroy, 6 reuse a moved-from matrix] [arguments]. Every live object is read back
completely after every step.
"""
import json
import os

HERE = os.path.dirname(os.path.abspath(__file__))
ROOT = os.path.dirname(os.path.dirname(HERE))
INS, ZERO_E, ERASE_R, ADD = 0, 10, 14, 4
REGULAR, POOL = 0x00, 0x14  # step bytes for object #0 (kind 0 / kind 5)
COPY_CTOR, COPY_ASSIGN, MOVE_CTOR, MOVE_ASSIGN, SWAP, DESTROY, REUSE = range(7)

TARGETS = [
    # name, option sets (codes of props/C09/options.h), note
    ("mat_base_set", [1110000, 1102000], "SET/Zp plain; SET/Z2 with set rows"),
    ("mat_base_ilist_rows", [1711000, 1701000], "INTRUSIVE_LIST with intrusive rows, Zp and Z2"),
    ("mat_base_vector_rmrows", [1314000, 1304100], "VECTOR with removable set rows: Zp vector container; Z2 map container"),
    ("mat_base_heap", [1210000, 1200000], "HEAP, Zp and Z2"),
    ("mat_base_compressed", [1813001, 1002001], "column compression: INTRUSIVE_SET/Zp intrusive removable rows; LIST/Z2 set rows"),
    ("mat_base_map_swaps", [1611110, 1400110], "map column container with swaps: UNORDERED_SET/Zp intrusive rows; NAIVE_VECTOR/Z2"),
]


def update_prop():
    p = os.path.join(ROOT, "props", "C15", "prop.json")
    prop = json.load(open(p))
    have = {t["name"] for t in prop["targets"]}
    for i, (name, sets, note) in enumerate(TARGETS):
        if name in have:
            continue
        prop["targets"].append({
            "name": name, "sources": ["props/C09/main.cpp"],
            "flags": ["-DC09_COPY_OPS", "-DCFG=%d" % (200 + i), "-DC09_SETS=" + ",".join(map(str, sets))],
            "cases": {"quick": 3000, "thorough": 60000}, "maxlen": 384, "streams": 4,
            "corpus": "mat_base", "class_group": "mat_base", "exclude_from": "C09",
            "note": "Matrix<base options> copies / moves / swaps (C09 harness with -DC09_COPY_OPS): " + note})
    with open(p, "w") as f:
        json.dump(prop, f, indent=1)
        f.write("\n")


def write(corpus, name, b):
    d = os.path.join(ROOT, "corpus", *corpus)
    os.makedirs(d, exist_ok=True)
    with open(os.path.join(d, name), "wb") as f:
        f.write(bytes(b))
    return os.path.join("corpus", *corpus, name)


def ins_z2(mask):
    return [0xF0 + INS, mask]


def ins_zp(rows_vals):  # list of (row, value) with p > 2: value byte = value - 1, then the "big value" chance byte
    mask = 0
    out = []
    for r, v in sorted(rows_vals):
        mask |= 1 << r
        out += [v - 1, 0]
    return [0xF0 + INS, mask] + out


c15, c09 = [], []
# ---- C15-matrix-moved-from-unusable: mat_base_set, set 0 = SET/Zp, p = 3
t = [0, 1, 0, 0] + [REGULAR] + ins_zp([(0, 1)]) + [POOL, MOVE_CTOR] + [POOL, REUSE]
c15.append({"property": "C15", "id": "C15-matrix-moved-from-unusable", "status": "known",
            "what": "a moved-from Matrix is left with null column settings (and a null row container / column pool): it can only "
                    "be destroyed or assigned to; set_characteristic / insert_column / copying it dereference null",
            "trigger": "any use of a moved-from Matrix other than destruction or assignment to it",
            "target": "mat_base_set", "probe": write(("C15", "mat_base"), "kf-C15-matrix-moved-from-unusable.tape", t),
            "expect_class": "CRASH", "report": "findings/C15-matrix-moved-from-unusable.md"})
# ---- C15-compression-copy-column-count: mat_base_compressed, set 1 = LIST/Z2 compressed, Matrix(2)
t = [1, 0, 2] + [REGULAR] + ins_z2(0) + [POOL, COPY_CTOR]
c15.append({"property": "C15", "id": "C15-compression-copy-column-count", "status": "known",
            "what": "copy of a compressed base matrix that was constructed with more reserved columns than it holds reports the "
                    "reserved number as get_number_of_columns() (and inserts the next column at that index)",
            "trigger": "has_column_compression: copy construction / copy assignment from a matrix built by Matrix(n) (or copied "
                       "from one) while it holds fewer than n columns",
            "target": "mat_base_compressed",
            "probe": write(("C15", "mat_base"), "kf-C15-compression-copy-column-count.tape", t),
            "expect_class": "V:number_of_columns@copy_construct/LIST", "report": "findings/C15-compression-copy-column-count.md"})
# ---- C15-vector-copy-relinks-erased-entry: mat_base_vector_rmrows, set 1 = VECTOR/Z2 set+removable rows, map container
# two columns sharing row 0, so that the copy has a reason to own that row: zero_entry(column 0, row 0), copy
t = [1, 0, 0] + [REGULAR] + ins_z2(0b11) + [REGULAR] + ins_z2(0b01) + [REGULAR, 0xF0 + ZERO_E, 0, 0] + [POOL, COPY_CTOR]
c15.append({"property": "C15", "id": "C15-vector-copy-relinks-erased-entry", "status": "known",
            "what": "copying a matrix with VECTOR columns and row access links the lazily erased entries of the source into the "
                    "rows of the copy: get_row of the copy lists entries whose value is zero",
            "trigger": "VECTOR column type + has_row_access: copy construction / assignment while a column still stores an entry "
                       "zeroed by zero_entry",
            "target": "mat_base_vector_rmrows",
            "probe": write(("C15", "mat_base"), "kf-C15-vector-copy-relinks-erased-entry.tape", t),
            "expect_class": "V:row@copy_construct/VECTOR", "report": "findings/C15-vector-copy-relinks-erased-entry.md"})
# ---- C09-vector-erased-entry-erased-row (plain C09 tape): full034 = VECTOR/Zp set+removable rows; find its index
sets034 = None
for tg in json.load(open(os.path.join(HERE, "prop.json")))["targets"]:
    if tg["name"] == "full034":
        sets034 = [int(x) for x in tg["flags"][1].split("=")[1].split(",")]
idx = sets034.index(1314000)
t = [idx, 1, 0, 0] + ins_zp([(0, 1), (1, 1)]) + [0] + [0xF0 + ZERO_E, 1, 3] + [0xF0 + ERASE_R, 0, 0]
c09.append({"property": "C09", "id": "C09-vector-erased-entry-erased-row", "status": "known",
            "what": "Vector_column with removable set rows: an entry zeroed by zero_entry is unlinked from its row at once and a "
                    "second time when it is finally destroyed; if erase_empty_row removed the (now empty) row in between, "
                    "Row_access::unlink dereferences rows_->end() (regression of the C09-vector-zero-entry-row fix)",
            "trigger": "VECTOR column type + set rows + removable rows: erase_empty_row(r) while a column still stores an entry of "
                       "row r that was zeroed by zero_entry",
            "target": "full034", "probe": write(("C09", "full034"), "kf-C09-vector-erased-entry-erased-row.tape", t),
            "expect_class": "CRASH", "report": "findings/C09-vector-erased-entry-erased-row.md"})

# ---- seeds (must hold on every mat_base target: option set 0 or 1 of each; Zp reads one more byte, both layouts are valid)
seeds = [
    # three inserts, copy, diverge both, destroy the copy, keep using the source
    [0, 1, 0, 0, 0x00, 0xF0, 3, 0, 0, 0, 0, 0x00, 0xF0, 6, 0, 0, 0, 0, 0x00, 0xF0, 5, 0, 0, 0, 0, 0x00, 0xF0, 12, 0, 0, 0, 0,
     0x14, 0, 0x00, 0xF4, 0, 1, 0x01, 0xF4, 1, 0, 0x15, 5, 0, 0x00, 0xF0, 9, 0, 0, 0, 0],
    # move construct, move back by assignment, self assignment, swap
    [1, 0, 0, 0x00, 0xF0, 3, 0x00, 0xF0, 5, 0x14, 2, 0x14, 3, 0, 0x14, 1, 0, 0x14, 0, 0x14, 4, 0, 0x01, 0xF4, 0, 0],
]
for i, s in enumerate(seeds):
    write(("C15", "mat_base"), "seed-mat-%d.tape" % i, s)

update_prop()
for fn, lst in (("C15.json", c15), ("C09.json", c09)):
    with open(os.path.join(ROOT, "findings", fn), "w") as f:
        json.dump({"findings": lst}, f, indent=1)
        f.write("\n")
print("targets appended:", [n for n, _, _ in TARGETS])
for x in c15 + c09:
    print(x["id"], x["target"], x["probe"])
