#!/usr/bin/env python3
"""Writes the hand-assembled probe tapes of the C09 known findings (corpus/C09/<target>/kf-<id>.tape), a few hand-picked
seed tapes, and findings/C09.json. Uses the "direct operation" byte (0xF0 + operation number) of the decoder in
harness.h, so the tapes do not depend on the weights of the random generator. Re-run after gen_prop.py changed the
grouping of the core option sets (the first tape byte is the index of the option set inside its translation unit).

Tape layout (harness.h):  [set index] [p index, Zp only: 0->2 1->3 2->5 3->7 4->11] [ctor byte: low 3 bits variant
(0 = Matrix(n,p) followed by n), bit 7 = narrow case]  then per step  [0xF0+op] [arguments] [read byte: 0 = full, 3 = light]
"""
import json
import os

HERE = os.path.dirname(os.path.abspath(__file__))
ROOT = os.path.dirname(os.path.dirname(HERE))
INS, INS_AT, RM_LAST, RM_COL, ADD, ADD_R, MTA, MTA_R, MSA, MSA_R, ZERO_E, ZERO_C, SWAP_C, SWAP_R, ERASE_R = range(15)
FULL, LIGHT = 0, 3

prop = json.load(open(os.path.join(HERE, "prop.json")))


def locate(code):
    for t in prop["targets"]:
        if "quick" not in t.get("tiers", ["quick", "thorough"]):
            continue
        sets = [int(x) for x in t["flags"][1].split("=")[1].split(",")]
        if code in sets:
            return t["name"], sets.index(code), len(sets)
    raise SystemExit("option set %d is not in the core list" % code)


class Tape:
    def __init__(self, code, p=2, n=0, narrow=False):
        self.code = code
        self.zp = (code // 10000) % 10 == 1
        self.p = p
        self.target, idx, nsets = locate(code)
        self.b = [idx] if nsets > 1 else []
        if self.zp:
            self.b.append({2: 0, 3: 1, 5: 2, 7: 3, 11: 4}[p])
        self.b += [0x80 if narrow else 0, n]

    def entries(self, ent, big_chance):
        """ent: dict row -> value (value 1 for Z2)"""
        mask = 0
        for r in ent:
            mask |= 1 << r
        out = [mask]
        for r in sorted(ent):
            if self.zp:
                if self.p > 2:
                    out.append(ent[r] - 1)
                if big_chance:
                    out.append(0)
        return out

    def op(self, op, args, read=FULL):
        self.b += [0xF0 + op] + list(args) + [read]
        return self

    def insert(self, ent, read=FULL):
        return self.op(INS, self.entries(ent, True), read)

    def coef(self, c):
        P = self.p
        table = {0: [0], 1: [1], -1: [2], P - 1: [3], P: [4], P + 1: [5], 2: [6], 2 * P: [11]}
        if c in table:
            return table[c]
        if 0 <= c < 2 * P + 3:
            return [7, c]
        if -P <= c <= 0:
            return [8, -c]
        x = -c - P - 1
        assert 0 <= x < 1000
        return [9, x & 255, x >> 8]

    def write(self, name):
        d = os.path.join(ROOT, "corpus", "C09", self.target)
        os.makedirs(d, exist_ok=True)
        path = os.path.join(d, name)
        with open(path, "wb") as f:
            f.write(bytes(self.b))
        return os.path.relpath(path, ROOT)


findings = []


FIXED = {
    # repaired in /repo by the integrator (C10 fix of Zp_field_operators::get_value(signed), /repo commit da09ed7d3 and
    # predecessors): the probe holds, the exclusion is off, coefficients < -p are generated again
    "C09-negative-coefficient": "fixed",
}


def finding(fid, tape, expect, what, trigger):
    probe = tape.write("kf-%s.tape" % fid)
    if fid in FIXED:
        tape.write("reg-%s.tape" % fid)  # replayed with the corpus from now on: must hold
    findings.append({"property": "C09", "id": fid, "status": FIXED.get(fid, "known"), "what": what, "trigger": trigger,
                     "target": tape.target, "probe": probe, "expect_class": expect,
                     "report": "findings/%s.md" % fid})


# Column choice bytes: target = present[b % n]; source = (present minus target's class)[b % k] (no byte when k == 1).
HEAP_ZP, HEAP_Z2 = 1210000, 1200000
HEAP_ZP_SWAPS, HEAP_Z2_MAP_SWAPS = 1210010, 1200110
VECTOR_ZP_ROWS = 1311000
NAIVE_ZP_ROWS = 1411000
LIST_Z2_COMP = 1002001
LIST_ZP_ROWS_MAP_SWAPS = 1011110
SET_ZP_SETROWS_SWAPS = 1112010
REG_INSERT_AT_PENDING = "2600002300000015010000f200ea000000e952"  # core6, VECTOR/Z2/rows=off/vector/swaps

t = Tape(HEAP_ZP, p=5).insert({0: 1, 2: 3}).insert({})
t.op(MSA, [1] + t.coef(2))  # target 1 (empty), source 0 (only candidate), coefficient 2
finding("C09-heap-coefficient", t, "V:content@msa/HEAP",
        "Heap_column: multiply_source_and_add_to into an empty column copies the source without multiplying it by the coefficient",
        "HEAP column type, Z_p: multiply_source_and_add_to(c, source, target) with an empty target container, c not in {0,1}, "
        "non-empty source")

t = Tape(HEAP_Z2).insert({1: 1, 4: 1, 5: 1, 7: 1}).insert({})
t.op(ADD_R, [1] + t.entries({0: 1, 1: 1, 2: 1, 5: 1, 6: 1, 7: 1}, False)).op(ADD, [1])
finding("C09-heap-empty-target-order", t, "V:content_default_length@add/HEAP",
        "Heap_column: adding an entry range (sorted by row, as documented) into an empty column stores it without make_heap; "
        "later pivots / get_content() are wrong",
        "HEAP column type: add_to / multiply_*_and_add_to with an entry-range source of >= 2 entries into a column whose "
        "container is empty (zero column, or multiply_target_and_add_to with coefficient 0)")

t = Tape(VECTOR_ZP_ROWS, p=3).insert({0: 1})
t.op(ZERO_E, [1])  # single column: no column byte; row 1 is already zero
finding("C09-vector-clear-absent", t, "V:is_zero_column@zero_entry/VECTOR",
        "Vector_column: zero_entry on an entry that is already zero makes is_zero_column (and later contents) wrong",
        "VECTOR column type: zero_entry(c, r) where entry (c, r) is already zero")

t = Tape(HEAP_ZP_SWAPS, p=3, n=2, narrow=True).insert({0: 1, 3: 1}).insert({1: 1, 4: 1})
t.op(SWAP_R, [3, 4], FULL)
finding("C09-orderrows-rectangular", t, "V:is_zero_entry@swap_rows/HEAP",
        "Base_swap::_orderRows resets the row maps only for indices below the number of columns: with more rows than "
        "columns a row swap is applied twice after the lazy reorder (with more columns than known rows it writes out of bounds)",
        "has_column_and_row_swaps: lazy reorder (get_column / get_row / insert_column) while a swapped row index is >= "
        "get_number_of_columns(), or (vector container) while the number of columns exceeds the size of the row maps")

t = Tape(HEAP_Z2_MAP_SWAPS, n=3, narrow=True).insert({0: 1, 1: 1}).insert({1: 1, 2: 1}).insert({0: 1, 2: 1})
t.op(RM_COL, [0], LIGHT).op(SWAP_R, [0, 1], FULL)
finding("C09-orderrows-holes", t, "E:std::out_of_range",
        "Base_swap::_orderRows visits matrix_.at(i) for i < get_number_of_columns(): throws (or skips columns) when the "
        "column indices in use are not 0..n-1",
        "has_column_and_row_swaps: lazy reorder pending while a column index below the count is unused (map container after "
        "remove_column, or insert_column(col, index >= end) which bumps the count before forcing the reorder)")

t = Tape(HEAP_Z2_MAP_SWAPS, n=0).insert({0: 1})
finding("C09-swap-unknown-row", t, "E:std::out_of_range",
        "With has_column_and_row_swaps the row maps only cover rows seen by insert_column: is_zero_entry / zero_entry / "
        "erase_empty_row / entry-range additions / swap_rows on any other row throw (map container) or read and write out of "
        "bounds (vector container)",
        "has_column_and_row_swaps: is_zero_entry, zero_entry, erase_empty_row, swap_rows (vector container) or an entry-range "
        "source using a row index that no inserted column contained (vector container: >= size of the row maps)")

t = Tape(HEAP_Z2_MAP_SWAPS, n=0, narrow=True).insert({1: 1}).insert({2: 1})
t.op(SWAP_R, [1, 2], LIGHT).op(SWAP_R, [3, 2], LIGHT)
finding("C09-swaprows-map-erase", t, "E:std::out_of_range",
        "Base_swap::swap_rows (map container): swapping a never-seen row with a known row erases by value "
        "(indexToRow_.erase(it2->second)) and corrupts the row maps once the known row is displaced",
        "has_column_and_row_swaps + has_map_column_container: swap_rows(a, b) with a unknown to the row maps, b known and "
        "currently displaced by a pending swap")

t = Tape(LIST_Z2_COMP).insert({0: 1}).insert({})
t.op(ADD, [1])
finding("C09-compression-zero-target", t, "CRASH",
        "Base_matrix_with_column_compression: add_to / multiply_*_and_add_to with a zero target column dereferences a null "
        "representative",
        "has_column_compression: any addition whose target column is zero")

t = Tape(NAIVE_ZP_ROWS, p=3).insert({0: 1}).insert({0: 1})
t.op(MSA, [1] + t.coef(-4))
finding("C09-negative-coefficient", t, "V:is_zero_column@msa/NAIVE_VECTOR",
        "multiply_*_and_add_to with a coefficient < -p uses Zp_field_operators::get_value(int), which mis-reduces such values "
        "(same root cause as the C10 finding on signed get_value)",
        "Z_p matrices: multiply_target_and_add_to / multiply_source_and_add_to with an int coefficient < -p")

t = Tape(LIST_ZP_ROWS_MAP_SWAPS, p=3, n=2, narrow=True).insert({0: 1}).insert({})
t.op(SWAP_C, [0, 1], FULL).op(ADD, [0])  # the full read forces the reorder; the column objects keep their old index
finding("C09-swapcolumns-stale-index", t, "V:row@add/LIST",
        "After swap_columns on a matrix with row access the swapped column objects keep their old Row_access::columnIndex_: "
        "entries created later carry the wrong column index in get_row",
        "has_row_access + has_column_and_row_swaps: an addition creating entries in a column that changed position through "
        "swap_columns")

t = Tape(HEAP_ZP_SWAPS, p=3, n=2, narrow=True).insert({0: 1})
t.op(SWAP_R, [0, 1], LIGHT).op(ADD_R, t.entries({0: 1}, False), LIGHT)  # single column: no target byte
finding("C09-range-add-pending-rowswap", t, "V:is_zero_entry@add_range/HEAP",
        "add_to / multiply_*_and_add_to with an entry-range source interpret the range's row indices as container indices, "
        "ignoring a row swap that is still pending",
        "has_column_and_row_swaps: entry-range addition while a lazy row swap is pending (non-identity)")

t = Tape(SET_ZP_SETROWS_SWAPS, p=3, n=2, narrow=True).insert({0: 1}).insert({0: 1})
t.op(SWAP_C, [0, 1], FULL)
finding("C09-swapcolumns-set-rows", t, "V:row@swap_columns/SET",
        "Set rows (has_intrusive_rows = false) are keyed by column index: the lazy reorder after swap_columns relabels one "
        "column while the other still carries the same index, the insertion into the row fails silently and the row loses an entry",
        "has_row_access with set rows + swaps: swap_columns(a, b) of two columns that are both non-zero in some row")

t = Tape(VECTOR_ZP_ROWS, p=3).insert({0: 1, 1: 1})
t.op(ZERO_E, [0])
finding("C09-vector-zero-entry-row", t, "V:row@zero_entry/VECTOR",
        "Vector_column with row access: zero_entry only records the row as erased, the entry stays listed in get_row",
        "VECTOR column type + has_row_access: zero_entry on a non-zero entry")

t = Tape(VECTOR_ZP_ROWS, p=3).insert({0: 1})
t.op(ZERO_E, [0])
finding("C09-vector-content-length", t, "V:content_default_length@zero_entry/VECTOR",
        "Vector_column::get_content() (default length) sizes the result by the last stored entry even when it was lazily "
        "erased: trailing zero instead of 'biggest row index with non zero value'",
        "VECTOR column type: get_content(-1) after zero_entry of the last non-zero entry")

t = Tape(VECTOR_ZP_ROWS, p=3).insert({0: 1}).insert({})
t.op(ZERO_E, [0, 0], LIGHT).op(ADD, [1])
finding("C09-vector-erased-source", t, "CRASH",
        "Vector_column empty-target fast path sizes the copy with size() (stored minus lazily erased entries) but copies every "
        "stored entry: out-of-bounds write",
        "VECTOR column type: add_to / multiply_target_and_add_to from a source column holding a lazily erased entry into a "
        "column whose container is empty")

# ---- hand-picked seeds (must hold; replayed first on every run, starting corpus of the libFuzzer campaigns) ----------
seeds = []
t = Tape(NAIVE_ZP_ROWS, p=5).insert({0: 1, 2: 2}).insert({1: 1}).insert({})
t.op(ADD, [1, 0]).op(MTA, [1, 0] + t.coef(4)).op(MSA, [2, 0] + t.coef(2)).op(ZERO_E, [1, 1]).op(ZERO_E, [1, 5]).op(ZERO_C, [0])
t.op(MSA, [0, 1] + t.coef(0)).op(MTA, [0, 1] + t.coef(0)).op(RM_LAST, [])
seeds.append(t.write("seed-zp-basic.tape"))
t = Tape(HEAP_Z2).insert({0: 1, 3: 1}).insert({3: 1, 5: 1}).insert({})
t.op(ADD, [2, 0]).op(ADD, [2, 1]).op(ADD, [2, 0]).op(MTA, [0, 0, 0]).op(ZERO_E, [1, 3]).op(ZERO_E, [1, 3]).op(INS_AT, [2, 0]).op(RM_LAST, [])
seeds.append(t.write("seed-heap-z2.tape"))
t = Tape(LIST_Z2_COMP).insert({0: 1}).insert({0: 1}).insert({1: 1}).insert({0: 1, 1: 1})
t.op(ADD, [0, 1]).op(ADD, [2, 0]).op(ADD_R, [3] + t.entries({1: 1}, False)).op(ERASE_R, [3])
seeds.append(t.write("seed-compressed.tape"))
t = Tape(HEAP_ZP_SWAPS, p=3, n=3, narrow=True).insert({0: 1, 1: 2}).insert({1: 1, 2: 1}).insert({0: 2, 2: 2})
t.op(SWAP_R, [0, 2], LIGHT).op(ZERO_E, [0, 2], LIGHT).op(SWAP_C, [0, 2], LIGHT).op(MSA, [1, 0] + t.coef(2), LIGHT).op(SWAP_R, [1, 2], FULL)
seeds.append(t.write("seed-swaps-square.tape"))
# regression: positional insertion with a swap pending and no column left to read (the harness could not settle the
# known finding C09-orderrows-holes); raw tape found by the random driver
t = Tape(1300010)
t.b = list(bytes.fromhex(REG_INSERT_AT_PENDING))
seeds.append(t.write("reg-insert-at-pending-no-column.tape"))
print("seeds:", " ".join(seeds))

os.makedirs(os.path.join(ROOT, "findings"), exist_ok=True)
# (the 15 original findings now live in known_findings.json; findings/C09.json holds only not-yet-merged proposals, see
# make_c15_probes.py - so this listing goes to a side file)
with open(os.path.join(ROOT, "findings", "C09.generated.json"), "w") as f:
    json.dump({"findings": findings}, f, indent=1)
    f.write("\n")
for x in findings:
    print(x["id"], x["target"], x["probe"])
