#!/usr/bin/env python3
"""Generates props/C09/prop.json: the covering list of Matrix<> option sets for C09, grouped into translation units.

Option code 1CFRMSK (see options.h): C column type 0..8, F 0 = Z2 / 1 = Zp, R row access 0..4 (off, intrusive, set,
intrusive+removable, set+removable), M map column container, S swaps, K column compression.

Valid sets: HEAP (C = 2) has neither row access nor compression (static_assert in Matrix::_assert_options); with
compression the map-container and swap options are not used by Base_matrix_with_column_compression, so one
representative (M = S = 0) is kept, plus two "flags set but ignored" sets in the thorough tier.
  whole list  = 8 column types x 2 fields x 5 row-access kinds x {4 plain (M,S) variants + compressed} + HEAP x 2 x 4
              = 408 option sets  (thorough tier)
  core list   = 36 option sets chosen greedily so that every column type meets both fields twice and every pair of values
                of two different option axes that can occur together is covered as far as 36 sets allow (quick tier)
Run: python3 props/C09/gen_prop.py  (rewrites prop.json; deterministic).
"""
import itertools
import json
import os

HERE = os.path.dirname(os.path.abspath(__file__))
COLS = ["LIST", "SET", "HEAP", "VECTOR", "NAIVE_VECTOR", "SMALL_VECTOR", "UNORDERED_SET", "INTRUSIVE_LIST", "INTRUSIVE_SET"]
PER_TU = 4


def code(c, f, r, m, s, k):
    return 1000000 + c * 100000 + f * 10000 + r * 1000 + m * 100 + s * 10 + k


def valid(c, f, r, m, s, k):
    if c == 2 and (r != 0 or k != 0):
        return False
    if k == 1 and (m or s):
        return False
    return True


ALL = [x for x in itertools.product(range(9), range(2), range(5), range(2), range(2), range(2)) if valid(*x)]


def pairs(x):
    return {(i, x[i], j, x[j]) for i in range(6) for j in range(i + 1, 6)}


def core_list():
    chosen = []
    covered = set()
    # two rounds over the (column, field) pairs; in each round pick the set that covers most new pairs
    for rnd in range(2):
        for c in range(9):
            for f in range(2):
                cands = [x for x in ALL if x[0] == c and x[1] == f and x not in chosen]
                best = max(cands, key=lambda x: (len(pairs(x) - covered), -sum(x[2:]), tuple(-v for v in x)))
                chosen.append(best)
                covered |= pairs(best)
    return chosen


def name_of(x):
    ra = ["off", "intrusive", "set", "intrusive+removable", "set+removable"][x[2]]
    return "%s/%s/rows=%s/%s/%s/%s" % (COLS[x[0]], "Zp" if x[1] else "Z2", ra, "map" if x[3] else "vector",
                                      "swaps" if x[4] else "noswaps", "compressed" if x[5] else "plain")


def groups(lst, per):
    return [lst[i:i + per] for i in range(0, len(lst), per)]


def main():
    core = core_list()
    rest = [x for x in ALL if x not in core]
    # "flags set but ignored" compile-and-run probes of the compressed matrix
    extra_codes = [code(8, 1, 3, 1, 1, 1), code(0, 0, 2, 1, 1, 1)]
    targets = []
    # interleave column types inside a TU so that a TU does not instantiate one column type four times with nearly
    # identical code paths only (cheaper to compile is not the aim; diversity per binary is)
    core_sorted = sorted(core, key=lambda x: (core.index(x) % 9, core.index(x)))
    for gi, g in enumerate(groups(core_sorted, PER_TU)):
        t = {"name": "core%d" % gi, "sources": ["props/C09/main.cpp"],
             "flags": ["-DCFG=%d" % gi, "-DC09_SETS=" + ",".join(str(code(*x)) for x in g)],
             "cases": {"quick": 6000, "thorough": 60000}, "maxlen": 384, "streams": 4,
             "tiers": ["quick", "thorough"], "class_group": "base",
             "note": "; ".join(name_of(x) for x in g)}
        if gi % 3 == 0:
            t["fuzz"] = {"runs": 150000, "max_seconds": 420}
        targets.append(t)
    rest_groups = groups(rest, PER_TU)
    for gi, g in enumerate(rest_groups):
        targets.append({"name": "full%03d" % gi, "sources": ["props/C09/main.cpp"],
                        "flags": ["-DCFG=%d" % (100 + gi), "-DC09_SETS=" + ",".join(str(code(*x)) for x in g), "-O0"],
                        "cases": {"thorough": 6000}, "maxlen": 384, "streams": 1,
                        "tiers": ["thorough"], "class_group": "base",
                        "note": "; ".join(name_of(x) for x in g)})
    targets.append({"name": "full_ignored_flags", "sources": ["props/C09/main.cpp"],
                    "flags": ["-DCFG=%d" % 999, "-DC09_SETS=" + ",".join(str(c) for c in extra_codes), "-O0"],
                    "cases": {"thorough": 3000}, "maxlen": 384, "streams": 1, "tiers": ["thorough"], "class_group": "base",
                    "note": "compressed matrices with has_map_column_container / has_column_and_row_swaps set (ignored by the class)"})
    prop = {
        "id": "C09",
        "rule": ("Stateful histories (constructor variant, then up to 60 operations: insert_column at the end / at an index, "
                 "remove_last, remove_column, add_to, multiply_target_and_add_to, multiply_source_and_add_to with column-index "
                 "and entry-range sources and coefficients from {0,1,-1,p-1,p,p+1,2,2p,random,negative,INT_MAX/INT_MIN}, "
                 "zero_entry (present or already-zero entries), zero_column, swap_columns, swap_rows, erase_empty_row) on "
                 "Matrix<base options> with <= 8 rows and <= 8 columns over Z_2 or Z_p (p in {2,3,5,7,11}), executed in "
                 "lock-step on a dense residue table with explicit compression classes. After every step every "
                 "is_zero_entry / is_zero_column / get_number_of_columns is compared, and (tape-chosen, always at the end) "
                 "every get_column(i).get_content and every get_row(r). Option sets: the covering list of "
                 "props/C09/gen_prop.py (9 column types x {Z2,Zp} x 5 row-access kinds x map/vector x swaps x "
                 "compression). Non-trivial = the history adds into an empty column, adds an empty source, zeroes an "
                 "already-zero entry or empty column, or uses a coefficient congruent to 0 or 1, and the column is read "
                 "afterwards (every step reads every column). Distinct = distinct decoded case text. Self-addition "
                 "(source = target or same compressed class) is outside the domain and only counted."),
        "assumptions": [
            "props/C09/dense_model.h is the oracle: residues kept twice (dense table updated entry-wise, sparse map updated by "
            "merging) and compared after every step (ORACLE-ERROR on disagreement)",
            "input domain: column indices refer to present columns (holes left by positional inserts / removals are only "
            "removed or filled, never read); get_row is read only for rows that exist in the row container; entry ranges "
            "are sorted by row, hold values in 1..p-1 and use the matrix's own Entry type (or, for SET / INTRUSIVE_* columns, "
            "columns of another matrix type)",
        ],
        "tolerances": "",
        "shrink_budget": 2500,
        "targets": targets,
    }
    with open(os.path.join(HERE, "prop.json"), "w") as f:
        json.dump(prop, f, indent=1)
        f.write("\n")
    with open(os.path.join(HERE, "option_sets.txt"), "w") as f:
        f.write("# generated by gen_prop.py: target, option code, option set\n")
        for t in targets:
            for c in t["flags"][1].split("=")[1].split(","):
                c = int(c)
                x = ((c // 100000) % 10, (c // 10000) % 10, (c // 1000) % 10, (c // 100) % 10, (c // 10) % 10, c % 10)
                f.write("%s %d %s\n" % (t["name"], c, name_of(x)))
    # report coverage of value pairs by the core list
    allpairs = set()
    for x in ALL:
        allpairs |= pairs(x)
    cov = set()
    for x in core:
        cov |= pairs(x)
    print("option sets: %d total, %d core (%d TUs), %d thorough-only (%d TUs)" % (
        len(ALL), len(core), len(groups(core, PER_TU)), len(rest), len(rest_groups)))
    print("value pairs covered by the core list: %d of %d" % (len(cov), len(allpairs)))
    missing = sorted(allpairs - cov)
    axes = ["col", "field", "rows", "map", "swaps", "comp"]
    print("not covered in quick:", ", ".join("%s=%s&%s=%s" % (axes[a], COLS[va] if a == 0 else va, axes[b], vb) for a, va, b, vb in missing))


if __name__ == "__main__":
    main()
