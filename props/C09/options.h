// C09: option sets of Matrix<> for base (non-persistence) matrices, addressed by a decimal code 1CFRMSK:
//   C column type 0..8 (order of Column_types), F field 0 = Z2 (is_z2) / 1 = Zp via Zp_field_operators (run-time p),
//   R row access 0 = off, 1 = intrusive rows, 2 = set rows, 3 = intrusive + removable rows, 4 = set + removable rows,
//   M 1 = map column container, S 1 = column and row swaps, K 1 = column compression.
// The covering list itself is data (props/C09/gen_prop.py -> prop.json -> -DC09_SETS=...).
#ifndef C09_OPTIONS_H_
#define C09_OPTIONS_H_

#include <gudhi/Matrix.h>
#include <gudhi/persistence_matrix_options.h>
#include <gudhi/Fields/Zp_field_operators.h>

#include <string>

namespace c09 {

using Gudhi::persistence_matrix::Column_types;

constexpr Column_types kColumnTypes[9] = {Column_types::LIST,           Column_types::SET,
                                          Column_types::HEAP,           Column_types::VECTOR,
                                          Column_types::NAIVE_VECTOR,   Column_types::SMALL_VECTOR,
                                          Column_types::UNORDERED_SET,  Column_types::INTRUSIVE_LIST,
                                          Column_types::INTRUSIVE_SET};
inline const char* column_name(int c) {
  static const char* n[9] = {"LIST", "SET", "HEAP", "VECTOR", "NAIVE_VECTOR", "SMALL_VECTOR", "UNORDERED_SET", "INTRUSIVE_LIST",
                             "INTRUSIVE_SET"};
  return n[c];
}

template <int CODE>
struct Opt : Gudhi::persistence_matrix::Default_options<kColumnTypes[(CODE / 100000) % 10], ((CODE / 10000) % 10) == 0,
                                                        Gudhi::persistence_fields::Zp_field_operators<> > {
  static_assert(CODE >= 1000000 && CODE < 2000000, "option code must look like 1CFRMSK");
  static const int code = CODE;
  static const int col = (CODE / 100000) % 10;
  static const int field = (CODE / 10000) % 10;
  static const int ra = (CODE / 1000) % 10;
  static_assert(col < 9 && field < 2 && ra < 5, "bad option code");

  static const bool has_column_compression = (CODE % 10) == 1;
  static const bool has_column_and_row_swaps = ((CODE / 10) % 10) == 1;
  static const bool has_map_column_container = ((CODE / 100) % 10) == 1;
  static const bool has_removable_columns = true;  // only meaningful for non-base matrices; as in the unit tests

  static const bool has_row_access = ra != 0;
  static const bool has_intrusive_rows = ra == 1 || ra == 3;
  static const bool has_removable_rows = ra == 3 || ra == 4;
};

template <class O>
std::string option_name() {
  static const char* ran[5] = {"off", "intrusive", "set", "intrusive+removable", "set+removable"};
  std::string s = column_name(O::col);
  s += O::field == 0 ? "/Z2" : "/Zp";
  s += std::string("/rows=") + ran[O::ra];
  s += O::has_map_column_container ? "/map" : "/vector";
  s += O::has_column_and_row_swaps ? "/swaps" : "/noswaps";
  s += O::has_column_compression ? "/compressed" : "/plain";
  return s;
}

// Partner matrix whose columns serve as "entry range" sources of a *different* column type. The documentation asks
// for ranges ordered by row index holding exact values, so only ordered exact containers qualify.
template <class O>
struct Partner_opt
    : Gudhi::persistence_matrix::Default_options<(O::col == 8 || O::col == 1) ? Column_types::LIST : Column_types::INTRUSIVE_SET,
                                                 O::field == 0, Gudhi::persistence_fields::Zp_field_operators<> > {};

}  // namespace c09

#endif  // C09_OPTIONS_H_
