// C09: stateful operation histories on Gudhi::persistence_matrix::Matrix<base options> against the dense model.
// One call of run_history<O> decodes one history from the tape, executes it step by step on a Matrix<O> and on
// c09::Dense, and reads the whole matrix back after every step.
#ifndef C09_HARNESS_H_
#define C09_HARNESS_H_

#include "vf.h"
#include "dense_model.h"
#include "options.h"

#include <climits>
#include <map>
#include <memory>
#include <set>
#include <sstream>
#include <string>
#include <vector>

namespace c09 {

const unsigned RMAX = 8;  // rows 0..7 are operated on; row PROBE_ROW is a row that never holds anything
const unsigned CMAX = 8;  // at most 8 present columns; indices stay below CMAX + 2 (positional inserts leave holes)
const unsigned PROBE_ROW = 11;
const unsigned MAX_STEPS = 60;

// Known (unrepaired) findings whose triggers the generator avoids while they are listed as "known".
const char* const KF_HEAP_COEF = "C09-heap-coefficient";
const char* const KF_HEAP_ORDER = "C09-heap-empty-target-order";
const char* const KF_VECTOR_CLEAR = "C09-vector-clear-absent";
const char* const KF_RECT = "C09-orderrows-rectangular";
const char* const KF_MAP_HOLES = "C09-orderrows-holes";
const char* const KF_UNKNOWN_ROW = "C09-swap-unknown-row";
const char* const KF_MAP_ERASE = "C09-swaprows-map-erase";
const char* const KF_COMP_ZERO = "C09-compression-zero-target";
const char* const KF_NEG_COEF = "C09-negative-coefficient";
const char* const KF_STALE_IDX = "C09-swapcolumns-stale-index";
const char* const KF_RANGE_PENDING = "C09-range-add-pending-rowswap";
const char* const KF_SET_ROWS = "C09-swapcolumns-set-rows";
const char* const KF_VECTOR_ROW = "C09-vector-zero-entry-row";
const char* const KF_VECTOR_LEN = "C09-vector-content-length";
const char* const KF_VECTOR_SRC = "C09-vector-erased-source";
const char* const KF_VECTOR_ERASED_ROW = "C09-vector-erased-entry-erased-row";
// only with -DC09_COPY_OPS (property C15, matrix part)
const char* const KF_MOVED_FROM = "C15-matrix-moved-from-unusable";
const char* const KF_COMP_COPY = "C15-compression-copy-column-count";
const char* const KF_VECTOR_COPY = "C15-vector-copy-relinks-erased-entry";

// Bookkeeping of the *input domain* (not part of the oracle): which rows the lazy swap tables of the implementation
// have seen, which rows exist in the row container (get_row on a row that was never created is outside the domain:
// vector rows are read with operator[], removable rows throw), and whether a lazy reorder is pending.
struct Track {
  bool swaps = false, mapc = false, ra = false, rmrows = false;
  unsigned tableSize = 0;          // vector container: size of the swap tables
  std::set<unsigned> known;        // map container: rows the swap tables know
  std::vector<unsigned> pubToReal; // pending row permutation (public index -> index in the containers)
  bool pendingAny = false;         // a swap was recorded since the last forced reorder
  bool pendingRows = false;        // ... and it was a row swap
  std::set<unsigned> realExists;   // rows present in the row container (by container index)
  unsigned rowsSize = 0;           // vector rows: size of the row container
  std::vector<unsigned> label;     // row access: column index a column object stamps on the entries it creates
  std::vector<bool> lazyErased;    // VECTOR columns: zero_entry was called since the column was last emptied (conservative)
  unsigned reserved = 0;           // number of columns announced to the reserving constructor

  Track() : pubToReal(RMAX + 8), label(CMAX + 8), lazyErased(CMAX + 8, false) {
    for (unsigned i = 0; i < pubToReal.size(); ++i) pubToReal[i] = i;
    for (unsigned i = 0; i < label.size(); ++i) label[i] = i;
  }
  bool rows_displaced() const {
    for (unsigned i = 0; i < pubToReal.size(); ++i)
      if (pubToReal[i] != i) return true;
    return false;
  }
  bool known_row(unsigned r) const {
    if (!swaps) return true;
    return mapc ? known.count(r) != 0 : r < tableSize;
  }
  void saw_inserted_row(unsigned r) {  // Base_matrix::_insert registers the rows of an inserted column
    if (!swaps) return;
    if (mapc)
      known.insert(r);
    else if (tableSize <= r)
      tableSize = r + 1;
  }
  void reordered() {
    for (unsigned i = 0; i < pubToReal.size(); ++i) pubToReal[i] = i;
    pendingAny = pendingRows = false;
  }
  // Rows are recorded as existing only at moments where no lazy swap is pending (container index == public index, and
  // every non-zero entry of the model is an entry linked in its row). Rows that were populated only while a swap was
  // pending are not counted: where the implementation materialises them is not part of the interface.
  void mark_rows(const Dense& d) {
    if (!ra) return;
    if (swaps && pendingAny) return;
    for (unsigned c : d.present_columns())
      for (unsigned r = 0; r < d.rows(); ++r)
        if (d.at(c, r)) {
          realExists.insert(r);
          if (rowsSize <= r) rowsSize = r + 1;
        }
  }
  bool row_readable(unsigned r) const {  // after the reorder has been forced (identity mapping)
    if (!ra) return false;
    return rmrows ? realExists.count(r) != 0 : r < rowsSize;
  }
};

inline std::string show(const std::vector<unsigned>& v) {
  std::ostringstream os;
  os << "[";
  for (size_t i = 0; i < v.size(); ++i) os << (i ? " " : "") << v[i];
  os << "]";
  return os.str();
}
inline std::string show(const Sparse& s) {
  std::ostringstream os;
  os << "{";
  for (size_t i = 0; i < s.size(); ++i) os << (i ? "," : "") << s[i].first << ":" << s[i].second;
  os << "}";
  return os.str();
}

template <class O>
class History {
 public:
  typedef Gudhi::persistence_matrix::Matrix<O> M;
  typedef Gudhi::persistence_matrix::Matrix<Partner_opt<O> > PM;
  typedef typename M::Entry_representative Rep;
  typedef typename M::Matrix_entry Entry;
  static const bool z2 = O::field == 0;
  static const bool comp = O::has_column_compression;
  static const bool swapsOn = O::has_column_and_row_swaps && !comp;
  static const bool mapc = O::has_map_column_container;
  static const bool ra = O::has_row_access;
  static const bool heap = O::col == 2;
  static const bool vectorCol = O::col == 3;
  // columns of another matrix (different Entry type) are accepted as entry ranges only by these column types; the
  // others bind `const Entry&` of their own matrix to the range elements (compile-time refusal, not a run-time matter)
  static const bool partnerOk = O::col == 1 || O::col == 7 || O::col == 8;

  History(vf::Tape& t, vf::Ctx& ctx) : t(t), ctx(ctx) {}

  void run() {
    const std::string name = option_name<O>();
    colTag = std::string("/") + column_name(O::col);
    ctx.hit("cfg:" + name);
    static const unsigned ps[8] = {2, 3, 5, 7, 11, 3, 5, 7};
    p = z2 ? 2 : ps[t.below(8)];
    ctx.desc << "options " << name << "  p=" << p << "\n";
    model.reset(new Dense(p, RMAX, comp));
    tr.swaps = swapsOn;
    tr.mapc = mapc;
    tr.ra = ra;
    tr.rmrows = O::has_removable_rows;

    construct();
    lastOp = "ctor";
    after_step(true);

#ifdef C09_COPY_OPS
    run_pool();
    return;
#endif
    unsigned steps = 0;
    while (!t.exhausted() && steps < MAX_STEPS) {
      ++steps;
      step();
      bool full = t.below(5) < 3;
      after_step(full);
    }
    lastOp = "final";
    after_step(true);
    ctx.hit("steps", steps);
    if (nt) ctx.mark_nontrivial();
  }

 private:
  vf::Tape& t;
  vf::Ctx& ctx;
  unsigned p = 2;
  std::unique_ptr<M> m;
  std::unique_ptr<Dense> model;
  Track tr;
  std::string lastOp, colTag;
  bool nt = false;
  bool narrow = false;  // tape-chosen per case: with swaps, touch only rows the swap tables have seen

  bool ex(const char* id) { return ctx.excluded(id); }

#ifdef C09_COPY_OPS
  // ------------------------------------------------------------------------------------------- C15 (matrix part)
  // A pool of up to 3 (Matrix, model, bookkeeping) triples. The members m / model / tr are the triple that is currently
  // "checked out" of pool[cur], so that every operation of the plain C09 history works on it unchanged. Pool operations:
  // copy construction, copy assignment (also self and onto a non-empty matrix), move construction, move assignment,
  // the friend swap, destruction. After every step every live object is read back completely against its own model.
  enum SlotState { FREE = 0, LIVE = 1, MOVED = 2 };
  struct Slot {
    std::unique_ptr<M> m;
    std::unique_ptr<Dense> model;
    Track tr;
    SlotState state = FREE;
    int pair = -1;  // id of the last copy / move / swap relation this object took part in
  };
  struct Pair {
    bool big = false, diverged = false;
  };
  static const unsigned POOL = 3;
  Slot pool[POOL];
  unsigned cur = 0;
  bool out = false;  // members currently hold pool[cur]
  std::map<int, Pair> pairs;
  int nextPair = 0;
  bool ntCopy = false;

  void checkin() {
    if (!out) return;
    pool[cur].m = std::move(m);
    pool[cur].model = std::move(model);
    std::swap(pool[cur].tr, tr);
    out = false;
  }
  void checkout(unsigned i) {
    checkin();
    cur = i;
    m = std::move(pool[i].m);
    model = std::move(pool[i].model);
    std::swap(pool[i].tr, tr);
    out = true;
  }
  std::vector<unsigned> slots_in(SlotState a, SlotState b) const {
    std::vector<unsigned> v;
    for (unsigned i = 0; i < POOL; ++i)
      if (pool[i].state == a || pool[i].state == b) v.push_back(i);
    return v;
  }
  // the copy owns a new row container: only rows that hold entries are known to exist in it
  static Track track_of_copy(const Track& src) {
    Track c = src;
    if (c.rmrows) c.realExists.clear();
    return c;
  }
  void relate(unsigned a, unsigned b) {
    int id = nextPair++;
    pairs[id].big = a != b && pool[a].model && pool[a].model->count_present() >= 4;
    pool[a].pair = id;
    if (b != a) pool[b].pair = id;
    if (pairs[id].big) ctx.hit("copy-of-4+-columns");
  }
  void read_all_live(const char* why) {
    for (unsigned i = 0; i < POOL; ++i) {
      if (pool[i].state != LIVE) continue;
      checkout(i);
      try {
        after_step(true);
      } catch (const vf::Violation& v) {
        throw vf::Violation(v.tag, std::string("object #") + std::to_string(i) + " (read after " + why + "): " + v.msg);
      }
      checkin();
    }
  }

  void run_pool() {
    // the constructed matrix is slot 0
    pool[0].state = LIVE;
    cur = 0;
    out = true;
    checkin();
    unsigned steps = 0;
    while (!t.exhausted() && steps < MAX_STEPS) {
      ++steps;
      unsigned b = t.u8();
      std::vector<unsigned> live = slots_in(LIVE, LIVE);
      unsigned s = live[(b & 3) % live.size()];
      unsigned kind = (b >> 2) & 7;
      if (kind <= 4) {
        checkout(s);
        ctx.desc << " #" << s;
        std::string before = model->render();
        step();
        if (pool[s].pair >= 0 && model->render() != before && !pairs[pool[s].pair].diverged) {
          pairs[pool[s].pair].diverged = true;
          ctx.hit("related-objects-diverged");
          if (pairs[pool[s].pair].big) ntCopy = true;
        }
        checkin();
      } else {
        pool_op(s);
      }
      read_all_live("step");
    }
    lastOp = "final";
    read_all_live("final");
    // destroy in a tape-independent order, reading the survivors after each destruction
    for (unsigned i = 0; i < POOL; ++i) {
      if (pool[i].state == FREE) continue;
      pool[i].m.reset();
      pool[i].model.reset();
      pool[i].state = FREE;
      lastOp = "destroy";
      read_all_live("destroy");
    }
    ctx.hit("steps", steps);
    if (ntCopy) ctx.mark_nontrivial();
  }

  void check_moved_from(unsigned i) {
    // Matrix(Matrix&&): "After the move, the given matrix will be empty."
    unsigned n = pool[i].m->get_number_of_columns();
    VF_CHECK(n == 0, tag("moved_from_not_empty"), "moved-from matrix #" << i << " reports " << n << " columns");
  }

  void pool_op(unsigned src) {
    std::vector<unsigned> freeS = slots_in(FREE, FREE), targets = slots_in(LIVE, MOVED), moved = slots_in(MOVED, MOVED);
    unsigned what = t.below(7);
    if (what <= 1) {  // known findings of the copy constructors: choose something else
      const Slot& s = pool[src];
      if (comp && s.tr.reserved > s.model->end() && ex(KF_COMP_COPY)) {
        ctx.hit(std::string("excluded:") + KF_COMP_COPY);
        return skip("copy of a compressed matrix with reserved but unused column slots");
      }
      if (vectorCol && ra && ex(KF_VECTOR_COPY)) {
        for (unsigned c : s.model->present_columns())
          if (s.tr.lazyErased[c]) {
            ctx.hit(std::string("excluded:") + KF_VECTOR_COPY);
            return skip("copy of a vector-column matrix with row access holding a lazily erased entry");
          }
      }
    }
    switch (what) {
      case 0: {  // copy construction
        if (freeS.empty()) return skip("no free slot");
        unsigned d = freeS[0];
        lastOp = "copy_construct";
        ctx.desc << "  #" << d << " = Matrix(#" << src << ")   [copy constructor]\n";
        pool[d].m.reset(new M(*pool[src].m));
        pool[d].model.reset(new Dense(*pool[src].model));
        pool[d].tr = track_of_copy(pool[src].tr);
        pool[d].state = LIVE;
        relate(src, d);
        ctx.hit("pool:copy_construct");
        break;
      }
      case 1: {  // copy assignment, also self and onto a non-empty or moved-from matrix
        unsigned d = targets[t.below((unsigned)targets.size())];
        lastOp = d == src ? "self_assign" : "copy_assign";
        ctx.desc << "  #" << d << " = #" << src << "   [copy assignment" << (pool[d].state == MOVED ? " onto a moved-from matrix" : "")
                 << "]\n";
        *pool[d].m = *pool[src].m;
        if (d == src) pool[d].tr = track_of_copy(pool[d].tr);  // assignment takes its argument by value: d is now a copy of itself
        if (d != src) {
          pool[d].model.reset(new Dense(*pool[src].model));
          pool[d].tr = track_of_copy(pool[src].tr);
          pool[d].state = LIVE;
          relate(src, d);
        }
        ctx.hit(d == src ? "pool:self_assign" : "pool:copy_assign");
        break;
      }
      case 2: {  // move construction
        if (freeS.empty()) return skip("no free slot");
        unsigned d = freeS[0];
        lastOp = "move_construct";
        ctx.desc << "  #" << d << " = Matrix(std::move(#" << src << "))\n";
        pool[d].m.reset(new M(std::move(*pool[src].m)));
        pool[d].model = std::move(pool[src].model);
        pool[d].tr = pool[src].tr;
        pool[d].state = LIVE;
        pool[src].state = MOVED;
        relate(d, d);
        check_moved_from(src);
        ctx.hit("pool:move_construct");
        break;
      }
      case 3: {  // move assignment (not onto itself)
        std::vector<unsigned> cand;
        for (unsigned x : targets)
          if (x != src) cand.push_back(x);
        if (cand.empty()) return skip("no other object");
        unsigned d = cand[t.below((unsigned)cand.size())];
        lastOp = "move_assign";
        ctx.desc << "  #" << d << " = std::move(#" << src << ")\n";
        *pool[d].m = std::move(*pool[src].m);
        pool[d].model = std::move(pool[src].model);
        pool[d].tr = pool[src].tr;
        pool[d].state = LIVE;
        pool[src].state = MOVED;
        relate(d, d);
        check_moved_from(src);
        ctx.hit("pool:move_assign");
        break;
      }
      case 4: {  // friend swap of two different live objects
        std::vector<unsigned> cand;
        for (unsigned x : slots_in(LIVE, LIVE))
          if (x != src) cand.push_back(x);
        if (cand.empty()) return skip("no other object");
        unsigned d = cand[t.below((unsigned)cand.size())];
        lastOp = "swap";
        ctx.desc << "  swap(#" << src << ", #" << d << ")\n";
        swap(*pool[src].m, *pool[d].m);
        std::swap(pool[src].model, pool[d].model);
        std::swap(pool[src].tr, pool[d].tr);
        std::swap(pool[src].pair, pool[d].pair);
        ctx.hit("pool:swap");
        break;
      }
      case 5: {  // destruction (at least one live object stays)
        std::vector<unsigned> cand = moved;
        if (slots_in(LIVE, LIVE).size() > 1) cand.push_back(src);
        if (cand.empty()) return skip("last live object");
        unsigned d = cand[t.below((unsigned)cand.size())];
        lastOp = "destroy";
        ctx.desc << "  destroy #" << d << (pool[d].state == MOVED ? " (moved-from)" : "") << "\n";
        if (pool[d].state == LIVE && pool[d].pair >= 0 && pairs[pool[d].pair].diverged) ctx.hit("destroyed-after-divergence");
        pool[d].m.reset();
        pool[d].model.reset();
        pool[d].state = FREE;
        pool[d].pair = -1;
        ctx.hit("pool:destroy");
        break;
      }
      default: {  // use a moved-from matrix again without assigning to it ("empty")
        if (moved.empty()) return skip("no moved-from object");
        unsigned d = moved[t.below((unsigned)moved.size())];
        if (ex(KF_MOVED_FROM)) {
          ctx.hit(std::string("excluded:") + KF_MOVED_FROM);
          return skip("moved-from matrix is only assigned to or destroyed");
        }
        lastOp = "reuse_moved_from";
        ctx.desc << "  #" << d << ": moved-from matrix used again as an empty matrix (set_characteristic, insert_column)\n";
        pool[d].m->set_characteristic(p);
        Sparse s;
        s.push_back(std::make_pair(0u, 1u));
        pool[d].m->insert_column(to_reps(s));
        pool[d].model.reset(new Dense(p, RMAX, comp));
        pool[d].model->insert_end(s);
        Track fresh;
        fresh.swaps = swapsOn;
        fresh.mapc = mapc;
        fresh.ra = ra;
        fresh.rmrows = O::has_removable_rows;
        fresh.saw_inserted_row(0);
        pool[d].tr = fresh;
        pool[d].state = LIVE;
        pool[d].pair = -1;
        ctx.hit("pool:reuse_moved_from");
        break;
      }
    }
  }
#endif
  // rows unknown to the lazy-swap tables are avoided either because the case says so or because of the known finding
  bool only_known_rows() {
    if (!swapsOn) return false;
    if (ex(KF_UNKNOWN_ROW)) {
      ctx.counters[std::string("excluded:") + KF_UNKNOWN_ROW] = 1;
      return true;
    }
    return narrow;
  }
  std::string tag(const char* what) const { return std::string(what) + "@" + lastOp + colTag; }

  // ------------------------------------------------------------------------------------------- generators
  // sorted rows from a one-byte mask; `limit` = when true only rows the swap tables know (exclusion of a known finding)
  Sparse gen_sparse(bool onlyKnown, bool allowBigValues) {
    unsigned mask = t.u8();
    Sparse s;
    for (unsigned r = 0; r < RMAX; ++r) {
      if (!(mask & (1u << r))) continue;
      if (onlyKnown && !tr.known_row(r)) continue;
      unsigned v = 1;
      if (!z2) {
        v = 1 + t.below(p - 1);
        if (allowBigValues && t.below(16) == 15) {
          v += p;
          ctx.hit("insert-value-ge-p");
        }
      }
      s.push_back(std::make_pair(r, v));
    }
    return s;
  }
  std::vector<Rep> to_reps(const Sparse& s) const {
    std::vector<Rep> v;
    for (const auto& e : s) {
      if constexpr (z2)
        v.push_back(e.first);
      else
        v.push_back(Rep(e.first, e.second));
    }
    return v;
  }
  std::vector<Entry> to_entries(const Sparse& s) const {
    std::vector<Entry> v;
    for (const auto& e : s) {
      Entry x(e.first);
      if constexpr (!z2) x.set_element(e.second);
      v.push_back(x);
    }
    return v;
  }
  int gen_coefficient() {
    int P = int(p);
    int c;
    switch (t.below(12)) {
      case 0: c = 0; break;
      case 1: c = 1; break;
      case 2: c = -1; break;
      case 3: c = P - 1; break;
      case 4: c = P; break;
      case 5: c = P + 1; break;
      case 6: c = 2; break;
      case 7: c = int(t.below(2 * p + 3)); break;
      case 8: c = -int(t.below(p + 1)); break;
      case 9: c = -P - 1 - int(t.below(1000)); break;
      case 10: c = t.flip() ? INT_MAX : INT_MIN; break;
      default: c = 2 * P; break;
    }
    if (!z2 && c < -P) {
      // Zp_field_operators::get_value(int) mis-reduces e < -p (C10 finding, same root cause)
      if (ex(KF_NEG_COEF)) {
        ctx.hit(std::string("excluded:") + KF_NEG_COEF);
        c = int(mod_int(c, p));
      } else {
        ctx.hit("coefficient-below-minus-p");
      }
    }
    return c;
  }
  unsigned reduce(int coef) const { return mod_int(coef, p); }

  // ------------------------------------------------------------------------------------------- construction
  void construct() {
    // 0..4 reserve-constructor, 5..6 from columns, 7 default + set_characteristic; bit 7: "narrow" case
    unsigned vb = t.u8();
    unsigned variant = vb % 8;
    narrow = swapsOn && (vb & 0x80) != 0;
    if (narrow) {
      ctx.desc << "(narrow: only rows known to the swap tables are touched)\n";
      ctx.hit("narrow-case");
    }
    if (variant <= 4) {
      unsigned n = t.below(CMAX + 2);
      ctx.desc << "Matrix(" << n << ", " << p << ")\n";
      m.reset(new M(n, p));
      tr.reserved = n;
      if (swapsOn) {
        if (mapc)
          for (unsigned i = 0; i < n; ++i) tr.known.insert(i);
        else
          tr.tableSize = n;
      }
      if (ra && !O::has_removable_rows) tr.rowsSize = n;
      ctx.hit("ctor:reserve");
    } else if (variant <= 6) {
      unsigned k = t.below(5);
      std::vector<std::vector<Rep> > cols;
      std::vector<Sparse> sp;
      // the column constructor sizes the swap tables by the number of columns only
      bool restrict = swapsOn && (only_known_rows() || ex(KF_RECT));
      if (swapsOn) {
        if (mapc)
          for (unsigned i = 0; i < k; ++i) tr.known.insert(i);
        else
          tr.tableSize = k;
      }
      for (unsigned i = 0; i < k; ++i) {
        Sparse s = gen_sparse(restrict, true);
        sp.push_back(s);
        cols.push_back(to_reps(s));
      }
      ctx.desc << "Matrix(columns {";
      for (const Sparse& s : sp) ctx.desc << show(s);
      ctx.desc << "}, " << p << ")\n";
      m.reset(new M(cols, p));
      for (const Sparse& s : sp) model->insert_end(s);
      if (ra && !O::has_removable_rows) tr.rowsSize = k;
      ctx.hit("ctor:columns");
    } else {
      ctx.desc << "Matrix(); set_characteristic(" << p << ")\n";
      m.reset(new M());
      m->set_characteristic(p);
      ctx.hit("ctor:default");
    }
  }

  // ------------------------------------------------------------------------------------------- one step
  enum Op { INS = 0, INS_AT = 1, RM_LAST = 2, RM_COL = 3, ADD = 4, ADD_R = 5, MTA = 6, MTA_R = 7, MSA = 8, MSA_R = 9, ZERO_E = 10,
            ZERO_C = 11, SWAP_C = 12, SWAP_R = 13, ERASE_R = 14 };

  unsigned nb_columns_impl() const {  // what the implementation's get_number_of_columns() is documented to count
    return (mapc && !comp) ? model->count_present() : model->end();
  }
  bool swap_allowed() {
    // known findings: Base_swap::_orderRows walks indices 0..#columns-1
    if (ex(KF_MAP_HOLES) && mapc && model->any_hole_below_end()) {
      ctx.hit(std::string("excluded:") + KF_MAP_HOLES);
      return false;
    }
    if (ex(KF_RECT) && !mapc && nb_columns_impl() > tr.tableSize) {
      ctx.hit(std::string("excluded:") + KF_RECT);
      return false;
    }
    return true;
  }

  void step() {
    std::vector<std::pair<Op, unsigned> > ops;
    std::vector<unsigned> pres = model->present_columns();
    const unsigned n = (unsigned)pres.size();
#ifdef C09_COPY_OPS
    if (n < CMAX && model->end() < CMAX + 2) ops.push_back({INS, n < 5 ? 14u : 4u});  // copies of larger matrices
#else
    if (n < CMAX && model->end() < CMAX + 2) ops.push_back({INS, n < 3 ? 8u : 4u});
#endif
    if (n >= 2) {
      ops.push_back({ADD, 4});
      ops.push_back({MTA, 4});
      ops.push_back({MSA, 4});
    }
    if (n >= 1) {
      ops.push_back({ADD_R, 2});
      ops.push_back({MTA_R, 2});
      ops.push_back({MSA_R, 2});
    }
    if constexpr (!comp) {
      if (n >= 1) {
        ops.push_back({ZERO_E, 4});
        ops.push_back({ZERO_C, 1});
      }
      if (model->end() > 0) ops.push_back({RM_LAST, 1});
      if constexpr (mapc)
        if (model->end() > 0) ops.push_back({RM_COL, 1});
      if constexpr (!ra)
        if (n < CMAX) ops.push_back({INS_AT, 1});
      if constexpr (swapsOn) {
        if (n >= 1) ops.push_back({SWAP_C, 2});
        ops.push_back({SWAP_R, 3});
      }
    }
    ops.push_back({ERASE_R, 1});
    unsigned tot = 0;
    for (auto& o : ops) tot += o.second;
    // one byte: 0xF0 + k names operation k of the enum directly (hand-written probes and seeds; skipped when the
    // operation is not available here), anything else is a weighted choice among the available operations
    unsigned b = t.u8();
    Op op = ops[0].first;
    if (b >= 0xF0) {
      bool found = false;
      for (auto& o : ops)
        if (unsigned(o.first) == b - 0xF0) {
          op = o.first;
          found = true;
        }
      if (!found) return skip("operation not available");
    } else {
      unsigned x = b % tot;
      for (auto& o : ops) {
        if (x < o.second) {
          op = o.first;
          break;
        }
        x -= o.second;
      }
    }
    switch (op) {
      case INS: do_insert(); break;
      case INS_AT: do_insert_at(); break;
      case RM_LAST: do_remove_last(); break;
      case RM_COL: do_remove_column(); break;
      case ADD: do_add(0, false); break;
      case MTA: do_add(1, false); break;
      case MSA: do_add(2, false); break;
      case ADD_R: do_add(0, true); break;
      case MTA_R: do_add(1, true); break;
      case MSA_R: do_add(2, true); break;
      case ZERO_E: do_zero_entry(); break;
      case ZERO_C: do_zero_column(); break;
      case SWAP_C: do_swap_columns(); break;
      case SWAP_R: do_swap_rows(); break;
      case ERASE_R: do_erase_row(); break;
    }
  }

  void skip(const char* why) {
    lastOp = "skip";
    ctx.desc << "  (skipped: " << why << ")\n";
    ctx.hit(std::string("skipped:") + why);
  }

  void do_insert() {
    lastOp = "insert";
    Sparse s = gen_sparse(false, true);
    ctx.desc << "  insert_column(" << show(s) << ")\n";
    m->insert_column(to_reps(s));
    impl_forced_reorder();
    for (auto& e : s) tr.saw_inserted_row(e.first);
    if (swapsOn && !mapc && tr.tableSize == 0) tr.tableSize = 1;  // empty column: pivot 0
    tr.label[model->end()] = model->end();
    tr.lazyErased[model->end()] = false;
    model->insert_end(s);
    ctx.hit(s.empty() ? "op:insert-empty" : "op:insert");
  }

  void do_insert_at() {
    if constexpr (!comp && !ra) {
      lastOp = "insert_at";
      std::vector<unsigned> cand;
      for (unsigned c = 0; c < model->end(); ++c)
        if (!model->present(c)) cand.push_back(c);
      for (unsigned c = model->end(); c < model->end() + 3 && c < CMAX + 2; ++c) cand.push_back(c);
      if (cand.empty()) return skip("no free index");
      unsigned idx = cand[t.below((unsigned)cand.size())];
      if (swapsOn && tr.pendingAny && idx >= model->end() && ex(KF_MAP_HOLES)) {
        // the insertion bumps the column count before it forces the pending reorder, which then visits the new index
        ctx.hit(std::string("excluded:") + KF_MAP_HOLES);
        if (!settle("before a positional insertion")) return skip("pending swap cannot be settled");
      }
      Sparse s = gen_sparse(false, true);
      ctx.desc << "  insert_column(" << show(s) << ", " << idx << ")\n";
      m->insert_column(to_reps(s), idx);
      impl_forced_reorder();
      for (auto& e : s) tr.saw_inserted_row(e.first);
      if (swapsOn && !mapc && tr.tableSize == 0) tr.tableSize = 1;
      ctx.hit(idx < model->end() ? "op:insert-at-hole" : (idx == model->end() ? "op:insert-at-end" : "op:insert-at-beyond"));
      tr.lazyErased[idx] = false;
      model->insert_at(s, idx);
    }
  }

  // known findings around Base_swap::_orderRows: make the lazy reorder happen while the column indices are still 0..n-1
  // returns false when the reorder cannot be forced through a read (no column to read)
  bool settle(const char* why) {
    if (!(swapsOn && tr.pendingAny)) return true;
    if (model->present_columns().empty()) return false;
    ctx.desc << "  (forced read " << why << ")\n";
    full_check();
    return true;
  }
  bool settle_before_removal() {
    if (ex(KF_RECT) || ex(KF_MAP_HOLES)) return settle("before a removal");
    return true;
  }

  void do_remove_last() {
    if constexpr (!comp) {
      lastOp = "remove_last";
      if (!settle_before_removal()) return skip("pending swap cannot be settled");
      ctx.desc << "  remove_last()\n";
      if (model->end() > 0 && !model->present(model->end() - 1)) ctx.hit("op:remove_last-hole");
      m->remove_last();
      model->remove_last();
      ctx.hit("op:remove_last");
    }
  }

  void do_remove_column() {
    if constexpr (!comp && mapc) {
      lastOp = "remove_column";
      if (!settle_before_removal()) return skip("pending swap cannot be settled");
      // mostly present columns, sometimes a hole ("If the column didn't existed, it will simply be considered as an
      // empty column")
      unsigned idx = t.below(model->end());
      if (!model->present(idx)) ctx.hit("op:remove_column-hole");
      ctx.desc << "  remove_column(" << idx << ")\n";
      m->remove_column(idx);
      model->remove_column(idx);
      ctx.hit("op:remove_column");
    }
  }

  // kind 0: add_to, 1: multiply_target_and_add_to, 2: multiply_source_and_add_to
  void do_add(int kind, bool range) {
    static const char* names[3] = {"add_to", "multiply_target_and_add_to", "multiply_source_and_add_to"};
    static const char* shortn[3] = {"add", "mta", "msa"};
    lastOp = std::string(shortn[kind]) + (range ? "_range" : "");
    std::vector<unsigned> pres = model->present_columns();
    unsigned tgt = pres[t.below((unsigned)pres.size())];
    if (ra && swapsOn && tr.label[tgt] != tgt && ex(KF_STALE_IDX)) {
      // a column that changed position through swap_columns keeps stamping its old index on new entries
      ctx.hit(std::string("excluded:") + KF_STALE_IDX);
      std::vector<unsigned> ok;
      for (unsigned c : pres)
        if (tr.label[c] == c) ok.push_back(c);
      if (ok.empty()) return skip("every column carries a stale index");
      tgt = ok[tgt % ok.size()];
    }
    unsigned src = 0;
    Sparse s;
    int variant = 0;
    if (!range) {
      std::vector<unsigned> cand;
      for (unsigned c : pres)
        if (c != tgt && model->class_of(c) != model->class_of(tgt)) cand.push_back(c);
      if (cand.empty()) {
        // self-addition (source and target the same column / the same compressed representative) is outside the domain
        ctx.hit("self-addition-only-choice");
        return skip("self-addition");
      }
      src = cand[t.below((unsigned)cand.size())];
      s = model->sparse(src);
    } else {
      s = gen_sparse(only_known_rows(), false);
      if constexpr (partnerOk) variant = t.below(2);
    }
    if (range && swapsOn && tr.rows_displaced() && ex(KF_RANGE_PENDING)) {
      // entry-range sources are merged with container row indices, ignoring a row swap that is still pending
      ctx.hit(std::string("excluded:") + KF_RANGE_PENDING);
      settle("before an entry-range addition");
    }
    int coef = 1;
    if (kind != 0) coef = gen_coefficient();
    unsigned cm = kind == 0 ? 1 % p : reduce(coef);
    const bool tgtZero = model->is_zero_column(tgt);

    // ---- known findings: choose something else
    if (comp && tgtZero && ex(KF_COMP_ZERO)) {
      ctx.hit(std::string("excluded:") + KF_COMP_ZERO);
      return skip("compressed zero target");
    }
    // heap columns take a fast path when their container is empty (model-zero target, or target just cleared by a
    // zero coefficient)
    const bool heapFast = heap && (tgtZero || (kind == 1 && cm == 0));
    if (heap && !z2 && kind == 2 && tgtZero && cm != 0 && cm != 1 && !s.empty() && ex(KF_HEAP_COEF)) {
      ctx.hit(std::string("excluded:") + KF_HEAP_COEF);
      coef = 1;
      cm = 1;
    }
    if (vectorCol && !range && tr.lazyErased[src] && (tgtZero || (kind == 1 && cm == 0)) && ex(KF_VECTOR_SRC)) {
      // empty-target fast path sizes the copy by size() (stored minus lazily erased) but copies every stored entry
      ctx.hit(std::string("excluded:") + KF_VECTOR_SRC);
      return skip("vector source with lazily erased entries into an empty target");
    }
    if (heapFast && range && s.size() >= 2 && ex(KF_HEAP_ORDER)) {
      ctx.hit(std::string("excluded:") + KF_HEAP_ORDER);
      return skip("heap empty target from ordered range");
    }

    ctx.desc << "  " << names[kind] << "(";
    if (kind == 2) ctx.desc << coef << ", ";
    if (range)
      ctx.desc << (variant == 0 ? "entries" : "partner-column") << show(s);
    else
      ctx.desc << src;
    if (kind == 1) ctx.desc << ", " << coef;
    ctx.desc << ", " << tgt << ")\n";

    if (!range) {
      if (kind == 0) m->add_to(src, tgt);
      if (kind == 1) m->multiply_target_and_add_to(src, coef, tgt);
      if (kind == 2) m->multiply_source_and_add_to(coef, src, tgt);
    } else if (variant == 0) {
      std::vector<Entry> es = to_entries(s);
      if (kind == 0) m->add_to(es, tgt);
      if (kind == 1) m->multiply_target_and_add_to(es, coef, tgt);
      if (kind == 2) m->multiply_source_and_add_to(coef, es, tgt);
    } else {
      if constexpr (partnerOk) {
        PM pm(1, p);
        Gudhi::persistence_matrix::Matrix<Partner_opt<O> >& pmr = pm;
        std::vector<typename PM::Entry_representative> reps;
        for (const auto& e : s) {
          if constexpr (z2)
            reps.push_back(e.first);
          else
            reps.push_back(typename PM::Entry_representative(e.first, e.second));
        }
        pmr.insert_column(reps);
        const typename PM::Column& col = pmr.get_column(0);
        if (kind == 0) m->add_to(col, tgt);
        if (kind == 1) m->multiply_target_and_add_to(col, coef, tgt);
        if (kind == 2) m->multiply_source_and_add_to(coef, col, tgt);
      }
    }
    if (kind == 1)
      model->scale_and_add(s, cm, tgt);
    else
      model->add_scaled(s, cm, tgt);

    ctx.hit(std::string("op:") + lastOp);
    if (tgtZero) {
      ctx.hit("target-empty");
      nt = true;
    }
    if (s.empty()) {
      ctx.hit("source-empty");
      nt = true;
    }
    if (kind != 0 && (cm == 0 || cm == 1 % p)) {
      ctx.hit(cm == 0 ? "coefficient-zero" : "coefficient-one");
      nt = true;
    }
    if (kind != 0 && (coef < 0 || coef >= int(p))) ctx.hit("coefficient-unreduced");
    if (model->is_zero_column(tgt) && !tgtZero) ctx.hit("target-cancelled-to-zero");
  }

  void do_zero_entry() {
    if constexpr (!comp) {
      lastOp = "zero_entry";
      std::vector<unsigned> pres = model->present_columns();
      unsigned c = pres[t.below((unsigned)pres.size())];
      unsigned r = t.below(RMAX + 1);
      if (r == RMAX) r = PROBE_ROW;
      if (swapsOn && !tr.known_row(r) && only_known_rows()) {
        std::vector<unsigned> kr;
        for (unsigned q = 0; q < RMAX; ++q)
          if (tr.known_row(q)) kr.push_back(q);
        if (kr.empty()) return skip("no row known to the swap tables");
        r = kr[r % kr.size()];
      }
      bool absent = r >= RMAX || model->at(c, r) == 0;
      if (absent && vectorCol && ex(KF_VECTOR_CLEAR)) {
        ctx.hit(std::string("excluded:") + KF_VECTOR_CLEAR);
        Sparse s = model->sparse(c);
        if (s.empty()) return skip("vector column without entry to zero");
        r = s[r % s.size()].first;
        absent = false;
      }
      if (!absent && vectorCol && ra && ex(KF_VECTOR_ROW)) {
        // the lazily erased entry stays linked in its row
        ctx.hit(std::string("excluded:") + KF_VECTOR_ROW);
        return skip("vector column with row access: zero_entry");
      }
      ctx.desc << "  zero_entry(" << c << ", " << r << ")" << (absent ? "   [already zero]" : "") << "\n";
      m->zero_entry(c, r);
      tr.lazyErased[c] = true;
      if (r < RMAX) model->zero_entry(c, r);
      ctx.hit(absent ? "op:zero_entry-absent" : "op:zero_entry-present");
      if (absent) nt = true;
    }
  }

  void do_zero_column() {
    if constexpr (!comp) {
      lastOp = "zero_column";
      std::vector<unsigned> pres = model->present_columns();
      unsigned c = pres[t.below((unsigned)pres.size())];
      ctx.desc << "  zero_column(" << c << ")\n";
      if (model->is_zero_column(c)) {
        ctx.hit("zero_column-of-empty");
        nt = true;
      }
      m->zero_column(c);
      tr.lazyErased[c] = false;
      model->zero_column(c);
      ctx.hit("op:zero_column");
    }
  }

  void do_swap_columns() {
    if constexpr (swapsOn) {
      lastOp = "swap_columns";
      std::vector<unsigned> pres = model->present_columns();
      unsigned a = pres[t.below((unsigned)pres.size())];
      unsigned b = pres[t.below((unsigned)pres.size())];
      if (ra && !swap_allowed()) return skip("swap with a pending-reorder hazard");
      const bool setRows = ra && !O::has_intrusive_rows;
      bool settleAfter = false;
      if (setRows && a != b && ex(KF_SET_ROWS)) {
        // set rows are keyed by column index: relabelling one swapped column collides with the not yet relabelled other
        // one in every row where both are non-zero (rows taken before / after a pending row swap, so that one is
        // applied first)
        ctx.hit(std::string("excluded:") + KF_SET_ROWS);
        settle("before swap_columns");
        for (unsigned r = 0; r < RMAX; ++r)
          if (model->at(a, r) && model->at(b, r)) return skip("set rows: swapped columns share a row");
        settleAfter = true;
      }
      ctx.desc << "  swap_columns(" << a << ", " << b << ")\n";
      m->swap_columns(a, b);
      model->swap_columns(a, b);
      if (ra) {
        tr.pendingAny = true;
        std::swap(tr.label[a], tr.label[b]);
      }
      {
        bool x = tr.lazyErased[a];
        tr.lazyErased[a] = tr.lazyErased[b];
        tr.lazyErased[b] = x;
      }
      ctx.hit(a == b ? "op:swap_columns-same" : "op:swap_columns");
      if (settleAfter) {
        ctx.desc << "  (forced read after swap_columns)\n";
        full_check();
      }
    }
  }

  void do_swap_rows() {
    if constexpr (swapsOn) {
      lastOp = "swap_rows";
      unsigned a = t.below(RMAX), b = t.below(RMAX);
      if (!swap_allowed()) return skip("swap with a pending-reorder hazard");
      if (ex(KF_RECT)) {
        // _orderRows resets the row maps only below the number of columns
        unsigned nc = nb_columns_impl();
        if (a >= nc || b >= nc) {
          ctx.hit(std::string("excluded:") + KF_RECT);
          if (nc == 0) return skip("no row below the number of columns");
          bool same = a == b;
          a %= nc;
          b %= nc;
          if (!same && a == b) b = (a + 1) % nc;
        }
      }
      if (!mapc && (a >= tr.tableSize || b >= tr.tableSize) && only_known_rows()) {
        // vector container: swap_rows grows only one of the two tables
        if (tr.tableSize == 0) return skip("no row known to the swap tables");
        bool same = a == b;
        a %= tr.tableSize;
        b %= tr.tableSize;
        if (!same && a == b) b = (a + 1) % tr.tableSize;
      }
      if (mapc && ex(KF_MAP_ERASE)) {
        // swap_rows(unknown row, known row that is currently displaced): that branch erases by value
        bool ka = tr.known_row(a), kb = tr.known_row(b);
        if (!ka && kb && tr.pubToReal[b] != b) {
          ctx.hit(std::string("excluded:") + KF_MAP_ERASE);
          return skip("map swap of an unknown row while rows are displaced");
        }
      }
      ctx.desc << "  swap_rows(" << a << ", " << b << ")\n";
      m->swap_rows(a, b);
      model->swap_rows(a, b);
      bool ka = tr.known_row(a), kb = tr.known_row(b);
      if (mapc) {
        if (ka != kb) {
          ctx.hit("swap_rows-one-unknown");
          if (ka) {
            tr.known.erase(a);
            tr.known.insert(b);
          } else {
            tr.known.erase(b);
            tr.known.insert(a);
          }
        } else if (!ka) {
          ctx.hit("swap_rows-both-unknown");
        }
      } else {
        if (tr.tableSize <= std::max(a, b)) tr.tableSize = std::max(a, b) + 1;
      }
      std::swap(tr.pubToReal[a], tr.pubToReal[b]);
      tr.pendingAny = true;
      if (a != b) tr.pendingRows = true;
      ctx.hit(a == b ? "op:swap_rows-same" : "op:swap_rows");
    }
  }

  void do_erase_row() {
    lastOp = "erase_empty_row";
    std::vector<unsigned> cand;
    for (unsigned r = 0; r < RMAX; ++r)
      if (model->is_zero_row(r) && (tr.known_row(r) || !only_known_rows())) cand.push_back(r);
    if (cand.empty()) return skip("no empty row");
    unsigned r = cand[t.below((unsigned)cand.size())];
    if (vectorCol && ra && !O::has_intrusive_rows && O::has_removable_rows && ex(KF_VECTOR_ERASED_ROW)) {
      // a lazily erased entry is unlinked from its row a second time when it is finally destroyed; with removable set
      // rows the row may be gone by then
      for (unsigned c : model->present_columns())
        if (tr.lazyErased[c]) {
          ctx.hit(std::string("excluded:") + KF_VECTOR_ERASED_ROW);
          return skip("vector column holding a lazily erased entry: erase_empty_row");
        }
    }
    ctx.desc << "  erase_empty_row(" << r << ")\n";
    m->erase_empty_row(r);
    if (swapsOn && mapc) tr.known.erase(r);
    if (ra && O::has_removable_rows) {
      tr.realExists.erase(r);
      if (!comp) tr.realExists.erase(tr.pubToReal[r]);
    }
    ctx.hit("op:erase_empty_row");
  }

  // ------------------------------------------------------------------------------------------- read-back
  void impl_forced_reorder() {
    if (swapsOn && tr.pendingAny) {
      ctx.hit(tr.pendingRows ? "lazy-reorder-forced-rows" : "lazy-reorder-forced-columns");
      tr.reordered();
    }
  }

  void after_step(bool full) {
    std::string sc = model->self_check();
    VF_ORACLE(sc.empty(), "dense model inconsistent after " << lastOp << ": " << sc);
    tr.mark_rows(*model);
    light_check();
    if (full) full_check();
  }

  // reads that do not force the lazy reorder
  void light_check() {
    std::vector<unsigned> pres = model->present_columns();
    // number of columns: only where the documentation is unambiguous
    bool ambiguous = (mapc && !comp) ? model->has_hole_below_end(Dense::NEVER) : model->any_hole_below_end();
    if (!ambiguous) {
      unsigned got = m->get_number_of_columns();
      VF_CHECK(got == nb_columns_impl(), tag("number_of_columns"),
               "get_number_of_columns() = " << got << ", model " << nb_columns_impl() << "\n" << model->render());
    } else {
      ctx.hit("number-of-columns-not-compared(holes)");
    }
    for (unsigned c : pres) {
      bool gz = m->is_zero_column(c);
      VF_CHECK(gz == model->is_zero_column(c), tag("is_zero_column"),
               "is_zero_column(" << c << ") = " << gz << ", model column " << show(model->column(c)) << "\n" << model->render());
      for (unsigned r = 0; r <= RMAX; ++r) {
        unsigned row = r == RMAX ? PROBE_ROW : r;
        if (swapsOn && !tr.known_row(row) && only_known_rows()) continue;
        bool ze = m->is_zero_entry(c, row);
        unsigned mv = row < RMAX ? model->at(c, row) : 0;
        VF_CHECK(ze == (mv == 0), tag("is_zero_entry"),
                 "is_zero_entry(" << c << ", " << row << ") = " << ze << ", model value " << mv << "\n" << model->render());
      }
    }
  }

  // reads through get_column / get_row (these force the lazy reorder)
  void full_check() {
    std::vector<unsigned> pres = model->present_columns();
    bool first = true;
    for (unsigned c : pres) {
      const auto& col = m->get_column(c);
      if (first) {
        impl_forced_reorder();
        tr.mark_rows(*model);
        first = false;
      }
      auto content = col.get_content(int(RMAX + 2));
      std::vector<unsigned> got(content.begin(), content.end());
      std::vector<unsigned> want = model->column(c);
      want.resize(RMAX + 2, 0);
      VF_CHECK(got == want, tag("content"),
               "get_column(" << c << ").get_content(" << RMAX + 2 << ") = " << show(got) << ", model " << show(want) << "\n"
                             << model->render());
      if (vectorCol && ex(KF_VECTOR_LEN)) {
        // get_content() sizes the result by the last stored entry even when that entry was lazily erased
        ctx.hit(std::string("excluded:") + KF_VECTOR_LEN);
        continue;
      }
      auto trimmed = col.get_content();
      std::vector<unsigned> got2(trimmed.begin(), trimmed.end());
      while (!want.empty() && want.back() == 0) want.pop_back();
      VF_CHECK(got2 == want, tag("content_default_length"),
               "get_column(" << c << ").get_content() = " << show(got2) << ", model " << show(want) << "\n" << model->render());
    }
    if constexpr (ra) {
      for (unsigned r = 0; r < RMAX; ++r) {
        if (!tr.row_readable(r)) {
          ctx.hit("row-not-in-container(not read)");
          continue;
        }
        check_row(r);
      }
    }
    // the reads above must not have changed anything
    light_check();
  }

  void check_row(unsigned r) {
    const auto& row = m->get_row(r);
    impl_forced_reorder();
    std::vector<std::pair<unsigned, unsigned> > got;  // (column index, value)
    bool ordered = true;
    bool rowIdxOk = true;
    long prev = -1;
    for (const auto& e : row) {
      unsigned v = 1;
      if constexpr (!z2) v = e.get_element();
      got.push_back(std::make_pair((unsigned)e.get_column_index(), v));
      if (long(e.get_column_index()) <= prev) ordered = false;
      prev = long(e.get_column_index());
      if (e.get_row_index() != r) rowIdxOk = false;
    }
    std::ostringstream gs;
    for (auto& g : got) gs << "(" << g.first << ":" << g.second << ")";
    VF_CHECK(rowIdxOk, tag("row_entry_row_index"), "get_row(" << r << ") holds an entry with another row index: " << gs.str());
    if (!O::has_intrusive_rows)
      VF_CHECK(ordered, tag("row_order"), "set row " << r << " not ordered by column index: " << gs.str());
    std::sort(got.begin(), got.end());
    std::ostringstream ws;
    if constexpr (!comp) {
      std::vector<std::pair<unsigned, unsigned> > want;
      for (unsigned c : model->present_columns())
        if (model->at(c, r)) want.push_back(std::make_pair(c, model->at(c, r)));
      for (auto& g : want) ws << "(" << g.first << ":" << g.second << ")";
      VF_CHECK(got == want, tag("row"),
               "get_row(" << r << ") = " << gs.str() << ", model (column:value) " << ws.str() << "\n" << model->render());
    } else {
      // one entry per compression class with a non-zero value in this row, carried by a member of that class
      std::map<int, unsigned> wantByClass, gotByClass;
      for (unsigned c : model->present_columns())
        if (model->at(c, r)) wantByClass[model->class_of(c)] = model->at(c, r);
      bool ok = true;
      for (auto& g : got) {
        if (!model->present(g.first)) {
          ok = false;
          break;
        }
        int k = model->class_of(g.first);
        if (gotByClass.count(k)) ok = false;  // two entries for one class
        gotByClass[k] = g.second;
      }
      for (auto& w : wantByClass) ws << "(class " << w.first << ":" << w.second << ")";
      VF_CHECK(ok && gotByClass == wantByClass, tag("row"),
               "get_row(" << r << ") = " << gs.str() << ", model one entry per class " << ws.str() << "\n" << model->render());
    }
  }
};

template <class O>
void run_history(vf::Tape& t, vf::Ctx& ctx) {
  History<O> h(t, ctx);
  h.run();
}

}  // namespace c09

#endif  // C09_HARNESS_H_
