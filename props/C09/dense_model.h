// C09: dense reference model of a general-purpose ("base") matrix over Z_p, independent of GUDHI.
//
// The model is a plain table of residues: column slots x R rows, with
//   * slot states (never inserted / present / removed) and the "next insert index" of the documented interface
//     (Base_matrix::remove_last / remove_column documentation: holes count as empty columns),
//   * eager row and column swaps (the lazily applied permutation of the implementation must be invisible),
//   * explicit compression classes: with compression an operation on a column acts on the content shared by its whole
//     class, and a class whose content becomes equal to the content of another non-zero class merges with it.
// Second route (internal consistency, DESIGN section 4): every class content is kept twice, as a dense residue vector
// updated entry-wise and as a sparse row->value map updated by merge-style code; `self_check` compares both after every
// operation and an inconsistency is an ORACLE-ERROR, never blamed on the library.
#ifndef C09_DENSE_MODEL_H_
#define C09_DENSE_MODEL_H_

#include <algorithm>
#include <map>
#include <sstream>
#include <string>
#include <utility>
#include <vector>

namespace c09 {

typedef std::vector<std::pair<unsigned, unsigned> > Sparse;  // (row, value in 1..p-1), strictly increasing rows

inline unsigned mod_int(long long x, unsigned p) {
  long long r = x % (long long)p;
  if (r < 0) r += p;
  return (unsigned)r;
}

class Dense {
 public:
  enum State { NEVER = 0, PRESENT = 1, REMOVED = 2 };

  Dense(unsigned p, unsigned rows, bool compressed) : p_(p), R_(rows), compressed_(compressed), end_(0), nextClass_(0) {}

  unsigned p() const { return p_; }
  unsigned rows() const { return R_; }
  unsigned end() const { return end_; }  // "next insert index": one past the last column index in use
  State state(unsigned c) const { return c < slot_.size() ? slot_[c].st : NEVER; }
  bool present(unsigned c) const { return state(c) == PRESENT; }
  std::vector<unsigned> present_columns() const {
    std::vector<unsigned> v;
    for (unsigned c = 0; c < end_; ++c)
      if (present(c)) v.push_back(c);
    return v;
  }
  unsigned count_present() const { return (unsigned)present_columns().size(); }
  bool has_hole_below_end(State which) const {
    for (unsigned c = 0; c < end_; ++c)
      if (state(c) == which) return true;
    return false;
  }
  bool any_hole_below_end() const { return has_hole_below_end(NEVER) || has_hole_below_end(REMOVED); }

  int class_of(unsigned c) const { return slot_[c].cls; }
  const std::vector<unsigned>& column(unsigned c) const { return content_.at(slot_[c].cls).dense; }
  unsigned at(unsigned c, unsigned r) const { return column(c)[r]; }
  bool is_zero_column(unsigned c) const {
    for (unsigned x : column(c))
      if (x) return false;
    return true;
  }
  bool is_zero_row(unsigned r) const {
    for (unsigned c = 0; c < end_; ++c)
      if (present(c) && at(c, r)) return false;
    return true;
  }
  Sparse sparse(unsigned c) const {
    Sparse s;
    const std::vector<unsigned>& v = column(c);
    for (unsigned r = 0; r < R_; ++r)
      if (v[r]) s.push_back(std::make_pair(r, v[r]));
    return s;
  }
  std::vector<unsigned> members(int cls) const {
    std::vector<unsigned> m;
    for (unsigned c = 0; c < end_; ++c)
      if (present(c) && slot_[c].cls == cls) m.push_back(c);
    return m;
  }

  // ---- operations (mirror the documented vocabulary of Matrix) -------------------------------------------------
  void insert_end(const Sparse& col) { insert_at(col, end_); }
  void insert_at(const Sparse& col, unsigned idx) {
    if (slot_.size() <= idx) slot_.resize(idx + 1);
    slot_[idx].st = PRESENT;
    slot_[idx].cls = nextClass_++;
    Content& k = content_[slot_[idx].cls];
    k.dense.assign(R_, 0);
    for (const auto& e : col) {
      unsigned v = e.second % p_;
      k.dense[e.first] = v;
      if (v) k.sparse[e.first] = v;
    }
    if (idx >= end_) end_ = idx + 1;
    merge_if_duplicate(slot_[idx].cls);
  }
  void remove_last() {
    if (end_ == 0) return;
    --end_;
    drop(end_);
  }
  void remove_column(unsigned idx) {
    if (idx + 1 == end_) --end_;
    drop(idx);
  }
  // target += coef * source      (source given as residues by row)
  void add_scaled(const Sparse& src, unsigned coef, unsigned tgt) {
    Content& k = content_.at(slot_[tgt].cls);
    for (const auto& e : src) k.dense[e.first] = (unsigned)(((unsigned long long)coef * e.second + k.dense[e.first]) % p_);
    // sparse route: merge
    std::map<unsigned, unsigned> out;
    auto it = k.sparse.begin();
    size_t j = 0;
    while (it != k.sparse.end() || j < src.size()) {
      unsigned r, v;
      if (j == src.size() || (it != k.sparse.end() && it->first < src[j].first)) {
        r = it->first;
        v = it->second;
        ++it;
      } else if (it == k.sparse.end() || src[j].first < it->first) {
        r = src[j].first;
        v = (unsigned)((unsigned long long)coef * src[j].second % p_);
        ++j;
      } else {
        r = it->first;
        v = (unsigned)((it->second + (unsigned long long)coef * src[j].second) % p_);
        ++it;
        ++j;
      }
      if (v) out[r] = v;
    }
    k.sparse.swap(out);
    merge_if_duplicate(slot_[tgt].cls);
  }
  // target = coef * target + source
  void scale_and_add(const Sparse& src, unsigned coef, unsigned tgt) {
    Content& k = content_.at(slot_[tgt].cls);
    for (unsigned r = 0; r < R_; ++r) k.dense[r] = (unsigned)((unsigned long long)coef * k.dense[r] % p_);
    std::map<unsigned, unsigned> scaled;
    for (const auto& e : k.sparse) {
      unsigned v = (unsigned)((unsigned long long)coef * e.second % p_);
      if (v) scaled[e.first] = v;
    }
    k.sparse.swap(scaled);
    add_scaled(src, 1 % p_, tgt);
  }
  void zero_entry(unsigned c, unsigned r) {
    Content& k = content_.at(slot_[c].cls);
    k.dense[r] = 0;
    k.sparse.erase(r);
  }
  void zero_column(unsigned c) {
    Content& k = content_.at(slot_[c].cls);
    k.dense.assign(R_, 0);
    k.sparse.clear();
  }
  void swap_columns(unsigned a, unsigned b) { std::swap(slot_[a], slot_[b]); }
  void swap_rows(unsigned a, unsigned b) {
    if (a == b) return;
    for (auto& kv : content_) {
      Content& k = kv.second;
      std::swap(k.dense[a], k.dense[b]);
      unsigned va = 0, vb = 0;
      auto ia = k.sparse.find(a);
      if (ia != k.sparse.end()) {
        va = ia->second;
        k.sparse.erase(ia);
      }
      auto ib = k.sparse.find(b);
      if (ib != k.sparse.end()) {
        vb = ib->second;
        k.sparse.erase(ib);
      }
      if (va) k.sparse[b] = va;
      if (vb) k.sparse[a] = vb;
    }
  }

  // returns "" when both routes agree, otherwise a description
  std::string self_check() const {
    std::ostringstream os;
    for (const auto& kv : content_) {
      const Content& k = kv.second;
      if (k.dense.size() != R_) os << "class " << kv.first << ": dense length " << k.dense.size() << "; ";
      unsigned nz = 0;
      for (unsigned r = 0; r < k.dense.size(); ++r) {
        if (k.dense[r] >= p_) os << "class " << kv.first << ": residue " << k.dense[r] << " >= p; ";
        auto it = k.sparse.find(r);
        unsigned sv = it == k.sparse.end() ? 0 : it->second;
        if (sv != k.dense[r]) os << "class " << kv.first << " row " << r << ": dense " << k.dense[r] << " sparse " << sv << "; ";
        if (k.dense[r]) ++nz;
      }
      if (nz != k.sparse.size()) os << "class " << kv.first << ": sparse has " << k.sparse.size() << " entries, dense " << nz << "; ";
    }
    // classes: every present column's class exists; without compression classes are singletons; with compression two
    // distinct classes never hold the same non-zero content
    std::map<int, unsigned> count;
    for (unsigned c = 0; c < end_; ++c)
      if (present(c)) {
        if (!content_.count(slot_[c].cls)) os << "column " << c << " has dangling class; ";
        ++count[slot_[c].cls];
      }
    for (const auto& kv : count)
      if (!compressed_ && kv.second != 1) os << "class " << kv.first << " has " << kv.second << " members without compression; ";
    if (compressed_)
      for (auto a = content_.begin(); a != content_.end(); ++a)
        for (auto b = std::next(a); b != content_.end(); ++b)
          if (!a->second.sparse.empty() && a->second.dense == b->second.dense)
            os << "classes " << a->first << " and " << b->first << " hold equal non-zero content; ";
    for (unsigned c = end_; c < slot_.size(); ++c)
      if (slot_[c].st == PRESENT) os << "present column " << c << " beyond end " << end_ << "; ";
    return os.str();
  }

  std::string render() const {
    std::ostringstream os;
    for (unsigned c = 0; c < end_; ++c) {
      os << "    col " << c << ": ";
      if (!present(c)) {
        os << (state(c) == NEVER ? "(hole: never inserted)" : "(hole: removed)") << "\n";
        continue;
      }
      for (unsigned x : column(c)) os << x << " ";
      if (compressed_) os << " class " << slot_[c].cls;
      os << "\n";
    }
    return os.str();
  }

 private:
  struct Slot {
    State st = NEVER;
    int cls = -1;
  };
  struct Content {
    std::vector<unsigned> dense;
    std::map<unsigned, unsigned> sparse;
  };

  void drop(unsigned idx) {
    if (idx >= slot_.size()) return;
    if (slot_[idx].st == PRESENT) {
      int cls = slot_[idx].cls;
      slot_[idx].st = REMOVED;
      slot_[idx].cls = -1;
      bool used = false;
      for (const Slot& s : slot_) used = used || (s.st == PRESENT && s.cls == cls);
      if (!used) content_.erase(cls);
    } else {
      slot_[idx].st = REMOVED;
    }
  }
  void merge_if_duplicate(int cls) {
    if (!compressed_) return;
    const Content& k = content_.at(cls);
    if (k.sparse.empty()) return;  // zero classes are never merged with each other
    for (auto& kv : content_) {
      if (kv.first == cls || kv.second.dense != k.dense) continue;
      int keep = kv.first;
      for (Slot& s : slot_)
        if (s.st == PRESENT && s.cls == cls) s.cls = keep;
      content_.erase(cls);
      return;
    }
  }

  unsigned p_, R_;
  bool compressed_;
  unsigned end_;
  int nextClass_;
  std::vector<Slot> slot_;
  std::map<int, Content> content_;
};

}  // namespace c09

#endif  // C09_DENSE_MODEL_H_
