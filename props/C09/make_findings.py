#!/usr/bin/env python3
"""Writes findings/C09-*.md from: findings/C09.json (ids, triggers, probes - written by make_probes.py), the standalone
reproduction programs (repro_bodies.py), the combined suggested patch findings/C09-suggested-fixes.patch (validated: with
it applied to a scratch copy of the include tree all 15 probes hold and 72 000 random histories on the 36 core option
sets pass with *nothing* excluded) and the triage texts below."""
import json
import os
import re
import sys

HERE = os.path.dirname(os.path.abspath(__file__))
ROOT = os.path.dirname(os.path.dirname(HERE))
sys.path.insert(0, HERE)
from repro_bodies import PRELUDE, B  # noqa: E402

PM = "src/Persistence_matrix/include/gudhi/Persistence_matrix/"
patch = open(os.path.join(ROOT, "findings", "C09-suggested-fixes.patch")).read()
file_diffs = {}
for chunk in re.split(r"(?m)^(?=diff --git )", patch):
    m = re.match(r"diff --git a/(\S+) ", chunk)
    if m:
        file_diffs[m.group(1)] = chunk


def hunks(path, keep=None):
    """diff of one file; keep = list of substrings selecting hunks (all when None)"""
    d = file_diffs[path]
    head, *hs = re.split(r"(?m)^(?=@@ )", d)
    if keep is not None:
        hs = [h for h in hs if any(k in h for k in keep)]
    return head + "".join(hs)


# id -> (severity, observed output of the standalone program, validity text, patch text)
T = {}
T["C09-heap-coefficient"] = (
    "wrong result (silent)",
    "1 0 3  (expected 2 0 1)",
    "`Matrix::multiply_source_and_add_to(coefficient, source, target)` is documented for every matrix type as "
    "`targetColumn += (coefficient * sourceColumn)` without any condition on the target. An empty target column is an "
    "ordinary state of a base matrix (`insert_column` of an empty range, `zero_column`, cancellation). All other eight "
    "column types multiply; the heap column takes a fast path for an empty container that copies the source entries "
    "verbatim (`heap_column.h`, `_multiply_source_and_add`, `column_[i++]->set_element(entry.get_element())`).",
    hunks(PM + "columns/heap_column.h", ["operators_->multiply(entry.get_element(), val)"]))
T["C09-heap-empty-target-order"] = (
    "wrong result (silent): truncated `get_content()`, wrong pivots, later wrong sums",
    "zero column? 0\n1 0 1 0 1  (expected 1 0 1 0 1 0 1)",
    "The entry-range overloads of `add_to` / `multiply_*_and_add_to` are documented for base matrices (\"Range of Entry. "
    "Needs a begin() and end() method\"), and the column concept asks such ranges to be *ordered by row index*. The three "
    "empty-container fast paths of `Heap_column` (`_add`, `_multiply_target_and_add`, `_multiply_source_and_add`) copy the "
    "range in its own order and never call `std::make_heap`; an ascending range is the opposite of a max-heap, so every "
    "later `pop_heap` / `push_heap` works on an invalid heap. (A source that is itself a heap column is copied in heap "
    "order, which is why the column-index overloads and the unit tests do not see it.)",
    hunks(PM + "columns/heap_column.h"))
T["C09-vector-clear-absent"] = (
    "wrong result (silent): `is_zero_column` wrong in both directions, later insertions at that row masked",
    "is_zero_column(0) = 1 (expected 0)",
    "`Matrix::zero_entry(columnIndex, rowIndex)` is documented as \"Zeroes the entry at the given coordinates\" with no "
    "precondition that the entry be non-zero, and property C09 explicitly quantifies over zeroing entries that are already "
    "zero. The warning exists only in the *column concept* (`PersistenceMatrixColumn::clear(ID_index)`: \"For Vector_column, "
    "do not clear an entry that was already at zero\"), i.e. one level below the public matrix interface, and the other "
    "eight column types accept the call. `Vector_column::clear(row)` blindly records the row in `erasedValues_`; "
    "`is_empty()` / `size()` then compare container sizes (`column_.size() == erasedValues_.size()`).",
    hunks(PM + "columns/vector_column.h", ["only entries which are really stored"]))
T["C09-orderrows-rectangular"] = (
    "wrong result (silent) with more rows than columns; heap-buffer-overflow write with more columns than registered rows",
    "before the lazy reorder: (0,3) zero? 1 (0,4) zero? 0 (expected 1 0)\n"
    "after the lazy reorder:  (0,3) zero? 0 (0,4) zero? 1 (expected 1 0)",
    "A base matrix \"can represent any matrix and therefore will not make any assumption on its content\" (Matrix.h); nothing "
    "requires it to be square, and `swap_rows` takes arbitrary row indices. `Base_swap::_orderRows` reorders the columns "
    "with the pending permutation and then resets `indexToRow_[i]`, `rowToIndex_[i]` only for `i < get_number_of_columns()`. "
    "With 2 columns and 5 rows the swap of rows 3 and 4 stays recorded after it has been applied to the entries, so it is "
    "applied a second time to every later read. In the opposite direction (vector container, more columns than registered "
    "rows, e.g. columns {0,1},{},{} then `swap_rows(0,1); get_column(0)`) the reset loop writes `indexToRow_[2]` past the "
    "end of the vector (ASan: heap-buffer-overflow). The unit test `test_base_swaps` uses a 7x7 boundary matrix only.",
    hunks(PM + "base_swap.h", ["_orderRows"]))
T["C09-orderrows-holes"] = (
    "exception `std::out_of_range` escaping `get_column` / `get_row` / `insert_column`, or columns silently left un-reordered",
    "get_column(1) threw std::out_of_range: unordered_map::at",
    "`remove_column` is documented for base matrices with `has_map_column_container`, `swap_rows` for base matrices with "
    "`has_column_and_row_swaps`; nothing forbids combining them. `Base_swap::_orderRows` loops `i` from 0 to "
    "`get_number_of_columns()` (= number of stored columns for the map container) and calls `matrix_.at(i)`: after "
    "`remove_column(0)` index 0 does not exist (throws), and columns with an index >= the count are never reordered. The same "
    "loop throws for `insert_column(column, index >= end)` with a swap pending (either container), because "
    "`Base_matrix::insert_column(col, idx)` bumps `nextInsertIndex_` *before* `_insert` forces the reorder: "
    "`Matrix m({{}}); m.swap_rows(0,0); m.insert_column({}, 1);` -> `vector::_M_range_check`.",
    hunks(PM + "base_swap.h", ["_orderRows"]))
T["C09-swap-unknown-row"] = (
    "exception `std::out_of_range` (map container) / out-of-bounds read or write (vector container)",
    "is_zero_entry(0, 1) threw std::out_of_range: unordered_map::at",
    "`is_zero_entry`, `zero_entry`, `erase_empty_row`, `swap_rows` and the entry-range additions take a row index without "
    "any documented restriction, a base matrix has no declared number of rows, and without `has_column_and_row_swaps` all "
    "of them accept any row (`is_zero_entry` of a row that holds nothing is `true`). With swaps enabled the two row maps of "
    "`Base_swap` only contain the rows that `Base_matrix::_insert` has seen (the rows of inserted columns; the column "
    "constructor even registers only `columns.size()` rows), but `_get_real_row_index` (`indexToRow_.at(r)` / "
    "`indexToRow_[r]`), `erase_empty_row` (`find` result dereferenced unchecked), the vector branch of `swap_rows` (grows "
    "`indexToRow_` but not `rowToIndex_`, then writes `rowToIndex_[...]`) and `Column::reorder` (`valueMap.at(row)` for rows "
    "brought in by an entry-range addition or by the column constructor) all assume the maps are total. Manifestations seen: "
    "`is_zero_entry(0,1)` after inserting column {0} throws (map) or reads past the vector (ASan, vector container); "
    "`Matrix m(std::vector<...>{{0,1,2,3,4},{}}); m.swap_columns(0,0); m.get_column(0)` throws from `reorder`; "
    "`swap_rows(0, 5)` on a vector-container matrix whose maps have size 2 writes out of bounds.",
    hunks(PM + "Base_matrix.h") + hunks(PM + "base_swap.h", ["swap_rows"]))
T["C09-swaprows-map-erase"] = (
    "corrupted row maps: later `std::out_of_range`, or entries read in the wrong row (silent)",
    "is_zero_entry(1, 1) = is_zero_entry(1, 1) threw std::out_of_range: unordered_map::at\nis_zero_entry(0, 2) = 0 (expected 1)",
    "`swap_rows(a, b)` handles a row that is not yet registered explicitly, so the authors intend it to be valid. In the "
    "branch `it1 == end` (a unknown, b known) the old key is removed with `indexToRow_.erase(it2->second)`: `erase(key_type)` "
    "with the *value* (the position of b) instead of the iterator / the key b. As long as b sits at its own position the two "
    "coincide; after an earlier (still lazy) swap displaced b, the entry of another row is erased and b stays registered. The "
    "mirror branch (`indexToRow_.erase(it1)`) is correct. The one-line repair is `indexToRow_.erase(it2);`; the combined patch "
    "below goes further and registers unknown rows instead of special-casing them, which C09-swap-unknown-row needs anyway "
    "(a row dropped from the maps while another row sits at its position can otherwise not be read consistently).",
    hunks(PM + "base_swap.h", ["swap_rows"]))
T["C09-compression-zero-target"] = (
    "crash (null reference, SIGSEGV)",
    "Base_matrix_with_column_compression.h:530:20: runtime error: reference binding to null pointer of type '...::Column'",
    "`add_to`, `multiply_target_and_add_to`, `multiply_source_and_add_to` are the only modifying operations a compressed "
    "base matrix offers, they are documented without condition on the target, and zero columns are legal (`insert_column` "
    "of an empty range, or a sum that cancels - `_insert_column` then deletes the representative and stores `nullptr`). "
    "`get_column`, `is_zero_entry`, `is_zero_column` all test for the null representative; the three addition routines do "
    "`Column& target = *repToColumn_[targetRep];` unconditionally.",
    hunks(PM + "Base_matrix_with_column_compression.h"))
T["C09-negative-coefficient"] = (
    "wrong result (silent)",
    "is_zero_column(1) = 0 (expected 1)",
    "The coefficient parameter of `multiply_target_and_add_to` / `multiply_source_and_add_to` is a plain `int` that the matrix "
    "reduces itself (`colSettings_->operators.get_value(coefficient)`), so every `int` is a valid input. "
    "`Zp_field_operators::get_value(Signed_integer_type e)` computes `e % characteristic_` with an *unsigned* right operand "
    "for `e < -p`, which converts `e` to unsigned first (-4 mod 3 -> 4294967292 mod 3 = 0 instead of 2). Same root cause as "
    "the C10 finding on signed `get_value`; listed here because it is observable through the matrix interface that C09 "
    "quantifies over (\"arbitrary coefficients\").",
    "--- a/src/Persistence_matrix/include/gudhi/Fields/Zp_field_operators.h\n"
    "+++ b/src/Persistence_matrix/include/gudhi/Fields/Zp_field_operators.h\n"
    "@@ get_value(Signed_integer_type e)\n"
    "-    if (e < -static_cast<Signed_integer_type>(characteristic_)) e = e % characteristic_;\n"
    "+    if (e < -static_cast<Signed_integer_type>(characteristic_)) e = e % static_cast<Signed_integer_type>(characteristic_);\n"
    "(superseded: /repo now carries the integrator's own fix of get_value, so this hunk is no longer part of\n"
    " findings/C09-suggested-fixes.patch)\n")
T["C09-swapcolumns-stale-index"] = (
    "wrong result (silent): `get_row` reports entries under the wrong column index (and, with set rows, loses entries)",
    "column indices listed in row 0: 1 1 (expected 0 and 1)",
    "`swap_columns` and `get_row` are both enabled by the options used, and `Base_swap::swap_columns` documents that the "
    "column index stored in the entries \"will be done when calling `_orderRows()`\". `_orderRows` indeed relabels the "
    "existing entries (`reorder(rowToIndex_, i)` -> `entry->set_column_index(i)`), but `swap(col1, col2)` also swapped "
    "`Row_access::columnIndex_`, the index each column stamps on entries it creates later, and nothing ever corrects that "
    "member. Every addition into a column that once changed position therefore creates entries with the pre-swap index.",
    hunks(PM + "columns/list_column.h") +
    "\n(the same three lines are added to `reorder` of set_column.h, unordered_set_column.h, vector_column.h, "
    "naive_vector_column.h, intrusive_list_column.h, intrusive_set_column.h - see findings/C09-suggested-fixes.patch)\n")
T["C09-range-add-pending-rowswap"] = (
    "wrong result (silent)",
    "is_zero_entry(0,0) = 1 is_zero_entry(0,1) = 1 (expected 0 0)",
    "Row swaps are lazy by design and must be invisible: `is_zero_entry` / `zero_entry` translate the row through "
    "`_get_real_row_index`, `get_column` / `get_row` / `insert_column` force the reorder first. The entry-range overloads of "
    "`add_to` / `multiply_*_and_add_to` do neither: the row indices of the user's range are used as container indices, so "
    "after `swap_rows(0,1)` a value added \"at row 0\" lands in (public) row 1. In the program above it even cancels the "
    "entry of column 0 (Z_2).",
    hunks(PM + "Base_matrix.h", ["_register_rows_of"]))
T["C09-swapcolumns-set-rows"] = (
    "wrong result (silent): rows lose entries",
    "entries in row 0: 1 (expected 2)",
    "`has_intrusive_rows = false` is a documented option (rows are `std::set<Entry>` \"ordered by column index\"), and "
    "`swap_columns` is enabled independently of it. The lazy reorder relabels the columns one after the other: column 0 "
    "(carrying the stale index 1) removes its entries from the row sets, takes index 0 and re-inserts them while the entries "
    "of column 1 still carry the stale index 0 - `std::set::insert` finds an equal key and silently does nothing; when column "
    "1 is processed its `unlink` erases *by key* and removes the wrong copy. The comment in the column code (\"all entries "
    "have to be deleted first, to avoid problem with insertion when row is a set\") handles the problem inside one column "
    "only. With a pending row swap the collision also happens between the new rows of one column and the old rows of the other.",
    hunks(PM + "base_swap.h", ["_orderRows"]))
T["C09-vector-zero-entry-row"] = (
    "wrong result (silent): `get_row` lists an entry whose value is zero",
    "is_zero_entry(0,0) = 1, entries listed in row 0: 1 (expected 1, 0)",
    "`zero_entry` and `get_row` are both available for these options; row access is documented as listing the entries of a "
    "row and every other column type unlinks the entry (`_delete_entry`). `Vector_column::clear(row)` only records the row in "
    "`erasedValues_`; the entry object stays linked in the row container until the column is next rebuilt by an addition.",
    hunks(PM + "columns/vector_column.h", ["only entries which are really stored", "newColumn) {  // column_ still holds"]))
T["C09-vector-content-length"] = (
    "minor: trailing zeros in `get_content()`",
    "get_content().size() = 3 (expected 1: biggest non-zero row + 1)",
    "`get_content(columnLength = -1)`: \"If -1, the number of rows is fixed at the biggest row index with non zero value\" "
    "(column concept). `Vector_column::get_content` takes `column_.back()->get_row_index() + 1` although that entry may have "
    "been lazily erased; the heap column, which has the same kind of laziness, trims trailing zeros explicitly. The values "
    "are right, only the length differs from the documentation and from the other eight column types.",
    hunks(PM + "columns/vector_column.h", ["length given by the last entry"]))
T["C09-vector-erased-source"] = (
    "memory error (write through `column_[0]` of an empty `std::vector`; UBSan null reference / ASan heap-buffer-overflow)",
    "stl_vector.h:1124:9: runtime error: reference binding to null pointer of type '...::Entry<...> *'",
    "`zero_entry` on a non-zero entry followed by `add_to(source, target)` with an empty target are plain documented calls. "
    "The empty-container fast paths of `Vector_column::_add` and `_multiply_target_and_add` do `column_.resize(column.size())` "
    "- `size()` of a `Vector_column` source is the number of stored entries *minus* the lazily erased ones - and then copy "
    "*every* stored entry of the source with `_update_entry(..., i++)`, writing past the resized vector (and resurrecting "
    "erased entries when the write happens to stay in bounds).",
    hunks(PM + "columns/vector_column.h", ["_has_no_erased_value"]))

fj = json.load(open(os.path.join(ROOT, "findings", "C09.json")))
for f in fj["findings"]:
    fid = f["id"]
    sev, observed, valid, ptxt = T[fid]
    opt, body = B[fid]
    tape = open(os.path.join(ROOT, f["probe"]), "rb").read()
    md = []
    md.append("# %s\n" % fid)
    md.append("Property: **C09** (general matrices behave as dense matrices, whatever the column representation)  ")
    if f.get("status") == "fixed":
        md.append("Status: **fixed in /repo** (the probe tape holds on the current tree; the exclusion is off and the trigger is "
                  "generated again)  ")
    else:
        md.append("Status: known (unrepaired) - the generator excludes the trigger while this id is listed in `findings/C09.json`  ")
    md.append("Effect: %s\n" % sev)
    md.append("## What fails\n")
    md.append(f["what"] + ".\n")
    md.append("Trigger (what the generator avoids while the finding is open): %s.\n" % f["trigger"])
    md.append("## Minimal reproduction\n")
    md.append("Standalone program (`clang++-14 -std=gnu++17 -fsanitize=address,undefined -I/repo/src/Persistence_matrix/include "
              "-I/repo/src/common/include x.cpp`):\n")
    md.append("```cpp\n" + PRELUDE + opt + "\nint main() {" + body + "}\n```\n")
    md.append("Output on the unchanged tree (before any repair):\n\n```\n" + observed + "\n```\n")
    md.append("Tape: `%s` (%d bytes: `%s`), target `%s`, expected failure class `%s`; replay with "
              "`./check C09 --replay %s` (probe replays run with nothing excluded).\n"
              % (f["probe"], len(tape), tape.hex(), f["target"], f["expect_class"], f["probe"]))
    md.append("## Why the input is valid\n")
    md.append(valid + "\n")
    md.append("## Suggested minimal patch\n")
    md.append("Part of `findings/C09-suggested-fixes.patch` (applies to /repo with `git apply`). With the whole patch applied "
              "to a scratch copy of the include tree this program prints the expected output, all 15 C09 probes hold and the "
              "C09 harness passes on the 36 core option sets with nothing excluded.\n")
    md.append("```diff\n" + ptxt.rstrip("\n") + "\n```\n")
    with open(os.path.join(ROOT, "findings", fid + ".md"), "w") as out:
        out.write("\n".join(md))
    print("wrote findings/%s.md" % fid)
