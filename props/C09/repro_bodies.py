# Standalone reproduction programs of the C09 findings: id -> (options struct, body of main). Used by make_findings.py.
PRELUDE = '''#include <gudhi/Matrix.h>
#include <gudhi/persistence_matrix_options.h>
#include <iostream>
#include <vector>
using namespace Gudhi::persistence_matrix;
'''
B = {}
B["C09-heap-coefficient"] = ('''struct Opt : Default_options<Column_types::HEAP, false> {};''', '''
  using E = std::pair<unsigned, unsigned>;
  Matrix<Opt> m(2, 5u);                                // Z_5
  m.insert_column(std::vector<E>{{0, 1}, {2, 3}});
  m.insert_column(std::vector<E>{});
  m.multiply_source_and_add_to(2, 0u, 1u);             // col1 += 2 * col0  ->  (2, 0, 1)
  for (auto x : m.get_column(1).get_content(3)) std::cout << x << ' ';
  std::cout << " (expected 2 0 1)\\n";
''')
B["C09-heap-empty-target-order"] = ('''struct Opt : Default_options<Column_types::HEAP, true> {};''', '''
  Matrix<Opt> m(2);
  m.insert_column(std::vector<unsigned>{1, 4, 5, 7});
  m.insert_column(std::vector<unsigned>{});
  std::vector<Matrix<Opt>::Matrix_entry> range;        // entry range sorted by row index, as documented
  for (unsigned r : {0, 1, 2, 5, 6, 7}) range.emplace_back(r);
  m.add_to(range, 1);                                  // col1 = {0,1,2,5,6,7}
  std::cout << "zero column? " << m.is_zero_column(1) << "\\n";
  m.add_to(0u, 1u);                                    // col1 = {0,2,4,6}
  for (auto x : m.get_column(1).get_content()) std::cout << x << ' ';
  std::cout << " (expected 1 0 1 0 1 0 1)\\n";
''')
B["C09-vector-clear-absent"] = ('''struct Opt : Default_options<Column_types::VECTOR, true> {};''', '''
  Matrix<Opt> m(1);
  m.insert_column(std::vector<unsigned>{0});
  m.zero_entry(0, 1);                                  // entry (column 0, row 1) is already zero
  std::cout << "is_zero_column(0) = " << m.is_zero_column(0) << " (expected 0)\\n";
''')
B["C09-orderrows-rectangular"] = ('''struct Opt : Default_options<Column_types::INTRUSIVE_SET, true> {
  static const bool has_column_and_row_swaps = true;
};''', '''
  Matrix<Opt> m(2);                                    // 2 columns, 5 rows
  m.insert_column(std::vector<unsigned>{0, 3});
  m.insert_column(std::vector<unsigned>{1, 4});
  m.swap_rows(3, 4);
  std::cout << "before the lazy reorder: (0,3) zero? " << m.is_zero_entry(0, 3) << " (0,4) zero? " << m.is_zero_entry(0, 4)
            << " (expected 1 0)\\n";
  (void)m.get_column(0);                               // forces the reorder
  std::cout << "after the lazy reorder:  (0,3) zero? " << m.is_zero_entry(0, 3) << " (0,4) zero? " << m.is_zero_entry(0, 4)
            << " (expected 1 0)\\n";
''')
B["C09-orderrows-holes"] = ('''struct Opt : Default_options<Column_types::INTRUSIVE_SET, true> {
  static const bool has_column_and_row_swaps = true;
  static const bool has_map_column_container = true;
};''', '''
  Matrix<Opt> m(3);
  m.insert_column(std::vector<unsigned>{0, 1});
  m.insert_column(std::vector<unsigned>{1, 2});
  m.insert_column(std::vector<unsigned>{0, 2});
  m.remove_column(0);
  m.swap_rows(0, 1);
  try {
    auto c = m.get_column(1).get_content(3);           // expected 1 0 1
    for (auto x : c) std::cout << x << ' ';
    std::cout << "\\n";
  } catch (const std::out_of_range& e) {
    std::cout << "get_column(1) threw std::out_of_range: " << e.what() << "\\n";
  }
''')
B["C09-swap-unknown-row"] = ('''struct Opt : Default_options<Column_types::INTRUSIVE_SET, true> {
  static const bool has_column_and_row_swaps = true;
  static const bool has_map_column_container = true;   // with a vector container: out-of-bounds read instead of a throw
};''', '''
  Matrix<Opt> m(0);
  m.insert_column(std::vector<unsigned>{0});
  try {
    std::cout << "is_zero_entry(0, 1) = " << m.is_zero_entry(0, 1) << " (expected 1)\\n";
  } catch (const std::out_of_range& e) {
    std::cout << "is_zero_entry(0, 1) threw std::out_of_range: " << e.what() << "\\n";
  }
''')
B["C09-swaprows-map-erase"] = ('''struct Opt : Default_options<Column_types::INTRUSIVE_SET, true> {
  static const bool has_column_and_row_swaps = true;
  static const bool has_map_column_container = true;
};''', '''
  Matrix<Opt> m(0);
  m.insert_column(std::vector<unsigned>{1});
  m.insert_column(std::vector<unsigned>{2});
  m.swap_rows(1, 2);                                   // col0 = {2}, col1 = {1}
  m.swap_rows(3, 2);                                   // col0 = {3}, col1 = {1}   (row 3 never appeared before)
  try {
    std::cout << "is_zero_entry(1, 1) = " << m.is_zero_entry(1, 1) << " (expected 0)\\n";
  } catch (const std::out_of_range& e) {
    std::cout << "is_zero_entry(1, 1) threw std::out_of_range: " << e.what() << "\\n";
  }
  std::cout << "is_zero_entry(0, 2) = " << m.is_zero_entry(0, 2) << " (expected 1)\\n";
''')
B["C09-compression-zero-target"] = ('''struct Opt : Default_options<Column_types::INTRUSIVE_SET, true> {
  static const bool has_column_compression = true;
};''', '''
  Matrix<Opt> m(2);
  m.insert_column(std::vector<unsigned>{0, 1});
  m.insert_column(std::vector<unsigned>{});
  m.add_to(0u, 1u);                                    // null reference / SIGSEGV
  std::cout << "is_zero_column(1) = " << m.is_zero_column(1) << " (expected 0)\\n";
''')
B["C09-negative-coefficient"] = ('''struct Opt : Default_options<Column_types::INTRUSIVE_SET, false> {};''', '''
  using E = std::pair<unsigned, unsigned>;
  Matrix<Opt> m(2, 3u);                                // Z_3
  m.insert_column(std::vector<E>{{0, 1}});
  m.insert_column(std::vector<E>{{0, 1}});
  m.multiply_source_and_add_to(-4, 0u, 1u);            // -4 = 2 mod 3: col1 = 1 + 2 * 1 = 0
  std::cout << "is_zero_column(1) = " << m.is_zero_column(1) << " (expected 1)\\n";
''')
B["C09-swapcolumns-stale-index"] = ('''struct Opt : Default_options<Column_types::LIST, true> {
  static const bool has_column_and_row_swaps = true;
  static const bool has_row_access = true;
};''', '''
  Matrix<Opt> m(2);
  m.insert_column(std::vector<unsigned>{0});
  m.insert_column(std::vector<unsigned>{});
  m.swap_columns(0, 1);                                // col0 = {}, col1 = {0}
  (void)m.get_column(0);                               // lazy reorder done
  m.add_to(1u, 0u);                                    // col0 = {0}
  std::cout << "column indices listed in row 0:";
  for (const auto& e : m.get_row(0)) std::cout << ' ' << e.get_column_index();
  std::cout << " (expected 0 and 1)\\n";
''')
B["C09-range-add-pending-rowswap"] = ('''struct Opt : Default_options<Column_types::INTRUSIVE_SET, true> {
  static const bool has_column_and_row_swaps = true;
};''', '''
  Matrix<Opt> m(2);
  m.insert_column(std::vector<unsigned>{0});
  m.insert_column(std::vector<unsigned>{1});
  m.swap_rows(0, 1);                                   // col0 = {1}
  std::vector<Matrix<Opt>::Matrix_entry> range;
  range.emplace_back(0u);
  m.add_to(range, 0);                                  // col0 = {0, 1}
  std::cout << "is_zero_entry(0,0) = " << m.is_zero_entry(0, 0) << " is_zero_entry(0,1) = " << m.is_zero_entry(0, 1)
            << " (expected 0 0)\\n";
''')
B["C09-swapcolumns-set-rows"] = ('''struct Opt : Default_options<Column_types::INTRUSIVE_SET, true> {
  static const bool has_column_and_row_swaps = true;
  static const bool has_row_access = true;
  static const bool has_intrusive_rows = false;        // rows are std::set ordered by column index
};''', '''
  Matrix<Opt> m(2);
  m.insert_column(std::vector<unsigned>{0});
  m.insert_column(std::vector<unsigned>{0});
  m.swap_columns(0, 1);
  std::cout << "entries in row 0: " << m.get_row(0).size() << " (expected 2)\\n";
''')
B["C09-vector-zero-entry-row"] = ('''struct Opt : Default_options<Column_types::VECTOR, true> {
  static const bool has_row_access = true;
};''', '''
  Matrix<Opt> m(1);
  m.insert_column(std::vector<unsigned>{0, 1});
  m.zero_entry(0, 0);
  unsigned n = 0;
  for (const auto& e : m.get_row(0)) { (void)e; ++n; }
  std::cout << "is_zero_entry(0,0) = " << m.is_zero_entry(0, 0) << ", entries listed in row 0: " << n << " (expected 1, 0)\\n";
''')
B["C09-vector-content-length"] = ('''struct Opt : Default_options<Column_types::VECTOR, true> {};''', '''
  Matrix<Opt> m(1);
  m.insert_column(std::vector<unsigned>{0, 2});
  m.zero_entry(0, 2);
  std::cout << "get_content().size() = " << m.get_column(0).get_content().size() << " (expected 1: biggest non-zero row + 1)\\n";
''')
B["C09-vector-erased-source"] = ('''struct Opt : Default_options<Column_types::VECTOR, true> {};''', '''
  Matrix<Opt> m(2);
  m.insert_column(std::vector<unsigned>{0});
  m.insert_column(std::vector<unsigned>{});
  m.zero_entry(0, 0);                                  // col0 = {}
  m.add_to(0u, 1u);                                    // writes column_[0] of an empty std::vector
  std::cout << "is_zero_column(1) = " << m.is_zero_column(1) << " (expected 1)\\n";
''')
