// C07: zigzag persistence outputs the interval decomposition of the zigzag module.
//
// One case = one history of <= 30 arrows (insert a simplex whose facets are present / remove a coface-free simplex /
// identity) over <= 6 vertices, dimension <= 3, run through
//   (A) Zigzag_persistence            keys = arrow numbers, boundaries sorted by key
//   (B) Filtered_zigzag_persistence   arbitrary distinct cell keys, shuffled boundaries, monotone values with repeats
//   (C) Filtered_zigzag_persistence_with_storage   same + ignoreCyclesAboveDim, index diagram, value diagram
// for ONE internal column type (-DCFG=n), and compared after EVERY arrow with the independent oracle ref::zz::barcode
// (interval decomposition from generalised ranks, ref/zigzag.h), which checks itself on every case.
#define REF_ZZ_UNSANITIZED_KERNELS 1
#include "vf.h"
#include "zigzag.h"

#include <gudhi/filtered_zigzag_persistence.h>
#include <gudhi/zigzag_persistence.h>

#include <climits>
#include <cmath>
#include <limits>
#include <set>

#ifndef CFG
#define CFG 3
#endif

namespace {
using CT = Gudhi::persistence_matrix::Column_types;
// HEAP is not listed: it does not support row access, which the zigzag matrix options require (does not compile)
constexpr CT kColumnTypes[] = {CT::LIST,         CT::SET,           CT::VECTOR,         CT::NAIVE_VECTOR,
                               CT::SMALL_VECTOR, CT::UNORDERED_SET, CT::INTRUSIVE_LIST, CT::INTRUSIVE_SET};
const char* const kColumnNames[] = {"list",         "set",           "vector",         "naive_vector",
                                    "small_vector", "unordered_set", "intrusive_list", "intrusive_set"};
struct Opt : Gudhi::zigzag_persistence::Default_filtered_zigzag_options {
  static const CT column_type = kColumnTypes[CFG];
};
using ZP = Gudhi::zigzag_persistence::Zigzag_persistence<Opt>;
using FZP = Gudhi::zigzag_persistence::Filtered_zigzag_persistence<Opt>;
using SZP = Gudhi::zigzag_persistence::Filtered_zigzag_persistence_with_storage<Opt>;

using ref::zz::Interval;
const double kInf = std::numeric_limits<double>::infinity();

struct VBar {  // interval in filtration values; d = +inf for an open one
  int dim;
  double b, d;
  bool operator<(const VBar& o) const { return std::tie(dim, b, d) < std::tie(o.dim, o.b, o.d); }
  bool operator==(const VBar& o) const { return dim == o.dim && b == o.b && d == o.d; }
};
std::string show(std::vector<VBar> v) {
  std::sort(v.begin(), v.end());
  std::ostringstream o;
  for (auto& x : v) o << "(" << x.dim << "," << x.b << "," << x.d << ") ";
  return o.str();
}
std::string show(std::vector<Interval> v) {
  std::sort(v.begin(), v.end());
  return ref::zz::to_string(v);
}
template <class T>
bool same_multiset(std::vector<T> a, std::vector<T> b) {
  std::sort(a.begin(), a.end());
  std::sort(b.begin(), b.end());
  return a == b;
}

// ---- ambient complexes of general (non-simplicial) cells, boundaries over Z_2 as lists of cells
// cubical complex of a grid of sx x sy x sz unit cubes (a size 0 flattens that direction), cells of dimension <= maxdim,
// in Khalimsky coordinates: a cell is a triple, its dimension the number of odd coordinates
std::vector<ref::zz::ZCell> cubical_ambient(int sx, int sy, int sz, int maxdim, std::vector<std::string>* names) {
  struct C {
    int x, y, z, dim;
  };
  std::vector<C> cells;
  for (int k = 0; k <= maxdim; ++k)
    for (int x = 0; x <= 2 * sx; ++x)
      for (int y = 0; y <= 2 * sy; ++y)
        for (int z = 0; z <= 2 * sz; ++z)
          if ((x & 1) + (y & 1) + (z & 1) == k) cells.push_back(C{x, y, z, k});
  auto find = [&](int x, int y, int z) {
    for (size_t i = 0; i < cells.size(); ++i)
      if (cells[i].x == x && cells[i].y == y && cells[i].z == z) return int(i);
    return -1;
  };
  std::vector<ref::zz::ZCell> amb;
  for (auto& c : cells) {
    ref::zz::ZCell zc;
    zc.dim = c.dim;
    if (c.x & 1) { zc.bdry.push_back(find(c.x - 1, c.y, c.z)); zc.bdry.push_back(find(c.x + 1, c.y, c.z)); }
    if (c.y & 1) { zc.bdry.push_back(find(c.x, c.y - 1, c.z)); zc.bdry.push_back(find(c.x, c.y + 1, c.z)); }
    if (c.z & 1) { zc.bdry.push_back(find(c.x, c.y, c.z - 1)); zc.bdry.push_back(find(c.x, c.y, c.z + 1)); }
    amb.push_back(zc);
    std::ostringstream o;
    o << "<" << c.x << c.y << c.z << ">";
    names->push_back(o.str());
  }
  return amb;
}
// a small CW complex: vertices a,b; edges e1,e2,e3 from a to b and a loop l at a (empty Z_2 boundary); discs d12,d23,d13
// glued on two edges each and a disc dl glued on the loop; a ball c filling the sphere d12+d23+d13
// *faces = the cells a cell is glued on (a superset of the Z_2 boundary: the loop is glued on a although a+a = 0)
std::vector<ref::zz::ZCell> cw_ambient(int maxdim, std::vector<std::string>* names, std::vector<std::vector<int>>* faces) {
  struct D {
    const char* name;
    int dim;
    std::vector<int> b, glued_on;
  };
  const std::vector<D> all = {{"a", 0, {}, {}},           {"b", 0, {}, {}},           {"e1", 1, {0, 1}, {0, 1}},  {"e2", 1, {0, 1}, {0, 1}},
                              {"e3", 1, {0, 1}, {0, 1}},   {"l", 1, {}, {0}},          {"d12", 2, {2, 3}, {2, 3}}, {"d23", 2, {3, 4}, {3, 4}},
                              {"d13", 2, {2, 4}, {2, 4}}, {"dl", 2, {5}, {5}},        {"c", 3, {6, 7, 8}, {6, 7, 8}}};
  std::vector<ref::zz::ZCell> amb;
  for (auto& d : all)
    if (d.dim <= maxdim) {
      amb.push_back(ref::zz::ZCell{d.dim, d.b});
      names->push_back(d.name);
      faces->push_back(d.glued_on);
    }
  return amb;
}

struct Step {
  ref::zz::Kind kind;
  int cell;                  // ambient id
  int zkey;                  // (A) key of the cell = arrow number of its last insertion
  std::vector<int> zbdry;    // (A) boundary by keys, increasing
  int fkey;                  // (B,C) arbitrary key
  std::vector<int> fbdry;    // (B,C) boundary by arbitrary keys, arbitrary order
  double value;              // (B,C) filtration value of the arrow (unused for identity)
};
}  // namespace

namespace vf {
const char* harness_name() { return "C07/zigzag"; }

void run_case(Tape& t, Ctx& ctx) {
  // ------------------------------------------------------------------------------------------------ decode the case
  // four header bytes (short tapes still reach the operation loop)
  unsigned b0 = t.u8(), b1 = t.u8(), b2 = t.u8(), b3 = t.u8();
  static const int kNv[] = {3, 4, 5, 4, 6, 2, -1, -2};  // number of vertices of the simplicial ambient; -1 cubical, -2 CW
  int nv = kNv[b0 % 8];
  static const int kMd[] = {2, 3, 1};
  int md = kMd[(b0 / 8) % 3];
  if (nv > 0) md = std::min(md, nv - 1);
  // how the simplex to insert / remove is chosen among the legal ones:
  // 0 uniform, 1 dimension first (uniform over the dimensions that have a candidate), 2 mostly the highest dimension,
  // 3 (insert) mostly what was removed last / (remove) mostly the oldest
  unsigned ins_policy = (b0 / 24) % 4;
  unsigned rem_policy = b1 % 4;
  static const unsigned kRem[] = {35, 50, 20, 65};
  unsigned rem_percent = kRem[(b1 / 4) % 4];
  unsigned id_percent = (b1 / 16) % 3 == 1 ? 10 : 0;
  bool decreasing = ((b1 / 48) & 1) != 0;
  unsigned key_scheme = b2 % 4;  // 0 arrow numbers, 1 random distinct, 2 extremes, 3 smallest free key (keys are reused)
  static const int kIgnore[] = {-1, 1, 2, 0, 3};
  int ignore_above = kIgnore[(b2 / 4) % 5];
  static const double kShortest[] = {0., 0.75, -1., 1.75, 4.25};  // never equal to a bar length (lengths are multiples of 0.5)
  double shortest = kShortest[(b2 / 20) % 5];
  bool include_inf = (b2 / 100) != 1;
  static const unsigned kPrealloc[] = {0, 28, 1};
  unsigned prealloc = kPrealloc[b3 % 3];
  double base = double(int((b3 / 3) % 5)) - 1.;  // first finite value, in {-1,0,1,2,3}
  // 6 % of the cases use the infinite ends of the value range: the monotone sequence starts at -inf (increasing) or
  // +inf (decreasing) and may jump to the other end (then stays there)
  bool allow_inf = b3 >= 240;
  if (allow_inf && shortest < 0) shortest = 0.;  // inf - inf has no length: do not ask for zero-length bars there
  double value = base;
  bool any_value = false, at_far_end = false, used_inf = false;
  static const unsigned kGrow[] = {0, 8, 12, 16};
  unsigned grow = kGrow[(b3 / 15) % 4];  // during the first `grow` arrows removals are four times rarer

  ref::zz::History h;
  std::vector<ref::Simplex> simplex;
  std::vector<std::string> cell_name;
  std::vector<std::vector<int>> faces;  // legality of an insertion / removal: all faces present / no present cell has it as a face
  if (nv > 0) {
    h.ambient = ref::zz::simplicial_ambient(nv, md, &simplex);
    for (auto& x : simplex) cell_name.push_back(ref::to_string(x));
  } else if (nv == -1) {
    // one cube / a 2x2 sheet of squares / the graph of a 2x2 sheet
    h.ambient = md == 3 ? cubical_ambient(1, 1, 1, 3, &cell_name) : cubical_ambient(2, 2, 0, md, &cell_name);
  } else {
    h.ambient = cw_ambient(md, &cell_name, &faces);
  }
  if (faces.empty())
    for (auto& c : h.ambient) faces.push_back(c.bdry);
  size_t N = h.ambient.size();
  ctx.desc << "column=" << kColumnNames[CFG] << " cells=" << (nv > 0 ? "simplices on " + std::to_string(nv) + " vertices" : nv == -1 ? "cubical" : "CW")
           << " maxdim=" << md << " values=" << (decreasing ? "decreasing" : "increasing") << (allow_inf ? "+infinite-ends" : "")
           << " keys=" << key_scheme << " ignoreCyclesAboveDim=" << ignore_above << " shortestInterval=" << shortest
           << " includeInfiniteBars=" << include_inf << " prealloc=" << prealloc << "\n";

  std::vector<char> present(N, 0);
  std::vector<int> zkey(N, -1), fkey(N, -1), inserted_at(N, -1), removed_at(N, -1);
  std::set<int> used_keys, live_keys;
  std::vector<Step> steps;
  bool reinsertion = false, key_reused = false;
  unsigned n_ins = 0;
  while (!t.exhausted() && steps.size() < 30) {
    unsigned op = (t.u8() * 37u) % 100;  // 37 spreads small bytes over 0..99
    unsigned sel = t.u8();
    std::vector<int> ins, rem;
    for (size_t c = 0; c < N; ++c) {
      if (!present[c]) {
        bool ok = true;
        for (int f : faces[c]) ok = ok && present[size_t(f)];
        if (ok) ins.push_back(int(c));
      } else {
        bool free = true;
        for (size_t o = 0; o < N && free; ++o)
          if (present[o])
            for (int f : faces[o])
              if (size_t(f) == c) free = false;
        if (free) rem.push_back(int(c));
      }
    }
    Step s;
    s.cell = -1;
    s.zkey = s.fkey = -1;
    s.value = 0;
    int arrow = int(steps.size());
    unsigned sel2 = 0, vs = 0;
    // choice among candidates (sorted by dimension, then lexicographically) according to a policy
    auto choose = [&](const std::vector<int>& cand, unsigned policy, bool inserting) {
      std::vector<int> dims;  // dimensions that have a candidate
      for (int c : cand)
        if (dims.empty() || dims.back() != h.ambient[size_t(c)].dim) dims.push_back(h.ambient[size_t(c)].dim);
      auto uniform_in_dim = [&](int dim) {
        std::vector<int> in;
        for (int c : cand)
          if (h.ambient[size_t(c)].dim == dim) in.push_back(c);
        return in[sel % in.size()];
      };
      switch (policy) {
        case 1: return uniform_in_dim(dims[sel2 % dims.size()]);
        case 2: return (sel2 % 4 != 0) ? uniform_in_dim(dims.back()) : cand[sel % cand.size()];
        case 3:
          if (sel2 % 2 == 0) {
            int best = -1;
            for (int x : cand) {
              if (inserting && removed_at[size_t(x)] >= 0 && (best < 0 || removed_at[size_t(x)] > removed_at[size_t(best)])) best = x;
              if (!inserting && (best < 0 || inserted_at[size_t(x)] < inserted_at[size_t(best)])) best = x;
            }
            if (best >= 0) return best;
          }
          return uniform_in_dim(dims[(sel2 / 2) % dims.size()]);
        default: return cand[sel % cand.size()];
      }
    };
    unsigned rp = arrow < int(grow) ? rem_percent / 4 : rem_percent;
    if (op < id_percent) {
      s.kind = ref::zz::IDENTITY;
    } else if (!rem.empty() && (ins.empty() || op < id_percent + rp)) {
      s.kind = ref::zz::REMOVE;
      sel2 = t.u8();
      s.cell = choose(rem, rem_policy, false);
    } else if (!ins.empty()) {
      s.kind = ref::zz::INSERT;
      sel2 = t.u8();
      s.cell = choose(ins, ins_policy, true);
    } else {
      s.kind = ref::zz::IDENTITY;  // nothing to insert, nothing to remove: cannot happen (an absent vertex is always insertable)
    }
    if (s.kind != ref::zz::IDENTITY) {
      vs = t.u8();
      static const double kStep[] = {0., 0., 1., 0.5, 0., 2.};
      double d = kStep[vs % 6];
      double cand;
      if (allow_inf && !any_value)
        cand = decreasing ? kInf : -kInf;
      else if (at_far_end)
        cand = value;
      else if (allow_inf && vs == 255)
        cand = decreasing ? -kInf : kInf;
      else if (std::isinf(value))
        cand = d == 0 ? value : base;  // leaving the infinite start
      else
        cand = value + (decreasing ? -d : d);
      // known finding: Filtered_zigzag_persistence_with_storage never records a FIRST filtration value equal to +infinity
      if (!any_value && cand == kInf && ctx.excluded("C07-storage-first-value-inf")) {
        ctx.hit("excluded:C07-storage-first-value-inf");
        cand = base;
      }
      if (allow_inf && any_value && vs == 255 && std::isinf(cand)) at_far_end = true;
      if (std::isinf(cand) && !used_inf) {
        used_inf = true;
        ctx.hit("infinite-value");
      }
      any_value = true;
      value = cand;
      s.value = value;
    }
    if (s.kind == ref::zz::INSERT) {
      size_t c = size_t(s.cell);
      if (removed_at[c] >= 0) reinsertion = true;
      for (int f : h.ambient[c].bdry) {
        s.zbdry.push_back(zkey[size_t(f)]);
        s.fbdry.push_back(fkey[size_t(f)]);
      }
      std::sort(s.zbdry.begin(), s.zbdry.end());
      if (!s.fbdry.empty()) {  // the filtered front-ends accept the boundary in any order
        unsigned r = vs / 6;
        std::rotate(s.fbdry.begin(), s.fbdry.begin() + (r % s.fbdry.size()), s.fbdry.end());
        if (r & 8) std::reverse(s.fbdry.begin(), s.fbdry.end());
        if ((r & 16) && s.fbdry.size() >= 3) std::swap(s.fbdry[0], s.fbdry[1]);
      }
      int k;
      switch (key_scheme) {
        case 0: k = arrow; break;
        case 1:
          k = int(t.u32());
          while (used_keys.count(k)) k = (k == INT_MAX) ? INT_MIN : k + 1;
          break;
        case 2: {
          unsigned j = n_ins / 4;
          switch (n_ins % 4) {
            case 0: k = INT_MAX - int(j); break;
            case 1: k = INT_MIN + int(j); break;
            case 2: k = -1 - int(j); break;
            default: k = 1000000 + 7 * int(j); break;
          }
          break;
        }
        default:
          k = 0;
          while (live_keys.count(k)) ++k;
          if (used_keys.count(k)) key_reused = true;
          break;
      }
      ++n_ins;
      used_keys.insert(k);
      live_keys.insert(k);
      s.zkey = arrow;
      s.fkey = k;
      zkey[c] = arrow;
      fkey[c] = k;
      present[c] = 1;
      inserted_at[c] = arrow;
    } else if (s.kind == ref::zz::REMOVE) {
      size_t c = size_t(s.cell);
      s.zkey = zkey[c];
      s.fkey = fkey[c];
      live_keys.erase(fkey[c]);
      present[c] = 0;
      removed_at[c] = arrow;
    }
    h.arrows.push_back(ref::zz::ZArrow{s.kind, s.cell});
    steps.push_back(s);
    ctx.desc << arrow << ": ";
    if (s.kind == ref::zz::IDENTITY) {
      ctx.desc << "identity\n";
    } else {
      ctx.desc << (s.kind == ref::zz::INSERT ? "insert " : "remove ") << cell_name[size_t(s.cell)] << " key=" << s.zkey;
      if (s.kind == ref::zz::INSERT) {
        ctx.desc << " bdry=[";
        for (size_t i = 0; i < s.zbdry.size(); ++i) ctx.desc << (i ? "," : "") << s.zbdry[i];
        ctx.desc << "]";
      }
      ctx.desc << " | filtered: key=" << s.fkey;
      if (s.kind == ref::zz::INSERT) {
        ctx.desc << " bdry=[";
        for (size_t i = 0; i < s.fbdry.size(); ++i) ctx.desc << (i ? "," : "") << s.fbdry[i];
        ctx.desc << "]";
      }
      ctx.desc << " value=" << s.value << "\n";
    }
  }
  int n = int(steps.size());

  // ------------------------------------------------------------------------------------------------ oracle
  std::vector<Interval> bars;
  try {
    bars = ref::zz::barcode_checked(h, true);
  } catch (const std::logic_error& e) {  // Inconsistency, invalid history, size limit, ref::reduce complaints: never GUDHI's fault
    throw vf::OracleError(e.what());
  }
  ctx.desc << "oracle: " << ref::zz::to_string(bars) << "\n";

  // classification / non-trivial rule
  bool has_rem = false, has_id = false;
  for (auto& s : steps) {
    has_rem = has_rem || s.kind == ref::zz::REMOVE;
    has_id = has_id || s.kind == ref::zz::IDENTITY;
  }
  int first_rm_event = -1;  // first removal arrow that creates or kills a class of dimension >= 1
  bool d1 = false, d2 = false, rm_birth = false, rm_death = false, rmborn_inskilled = false;
  for (auto& x : bars) {
    if (x.dim >= 1) d1 = true;
    if (x.dim >= 2) d2 = true;
    if (x.dim < 1) continue;
    if (steps[size_t(x.birth)].kind == ref::zz::REMOVE) {
      rm_birth = true;
      if (first_rm_event < 0 || x.birth < first_rm_event) first_rm_event = x.birth;
      if (x.death >= 0 && steps[size_t(x.death)].kind == ref::zz::INSERT) rmborn_inskilled = true;
    }
    if (x.death >= 0 && steps[size_t(x.death)].kind == ref::zz::REMOVE) {
      rm_death = true;
      if (first_rm_event < 0 || x.death < first_rm_event) first_rm_event = x.death;
    }
  }
  bool later_insert_event = false;  // an insertion after that removal creates or kills a class of dimension >= 1
  if (first_rm_event >= 0)
    for (auto& x : bars) {
      if (x.dim < 1) continue;
      if (x.birth > first_rm_event && steps[size_t(x.birth)].kind == ref::zz::INSERT) later_insert_event = true;
      if (x.death > first_rm_event && steps[size_t(x.death)].kind == ref::zz::INSERT) later_insert_event = true;
    }
  ctx.hit(nv > 0 ? "cells:simplicial" : nv == -1 ? "cells:cubical" : "cells:CW");
  if (n == 0) ctx.hit("empty-history");
  if (!has_rem) ctx.hit("insertion-only");
  if (has_id) ctx.hit("with-identity");
  if (reinsertion) ctx.hit("re-insertion");
  if (key_reused) ctx.hit("filtered-key-reused");
  if (d1) ctx.hit("bars-dim>=1");
  if (d2) ctx.hit("bars-dim>=2");
  if (rm_birth) ctx.hit("removal-creates-dim>=1");
  if (rm_death) ctx.hit("removal-kills-dim>=1");
  if (rmborn_inskilled) ctx.hit("removal-born-insertion-killed-dim>=1");
  if (n >= 20) ctx.hit("arrows>=20");
  ctx.hit(std::string("ignoreCyclesAboveDim=") + std::to_string(ignore_above));
  if (first_rm_event >= 0 && later_insert_event) {
    ctx.hit("nontrivial");
    ctx.mark_nontrivial();
  }

  // expected observations after arrow i (restriction of the decomposition to the prefix 0..i)
  auto finite_upto = [&](int i) {
    std::vector<Interval> r;
    for (auto& x : bars)
      if (x.death >= 0 && x.death <= i) r.push_back(x);
    return r;
  };
  auto open_at = [&](int i) {
    std::vector<Interval> r;
    for (auto& x : bars)
      if (x.birth <= i && (x.death < 0 || x.death > i)) r.push_back(Interval{x.dim, x.birth, -1});
    return r;
  };

  // ------------------------------------------------------------------------------------------------ (A) Zigzag_persistence
  {
    std::vector<Interval> streamed;
    ZP zp([&](int dim, int b, int d) { streamed.push_back(Interval{dim, b, d}); }, prealloc);
    {
      std::vector<Interval> open;
      zp.get_current_infinite_intervals([&](int dim, int b) { open.push_back(Interval{dim, b, -1}); });
      VF_CHECK(open.empty() && streamed.empty(), "zz-fresh", "a fresh Zigzag_persistence reports intervals");
    }
    for (int i = 0; i < n; ++i) {
      const Step& s = steps[size_t(i)];
      int ret;
      if (s.kind == ref::zz::INSERT)
        ret = zp.insert_cell(s.zbdry, h.ambient[size_t(s.cell)].dim);
      else if (s.kind == ref::zz::REMOVE)
        ret = zp.remove_cell(s.zkey);
      else
        ret = zp.apply_identity();
      VF_CHECK(ret == i, "zz-arrow-number", "arrow " << i << " returned operation number " << ret);
      VF_CHECK(same_multiset(streamed, finite_upto(i)), "zz-finite",
               "after arrow " << i << " streamed " << show(streamed) << " expected " << show(finite_upto(i)));
      std::vector<Interval> open;
      zp.get_current_infinite_intervals([&](int dim, int b) { open.push_back(Interval{dim, b, -1}); });
      VF_CHECK(same_multiset(open, open_at(i)), "zz-open",
               "after arrow " << i << " open intervals " << show(open) << " expected " << show(open_at(i)));
    }
  }

  // filtration value of an arrow
  auto val = [&](int arrow) { return steps[size_t(arrow)].value; };

  // ------------------------------------------------------------------------------------------------ (B) Filtered_zigzag_persistence
  {
    std::vector<VBar> streamed;
    FZP zp([&](int dim, double b, double d) { streamed.push_back(VBar{dim, b, d}); }, prealloc);
    for (int i = 0; i < n; ++i) {
      const Step& s = steps[size_t(i)];
      int ret;
      if (s.kind == ref::zz::INSERT)
        ret = zp.insert_cell(s.fkey, s.fbdry, h.ambient[size_t(s.cell)].dim, s.value);
      else if (s.kind == ref::zz::REMOVE)
        ret = zp.remove_cell(s.fkey, s.value);
      else
        ret = zp.apply_identity();
      VF_CHECK(ret == i, "fzz-arrow-number", "arrow " << i << " returned operation number " << ret);
      std::vector<VBar> expect;
      for (auto& x : finite_upto(i))
        if (val(x.birth) != val(x.death)) expect.push_back(VBar{x.dim, val(x.birth), val(x.death)});
      VF_CHECK(same_multiset(streamed, expect), "fzz-finite",
               "after arrow " << i << " streamed " << show(streamed) << " expected " << show(expect));
      std::vector<VBar> open, eopen;
      zp.get_current_infinite_intervals([&](int dim, double b) { open.push_back(VBar{dim, b, kInf}); });
      for (auto& x : open_at(i)) eopen.push_back(VBar{x.dim, val(x.birth), kInf});
      VF_CHECK(same_multiset(open, eopen), "fzz-open", "after arrow " << i << " open intervals " << show(open) << " expected " << show(eopen));
    }
  }

  // ------------------------------------------------------------------------------------------------ (C) ..._with_storage
  {
    SZP zp(prealloc, ignore_above);
    auto kept = [&](int dim) { return ignore_above == -1 || dim < ignore_above; };
    VF_CHECK(zp.get_index_persistence_diagram().empty() && zp.get_persistence_diagram().empty(), "szz-fresh",
             "a fresh Filtered_zigzag_persistence_with_storage reports intervals");
    for (int i = 0; i < n; ++i) {
      const Step& s = steps[size_t(i)];
      int ret;
      if (s.kind == ref::zz::INSERT)
        ret = zp.insert_cell(s.fkey, s.fbdry, h.ambient[size_t(s.cell)].dim, s.value);
      else if (s.kind == ref::zz::REMOVE)
        ret = zp.remove_cell(s.fkey, s.value);
      else
        ret = zp.apply_identity();
      VF_CHECK(ret == i, "szz-arrow-number", "arrow " << i << " returned operation number " << ret);
      std::vector<Interval> eidx, gidx;
      for (auto& x : finite_upto(i))
        if (kept(x.dim)) eidx.push_back(x);
      for (auto& iv : zp.get_index_persistence_diagram()) {
        gidx.push_back(Interval{iv.dim, iv.birth, iv.death});
        if (iv.birth >= 0 && iv.birth < n && iv.death >= 0 && iv.death < n && steps[size_t(iv.birth)].kind != ref::zz::IDENTITY &&
            steps[size_t(iv.death)].kind != ref::zz::IDENTITY) {
          double fb = zp.get_filtration_value_from_index(iv.birth), fd = zp.get_filtration_value_from_index(iv.death);
          VF_CHECK(fb == val(iv.birth) && fd == val(iv.death), "szz-value-of-index",
                   "after arrow " << i << " indices " << iv.birth << "," << iv.death << " translate to " << fb << "," << fd
                                  << " but the values given at these arrows were " << val(iv.birth) << "," << val(iv.death));
        }
      }
      VF_CHECK(same_multiset(gidx, eidx), "szz-index", "after arrow " << i << " index diagram " << show(gidx) << " expected " << show(eidx));
      auto expected_values = [&](double shortest_len, bool with_inf) {
        std::vector<VBar> e;
        for (auto& x : eidx) {
          double lo = std::min(val(x.birth), val(x.death)), hi = std::max(val(x.birth), val(x.death));
          if (hi - lo > shortest_len) e.push_back(VBar{x.dim, lo, hi});
        }
        if (with_inf)
          for (auto& x : open_at(i))
            if (kept(x.dim)) e.push_back(VBar{x.dim, val(x.birth), kInf});
        return e;
      };
      auto got_values = [&](double shortest_len, bool with_inf, bool defaults) {
        std::vector<VBar> g;
        auto diag = defaults ? zp.get_persistence_diagram() : zp.get_persistence_diagram(shortest_len, with_inf);
        for (auto& iv : diag) g.push_back(VBar{iv.dim, iv.birth, iv.death});
        return g;
      };
      {
        auto g = got_values(shortest, include_inf, false), e = expected_values(shortest, include_inf);
        VF_CHECK(same_multiset(g, e), "szz-diagram",
                 "after arrow " << i << " get_persistence_diagram(" << shortest << "," << include_inf << ") = " << show(g) << " expected " << show(e));
      }
      if (i == n - 1 || i == n / 2) {
        auto g = got_values(0., true, true), e = expected_values(0., true);
        VF_CHECK(same_multiset(g, e), "szz-diagram-default",
                 "after arrow " << i << " get_persistence_diagram() = " << show(g) << " expected " << show(e));
      }
    }
  }
}
}  // namespace vf
