// C13 - cubical complexes are valid filtered cell complexes with correct incidences.
//
// Carriers: Bitmap_cubical_complex_base<double> (filled by hand through the top-cell iterator +
// impose_lower_star_filtration), Bitmap_cubical_complex<base> and Bitmap_cubical_complex<periodic base> built from
// top-cell values or from vertex values. Oracle: ref::Grid (cells as doubled coordinate vectors, geometric incidence).
//
// Tape: byte 0 in 0xF1..0xF4 selects the enumerated sub-domain "every shape of that dimension" (see prop.json), otherwise
// a random case is decoded.
#include "vf.h"
#include "cubical.h"

#include <gudhi/Bitmap_cubical_complex.h>
#include <gudhi/Bitmap_cubical_complex_base.h>
#include <gudhi/Bitmap_cubical_complex_periodic_boundary_conditions_base.h>
#include <gudhi/Persistent_cohomology.h>
#include <gudhi/Persistent_cohomology/Field_Zp.h>

#include <cmath>
#include <set>
#include <sstream>
#include <tuple>

namespace {
typedef Gudhi::cubical_complex::Bitmap_cubical_complex_base<double> Base;
typedef Gudhi::cubical_complex::Bitmap_cubical_complex_periodic_boundary_conditions_base<double> PBase;
typedef Gudhi::cubical_complex::Bitmap_cubical_complex<Base> Cub;
typedef Gudhi::cubical_complex::Bitmap_cubical_complex<PBase> PCub;
const double kInf = std::numeric_limits<double>::infinity();
const size_t kMaxCellsForPersistence = 800;

std::string fmt(double v) {
  std::ostringstream o;
  if (v == kInf)
    o << "inf";
  else if (v == -kInf)
    o << "-inf";
  else
    o << v;
  return o.str();
}
std::string show(const ref::CCell& c) {
  std::ostringstream o;
  o << "(";
  for (size_t i = 0; i < c.size(); ++i) o << (i ? "," : "") << c[i];
  o << ")";
  return o.str();
}
uint64_t expand(uint64_t seed, uint64_t index) {
  uint64_t z = seed + 0x9E3779B97F4A7C15ULL * (index + 1);
  z = (z ^ (z >> 30)) * 0xBF58476D1CE4E5B9ULL;
  z = (z ^ (z >> 27)) * 0x94D049BB133111EBULL;
  return z ^ (z >> 31);
}

struct Case {
  ref::Grid g;
  bool from_vertices = false;
  unsigned carrier = 0;  // 0 Bitmap_cubical_complex<base>, 1 Bitmap_cubical_complex<periodic>, 2 base filled by hand
  std::vector<double> input;
  std::vector<int> primes;
  bool dim_max_flag = true;
  double min_len = -1;
};

// ------------------------------------------------------------------------------------------ structure + values
// Works on anything derived from Bitmap_cubical_complex_base<double>.
template <class B>
void check_structure(B& cpx, const Case& cs, const std::vector<double>& refval, vf::Ctx& ctx) {
  const ref::Grid& g = cs.g;
  const size_t N = g.num_cells();
  VF_CHECK(cpx.size() == N, "size", "size() = " << cpx.size() << ", the grid has " << N << " cells");
  VF_CHECK(int(cpx.dimension()) == g.dim(), "dimension", "dimension() = " << cpx.dimension());
  std::vector<std::vector<std::size_t>> bd(N), cbd(N);
  for (size_t i = 0; i < N; ++i) {
    ref::CCell c = g.coords(i);
    int dc = ref::Grid::cell_dim(c);
    VF_CHECK(int(cpx.get_dimension_of_a_cell(i)) == dc, "cell-dimension", "cell " << i << " " << show(c) << ": get_dimension_of_a_cell = " << cpx.get_dimension_of_a_cell(i));
    bd[i] = cpx.get_boundary_of_a_cell(i);
    cbd[i] = cpx.get_coboundary_of_a_cell(i);
    for (auto f : bd[i]) VF_CHECK(f < N, "boundary-incidence", "cell " << i << ": boundary element " << f << " out of range");
    for (auto f : cbd[i]) VF_CHECK(f < N, "coboundary", "cell " << i << ": coboundary element " << f << " out of range");
    // the enumeration with alternating signs against the geometric incidence numbers, up to one sign for the whole cell
    std::map<size_t, int> got, want = g.boundary(c);
    for (size_t k = 0; k < bd[i].size(); ++k) got[bd[i][k]] += (k % 2 == 0) ? 1 : -1;
    VF_CHECK(int(bd[i].size()) == 2 * dc, "boundary-incidence", "cell " << i << " " << show(c) << " of dimension " << dc << " has " << bd[i].size() << " boundary elements");
    bool same = true, opposite = true;
    {
      std::set<size_t> keys;
      for (auto& kv : got) keys.insert(kv.first);
      for (auto& kv : want) keys.insert(kv.first);
      for (size_t f : keys) {
        int a = got.count(f) ? got[f] : 0, b = want.count(f) ? want[f] : 0;
        if (a != b) same = false;
        if (a != -b) opposite = false;
      }
    }
    VF_CHECK(same || opposite, "boundary-incidence", "cell " << i << " " << show(c) << ": get_boundary_of_a_cell with alternating signs is not +-(geometric boundary)");
    // compute_incidence_between_cells: the documented formula, exactly
    for (auto& kv : want) {
      if (kv.second == 0) continue;  // both ends identified (periodic direction with one interval): no incidence number
      int inc = cpx.compute_incidence_between_cells(i, kv.first);
      VF_CHECK(inc == kv.second, "compute_incidence", "compute_incidence_between_cells(" << i << " " << show(c) << ", " << kv.first << " " << show(g.coords(kv.first)) << ") = " << inc << ", geometric incidence " << kv.second);
    }
    // coboundary = the cells having this one in their boundary
    std::vector<size_t> gc(cbd[i].begin(), cbd[i].end());
    std::sort(gc.begin(), gc.end());
    VF_CHECK(gc == g.coboundary(c), "coboundary", "cell " << i << " " << show(c) << ": get_coboundary_of_a_cell has " << gc.size() << " elements, geometric coboundary " << g.coboundary(c).size() << " (or they differ)");
    // value
    double v = cpx.get_cell_data(i);
    VF_CHECK(v == refval[i], "cell-value", "cell " << i << " " << show(c) << ": value " << fmt(v) << ", " << (cs.from_vertices ? "max over its vertices " : "min over the top cells containing it ") << fmt(refval[i]));
  }
  for (size_t i = 0; i < N; ++i) {
    // converse relations, on the library's own answers
    for (auto f : bd[i])
      VF_CHECK(std::count(cbd[f].begin(), cbd[f].end(), i) == std::count(bd[i].begin(), bd[i].end(), f), "boundary-coboundary-converse",
               "cell " << f << " is in the boundary of " << i << " but " << i << " is not (as often) in the coboundary of " << f);
    for (auto u : cbd[i])
      VF_CHECK(std::count(bd[u].begin(), bd[u].end(), i) >= 1, "boundary-coboundary-converse", "cell " << u << " is in the coboundary of " << i << " but " << i << " is not in the boundary of " << u);
    // boundary of boundary with the signs of the enumeration
    std::map<size_t, long> dd;
    for (size_t k = 0; k < bd[i].size(); ++k) {
      auto f = bd[i][k];
      for (size_t l = 0; l < bd[f].size(); ++l) dd[bd[f][l]] += ((k % 2 == 0) ? 1 : -1) * ((l % 2 == 0) ? 1 : -1);
    }
    for (auto& kv : dd) VF_CHECK(kv.second == 0, "boundary-of-boundary", "cell " << i << ": d*d has coefficient " << kv.second << " on cell " << kv.first);
  }
}

// ------------------------------------------------------------------------------------------ order + persistence
struct Bar {
  int dim;
  double b, d;
  bool ess;
  bool operator<(const Bar& o) const { return std::tie(dim, b, d, ess) < std::tie(o.dim, o.b, o.d, o.ess); }
  bool operator==(const Bar& o) const { return dim == o.dim && b == o.b && d == o.d && ess == o.ess; }
};
std::string show(const std::vector<Bar>& v) {
  std::ostringstream o;
  for (auto& x : v) o << " (" << x.dim << ":" << fmt(x.b) << "," << (x.ess ? std::string("ess") : fmt(x.d)) << ")";
  return o.str();
}

template <class C>
void check_filtered(C& cpx, const Case& cs, const std::vector<double>& refval, vf::Ctx& ctx) {
  const ref::Grid& g = cs.g;
  const size_t N = g.num_cells();
  VF_CHECK(cpx.num_simplices() == N, "size", "num_simplices() = " << cpx.num_simplices());
  // filtration order: a permutation of all cells, values non-decreasing, faces first
  std::vector<size_t> order;
  for (auto sh : cpx.filtration_simplex_range()) order.push_back(sh);
  VF_CHECK(order.size() == N, "filtration-order", "filtration_simplex_range() has " << order.size() << " cells of " << N);
  std::vector<long> pos(N, -1);
  for (size_t k = 0; k < N; ++k) {
    VF_CHECK(order[k] < N && pos[order[k]] < 0, "filtration-order", "position " << k << ": cell " << order[k] << " out of range or repeated");
    pos[order[k]] = long(k);
    VF_CHECK(cpx.simplex(k) == order[k], "filtration-order", "simplex(" << k << ") = " << cpx.simplex(k) << " but the range has " << order[k]);
    VF_CHECK(cpx.filtration(order[k]) == refval[order[k]], "cell-value", "filtration(" << order[k] << ") = " << fmt(cpx.filtration(order[k])));
    VF_CHECK(int(cpx.dimension(order[k])) == ref::Grid::cell_dim(g.coords(order[k])), "cell-dimension", "dimension(" << order[k] << ")");
    if (k > 0) VF_CHECK(refval[order[k - 1]] <= refval[order[k]], "filtration-order", "values decrease at position " << k);
  }
  for (size_t i = 0; i < N; ++i)
    for (auto& kv : g.boundary(g.coords(i)))
      VF_CHECK(pos[kv.first] < pos[i], "filtration-order", "cell " << i << " comes before its face " << kv.first);
  if (N > kMaxCellsForPersistence) {
    ctx.hit("persistence-skipped-large");
    return;
  }
  // persistence against the reduction of the reference cell complex (own order, own signs)
  std::vector<size_t> rorder;
  std::vector<ref::Cell> cells = g.filtered_cells(refval, &rorder);
  int k_per = 0;
  for (int j = 0; j < g.dim(); ++j) k_per += g.per[size_t(j)] ? 1 : 0;
  for (int p : cs.primes) {
    ref::Reduction r = ref::reduce(cells, p);
    VF_ORACLE(ref::self_check(cells, r), "ref::reduce self-check failed");
    std::map<int, int> rb = ref::betti_at(r, int(N));
    for (int i = 0; i <= g.dim(); ++i) VF_ORACLE(rb[i] == ref::binomial(k_per, i), "reference Betti number b_" << i << " = " << rb[i] << " of T^" << k_per << " x I^" << g.dim() - k_per);
    int dmax = g.dim() + (cs.dim_max_flag ? 1 : 0);
    std::vector<Bar> want, got;
    for (auto& pr : r.pairs) {
      if (pr.dim >= dmax) continue;
      double b = refval[rorder[size_t(pr.birth)]];
      if (pr.death < 0) {
        want.push_back(Bar{pr.dim, b, kInf, true});
      } else {
        double d = refval[rorder[size_t(pr.death)]];
        if (d - b > cs.min_len) want.push_back(Bar{pr.dim, b, d, false});
      }
    }
    Gudhi::persistent_cohomology::Persistent_cohomology<C, Gudhi::persistent_cohomology::Field_Zp> pcoh(cpx, cs.dim_max_flag);
    pcoh.init_coefficients(p);
    pcoh.compute_persistent_cohomology(cs.min_len);
    for (auto& pr : pcoh.get_persistent_pairs()) {
      auto bsh = std::get<0>(pr), dsh = std::get<1>(pr);
      bool ess = dsh == cpx.null_simplex();
      got.push_back(Bar{int(cpx.dimension(bsh)), cpx.filtration(bsh), ess ? kInf : cpx.filtration(dsh), ess});
    }
    std::sort(want.begin(), want.end());
    std::sort(got.begin(), got.end());
    VF_CHECK(got == want, "persistence", "Z_" << p << " persistence_dim_max=" << cs.dim_max_flag << " min_interval_length=" << fmt(cs.min_len) << "\n  reported:" << show(got) << "\n  expected:" << show(want));
    std::vector<int> betti = pcoh.betti_numbers();
    VF_CHECK(int(betti.size()) == dmax, "betti", "betti_numbers() has " << betti.size() << " entries");
    for (int i = 0; i < dmax; ++i)
      VF_CHECK(betti[size_t(i)] == ref::binomial(k_per, i), "betti", "Z_" << p << ": b_" << i << " = " << betti[size_t(i)] << " for T^" << k_per << " x I^" << g.dim() - k_per);
    ctx.hit("persistence:Z_" + std::to_string(p));
  }
}

void describe(const Case& cs, vf::Ctx& ctx) {
  static const char* names[] = {"Bitmap_cubical_complex<base>", "Bitmap_cubical_complex<periodic>", "base filled by hand"};
  ctx.desc << names[cs.carrier] << " top cells";
  for (int j = 0; j < cs.g.dim(); ++j) ctx.desc << " " << cs.g.n[size_t(j)] << (cs.g.per[size_t(j)] ? "p" : "");
  ctx.desc << " input=" << (cs.from_vertices ? "vertices" : "top cells") << " values:";
  for (double v : cs.input) ctx.desc << " " << fmt(v);
  ctx.desc << "\npersistence over";
  for (int p : cs.primes) ctx.desc << " Z_" << p;
  ctx.desc << " persistence_dim_max=" << cs.dim_max_flag << " min_interval_length=" << fmt(cs.min_len) << "\n";
}

void run(const Case& cs, vf::Ctx& ctx) {
  const ref::Grid& g = cs.g;
  std::vector<double> refval = cs.from_vertices ? g.values_from_vertices(cs.input) : g.values_from_tops(cs.input);
  std::vector<unsigned> dims;
  for (int j = 0; j < g.dim(); ++j) dims.push_back(unsigned(cs.from_vertices ? g.verts(j) : g.tops(j)));
  if (cs.carrier == 2) {
    // documented third route: sizes only, values through the top-dimensional-cells iterator, then the lower star
    Base b(dims);
    size_t k = 0;
    for (auto it = b.top_dimensional_cells_iterator_begin(); it != b.top_dimensional_cells_iterator_end(); ++it) {
      VF_CHECK(k < cs.input.size(), "top-cell-iterator", "more than " << cs.input.size() << " top cells enumerated");
      b.get_cell_data(*it) = cs.input[k++];
    }
    VF_CHECK(k == cs.input.size(), "top-cell-iterator", k << " top cells enumerated, expected " << cs.input.size());
    b.impose_lower_star_filtration();
    check_structure(b, cs, refval, ctx);
  } else if (cs.carrier == 0) {
    Cub c(dims, cs.input, !cs.from_vertices);
    check_structure(c, cs, refval, ctx);
    check_filtered(c, cs, refval, ctx);
  } else {
    PCub c(dims, cs.input, g.per, !cs.from_vertices);
    check_structure(c, cs, refval, ctx);
    check_filtered(c, cs, refval, ctx);
  }
  // classification
  bool any_per = false, side1 = false, tie = false;
  for (int j = 0; j < g.dim(); ++j) {
    any_per = any_per || g.per[size_t(j)];
    side1 = side1 || g.n[size_t(j)] == 1;
  }
  {
    std::set<double> s(cs.input.begin(), cs.input.end());
    tie = s.size() < cs.input.size();
  }
  ctx.hit("dim" + std::to_string(g.dim()));
  ctx.hit(cs.carrier == 0 ? "carrier:plain" : cs.carrier == 1 ? (any_per ? "carrier:periodic" : "carrier:periodic-class-empty-mask") : "carrier:base-by-hand");
  ctx.hit(cs.from_vertices ? "input:vertices" : "input:top-cells");
  if (side1) ctx.hit("side-of-length-1");
  if (tie) ctx.hit("tied-values");
  for (double v : cs.input)
    if (v == kInf || v == -kInf) {
      ctx.hit("infinite-value");
      break;
    }
  if (g.dim() >= 2 && (side1 || any_per) && tie) ctx.mark_nontrivial();
}
}  // namespace

namespace vf {
const char* harness_name() { return "C13/cubical"; }

void run_case(Tape& t, Ctx& ctx) {
  Case cs;
  uint8_t first = t.u8();
  if (first >= 0xF1 && first <= 0xF4) {
    // ---- enumerated sub-domain: every shape of dimension d = first - 0xF0. Digits (base 8): one per direction
    // (side = 1 + x % 4, periodic = x / 4, honoured for sides >= 3), then one for the input convention / carrier.
    int d = first - 0xF0;
    for (int j = 0; j < d; ++j) {
      unsigned x = t.u8() % 8;
      int side = 1 + int(x % 4);
      cs.g.n.push_back(side);
      cs.g.per.push_back(x / 4 == 1 && side >= 3);
    }
    unsigned y = t.u8() % 8;
    cs.from_vertices = (y % 2) == 1;
    bool any_per = false;
    for (bool b : cs.g.per) any_per = any_per || b;
    unsigned variant = (y / 2) % 4;  // 0,1 wrapper over the matching base; 2 periodic class even without periodic side; 3 by hand
    cs.carrier = any_per ? 1 : (variant == 2 ? 1 : (variant == 3 && !cs.from_vertices ? 2 : 0));
    size_t count = cs.from_vertices ? cs.g.num_verts() : cs.g.num_tops();
    for (size_t i = 0; i < count; ++i) cs.input.push_back(double((i * 7 + 3) % 5));
    cs.primes = {2, 3};
    ctx.hit("enumerated");
  } else {
    // ---- random case
    int d = 1 + int(first % 16 < 3 ? 0 : first % 16 < 8 ? 1 : first % 16 < 13 ? 2 : 3);
    unsigned c = t.below(8);
    cs.carrier = c < 3 ? 0 : c < 7 ? 1 : 2;
    cs.from_vertices = cs.carrier != 2 && t.flip();
    size_t cells = 1;
    for (int j = 0; j < d; ++j) {
      int side = 1 + int(t.below(4));
      bool per = cs.carrier == 1 && t.flip();
      if (per && side < 3) side = 3 + int(t.below(2));  // periodic sides have length >= 3 (property domain)
      while (side > 1 && cells * size_t(per ? 2 * side : 2 * side + 1) > kMaxCellsForPersistence) --side;
      if (per && side < 3) per = false;
      cs.g.n.push_back(side);
      cs.g.per.push_back(per);
      cells *= size_t(per ? 2 * side : 2 * side + 1);
    }
    // palette with ties, now and then infinities
    std::vector<double> pal;
    {
      std::set<double> s;
      unsigned np = 1 + t.below(6);
      s.insert(0.0);
      for (unsigned k = 1; k < np; ++k) {
        double x = (int(t.u8() % 33) - 16) * 0.25;
        if (!s.insert(x).second) s.insert(4.0 + k);
      }
      unsigned r = t.below(16);
      if (r == 1 || r == 3) s.insert(kInf);
      if (r == 2 || r == 3) s.insert(-kInf);
      pal.assign(s.begin(), s.end());
    }
    static const int kPrimes[] = {2, 3, 5, 7, 11};
    unsigned pm = t.below(8);
    cs.primes = {2, 3};
    if (pm == 1) cs.primes = {3};
    if (pm == 2) cs.primes = {2, kPrimes[t.below(5)]};
    if (pm == 3) cs.primes = {3, kPrimes[t.below(5)]};
    unsigned fm = t.below(4);
    cs.dim_max_flag = fm != 1;
    cs.min_len = fm == 2 ? 0.0 : fm == 3 ? pal[t.below(uint32_t(pal.size()))] - pal[0] : -1.0;
    if (!(cs.min_len == cs.min_len)) cs.min_len = 0.5;
    size_t count = cs.from_vertices ? cs.g.num_verts() : cs.g.num_tops();
    bool seeded = t.below(3) == 1;
    uint64_t seed = seeded ? t.u32() : 0;
    for (size_t i = 0; i < count; ++i) cs.input.push_back(seeded ? pal[expand(seed, i) % pal.size()] : pal[t.below(uint32_t(pal.size()))]);
  }
  describe(cs, ctx);
  run(cs, ctx);
}
}  // namespace vf
