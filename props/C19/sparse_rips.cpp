// C19: Sparse_rips_complex against the exact Rips filtration on the same finite metric space.
//
// Oracles (all independent of GUDHI): ref::clique_complex (Rips complex, value = diameter), ref::Complex closure /
// monotonicity checks, ref::reduce (Z2 persistence of both filtrations), ref::bottleneck (this property's own
// reference, ref/bottleneck.h).
//
// Documented guarantee (Rips_complex/doc/Intro_rips_complex.h, Sparse_rips_complex.h): for epsilon < 1 the sparse
// filtration is (1, 1/(1-epsilon))-interleaved (multiplicatively) with the Rips filtration whose values are the
// diameters ("we multiply all filtration values by 2, to match the usual Rips complex"): Sparse_a is a subcomplex of
// Rips_a and Rips_a maps to Sparse_{a/(1-epsilon)}. A (0, log c) additive interleaving in logarithmic scale is in
// particular a log c-interleaving, hence d_B(log Dgm_k(sparse), log Dgm_k(Rips)) <= log(1/(1-epsilon)) for every k.
// Vertices enter at 0 in both filtrations: log 0 = -inf, so the H0 bars (-inf, log death] can only be matched among
// themselves, i.e. by their deaths - ref::bottleneck handles infinite coordinates that way.
// Only dimensions k < dim_max are compared (H_k needs the (k+1)-skeleton, both complexes are dim_max-skeleta).
//
// The farthest-point ordering inside Sparse_rips_complex starts from a point chosen with std::random_device. The
// guarantee is for every starting point; to keep cases replayable the harness pins the value returned by
// std::random_device (link-time --wrap of std::random_device::_M_getval, value taken from the tape).
//
// Tolerances: value >= diameter - 1e-9 (1 + diameter); log-bottleneck <= log(1/(1-epsilon)) + 1e-9.
#include "vf.h"
#include "complex.h"
#include "reduce.h"
#include "bottleneck.h"

#include <gudhi/Sparse_rips_complex.h>
#include <gudhi/Simplex_tree.h>

#include <cmath>
#include <random>

// ---- deterministic std::random_device (see prop.json "libs": -Wl,--wrap=_ZNSt13random_device9_M_getvalEv)
static unsigned int g_rd_value = 0;
static unsigned long g_rd_calls = 0;
extern "C" unsigned int __wrap__ZNSt13random_device9_M_getvalEv(void*) {
  ++g_rd_calls;
  return g_rd_value;
}

namespace {
using Filtration = double;
using Stree = Gudhi::Simplex_tree<>;
using Sparse = Gudhi::rips_complex::Sparse_rips_complex<Filtration>;
typedef std::vector<double> Point;

struct Euclid {
  double operator()(const Point& a, const Point& b) const {
    double s = 0;
    for (size_t i = 0; i < a.size(); ++i) s += (a[i] - b[i]) * (a[i] - b[i]);
    return std::sqrt(s);
  }
};
struct Manhattan {
  double operator()(const Point& a, const Point& b) const {
    double s = 0;
    for (size_t i = 0; i < a.size(); ++i) s += std::fabs(a[i] - b[i]);
    return s;
  }
};

const double kEps[] = {0.01, 0.1, 0.3, 0.5, 0.9, 0.99};

std::string fmt(double x) {
  std::ostringstream o;
  o.precision(17);
  o << x;
  return o.str();
}

std::vector<ref::DPoint> log_diagram(const std::vector<ref::Bar>& bars, int dim) {
  std::vector<ref::DPoint> r;
  for (auto& b : bars)
    if (b.dim == dim) {
      double lb = b.b > 0 ? std::log(b.b) : -std::numeric_limits<double>::infinity();
      double ld = std::isinf(b.d) ? b.d : std::log(b.d);
      r.push_back({lb, ld});
    }
  return r;
}
}  // namespace

namespace vf {
const char* harness_name() { return "C19/sparse_rips"; }

void run_case(Tape& t, Ctx& ctx) {
  // ---------------------------------------------------------------- decode
  const unsigned n = 3 + t.below(10);                      // 3..12 points
  // Euclidean lattice, graph shortest path, L1 lattice, multi-scale line, clustered ring in the plane
  const unsigned metric = unsigned(t.weighted({3, 3, 1, 1, 3}));
  const unsigned mode = unsigned(t.weighted({7, 1, 2}));   // guarantee (eps<1, no bounds) / eps >= 1 / finite mini-maxi
  double eps = kEps[t.below(6)];
  if (mode == 1) eps = t.flip() ? 2.0 : 1.0;
  int dim_max = 1 + int(t.weighted({1, 4, 2}));
  if (n > 9 && dim_max > 2) dim_max = 2;                   // keeps the reference reduction below ~300 simplices
  const bool matrix_api = t.flip();
  g_rd_value = t.u8();

  std::vector<std::vector<double>> D(n, std::vector<double>(n, 0.0));
  std::vector<Point> pts;
  std::ostringstream in;
  if (metric == 4) {
    // points near the 8 compass positions of a circle of radius R (lattice points), later points are cluster mates of
    // earlier ones at distance 1-3: long-lived H1 classes plus several scales
    static const int radii[] = {3, 6, 12, 40};
    const int R = radii[t.below(4)], r = int(std::lround(R / std::sqrt(2.0)));
    const int pos[8][2] = {{R, 0}, {0, R}, {-R, 0}, {0, -R}, {r, r}, {-r, r}, {-r, -r}, {r, -r}};
    unsigned m = std::min(n, 3 + t.below(6));
    std::vector<unsigned> where(8);
    for (unsigned i = 0; i < 8; ++i) where[i] = i;
    for (unsigned i = 8; i > 1; --i) std::swap(where[i - 1], where[t.below(i)]);
    for (unsigned i = 0; i < n; ++i) {
      Point p(2);
      const int* c = pos[where[i < m ? i : t.below(m)]];
      p[0] = c[0] + (i < m ? 0 : int(t.below(3)));
      p[1] = c[1] + (i < m ? 0 : int(t.below(3)));
      for (;;) {
        bool dup = false;
        for (auto& q : pts) dup = dup || q == p;
        if (!dup) break;
        p[0] += 1;
      }
      pts.push_back(p);
    }
    in << "Euclidean ring R=" << R << " points";
    for (auto& p : pts) in << " (" << p[0] << "," << p[1] << ")";
    for (unsigned i = 0; i < n; ++i)
      for (unsigned j = 0; j < n; ++j) D[i][j] = Euclid()(pts[i], pts[j]);
  } else if (metric == 0 || metric == 2 || metric == 3) {
    unsigned dimR = metric == 3 ? 1 : 1 + t.below(3);
    bool multiscale = metric == 3 || t.flip();
    static const int centres[] = {0, 8, 24, 64};
    for (unsigned i = 0; i < n; ++i) {
      Point p(dimR);
      for (auto& c : p) c = multiscale ? centres[t.below(4)] + int(t.below(3)) : int(t.below(8));
      // distinct points by construction: walk along the first coordinate until the position is free
      for (;;) {
        bool dup = false;
        for (auto& q : pts) dup = dup || q == p;
        if (!dup) break;
        p[0] += 1;
      }
      pts.push_back(p);
    }
    in << (metric == 2 ? "L1" : "Euclidean") << " points";
    for (auto& p : pts) {
      in << " (";
      for (size_t c = 0; c < p.size(); ++c) in << (c ? "," : "") << p[c];
      in << ")";
    }
    for (unsigned i = 0; i < n; ++i)
      for (unsigned j = 0; j < n; ++j) D[i][j] = metric == 2 ? Manhattan()(pts[i], pts[j]) : Euclid()(pts[i], pts[j]);
  } else {
    // shortest-path metric of a connected weighted graph with positive integer weights (exact, a true metric)
    const long INF = 1L << 40;
    std::vector<std::vector<long>> W(n, std::vector<long>(n, INF));
    static const long wts[] = {1, 2, 3, 5, 8, 13, 30, 100};
    unsigned wrange = t.flip() ? 8 : 4;
    in << "graph";
    for (unsigned i = 0; i < n; ++i) W[i][i] = 0;
    const bool cycle = t.flip();  // spanning structure: a cycle through all vertices (H1 classes) or a random tree
    if (cycle) in << " cycle";
    for (unsigned i = 1; i <= n; ++i) {
      if (i == n && !cycle) break;
      unsigned j = cycle ? i - 1 : t.below(i);
      unsigned ii = i % n;
      long w = wts[t.below(wrange)];
      if (cycle) {
        W[ii][j] = W[j][ii] = std::min(W[ii][j], w);
        in << " " << j << "-" << ii << ":" << w;
        continue;
      }
      W[i][j] = W[j][i] = std::min(W[i][j], w);
      in << " " << j << "-" << i << ":" << w;
    }
    unsigned extra = cycle ? t.below(3) : t.below(2 * n);
    for (unsigned e = 0; e < extra; ++e) {
      unsigned i = t.below(n), j = t.below(n);
      if (i == j) continue;
      long w = wts[t.below(wrange)];
      W[i][j] = W[j][i] = std::min(W[i][j], w);
      in << " " << std::min(i, j) << "-" << std::max(i, j) << ":" << w;
    }
    for (unsigned k = 0; k < n; ++k)
      for (unsigned i = 0; i < n; ++i)
        for (unsigned j = 0; j < n; ++j) W[i][j] = std::min(W[i][j], W[i][k] + W[k][j]);
    for (unsigned i = 0; i < n; ++i)
      for (unsigned j = 0; j < n; ++j) {
        VF_ORACLE(W[i][j] < INF && (i == j || W[i][j] > 0), "graph metric is not finite/positive");
        D[i][j] = double(W[i][j]);
      }
  }
  // the input must be a metric on distinct points (checked, never discarded: true by construction)
  for (unsigned i = 0; i < n; ++i)
    for (unsigned j = 0; j < n; ++j) {
      VF_ORACLE(D[i][j] == D[j][i] && (i == j ? D[i][j] == 0 : D[i][j] > 0), "input is not a metric on distinct points");
      for (unsigned k = 0; k < n; ++k)
        VF_ORACLE(D[i][j] <= (D[i][k] + D[k][j]) * (1 + 1e-14), "triangle inequality fails in the generated metric");
    }
  double dmin = std::numeric_limits<double>::infinity(), dmax = 0;
  for (unsigned i = 0; i < n; ++i)
    for (unsigned j = 0; j < i; ++j) {
      dmin = std::min(dmin, D[i][j]);
      dmax = std::max(dmax, D[i][j]);
    }
  double mini = -std::numeric_limits<double>::infinity(), maxi = std::numeric_limits<double>::infinity();
  if (mode == 2) {
    unsigned which = 1 + t.below(3);  // 1 mini, 2 maxi, 3 both
    auto some_distance = [&]() {
      unsigned i = t.below(n), j = t.below(n);
      double x = i == j ? dmin : D[i][j];
      unsigned f = t.below(3);
      return f == 0 ? x : (f == 1 ? x * 0.5 : x * 1.5);
    };
    if (which & 1) mini = some_distance();
    if (which & 2) maxi = some_distance();
  }
  unsigned start = 0;
  {  // the starting point the library will derive from the pinned random_device value (same libstdc++ algorithms)
    std::mt19937 gen(g_rd_value);
    std::uniform_int_distribution<std::size_t> dis(0, n - 1);
    start = unsigned(dis(gen));
  }
  ctx.desc << "n=" << n << " " << in.str() << "\n eps=" << eps << " dim_max=" << dim_max << " api=" << (matrix_api ? "matrix" : "points+distance")
           << " mini=" << mini << " maxi=" << maxi << " random_device=" << g_rd_value << " (start " << start << ")\n";
  ctx.hit(mode == 0 ? "mode_guarantee" : (mode == 1 ? "mode_eps_ge_1" : "mode_bounds"));
  ctx.hit(metric == 0 ? "metric_euclid" : (metric == 1 ? "metric_graph" : (metric == 2 ? "metric_l1" : (metric == 3 ? "metric_line" : "metric_ring"))));
  ctx.hit(n <= 5 ? "n_3_5" : (n <= 9 ? "n_6_9" : "n_10_12"));

  // ---------------------------------------------------------------- GUDHI
  Stree st;
  g_rd_calls = 0;
  if (matrix_api) {
    std::vector<std::vector<double>> lower(n);
    for (unsigned i = 0; i < n; ++i) lower[i].assign(D[i].begin(), D[i].begin() + i);
    if (mode == 2) {
      Sparse sr(lower, eps, mini, maxi);
      sr.create_complex(st, dim_max);
    } else {
      Sparse sr(lower, eps);
      sr.create_complex(st, dim_max);
    }
  } else {
    std::vector<int> idx(n);
    for (unsigned i = 0; i < n; ++i) idx[i] = int(i);
    auto by_index = [&](int a, int b) { return D[size_t(a)][size_t(b)]; };
    if (!pts.empty() && metric != 2) {
      if (mode == 2) {
        Sparse sr(pts, Euclid(), eps, mini, maxi);
        sr.create_complex(st, dim_max);
      } else {
        Sparse sr(pts, Euclid(), eps);
        sr.create_complex(st, dim_max);
      }
    } else if (!pts.empty()) {
      if (mode == 2) {
        Sparse sr(pts, Manhattan(), eps, mini, maxi);
        sr.create_complex(st, dim_max);
      } else {
        Sparse sr(pts, Manhattan(), eps);
        sr.create_complex(st, dim_max);
      }
    } else {
      if (mode == 2) {
        Sparse sr(idx, by_index, eps, mini, maxi);
        sr.create_complex(st, dim_max);
      } else {
        Sparse sr(idx, by_index, eps);
        sr.create_complex(st, dim_max);
      }
    }
  }
  VF_ORACLE(g_rd_calls >= 1, "std::random_device was not intercepted: the case would not be replayable");

  // ---------------------------------------------------------------- observe
  ref::Complex sp;
  size_t listed = 0;
  for (auto sh : st.complex_simplex_range()) {
    ++listed;
    std::vector<ref::Vertex> vs;
    for (auto v : st.simplex_vertex_range(sh)) vs.push_back(v);
    ref::Simplex s = ref::make_simplex(vs);
    VF_CHECK(s.size() == vs.size(), "repeated_vertex", ref::to_string(s));
    for (auto v : s) VF_CHECK(v >= 0 && v < (long long)n, "vertex_label", "simplex " << ref::to_string(s) << " has a vertex that is not a point index");
    VF_CHECK(int(s.size()) - 1 <= dim_max, "dim_exceeded", ref::to_string(s) << " with dim_max " << dim_max);
    double f = st.filtration(sh);
    VF_CHECK(!std::isnan(f), "nan_value", ref::to_string(s));
    VF_CHECK(sp.s.emplace(s, f).second, "duplicate_simplex", ref::to_string(s));
  }
  VF_CHECK(listed == st.num_simplices(), "num_simplices", listed << " listed, num_simplices() " << st.num_simplices());
  // valid filtered complex (every mode)
  for (auto& kv : sp.s)
    for (auto& f : ref::facets(kv.first)) {
      VF_CHECK(sp.contains(f), "not_closed", ref::to_string(kv.first) << " present, face " << ref::to_string(f) << " missing");
      VF_CHECK(sp.value(f) <= kv.second, "not_monotone",
               ref::to_string(f) << " at " << fmt(sp.value(f)) << " after its coface " << ref::to_string(kv.first) << " at " << fmt(kv.second));
    }
  ctx.hit("sparse_simplices", sp.size());
  if (mode != 0) {  // validity only (eps >= 1 or finite mini/maxi); non-trivial when the complex has a triangle
    if (sp.dimension() >= 2) ctx.mark_nontrivial();
    return;
  }

  // ---------------------------------------------------------------- eps < 1: subcomplex, not earlier, interleaving
  ref::Graph g;
  for (unsigned i = 0; i < n; ++i) g.vertices[i] = 0;
  for (unsigned i = 0; i < n; ++i)
    for (unsigned j = i + 1; j < n; ++j) g.edges[{i, j}] = D[i][j];
  ref::Complex rips = ref::clique_complex(g, dim_max);
  for (unsigned i = 0; i < n; ++i) VF_CHECK(sp.contains({(long long)i}), "vertex_missing", "point " << i << " is not a vertex of the sparse complex");
  for (auto& kv : sp.s) {
    VF_CHECK(rips.contains(kv.first), "not_in_rips", ref::to_string(kv.first));
    double diam = rips.value(kv.first);
    VF_CHECK(kv.second >= diam - 1e-9 * (1 + diam), "earlier_than_rips",
             ref::to_string(kv.first) << " enters the sparse filtration at " << fmt(kv.second) << ", its diameter is " << fmt(diam));
  }
  VF_ORACLE(rips.is_closed() && rips.is_monotone(), "reference Rips complex is not a filtered complex");
  const bool smaller = sp.size() < rips.size();
  if (smaller) ctx.hit("sparse_strictly_smaller");
  bool retimed = false;
  for (auto& kv : sp.s)
    if (kv.second > rips.value(kv.first) * (1 + 1e-12)) retimed = true;
  if (retimed) ctx.hit("sparse_value_larger");

  std::vector<ref::Bar> ds = ref::diagram(sp, 2), dr = ref::diagram(rips, 2);
  const double bound = std::log(1.0 / (1.0 - eps));
  bool h1 = false;
  for (int k = 0; k < dim_max; ++k) {
    std::vector<ref::DPoint> a = log_diagram(ds, k), b = log_diagram(dr, k);
    if (k >= 1 && !b.empty()) h1 = true;
    bool ok = ref::bottleneck_at_most(a, b, bound + 1e-9);
    if (!ok) {
      double dist = ref::bottleneck_distance(a, b);
      std::ostringstream o;
      o << "H" << k << ": log-bottleneck distance " << fmt(dist) << " > log(1/(1-eps)) = " << fmt(bound) << "; sparse bars:";
      for (auto& x : ds)
        if (x.dim == k) o << " [" << fmt(x.b) << "," << fmt(x.d) << ")";
      o << " rips bars:";
      for (auto& x : dr)
        if (x.dim == k) o << " [" << fmt(x.b) << "," << fmt(x.d) << ")";
      VF_CHECK(false, "interleaving_H" + std::to_string(k), o.str());
    }
    ++ctx.checks;
    if (smaller || retimed) {
      double dist = ref::bottleneck_distance(a, b);
      VF_ORACLE(dist <= bound + 1e-9, "bottleneck_at_most and bottleneck_distance disagree");
      if (dist > 0) ctx.hit("bottleneck_positive_H" + std::to_string(k));
      if (dist > 0.5 * bound) ctx.hit("bottleneck_above_half_bound_H" + std::to_string(k));
    }
  }
  if (h1) ctx.hit("rips_bar_dim_ge_1");
  if (smaller && h1) ctx.mark_nontrivial();
}
}  // namespace vf
