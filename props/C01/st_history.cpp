// C01: Simplex_tree == the abstract complex defined by its operation history.
//
// One tape decodes one history (<= 40 steps).  Every step is applied in lock-step to one Gudhi::Simplex_tree per option
// set of the group selected with -DCFG=n and to the independent model ref::Complex (std::map<sorted vertex list, value>).
// After the construction of the trees and after EVERY step the whole observable state of every tree is compared with
// the model (see observe()).  Histories are generated from the model so that every call respects the documented
// preconditions (see "Domain" below); nothing is rejected.
//
// Domain (documented preconditions, Simplex_tree.h):
//  * insert_simplex(s, v): inserts s only -> the history keeps the set face-closed: all facets of s are present;
//    distinct vertices; "the filtration value must preserve the monotonicity": v >= value of every facet.
//  * insert_simplex_and_subfaces(s, v): any vertex range (unsorted, repeated vertices allowed: the code sorts+uniques),
//    any v (min rule on each face keeps a monotone filtration monotone).
//  * insert_batch_vertices(range, v): any range; existing vertices keep their value.
//  * insert_graph: only on an empty tree (clear() first otherwise); vertices 0..n-1 (vecS graph), edge value >= the
//    values of its endpoints; parallel edges carry the same value ("arbitrarily pick one representative").
//  * remove_maximal_simplex: only simplices that are maximal in the model.
//  * prune_above_filtration: the filtration is monotone (invariant of the history, self-checked on the model).
//  * never the vertex null_vertex() (-1, or 255 for std::uint8_t handles); no NaN; value 0 only when the option set
//    does not store filtration values.
//  * contiguous_vertices option sets: after every operation the vertex set is {0..n-1}.
//  * set_dimension(d, exact=false) only with d >= the true dimension (documented: "only an upper bound").
#include "vf.h"
#include "complex.h"

#include <gudhi/Simplex_tree.h>
#include <gudhi/graph_simplicial_complex.h>
#include <boost/graph/adjacency_list.hpp>

#include <algorithm>
#include <climits>
#include <cmath>
#include <cstdint>
#include <limits>
#include <tuple>
#include <type_traits>

#ifndef CFG
#define CFG 0
#endif

namespace {

using ref::Simplex;
using ref::Vertex;
using vf::Ctx;
using vf::Tape;

// ------------------------------------------------------------------------------------------------ option sets
// Shipped: Simplex_tree_options_default / _full_featured / _minimal / _fast_persistence.
// Used by the library's tests (copied verbatim from /repo/src/Simplex_tree/test/*.cpp):
struct Opt_stable {  // simplex_tree_graph_expansion_unit_test.cpp: Simplex_tree_options_stable_simplex_handles
  typedef Gudhi::linear_indexing_tag Indexing_tag;
  typedef int Vertex_handle;
  typedef double Filtration_value;
  typedef std::uint32_t Simplex_key;
  static const bool store_key = true;
  static const bool store_filtration = true;
  static const bool contiguous_vertices = false;
  static const bool link_nodes_by_label = false;
  static const bool stable_simplex_handles = true;
};
struct Opt_fast_cofaces {  // simplex_tree_edge_expansion_unit_test.cpp: Simplex_tree_options_fast_cofaces
  typedef Gudhi::linear_indexing_tag Indexing_tag;
  typedef int Vertex_handle;
  typedef double Filtration_value;
  typedef std::uint32_t Simplex_key;
  static const bool store_key = true;
  static const bool store_filtration = true;
  static const bool contiguous_vertices = false;
  static const bool link_nodes_by_label = true;
  static const bool stable_simplex_handles = false;
};
struct Opt_low_ser : Gudhi::Simplex_tree_options_full_featured {  // simplex_tree_serialization_unit_test.cpp: Low_options
  static const bool store_filtration = false;
  static const bool store_key = true;
  typedef std::uint8_t Vertex_handle;
  typedef std::uint8_t Simplex_key;
};
struct Opt_low_ext : Gudhi::Simplex_tree_options_default {  // simplex_tree_extended_filtration_unit_test.cpp: Low_options
  typedef float Filtration_value;
  typedef std::uint8_t Vertex_handle;
};
struct Opt_short_min : Gudhi::Simplex_tree_options_minimal {  // simplex_tree_remove_unit_test.cpp: MyOptions
  static const bool store_key = false;
  static const bool store_filtration = false;
  typedef short Vertex_handle;
};

template <class O> struct Opt_name;
template <> struct Opt_name<Gudhi::Simplex_tree_options_default> { static const char* get() { return "default"; } };
template <> struct Opt_name<Gudhi::Simplex_tree_options_full_featured> { static const char* get() { return "full_featured"; } };
template <> struct Opt_name<Gudhi::Simplex_tree_options_minimal> { static const char* get() { return "minimal"; } };
template <> struct Opt_name<Gudhi::Simplex_tree_options_fast_persistence> { static const char* get() { return "fast_persistence"; } };
template <> struct Opt_name<Opt_stable> { static const char* get() { return "test:stable_simplex_handles"; } };
template <> struct Opt_name<Opt_fast_cofaces> { static const char* get() { return "test:fast_cofaces"; } };
template <> struct Opt_name<Opt_low_ser> { static const char* get() { return "test:Low_options(uint8,linked,stable,no-filtration)"; } };
template <> struct Opt_name<Opt_low_ext> { static const char* get() { return "test:Low_options(uint8,float)"; } };
template <> struct Opt_name<Opt_short_min> { static const char* get() { return "test:MyOptions(short,minimal)"; } };

template <class... O> struct Group {};
#if CFG == 0
typedef Group<Gudhi::Simplex_tree_options_default, Opt_stable> TheGroup;
#define CFG_NAME "C01/default+stable"
#elif CFG == 1
typedef Group<Gudhi::Simplex_tree_options_full_featured, Opt_fast_cofaces> TheGroup;
#define CFG_NAME "C01/full_featured+fast_cofaces"
#elif CFG == 2
typedef Group<Gudhi::Simplex_tree_options_fast_persistence, Gudhi::Simplex_tree_options_default> TheGroup;  // float vs double
#define CFG_NAME "C01/fast_persistence+default(contiguous histories)"
#elif CFG == 3
typedef Group<Gudhi::Simplex_tree_options_minimal, Opt_short_min> TheGroup;
#define CFG_NAME "C01/minimal+short_min"
#elif CFG == 4
typedef Group<Opt_low_ser> TheGroup;
#define CFG_NAME "C01/low_ser"
#elif CFG == 5
typedef Group<Opt_low_ext> TheGroup;
#define CFG_NAME "C01/low_ext"
#else
#error "unknown CFG"
#endif

template <class G> struct GroupTraits;
template <class... O> struct GroupTraits<Group<O...>> {
  static constexpr bool filtered = (O::store_filtration && ...);
  static constexpr bool unfiltered = (!O::store_filtration && ...);
  static_assert(filtered || unfiltered, "a group mixes option sets with and without filtration values");
  static constexpr bool contiguous = (O::contiguous_vertices || ...);
  static constexpr long long vmin = std::max({(long long)std::numeric_limits<typename O::Vertex_handle>::min()...});
  static constexpr long long vmax = std::min({(long long)std::numeric_limits<typename O::Vertex_handle>::max()...});
  static constexpr bool any_unsigned = (std::is_unsigned<typename O::Vertex_handle>::value || ...);
};
typedef GroupTraits<TheGroup> GT;

const double kInf = std::numeric_limits<double>::infinity();

std::string fstr(double v) {
  if (v == kInf) return "inf";
  if (v == -kInf) return "-inf";
  std::ostringstream o;
  o << v;
  return o.str();
}
std::string vstr(const std::vector<Vertex>& v) {
  std::ostringstream o;
  o << "{";
  for (size_t i = 0; i < v.size(); ++i) o << (i ? "," : "") << v[i];
  o << "}";
  return o.str();
}

// order of a depth-first traversal that visits the children of a node before the node itself and siblings by
// increasing label: lexicographic, except that a simplex comes AFTER the simplices it is a proper prefix of.
bool dfs_less(const Simplex& a, const Simplex& b) {
  size_t k = 0;
  while (k < a.size() && k < b.size() && a[k] == b[k]) ++k;
  if (k == a.size() || k == b.size()) return a.size() > b.size();
  return a[k] < b[k];
}
bool is_prefix_related(const Simplex& a, const Simplex& b) {
  size_t n = std::min(a.size(), b.size());
  return std::equal(a.begin(), a.begin() + long(n), b.begin());
}

// ------------------------------------------------------------------------------------------------ operations
enum Kind { INS_FACES = 0, INS_ONE, REMOVE, PRUNE_F, BATCH, PRUNE_D, GRAPH, CLEAR, FILT_CACHE, SET_DIM };

struct GraphSpec {
  std::vector<double> vval;                                        // value of vertex i
  std::vector<std::tuple<unsigned, unsigned, double>> edges;       // (source, target, value), source != target
};

struct Op {
  Kind kind = CLEAR;
  std::vector<Vertex> verts;  // as passed to the call (unsorted, maybe repeated)
  double val = 0;
  int ipar = 0;
  bool flag = false;
  bool clear_first = false;
  GraphSpec g;
  // expectations computed on the model before it is updated
  bool exp_bool = false;     // bool part of the return value
  bool exp_handle = false;   // insertions: the returned handle designates the simplex (else null_simplex())
};

// ------------------------------------------------------------------------------------------------ system under test
template <class Opt>
struct Sut {
  typedef Gudhi::Simplex_tree<Opt> ST;
  typedef typename ST::Vertex_handle VH;
  typedef typename ST::Filtration_value FV;
  typedef typename ST::Simplex_handle SH;
  ST st;
  static const char* name() { return Opt_name<Opt>::get(); }

  static std::vector<VH> conv(const std::vector<Vertex>& v) {
    std::vector<VH> r;
    for (Vertex x : v) r.push_back(static_cast<VH>(x));
    return r;
  }
  static Simplex simplex_of(const ST& t, SH h, Ctx& ctx, const char* where) {
    std::vector<Vertex> vs;
    for (VH v : t.simplex_vertex_range(h)) vs.push_back((long long)v);
    for (size_t i = 1; i < vs.size(); ++i)
      VF_CHECK(vs[i - 1] > vs[i], "vertex-range-order",
               name() << ": simplex_vertex_range not strictly decreasing (" << where << "): " << vstr(vs));
    VF_CHECK(!vs.empty(), "vertex-range-empty", name() << ": empty simplex_vertex_range (" << where << ")");
    std::reverse(vs.begin(), vs.end());
    return vs;
  }

  void apply(const Op& op, Ctx& ctx) {
    switch (op.kind) {
      case INS_FACES:
      case INS_ONE: {
        std::vector<VH> vs = conv(op.verts);
        std::pair<SH, bool> r = op.kind == INS_FACES ? st.insert_simplex_and_subfaces(vs, FV(op.val))
                                                     : st.insert_simplex(vs, FV(op.val));
        VF_CHECK(r.second == op.exp_bool, "insert-return-bool",
                 name() << ": insertion of " << vstr(op.verts) << " returned second=" << r.second << ", expected "
                        << op.exp_bool);
        if (op.exp_handle) {
          VF_CHECK(r.first != ST::null_simplex(), "insert-return-handle",
                   name() << ": insertion of " << vstr(op.verts) << " returned null_simplex(), expected the simplex");
          Simplex got = simplex_of(st, r.first, ctx, "returned handle");
          VF_CHECK(got == ref::make_simplex(op.verts), "insert-return-handle",
                   name() << ": returned handle designates " << ref::to_string(got) << " instead of "
                          << vstr(op.verts));
        } else {
          VF_CHECK(r.first == ST::null_simplex(), "insert-return-handle",
                   name() << ": insertion of existing " << vstr(op.verts)
                          << " with a value not smaller returned a non-null handle");
        }
        break;
      }
      case BATCH: {
        std::vector<VH> vs = conv(op.verts);
        st.insert_batch_vertices(vs, FV(op.val));
        break;
      }
      case REMOVE: {
        SH h = st.find(conv(op.verts));
        VF_CHECK(h != ST::null_simplex(), "find-member", name() << ": " << vstr(op.verts) << " not found before removal");
        st.remove_maximal_simplex(h);
        break;
      }
      case PRUNE_F: {
        bool r = st.prune_above_filtration(FV(op.val));
        VF_CHECK(r == op.exp_bool, "prune-filtration-return",
                 name() << ": prune_above_filtration(" << fstr(op.val) << ") returned " << r << ", expected "
                        << op.exp_bool);
        break;
      }
      case PRUNE_D: {
        bool r = st.prune_above_dimension(op.ipar);
        VF_CHECK(r == op.exp_bool, "prune-dimension-return",
                 name() << ": prune_above_dimension(" << op.ipar << ") returned " << r << ", expected " << op.exp_bool);
        break;
      }
      case CLEAR:
        st.clear();
        break;
      case GRAPH: {
        if (op.clear_first) st.clear();
        typedef Gudhi::Proximity_graph<ST> Graph;  // the graph type Rips_complex feeds to insert_graph
        Graph g(op.g.vval.size());
        for (size_t i = 0; i < op.g.vval.size(); ++i) boost::put(Gudhi::vertex_filtration_t(), g, i, FV(op.g.vval[i]));
        for (auto& e : op.g.edges) boost::add_edge(std::get<0>(e), std::get<1>(e), FV(std::get<2>(e)), g);
        st.insert_graph(g);
        break;
      }
      case FILT_CACHE: {
        if (op.ipar == 0) {
          st.clear_filtration();
        } else {
          if (op.ipar == 1) st.initialize_filtration();
          else st.clear_filtration();  // filtration_simplex_range() then initialises the cache itself
          // light check only (the order is property C03): a permutation of the simplices
          std::vector<Simplex> got;
          for (SH h : st.filtration_simplex_range()) got.push_back(simplex_of(st, h, ctx, "filtration range"));
          std::sort(got.begin(), got.end());
          VF_CHECK(got.size() == st.num_simplices() && std::adjacent_find(got.begin(), got.end()) == got.end(),
                   "filtration-range-set", name() << ": filtration_simplex_range is not a permutation of the simplices");
        }
        break;
      }
      case SET_DIM:
        st.set_dimension(op.ipar, op.flag);
        break;
    }
  }
};

struct Env {
  const ref::Complex* model;
  std::vector<Simplex> dfs;                 // model simplices in depth-first (children first) order
  std::vector<Simplex> nonmembers;          // deterministic probes that are NOT in the model
  std::map<Simplex, std::vector<Simplex>> cof[6];  // [0]: star (the simplex included), [k]: cofaces of codimension k
  std::vector<Simplex> maximal;             // maximal simplices of the model
  int dim;
  int obsmode;                              // 0: dimension() first, 1: last, 2: not called in this step
  int step;
};

template <class ST, class VH>
typename ST::Simplex_handle find_sorted(const ST& st, const Simplex& s) {
  std::vector<VH> q;
  for (Vertex x : s) q.push_back(static_cast<VH>(x));
  return st.find(q);
}

// rebuild a tree of the same type from the model, streaming the simplices in a shuffled order (documented use of
// insert_simplex: "insert a stream of simplices contained in a simplicial complex without considering any order").
template <class Opt>
void rebuild(typename Sut<Opt>::ST& r, const ref::Complex& m, int step, const Simplex* drop, const Simplex* bump) {
  typedef Sut<Opt> S;
  std::vector<std::pair<uint64_t, const Simplex*>> order;
  for (auto& kv : m.s) {
    if (drop && kv.first == *drop) continue;
    uint64_t key = 1469598103934665603ULL ^ uint64_t(step) * 0x9E3779B97F4A7C15ULL;
    for (Vertex x : kv.first) key = (key ^ uint64_t(x)) * 1099511628211ULL;
    key ^= key >> 29;
    if (Opt::contiguous_vertices || step % 2 == 0) {
      // faces first (by dimension); contiguous option sets additionally get their vertices in increasing order
      key = (key >> 8) | (uint64_t(kv.first.size()) << 56);
      if (Opt::contiguous_vertices && kv.first.size() == 1) key = uint64_t(kv.first[0]);
    }
    order.push_back({key, &kv.first});
  }
  std::sort(order.begin(), order.end(), [](auto& a, auto& b) { return a.first != b.first ? a.first < b.first : *a.second < *b.second; });
  for (auto& o : order) {
    double v = m.s.at(*o.second);
    if (bump && *o.second == *bump) v += 1;
    r.insert_simplex(S::conv(*o.second), typename S::FV(v));
  }
}

template <class Opt>
void observe(Sut<Opt>& sut, const Env& env, Ctx& ctx) {
  typedef Sut<Opt> S;
  typedef typename S::ST ST;
  typedef typename S::VH VH;
  typedef typename S::SH SH;
  typedef typename S::FV FV;
  const ST& st = sut.st;  // read interface only
  const ref::Complex& m = *env.model;
  const char* nm = S::name();
  const int step = env.step;

  auto check_dimension = [&]() {
    int d = st.dimension();
    VF_CHECK(d == env.dim, "dimension", nm << ": dimension()=" << d << " model " << env.dim << " (step " << step << ")");
    std::vector<size_t> nb = st.num_simplices_by_dimension();
    std::vector<size_t> ex = m.count_by_dimension();
    VF_CHECK(nb == ex, "count-by-dimension", nm << ": num_simplices_by_dimension has " << nb.size() << " entries, model "
                                                << ex.size() << " (or different counts) (step " << step << ")");
  };
  if (env.obsmode == 0) check_dimension();

  // ---- global counts
  VF_CHECK(st.num_vertices() == m.vertices().size(), "num-vertices",
           nm << ": num_vertices()=" << st.num_vertices() << " model " << m.vertices().size() << " (step " << step << ")");
  VF_CHECK(st.num_simplices() == m.size(), "num-simplices",
           nm << ": num_simplices()=" << st.num_simplices() << " model " << m.size() << " (step " << step << ")");
  VF_CHECK(st.is_empty() == m.empty(), "is-empty", nm << ": is_empty()=" << st.is_empty() << " (step " << step << ")");
  VF_CHECK(st.upper_bound_dimension() >= env.dim, "upper-bound-dimension",
           nm << ": upper_bound_dimension()=" << st.upper_bound_dimension() << " < true dimension " << env.dim
              << " (step " << step << ")");
  if (Opt::store_filtration)
    VF_CHECK(ST::filtration(ST::null_simplex()) == std::numeric_limits<FV>::infinity(), "filtration-null",
             nm << ": filtration(null_simplex()) is not +infinity");
  VF_CHECK(st.find(std::vector<VH>()) == ST::null_simplex(), "find-empty", nm << ": find({}) is not null_simplex()");

  // ---- vertices
  {
    std::vector<Vertex> got;
    for (VH v : st.complex_vertex_range()) got.push_back((long long)v);
    VF_CHECK(got == m.vertices(), "vertex-range",
             nm << ": complex_vertex_range=" << vstr(got) << " model " << vstr(m.vertices()) << " (step " << step << ")");
  }

  // ---- enumeration of the complex and of its skeletons
  auto check_enumeration = [&](const std::vector<Simplex>& got, int k, const char* what) {
    std::vector<Simplex> exp;
    for (auto& s : env.dfs)
      if (int(s.size()) - 1 <= k) exp.push_back(s);
    if (got == exp) {
      ++ctx.checks;
      return;
    }
    std::vector<Simplex> a = got, b = exp;
    std::sort(a.begin(), a.end());
    std::sort(b.begin(), b.end());
    if (a != b) {
      std::ostringstream o;
      std::vector<Simplex> missing, extra;
      std::set_difference(b.begin(), b.end(), a.begin(), a.end(), std::back_inserter(missing));
      std::set_difference(a.begin(), a.end(), b.begin(), b.end(), std::back_inserter(extra));
      o << nm << ": " << what << "(" << k << ") enumerates " << got.size() << " simplices, model " << exp.size();
      if (!missing.empty()) o << "; missing e.g. " << ref::to_string(missing[0]);
      if (!extra.empty()) o << "; unexpected e.g. " << ref::to_string(extra[0]);
      if (std::adjacent_find(a.begin(), a.end()) != a.end()) o << "; duplicates";
      o << " (step " << step << ")";
      VF_CHECK(false, "enumeration-set", o.str());
    }
    // same set, another order: documented as lexicographic; the code visits a simplex after the simplices it is a
    // prefix of. Both readings order two simplices that are not prefix-related in the same way: check that only.
    if (got == b) {
      ++ctx.checks;
      return;
    }
    for (size_t i = 0; i < got.size(); ++i)
      for (size_t j = i + 1; j < got.size(); ++j)
        VF_CHECK(is_prefix_related(got[i], got[j]) || got[i] < got[j], "enumeration-order",
                 nm << ": " << what << "(" << k << ") gives " << ref::to_string(got[i]) << " before "
                    << ref::to_string(got[j]) << " (step " << step << ")");
  };
  {
    std::vector<Simplex> got;
    for (SH h : st.complex_simplex_range()) {
      Simplex s = S::simplex_of(st, h, ctx, "complex_simplex_range");
      auto it = m.s.find(s);
      if (it != m.s.end())
        VF_CHECK(double(ST::filtration(h)) == it->second, "filtration-value",
                 nm << ": complex_simplex_range handle of " << ref::to_string(s) << " has value "
                    << fstr(double(ST::filtration(h))) << " model " << fstr(it->second) << " (step " << step << ")");
      got.push_back(s);
    }
    check_enumeration(got, 1000, "complex_simplex_range");
    for (int k = 0; k <= env.dim + 1; ++k) {
      std::vector<Simplex> sk;
      for (SH h : st.skeleton_simplex_range(k)) sk.push_back(S::simplex_of(st, h, ctx, "skeleton_simplex_range"));
      check_enumeration(sk, k, "skeleton_simplex_range");
    }
  }

  // ---- every simplex of the model
  for (auto& kv : m.s) {
    const Simplex& s = kv.first;
    const int d = int(s.size()) - 1;
    SH h = find_sorted<ST, VH>(st, s);
    VF_CHECK(h != ST::null_simplex(), "find-member", nm << ": find(" << ref::to_string(s) << ") is null (step " << step << ")");
    if (s.size() > 1) {  // any vertex order designates the same simplex
      Simplex p(s.rbegin(), s.rend());
      if (s.size() > 2) std::swap(p[0], p[1]);
      SH h2 = find_sorted<ST, VH>(st, p);
      VF_CHECK(h2 == h, "find-permuted", nm << ": find(" << vstr(p) << ") differs from find(" << ref::to_string(s) << ")");
    }
    VF_CHECK(double(ST::filtration(h)) == kv.second, "filtration-value",
             nm << ": filtration(" << ref::to_string(s) << ")=" << fstr(double(ST::filtration(h))) << " model "
                << fstr(kv.second) << " (step " << step << ")");
    VF_CHECK(st.dimension(h) == d, "simplex-dimension",
             nm << ": dimension(" << ref::to_string(s) << ")=" << st.dimension(h) << " (step " << step << ")");
    Simplex back = S::simplex_of(st, h, ctx, "find");
    VF_CHECK(back == s, "vertex-range", nm << ": simplex_vertex_range(find(" << ref::to_string(s) << "))=" << ref::to_string(back));
    {  // the node has children iff the model has a simplex extending s by larger vertices (s is a proper prefix)
      auto nx = m.s.upper_bound(s);
      bool ext = nx != m.s.end() && nx->first.size() > s.size() && std::equal(s.begin(), s.end(), nx->first.begin());
      VF_CHECK(st.has_children(h) == ext, "has-children",
               nm << ": has_children(" << ref::to_string(s) << ")=" << st.has_children(h) << " (step " << step << ")");
    }
    // boundary: the facets, position k omits v_i with (-1)^k == (-1)^(d-i) ("the alternate sum gives (-1)^dim the
    // boundary"); with opposite vertices: documented order i = d .. 0
    {
      std::vector<Simplex> facets = ref::facets(s);  // facets[i] omits s[i]
      std::vector<Simplex> got;
      for (SH b : st.boundary_simplex_range(h)) got.push_back(S::simplex_of(st, b, ctx, "boundary_simplex_range"));
      VF_CHECK(got.size() == facets.size(), "boundary-size",
               nm << ": boundary of " << ref::to_string(s) << " has " << got.size() << " simplices (step " << step << ")");
      std::vector<bool> seen(facets.size(), false);
      for (size_t k = 0; k < got.size(); ++k) {
        size_t i = size_t(std::find(facets.begin(), facets.end(), got[k]) - facets.begin());
        VF_CHECK(i < facets.size() && !seen[i], "boundary-set",
                 nm << ": boundary of " << ref::to_string(s) << " contains " << ref::to_string(got[k])
                    << " (not a facet, or twice) (step " << step << ")");
        seen[i] = true;
        VF_CHECK((k % 2) == ((size_t(d) - i) % 2), "boundary-orientation",
                 nm << ": boundary of " << ref::to_string(s) << ": position " << k << " omits vertex index " << i
                    << ", alternate sum is not (-1)^dim * boundary");
      }
      size_t k = 0;
      for (auto bo : st.boundary_opposite_vertex_simplex_range(h)) {
        VF_CHECK(k < facets.size(), "boundary-opp-size", nm << ": too many boundary/opposite pairs for " << ref::to_string(s));
        size_t i = facets.size() - 1 - k;
        Simplex f = S::simplex_of(st, bo.first, ctx, "boundary_opposite_vertex_simplex_range");
        VF_CHECK(f == facets[i] && (long long)bo.second == s[i], "boundary-opposite",
                 nm << ": boundary_opposite_vertex of " << ref::to_string(s) << " position " << k << " gives ("
                    << ref::to_string(f) << "," << (long long)bo.second << ") expected (" << ref::to_string(facets[i])
                    << "," << s[i] << ") (step " << step << ")");
        ++k;
      }
      VF_CHECK(k == facets.size(), "boundary-opp-size",
               nm << ": " << k << " boundary/opposite pairs for " << ref::to_string(s) << " (step " << step << ")");
    }
    // star and cofaces of codimension 1..3 (vertices: 1..5, i.e. up to one more than anything present) as sets; no
    // order is documented
    for (int codim = 0; codim <= (d == 0 ? 5 : 3); ++codim) {
      const bool star = codim == 0;
      if (star && !Opt::link_nodes_by_label && d >= st.upper_bound_dimension() &&
          ctx.excluded("C01-star-of-top-simplex")) {
        ctx.hit("excluded:C01-star-of-top-simplex");
        continue;
      }
      std::vector<Simplex> got;
      if (star && (step + d) % 2 == 0) {
        for (SH c : st.star_simplex_range(h)) got.push_back(S::simplex_of(st, c, ctx, "star_simplex_range"));
      } else {
        for (SH c : st.cofaces_simplex_range(h, codim)) got.push_back(S::simplex_of(st, c, ctx, "cofaces_simplex_range"));
      }
      std::sort(got.begin(), got.end());
      const std::vector<Simplex>& exp = env.cof[codim].at(s);  // model order = sorted
      if (got != exp) {
        std::ostringstream o;
        o << nm << ": " << (star ? "star" : "cofaces") << "(" << ref::to_string(s) << ", codim " << codim << ") has "
          << got.size() << " simplices, model " << exp.size() << "; upper_bound_dimension=" << st.upper_bound_dimension()
          << " (step " << step << ")";
        VF_CHECK(false, star ? "star" : "cofaces", o.str());
      }
      ++ctx.checks;
    }
  }

  // ---- non-members
  for (auto& s : env.nonmembers) {
    SH h = find_sorted<ST, VH>(st, s);
    VF_CHECK(h == ST::null_simplex(), "find-nonmember",
             nm << ": find(" << ref::to_string(s) << ") is not null but the simplex is not in the complex (step " << step << ")");
  }

  // ---- equality
  {
    VF_CHECK(st == st, "equal-self", nm << ": tree != itself (step " << step << ")");
    ST fresh;
    VF_CHECK((st == fresh) == m.empty(), "equal-fresh",
             nm << ": (tree == fresh empty tree) is " << (st == fresh) << " but the complex has " << m.size()
                << " simplices; dimension()=" << st.dimension() << " (step " << step << ")");
    VF_CHECK((fresh == st) == m.empty(), "equal-fresh", nm << ": (fresh == tree) wrong (step " << step << ")");
    VF_CHECK((st != fresh) == !m.empty(), "equal-fresh", nm << ": operator!= inconsistent (step " << step << ")");
    ST r;
    rebuild<Opt>(r, m, step, nullptr, nullptr);
    VF_CHECK(st == r, "equal-rebuilt", nm << ": tree != tree rebuilt from the model (step " << step << ")");
    VF_CHECK(r == st, "equal-rebuilt", nm << ": rebuilt tree != tree (step " << step << ")");
    VF_CHECK(!(st != r), "equal-rebuilt", nm << ": operator!= true against the rebuilt tree (step " << step << ")");
    if (!m.empty()) {
      // perturbed copies must compare unequal: another value on one maximal simplex, then that simplex removed
      const Simplex& victim = env.maximal[size_t(step) % env.maximal.size()];
      double v = m.s.at(victim);
      SH hv = find_sorted<ST, VH>(r, victim);
      VF_CHECK(hv != ST::null_simplex(), "find-member", nm << ": rebuilt tree lacks " << ref::to_string(victim));
      if (Opt::store_filtration && std::isfinite(v) && FV(v + 1) != FV(v)) {
        r.assign_filtration(hv, FV(v + 1));
        VF_CHECK(!(st == r) && !(r == st) && (st != r), "equal-perturbed",
                 nm << ": tree == tree with another value on " << ref::to_string(victim) << " (step " << step << ")");
        r.assign_filtration(hv, FV(v));
        VF_CHECK(st == r, "equal-rebuilt", nm << ": tree != rebuilt tree after restoring a value (step " << step << ")");
      }
      r.remove_maximal_simplex(hv);
      VF_CHECK(!(st == r) && !(r == st) && (st != r), "equal-dropped",
               nm << ": tree == tree without " << ref::to_string(victim) << " (step " << step << ")");
    }
  }

  if (env.obsmode == 1) check_dimension();
}

template <class A, class B>
void cross_equal(Sut<A>& a, Sut<B>& b, Ctx& ctx, int step) {
  // operator== is a template over the other tree's options. It also compares null_vertex(): trees whose
  // Vertex_handle types give different null vertices (-1 vs 255) are never equal; the concept demands signed handles.
  if (std::is_signed<typename A::Vertex_handle>::value != std::is_signed<typename B::Vertex_handle>::value) return;
  VF_CHECK(a.st == b.st, "equal-cross-options",
           Sut<A>::name() << " != " << Sut<B>::name() << " after the same history (step " << step << ")");
  VF_CHECK(b.st == a.st, "equal-cross-options",
           Sut<B>::name() << " != " << Sut<A>::name() << " after the same history (step " << step << ")");
}

template <class G> struct Runner;
template <class A> struct Runner<Group<A>> {
  Sut<A> a;
  void apply(const Op& op, Ctx& ctx) { a.apply(op, ctx); }
  void observe_all(const Env& env, Ctx& ctx) { observe(a, env, ctx); }
  static std::string names() { return Sut<A>::name(); }
};
template <class A, class B> struct Runner<Group<A, B>> {
  Sut<A> a;
  Sut<B> b;
  void apply(const Op& op, Ctx& ctx) {
    a.apply(op, ctx);
    b.apply(op, ctx);
  }
  void observe_all(const Env& env, Ctx& ctx) {
    // cross comparison first: observe() may call dimension(), which changes the cached state operator== looks at
    if (env.step % 2 == 0) cross_equal(a, b, ctx, env.step);
    observe(a, env, ctx);
    observe(b, env, ctx);
    if (env.step % 2 == 1) cross_equal(a, b, ctx, env.step);
  }
  static std::string names() { return std::string(Sut<A>::name()) + " | " + Sut<B>::name(); }
};

// ------------------------------------------------------------------------------------------------ generator
struct Gen {
  Tape& t;
  Ctx& ctx;
  ref::Complex m;
  std::vector<Vertex> pool;
  std::vector<double> palette;
  int label_mode = 0;

  Gen(Tape& t_, Ctx& c_) : t(t_), ctx(c_) {}

  static bool label_ok(long long v) {
    if (v < GT::vmin || v > GT::vmax) return false;
    if (v == -1) return false;                          // null_vertex() of signed handles
    if (GT::any_unsigned && v == GT::vmax) return false;  // null_vertex() of unsigned handles (Vertex_handle(-1))
    return true;
  }

  void header() {
    std::vector<long long> raw;
    if (GT::contiguous) {
      label_mode = 0;
    } else {
      label_mode = int(t.below(5));
    }
    switch (label_mode) {
      case 0: raw = {0, 1, 2, 3, 4, 5, 6, 7}; break;
      case 1: raw = {0, 2, 5, 9, 17, 100, 200, 254}; break;
      case 2: raw = {-100, -8, -3, -2, 0, 1, 6, 50}; break;
      case 3: raw = {GT::vmin, GT::vmin + 1, -2, 0, 1, GT::vmax - 2, GT::vmax - 1, GT::vmax}; break;
      default: raw = {1000, 1001, 32767, 65535, 65536, 1 << 20, 1 << 30, (1LL << 31) - 2}; break;
    }
    for (long long v : raw)
      if (label_ok(v) && std::find(pool.begin(), pool.end(), v) == pool.end()) pool.push_back(v);
    if (pool.size() < 3) pool = {0, 1, 2, 3, 4, 5, 6, 7};
    std::sort(pool.begin(), pool.end());
    if (GT::filtered) {
      static const double cand[] = {0, 1, 2, 0.5, 3, 1.5, -1, 0.25, -2.5, 100, 1.2676506002282294e30 /* 2^100 */, kInf, -kInf};
      unsigned n = 1 + t.below(5);
      for (unsigned i = 0; i < n; ++i) {
        double v = cand[t.below(sizeof cand / sizeof cand[0])];
        if (std::find(palette.begin(), palette.end(), v) == palette.end()) palette.push_back(v);
      }
      std::sort(palette.begin(), palette.end());
    } else {
      palette = {0};
    }
    ctx.desc << "labels=" << vstr(pool) << " values={";
    for (size_t i = 0; i < palette.size(); ++i) ctx.desc << (i ? "," : "") << fstr(palette[i]);
    ctx.desc << "}\n";
    ctx.hit("label-mode-" + std::to_string(label_mode));
  }

  std::vector<Vertex> candidates() const {  // labels an operation may mention
    std::vector<Vertex> c = pool;
    for (Vertex v : m.vertices()) c.push_back(v);
    std::sort(c.begin(), c.end());
    c.erase(std::unique(c.begin(), c.end()), c.end());
    return c;
  }
  // contiguous option sets: relabel the vertices that are new so that the vertex set stays {0..n-1}
  void contig_fix(std::vector<Vertex>& vs) const {
    if (!GT::contiguous) return;
    std::vector<Vertex> fresh;
    for (Vertex v : vs)
      if (!m.contains({v})) fresh.push_back(v);
    std::sort(fresh.begin(), fresh.end());
    fresh.erase(std::unique(fresh.begin(), fresh.end()), fresh.end());
    Vertex n = Vertex(m.vertices().size());
    for (Vertex& v : vs) {
      auto it = std::find(fresh.begin(), fresh.end(), v);
      if (it != fresh.end()) v = n + (it - fresh.begin());
    }
  }
  double any_value() { return palette[t.below(uint32_t(palette.size()))]; }
  double value_at_least(double lb) {
    std::vector<double> ok;
    for (double v : palette)
      if (v >= lb) ok.push_back(v);
    if (ok.empty()) return lb;
    return ok[t.below(uint32_t(ok.size()))];
  }
  bool vertices_stay_contiguous(const ref::Complex& c) const {
    std::vector<Vertex> vs = c.vertices();
    for (size_t i = 0; i < vs.size(); ++i)
      if (vs[i] != Vertex(i)) return false;
    return true;
  }

  // simplices not in the model all of whose facets are (vertices: labels of the candidates not yet present)
  std::vector<Simplex> insertable() const {
    std::vector<Simplex> r;
    std::vector<Vertex> vs = m.vertices();
    for (Vertex v : candidates())
      if (!m.contains({v})) r.push_back({v});
    for (auto& kv : m.s) {
      if (kv.first.size() >= 5) continue;
      for (Vertex v : vs) {
        if (v <= kv.first.back()) continue;  // generate each candidate once: v larger than all vertices of the face
        Simplex x = kv.first;
        x.push_back(v);
        if (m.contains(x)) continue;
        bool ok = true;
        for (auto& f : ref::facets(x)) ok = ok && m.contains(f);
        if (ok) r.push_back(x);
      }
    }
    return r;
  }

  // Decodes the next operation. Returns false when the drawn operation is not applicable in the current state.
  bool next(Op& op) {
    op = Op();
    op.kind = Kind(t.weighted({6, 5, 4, 3, 2, 2, 1, 1, 1, 1}));
    std::vector<Vertex> cand = candidates();
    switch (op.kind) {
      case INS_FACES: {
        unsigned k = 1 + t.below(5);
        if (m.size() >= 64 && k > 2) k = 2;
        for (unsigned i = 0; i < k; ++i) op.verts.push_back(cand[t.below(uint32_t(cand.size()))]);
        op.val = any_value();
        contig_fix(op.verts);
        Simplex sx = ref::make_simplex(op.verts);
        if (sx.size() < op.verts.size()) ctx.hit("insert-with-repeated-vertices");
        bool existed = m.contains(sx);
        op.exp_bool = !existed;
        op.exp_handle = !existed || op.val < m.value(sx);
        if (existed && op.val < m.value(sx)) ctx.hit("value-lowered");
        ctx.desc << "insert_simplex_and_subfaces(" << vstr(op.verts) << ", " << fstr(op.val) << ")";
        return true;
      }
      case INS_ONE: {
        Simplex sx;
        bool re = !m.empty() && t.chance(1, 4);
        if (!re) {
          std::vector<Simplex> ins = insertable();
          if (GT::contiguous) {  // a new vertex must be the next label
            std::vector<Simplex> keep;
            Vertex n = Vertex(m.vertices().size());
            for (auto& s : ins)
              if (s.size() > 1 || s[0] == n) keep.push_back(s);
            if (keep.empty() && n <= 7) keep.push_back({n});
            ins.swap(keep);
          }
          if (ins.empty()) re = true;
          else sx = ins[t.below(uint32_t(ins.size()))];
        }
        if (re) {
          if (m.empty()) return false;
          auto it = m.s.begin();
          std::advance(it, t.below(uint32_t(m.size())));
          sx = it->first;
        }
        double lb = -kInf;
        for (auto& f : ref::facets(sx)) lb = std::max(lb, m.value(f));
        op.val = value_at_least(lb);
        op.verts = sx;
        if (op.verts.size() > 1 && t.flip()) std::reverse(op.verts.begin(), op.verts.end());  // any order is accepted
        bool existed = m.contains(sx);
        op.exp_bool = !existed;
        op.exp_handle = !existed || op.val < m.value(sx);
        if (existed && op.val < m.value(sx)) ctx.hit("value-lowered");
        if (existed) ctx.hit("insert-existing");
        ctx.desc << "insert_simplex(" << vstr(op.verts) << ", " << fstr(op.val) << ")";
        return true;
      }
      case BATCH: {
        unsigned k = 1 + t.below(5);
        for (unsigned i = 0; i < k; ++i) op.verts.push_back(cand[t.below(uint32_t(cand.size()))]);
        op.val = any_value();
        contig_fix(op.verts);
        ctx.desc << "insert_batch_vertices(" << vstr(op.verts) << ", " << fstr(op.val) << ")";
        return true;
      }
      case REMOVE: {
        std::vector<Simplex> mx = m.maximal_simplices();
        if (GT::contiguous) {  // only the last vertex may disappear
          std::vector<Simplex> keep;
          Vertex last = Vertex(m.vertices().size()) - 1;
          for (auto& s : mx)
            if (s.size() > 1 || s[0] == last) keep.push_back(s);
          mx.swap(keep);
        }
        if (m.size() == 1 && ctx.excluded("C01-emptied-tree-dimension")) {
          ctx.hit("excluded:C01-emptied-tree-dimension");
          mx.clear();
        }
        if (mx.empty()) return false;
        op.verts = mx[t.below(uint32_t(mx.size()))];
        ctx.desc << "remove_maximal_simplex(" << vstr(op.verts) << ")";
        return true;
      }
      case PRUNE_F: {
        std::vector<double> th = GT::filtered ? palette : std::vector<double>{-1, 0, 1};
        th.push_back(kInf);
        th.push_back(-kInf);
        std::sort(th.begin(), th.end());
        th.erase(std::unique(th.begin(), th.end()), th.end());
        size_t start = t.below(uint32_t(th.size()));
        for (size_t k = 0; k < th.size(); ++k) {  // contiguous option sets: first threshold that removes a suffix of the vertices
          op.val = th[(start + k) % th.size()];
          if (!GT::contiguous) break;
          ref::Complex c = m;
          c.prune_above_filtration(op.val);
          if (vertices_stay_contiguous(c)) break;
        }
        ctx.desc << "prune_above_filtration(" << fstr(op.val) << ")";
        return true;
      }
      case PRUNE_D: {
        op.ipar = t.range(-3, m.dimension() + 1);
        ctx.desc << "prune_above_dimension(" << op.ipar << ")";
        return true;
      }
      case CLEAR:
        ctx.desc << "clear()";
        return true;
      case GRAPH: {
        unsigned n = t.below(7);
        op.clear_first = !m.empty();
        for (unsigned i = 0; i < n; ++i) op.g.vval.push_back(any_value());
        uint32_t bits = t.u16();
        uint32_t orient = t.u16();
        unsigned e = 0;
        for (unsigned i = 0; i < n; ++i)
          for (unsigned j = i + 1; j < n; ++j, ++e) {
            if (!((bits >> e) & 1)) continue;
            double lb = std::max(op.g.vval[i], op.g.vval[j]);
            double v = value_at_least(lb);
            bool flipd = (orient >> e) & 1;
            op.g.edges.push_back(std::make_tuple(flipd ? j : i, flipd ? i : j, v));
            if (((bits >> 15) & 1) && e % 3 == 0) op.g.edges.push_back(std::make_tuple(flipd ? i : j, flipd ? j : i, v));  // parallel edge, same value
          }
        ctx.desc << (op.clear_first ? "clear(); " : "") << "insert_graph(vertices={";
        for (unsigned i = 0; i < n; ++i) ctx.desc << (i ? "," : "") << fstr(op.g.vval[i]);
        ctx.desc << "} edges={";
        for (size_t i = 0; i < op.g.edges.size(); ++i)
          ctx.desc << (i ? "," : "") << std::get<0>(op.g.edges[i]) << "->" << std::get<1>(op.g.edges[i]) << ":"
                   << fstr(std::get<2>(op.g.edges[i]));
        ctx.desc << "})";
        return true;
      }
      case FILT_CACHE: {
        op.ipar = int(t.below(3));
        ctx.desc << (op.ipar == 0 ? "clear_filtration()"
                     : op.ipar == 1 ? "initialize_filtration(); filtration_simplex_range()"
                                    : "clear_filtration(); filtration_simplex_range()");
        return true;
      }
      case SET_DIM: {
        op.flag = false;  // exact = false: an upper bound, the exact dimension is recomputed on demand
        op.ipar = m.dimension() + int(t.below(4));
        ctx.desc << "set_dimension(" << op.ipar << ", false)";
        return true;
      }
    }
    return false;
  }

  // applies op to the model; fills the expectations that depend on the model's reaction
  void apply_model(Op& op, bool& removed, bool& added) {
    size_t before = m.size();
    removed = added = false;
    switch (op.kind) {
      case INS_FACES: added = m.insert_with_faces(ref::make_simplex(op.verts), op.val); break;
      case INS_ONE: added = m.insert_one(ref::make_simplex(op.verts), op.val); break;
      case BATCH:
        for (Vertex v : op.verts)
          if (!m.contains({v})) {
            m.s[{v}] = op.val;
            added = true;
          }
        break;
      case REMOVE: {
        Simplex sx = ref::make_simplex(op.verts);
        VF_ORACLE(m.is_maximal(sx) && m.contains(sx), "generator chose a non-maximal simplex for removal");
        m.s.erase(sx);
        removed = true;
        break;
      }
      case PRUNE_F: op.exp_bool = removed = m.prune_above_filtration(op.val); break;
      case PRUNE_D: op.exp_bool = removed = m.prune_above_dimension(op.ipar); break;
      case CLEAR:
        removed = !m.empty();
        m.s.clear();
        break;
      case GRAPH: {
        removed = !m.empty();
        m.s.clear();
        for (size_t i = 0; i < op.g.vval.size(); ++i) m.s[{Vertex(i)}] = op.g.vval[i];
        for (auto& e : op.g.edges) {
          Simplex x = ref::make_simplex({Vertex(std::get<0>(e)), Vertex(std::get<1>(e))});
          m.s[x] = std::get<2>(e);  // parallel edges carry the same value
        }
        added = !m.empty();
        break;
      }
      case FILT_CACHE:
      case SET_DIM: break;
    }
    (void)before;
    VF_ORACLE(m.is_closed(), "model not closed under faces after " << int(op.kind));
    VF_ORACLE(m.is_monotone(), "model filtration not monotone after " << int(op.kind));
    if (GT::contiguous) VF_ORACLE(vertices_stay_contiguous(m), "vertex set not contiguous after " << int(op.kind));
    for (Vertex v : m.vertices()) VF_ORACLE(label_ok(v), "label out of the domain: " << v);
  }

  std::vector<Simplex> nonmember_probes() const {
    std::vector<Simplex> r = insertable();  // minimal non-faces and absent vertices
    std::vector<Vertex> cand = candidates();
    for (auto& s : m.maximal_simplices())   // supersets of maximal simplices
      for (Vertex v : cand) {
        if (std::binary_search(s.begin(), s.end(), v)) continue;
        Simplex x = s;
        x.push_back(v);
        x = ref::make_simplex(x);
        if (!m.contains(x)) r.push_back(x);
        if (r.size() > 60) return r;
      }
    return r;
  }
};

const char* kind_name(Kind k) {
  static const char* n[] = {"insert_simplex_and_subfaces", "insert_simplex", "remove_maximal_simplex", "prune_above_filtration",
                            "insert_batch_vertices", "prune_above_dimension", "insert_graph", "clear", "filtration-cache", "set_dimension"};
  return n[int(k)];
}

}  // namespace

namespace vf {
const char* harness_name() { return CFG_NAME; }

void run_case(Tape& t, Ctx& ctx) {
  Gen gen(t, ctx);
  gen.header();
  Runner<TheGroup> run;
  const int kMaxSteps = 40;

  auto observe_now = [&](int step, int obsmode) {
    Env env;
    env.model = &gen.m;
    for (auto& kv : gen.m.s) env.dfs.push_back(kv.first);
    std::sort(env.dfs.begin(), env.dfs.end(), dfs_less);
    env.nonmembers = gen.nonmember_probes();
    for (auto& a : gen.m.s) {
      bool mx = true;
      for (int c = 0; c < 6; ++c) env.cof[c][a.first];
      for (auto& b : gen.m.s) {
        if (b.first.size() < a.first.size() || !ref::is_subset(a.first, b.first)) continue;
        size_t c = b.first.size() - a.first.size();
        env.cof[0][a.first].push_back(b.first);
        if (c >= 1 && c <= 5) env.cof[c][a.first].push_back(b.first);
        if (c > 0) mx = false;
      }
      if (mx) env.maximal.push_back(a.first);
    }
    for (auto& a : gen.m.s)  // internal consistency of the oracle: two routes to the same sets
      for (int c = 0; c < 6; ++c)
        VF_ORACLE(env.cof[c].at(a.first) == gen.m.cofaces(a.first, c) || gen.m.size() > 24, "coface tables disagree");
    VF_ORACLE(env.maximal == gen.m.maximal_simplices() || gen.m.size() > 24, "maximal simplices disagree");
    env.dim = gen.m.dimension();
    env.obsmode = obsmode;
    env.step = step;
    run.observe_all(env, ctx);
  };
  observe_now(0, 0);  // freshly constructed trees

  int steps = 0, maxdim = -1;
  size_t maxsize = 0;
  bool removed_before = false, reinserted = false, emptied_by_removal = false;
  while (!t.exhausted() && steps < kMaxSteps) {
    Op op;
    if (!gen.next(op)) {
      ctx.hit("inapplicable-op");
      continue;
    }
    ++steps;
    int obsmode = int(t.below(3));
    ctx.desc << (obsmode == 0 ? "" : obsmode == 1 ? "   [dimension() queried last]" : "   [dimension() not queried]") << "\n";
    bool removed = false, added = false;
    gen.apply_model(op, removed, added);
    run.apply(op, ctx);
    ctx.hit(std::string("op:") + kind_name(op.kind));
    if (removed) {
      removed_before = true;
      ctx.hit("step-removes-simplices");
      if (gen.m.empty() && (op.kind == REMOVE)) emptied_by_removal = true;
    }
    if (added && removed_before) reinserted = true;
    maxdim = std::max(maxdim, gen.m.dimension());
    maxsize = std::max(maxsize, gen.m.size());
    observe_now(steps, obsmode);
  }
  ctx.hit("steps", uint64_t(steps));
  ctx.hit("histories");
  ctx.hit(steps == 0 ? "steps=0" : steps < 5 ? "steps<5" : steps < 15 ? "steps<15" : "steps>=15");
  ctx.hit(maxsize < 8 ? "max-simplices<8" : maxsize < 32 ? "max-simplices<32" : "max-simplices>=32");
  if (maxdim >= 2) ctx.hit("dim>=2");
  if (maxdim >= 3) ctx.hit("dim>=3");
  if (emptied_by_removal) ctx.hit("emptied-by-removal");
  if (reinserted) ctx.hit("removal-then-reinsertion");
  if (reinserted && maxdim >= 2) ctx.mark_nontrivial();
}
}  // namespace vf
