// C03 (cubical part): Bitmap_cubical_complex::filtration_simplex_range() is a valid filtration order and a function of
// the bitmap alone (documented secondary criteria: dimension, then position in the data structure), whatever the sort
// (std::sort or tbb::parallel_sort), the thread count or the number of re-computations.
#include "vf.h"

#include <gudhi/Bitmap_cubical_complex.h>
#include <gudhi/Bitmap_cubical_complex_base.h>
#include <gudhi/Bitmap_cubical_complex_periodic_boundary_conditions_base.h>

#ifdef GUDHI_USE_TBB
#include <tbb/global_control.h>
#endif

#include <algorithm>
#include <limits>
#include <sstream>
#include <vector>

namespace c03c {

typedef Gudhi::cubical_complex::Bitmap_cubical_complex_base<double> Base;
typedef Gudhi::cubical_complex::Bitmap_cubical_complex<Base> Plain;
typedef Gudhi::cubical_complex::Bitmap_cubical_complex_periodic_boundary_conditions_base<double> PBase;
typedef Gudhi::cubical_complex::Bitmap_cubical_complex<PBase> Periodic;

template <class CC>
void check(CC& cc, vf::Ctx& ctx, bool large) {
  size_t n = cc.num_simplices();
  std::vector<double> val(n);
  std::vector<unsigned> dim(n);
  for (size_t c = 0; c < n; ++c) {
    val[c] = cc.filtration(c);
    dim[c] = cc.dimension(c);
  }
  // documented order: filtration, then dimension, then position
  std::vector<size_t> want(n);
  for (size_t c = 0; c < n; ++c) want[c] = c;
  std::sort(want.begin(), want.end(), [&](size_t a, size_t b) {
    if (val[a] != val[b]) return val[a] < val[b];
    if (dim[a] != dim[b]) return dim[a] < dim[b];
    return a < b;
  });
  auto&& r0 = cc.filtration_simplex_range();
  std::vector<size_t> got(r0.begin(), r0.end());
  VF_CHECK(got.size() == n, "cubical-order-size", "range lists " << got.size() << " cells of " << n);
  std::vector<size_t> pos(n, n);
  for (size_t i = 0; i < n; ++i) {
    VF_CHECK(got[i] < n, "cubical-order-unknown-cell", "cell " << got[i]);
    VF_CHECK(pos[got[i]] == n, "cubical-order-duplicate", "cell " << got[i] << " listed twice");
    pos[got[i]] = i;
    if (i) VF_CHECK(!(val[got[i]] < val[got[i - 1]]), "cubical-order-decreasing", "position " << i);
  }
  for (size_t c = 0; c < n; ++c)
    for (size_t f : cc.boundary_simplex_range(c)) {
      VF_CHECK(f < n, "cubical-boundary-out-of-range", "cell " << c);
      VF_CHECK(!(val[c] < val[f]), "cubical-filtration-not-monotone",
               "cell " << c << "@" << val[c] << " has the face " << f << "@" << val[f]);
      VF_CHECK(pos[f] < pos[c], "cubical-face-after-coface",
               "face " << f << " (position " << pos[f] << ") after cell " << c << " (position " << pos[c] << ")");
    }
  for (size_t i = 0; i < n; ++i)
    VF_CHECK(got[i] == want[i], "cubical-order-not-canonical",
             "position " << i << " holds cell " << got[i] << " (value " << val[got[i]] << ", dim " << dim[got[i]] << "), documented order has "
                         << want[i] << " (value " << val[want[i]] << ", dim " << dim[want[i]] << ")");
  for (size_t i = 0; i < n; ++i)
    VF_CHECK(cc.simplex(i) == want[i], "cubical-simplex-of-key", "simplex(" << i << ")");
  // re-computations
#ifdef GUDHI_USE_TBB
  static const int par[] = {1, 2, 4, 16, 3, 8};
  unsigned reps = large ? 6 : 2;
  for (unsigned k = 0; k < reps; ++k) {
    tbb::global_control gc(tbb::global_control::max_allowed_parallelism, size_t(par[k]));
    for (int rep = 0; rep < 2; ++rep) {
      cc.initialize_filtration();
      auto&& r = cc.filtration_simplex_range();
      VF_CHECK(r.size() == n && std::equal(r.begin(), r.end(), want.begin()), "cubical-order-not-reproducible",
               "tbb parallelism " << par[k]);
    }
  }
#else
  (void)large;
  cc.initialize_filtration();
  auto&& r = cc.filtration_simplex_range();
  VF_CHECK(r.size() == n && std::equal(r.begin(), r.end(), want.begin()), "cubical-order-not-reproducible", "second computation");
#endif
  // non-trivial: three cells of one dimension share a value
  {
    std::vector<std::pair<unsigned, double>> k;
    for (size_t c = 0; c < n; ++c) k.emplace_back(dim[c], val[c]);
    std::sort(k.begin(), k.end());
    for (size_t i = 2; i < k.size(); ++i)
      if (k[i] == k[i - 1] && k[i] == k[i - 2]) {
        ctx.mark_nontrivial();
        break;
      }
  }
}

void run(vf::Tape& t, vf::Ctx& ctx) {
  bool large = t.u8() >= 240;
  unsigned d = large ? 2 + t.below(2) : 1 + unsigned(t.weighted({3, 5, 3, 1}));
  std::vector<unsigned> sizes(d);
  size_t total = 1;
  for (unsigned i = 0; i < d; ++i) {
    if (large)
      sizes[i] = d == 2 ? 14 + t.below(24) : 5 + t.below(6);
    else
      sizes[i] = 1 + t.below(d >= 3 ? 4 : 6);
    total *= sizes[i];
  }
  static const double tab[] = {0, 1, 2, 0.5, 3, -1, 1.5, 4};
  unsigned np = 1 + t.below(4);
  std::vector<double> pal;
  for (unsigned i = 0; i < np; ++i) {
    unsigned k = t.below(9);
    pal.push_back(k == 8 ? std::numeric_limits<double>::infinity() : tab[(k + 3 * i) % 8]);
  }
  bool top = !t.chance(1, 3);
  bool periodic = t.chance(1, 3);
  std::vector<bool> per(d, false);
  if (periodic)
    for (unsigned i = 0; i < d; ++i) per[i] = t.flip();
  std::vector<double> cells(total);
  uint64_t h = 0;
  for (size_t i = 0; i < total; ++i) {
    if (large) {  // keyed expansion of a few tape bytes
      if (i % 16 == 0) h = (h ^ t.u8()) * 0x9E3779B97F4A7C15ULL + 0x1234567;
      h ^= h >> 29;
      h *= 0xBF58476D1CE4E5B9ULL;
      cells[i] = pal[(h >> 33) % pal.size()];
    } else {
      cells[i] = pal[t.below(uint32_t(pal.size()))];
    }
  }
  ctx.desc << "bitmap sizes";
  for (unsigned s : sizes) ctx.desc << " " << s;
  ctx.desc << (top ? " top-cells" : " vertices") << " periodic";
  for (bool b : per) ctx.desc << " " << b;
  ctx.desc << " palette";
  for (double v : pal) ctx.desc << " " << v;
  ctx.desc << "\n values";
  for (size_t i = 0; i < std::min<size_t>(total, 400); ++i) ctx.desc << " " << cells[i];
  if (total > 400) ctx.desc << " ... (" << total << ")";
  ctx.desc << "\n";
  if (periodic) {
    Periodic cc(sizes, cells, per, top);
    check(cc, ctx, large);
    ctx.hit("cubical:periodic");
  } else {
    Plain cc(sizes, cells, top);
    check(cc, ctx, large);
    ctx.hit("cubical:plain");
  }
  ctx.hit(large ? "cubical:large" : "cubical:small");
  ctx.hit(top ? "cubical:top-cells" : "cubical:vertices");
}

}  // namespace c03c

namespace vf {
#ifdef GUDHI_USE_TBB
const char* harness_name() { return "C03/cubical+tbb"; }
#else
const char* harness_name() { return "C03/cubical"; }
#endif
void run_case(Tape& t, Ctx& ctx) { c03c::run(t, ctx); }
}  // namespace vf
