// C03: filtration order and filtration-value maintenance are valid and deterministic.
// One option set per binary (-DCFG=n), optionally built with -DGUDHI_USE_TBB (-ltbb).
//
// Modes (first tape byte): order (small complexes, many ties), order-large (flag complexes of several thousand
// simplices, beyond tbb::parallel_sort's serial cut-off of 500 elements), make_filtration_non_decreasing,
// prune_above_filtration, extended filtration.
//
// Cross-history / cross-option / cross-build determinism: every binary decodes the same tape to the same filtered
// complex and asserts that filtration_simplex_range() equals the order defined on the *model*: filtration value, ties
// by the documented reverse lexicographic order (initialize_filtration(): "Two simplices with same filtration value
// are ordered by a reverse lexicographic order", i.e. vertex lists read in decreasing order, a proper prefix first).
// Equality with a model-defined sequence in every binary, for every history, thread count and repetition implies
// equality between all of them.
#include "vf.h"
#include "complex.h"
#include "../C04/st_compare.h"

#include <gudhi/Simplex_tree.h>
#include <gudhi/graph_simplicial_complex.h>

#ifdef GUDHI_USE_TBB
#include <tbb/global_control.h>
#endif

#include <algorithm>
#include <climits>
#include <cmath>
#include <limits>
#include <map>
#include <set>
#include <stdexcept>
#include <vector>

#ifndef CFG
#define CFG 0
#endif

namespace c03 {

struct Opt_float : Gudhi::Simplex_tree_options_default {
  typedef float Filtration_value;
};
struct Opt_stable : Gudhi::Simplex_tree_options_default {
  static const bool stable_simplex_handles = true;
};

#ifdef GUDHI_USE_TBB
#define C03_TBB_SUFFIX "+tbb"
#else
#define C03_TBB_SUFFIX ""
#endif

#if CFG == 0
typedef Gudhi::Simplex_tree_options_default Opt;
static const char* kName = "C03[default" C03_TBB_SUFFIX "]";
#elif CFG == 1
typedef Gudhi::Simplex_tree_options_full_featured Opt;
static const char* kName = "C03[full_featured" C03_TBB_SUFFIX "]";
#elif CFG == 2
typedef Opt_float Opt;
static const char* kName = "C03[float" C03_TBB_SUFFIX "]";
#elif CFG == 3
typedef Opt_stable Opt;
static const char* kName = "C03[stable" C03_TBB_SUFFIX "]";
#else
#error "unknown CFG"
#endif

typedef Gudhi::Simplex_tree<Opt> ST;
typedef ST::Vertex_handle VH;
typedef ST::Filtration_value FV;
typedef ST::Simplex_handle SH;
static const double kInf = std::numeric_limits<double>::infinity();
static const double kTol = std::is_same<FV, float>::value ? 1e-4 : 1e-9;

typedef std::pair<ref::Simplex, double> Entry;

// value, then reverse lexicographic order on the vertex lists (read from the largest vertex down; a prefix first)
inline bool canonical_before(const Entry& a, const Entry& b) {
  if (a.second != b.second) return a.second < b.second;
  return std::lexicographical_compare(a.first.rbegin(), a.first.rend(), b.first.rbegin(), b.first.rend());
}

inline std::vector<Entry> canonical_order(const ref::Complex& c, bool ignore_infinite) {
  std::vector<Entry> v;
  for (auto& kv : c.s)
    if (!(ignore_infinite && kv.second == kInf)) v.push_back(kv);
  std::sort(v.begin(), v.end(), canonical_before);
  for (size_t i = 1; i < v.size(); ++i)
    VF_ORACLE(canonical_before(v[i - 1], v[i]) && !canonical_before(v[i], v[i - 1]), "canonical order is not strict");
  return v;
}

inline uint64_t mix(uint64_t x) {
  x += 0x9E3779B97F4A7C15ULL;
  x = (x ^ (x >> 30)) * 0xBF58476D1CE4E5B9ULL;
  x = (x ^ (x >> 27)) * 0x94D049BB133111EBULL;
  return x ^ (x >> 31);
}

// clique complex up to max_dim, stopping before the level that would push the size over `cap`
inline ref::Complex capped_clique_complex(const ref::Graph& g, int max_dim, size_t cap, bool* truncated) {
  *truncated = false;
  ref::Complex c;
  std::vector<ref::Vertex> vs;
  for (auto& kv : g.vertices) vs.push_back(kv.first);
  std::map<ref::Vertex, std::set<ref::Vertex>> up;  // larger neighbours
  for (auto& kv : g.edges) up[kv.first.first].insert(kv.first.second);
  std::vector<ref::Simplex> frontier;
  for (auto v : vs) {
    c.s[{v}] = g.vertices.at(v);
    frontier.push_back({v});
  }
  for (int dim = 0; dim < max_dim && !frontier.empty(); ++dim) {
    std::vector<std::pair<ref::Simplex, double>> next;
    bool over = false;
    for (auto& x : frontier) {
      for (auto v : up[x[0]]) {
        if (v <= x.back()) continue;
        bool adj = true;
        for (auto u : x) adj = adj && g.has_edge(u, v);
        if (!adj) continue;
        ref::Simplex y = x;
        y.push_back(v);
        double val = std::max(c.s.at(x), g.vertices.at(v));
        for (auto u : x) val = std::max(val, g.edge_value(u, v));
        next.emplace_back(y, val);
        if (c.size() + next.size() > cap) {
          over = true;
          break;
        }
      }
      if (over) break;
    }
    frontier.clear();
    for (auto& kv : next) {
      c.s[kv.first] = kv.second;  // a truncated level is still face-closed (all faces are in the lower levels)
      frontier.push_back(kv.first);
    }
    if (over) {
      *truncated = true;
      break;
    }
  }
  return c;
}

struct Case {
  vf::Tape& t;
  vf::Ctx& ctx;
  Case(vf::Tape& tape, vf::Ctx& c) : t(tape), ctx(c) {}

  // ------------------------------------------------------------------------------------------ generators
  std::vector<double> draw_palette(bool allow_inf, bool allow_neg_inf = false) {
    static const double tab[] = {0, 1, 2, 0.5, 3, -1, 1.5, 4, 0.25, -2.5, 6, 8};
    std::vector<double> pal;
    static const unsigned np_table[] = {2, 3, 4, 1};
    unsigned np = np_table[t.below(4)];
    for (unsigned i = 0; i < np; ++i) {
      unsigned k = t.below(16);
      double v;
      if (k < 12)
        v = tab[(k + 3 * i) % 12];  // an exhausted tape still yields distinct values
      else if (k < 14)
        v = allow_inf ? kInf : tab[k - 12];
      else if (k == 14)
        v = allow_neg_inf ? -kInf : tab[k - 10];
      else
        v = tab[3];
      pal.push_back(v);
    }
    return pal;
  }

  std::vector<ref::Vertex> draw_labels(unsigned n, bool allow_extreme) {
    std::vector<ref::Vertex> labels;
    unsigned lm = unsigned(t.weighted({5, 4, 2, 1}));
    if (lm == 3 && !allow_extreme) lm = 1;
    if (lm == 0) {
      for (unsigned i = 0; i < n; ++i) labels.push_back(i);
    } else if (lm == 1) {
      long long cur = t.below(5);
      for (unsigned i = 0; i < n; ++i) {
        labels.push_back(cur);
        cur += 1 + t.below(8);
      }
    } else if (lm == 2) {
      long long cur = -40 + (long long)t.below(30);
      for (unsigned i = 0; i < n; ++i) {
        if (cur == -1) cur = 0;  // -1 is null_vertex()
        labels.push_back(cur);
        cur += 1 + t.below(12);
      }
    } else {
      long long lo = std::numeric_limits<VH>::min(), hi = std::numeric_limits<VH>::max();
      unsigned nlow = t.below(n + 1);
      for (unsigned i = 0; i < nlow; ++i) labels.push_back(lo + i);
      for (unsigned i = nlow; i < n; ++i) labels.push_back(hi - 1 - (n - 1 - i));  // hi itself is kept for the extended-filtration refusal
    }
    return labels;
  }

  // closed complex on <= 8 vertices (values all 0); maximal simplices from tape masks
  ref::Complex draw_small_shape(bool allow_extreme_labels, std::vector<ref::Vertex>* labels_out = nullptr) {
    static const unsigned n_table[] = {1, 4, 5, 6, 3, 7, 8, 2, 5, 6};
    unsigned n = n_table[t.below(10)];
    std::vector<ref::Vertex> labels = draw_labels(n, allow_extreme_labels);
    ref::Complex c;
    for (auto l : labels) c.s[{l}] = 0;
    static const unsigned nmax_table[] = {2, 3, 1, 4, 5, 6, 3, 8, 4, 2};
    unsigned nmax = nmax_table[t.below(10)];
    for (unsigned k = 0; k < nmax; ++k) {
      unsigned mask = t.u8() ^ (0x0Fu << (2 * k % 5));  // an exhausted tape still yields overlapping simplices
      ref::Simplex s;
      for (unsigned i = 0; i < n; ++i)
        if (mask >> i & 1) s.push_back(labels[i]);
      if (s.size() > 5) s.resize(5);
      if (s.empty()) continue;
      for (auto& f : ref::all_faces(s)) c.s[f] = 0;
    }
    if (labels_out) *labels_out = labels;
    return c;
  }

  // monotone values with many ties
  void assign_monotone(ref::Complex& c, const std::vector<double>& pal) {
    unsigned style = unsigned(t.weighted({6, 3, 1}));  // 0 generic monotone, 1 lower-star of vertex values, 2 constant
    std::vector<ref::Simplex> by_dim = c.simplices();
    std::stable_sort(by_dim.begin(), by_dim.end(),
                     [](const ref::Simplex& x, const ref::Simplex& y) { return x.size() < y.size(); });
    for (auto& s : by_dim) {
      double v = pal[0];
      if (style == 0 || (style == 1 && s.size() == 1)) v = pal[t.below(uint32_t(pal.size()))];
      if (style == 1 && s.size() > 1) v = -kInf;
      for (auto& f : ref::facets(s)) v = std::max(v, c.s.at(f));
      c.s[s] = v;
    }
    VF_ORACLE(c.is_monotone() && c.is_closed(), "generator produced a non-monotone complex");
  }

  void describe(const ref::Complex& c, const char* what) {
    ctx.desc << what << " (" << c.size() << " simplices):";
    stc::describe(ctx.desc, c, 300);
  }

  // large flag complex of a hashed random graph (the tape gives size, density, salt and the palette)
  ref::Complex draw_large(ref::Graph* graph_out, int* dim_out, bool* truncated) {
    unsigned n = 22 + t.below(24);
    unsigned dens = 35 + t.below(60);  // percent
    uint64_t salt = t.u32();
    int d = 2 + int(t.below(4));
    size_t cap = 1500 + 500 * t.below(12);
    std::vector<double> pal = draw_palette(true);
    bool edge_valued = t.flip();
    ref::Graph g;
    for (unsigned i = 0; i < n; ++i) g.vertices[i] = edge_valued ? pal[0] : pal[mix(salt * 1000003 + i) % pal.size()];
    for (unsigned i = 0; i < n; ++i)
      for (unsigned j = i + 1; j < n; ++j) {
        uint64_t h = mix(salt ^ mix(uint64_t(i) * 4096 + j));
        if (h % 100 < dens) {
          double v = std::max(g.vertices[i], g.vertices[j]);
          if (edge_valued) v = std::max(v, pal[(h >> 20) % pal.size()]);
          g.edges[{i, j}] = v;
        }
      }
    ref::Complex c = capped_clique_complex(g, d, cap, truncated);
    VF_ORACLE(c.is_closed() && c.is_monotone(), "large generator produced an invalid filtered complex");
    ctx.desc << "large flag complex: n=" << n << " density=" << dens << "% salt=" << salt << " max_dim=" << d << " cap=" << cap
             << " values=" << (edge_valued ? "edges" : "vertices") << " palette";
    for (double v : pal) ctx.desc << " " << stc::fmt(v);
    ctx.desc << " -> " << c.size() << " simplices, dimension " << c.dimension() << "\n";
    if (graph_out) *graph_out = g;
    if (dim_out) *dim_out = c.dimension();
    return c;
  }

  // ------------------------------------------------------------------------------------------ histories
  std::vector<ref::Simplex> shuffled(std::vector<ref::Simplex> v) {
    // keyed shuffle: one tape byte per block of 8 items keeps the tape short for large complexes
    std::vector<std::pair<uint64_t, size_t>> key(v.size());
    uint64_t cur = 0;
    for (size_t i = 0; i < v.size(); ++i) {
      if (i % 8 == 0) cur = mix(cur ^ t.u8());
      key[i] = {mix(cur + i), i};
    }
    std::sort(key.begin(), key.end());
    std::vector<ref::Simplex> r;
    for (auto& k : key) r.push_back(v[k.second]);
    return r;
  }

  void maybe_touch_cache(ST& st) {
    // intermediate initialisations / clears of the cache must not influence the final order
    unsigned k = t.below(8);
    if (k == 1) st.initialize_filtration();
    if (k == 2) st.clear_filtration();
    if (k == 3) {
      st.clear_filtration();
      (void)st.filtration_simplex_range();
    }
  }

  // Builds `st` equal to the monotone filtered complex `c` by one of several insertion histories.
  void build(ST& st, const ref::Complex& c, unsigned history, const ref::Graph* flag_graph, int flag_dim) {
    bool large = c.size() > 400;
    if (history == 0) {
      ctx.desc << " history: insert_simplex_and_subfaces of every simplex, lexicographic order\n";
      size_t k = 0;
      for (auto& kv : c.s) {
        st.insert_simplex_and_subfaces(stc::to_handles<ST>(kv.first), FV(kv.second));
        if (!large || (++k % 512) == 0) maybe_touch_cache(st);
      }
    } else if (history == 1) {
      ctx.desc << " history: insert_simplex one by one, faces first, shuffled inside each dimension\n";
      std::vector<ref::Simplex> v = shuffled(c.simplices());
      std::stable_sort(v.begin(), v.end(), [](const ref::Simplex& x, const ref::Simplex& y) { return x.size() < y.size(); });
      size_t k = 0;
      for (auto& s : v) {
        auto r = st.insert_simplex(stc::to_handles<ST>(s), FV(c.value(s)));
        VF_CHECK(r.second, "build-insert", "insert_simplex(" << ref::to_string(s) << ") reports an existing simplex");
        if (!large || (++k % 512) == 0) maybe_touch_cache(st);
      }
    } else if (history == 2) {
      ctx.desc << " history: insert_simplex_and_subfaces of every simplex, shuffled order\n";
      std::vector<ref::Simplex> v = shuffled(c.simplices());
      size_t k = 0;
      for (auto& s : v) {
        st.insert_simplex_and_subfaces(stc::to_handles<ST>(s), FV(c.value(s)));
        if (!large || (++k % 512) == 0) maybe_touch_cache(st);
      }
    } else if (history == 3) {
      ctx.desc << " history: maximal simplices with a dummy value, then assign_filtration everywhere (shuffled)\n";
      for (auto& s : c.maximal_simplices()) st.insert_simplex_and_subfaces(stc::to_handles<ST>(s), FV(7));
      maybe_touch_cache(st);
      for (auto& s : shuffled(c.simplices())) {
        SH sh = st.find(stc::to_handles<ST>(s));
        VF_CHECK(sh != st.null_simplex(), "build-find", "find(" << ref::to_string(s) << ") is null");
        st.assign_filtration(sh, FV(c.value(s)));
      }
    } else {
      VF_ORACLE(flag_graph != nullptr, "history 4 needs a graph");
      ctx.desc << " history: insert_graph + expansion(" << flag_dim << ")\n";
      typedef boost::adjacency_list<boost::vecS, boost::vecS, boost::directedS,
                                    boost::property<Gudhi::vertex_filtration_t, FV>,
                                    boost::property<Gudhi::edge_filtration_t, FV>>
          BG;
      BG bg(flag_graph->vertices.size());
      for (auto& kv : flag_graph->vertices) boost::put(Gudhi::vertex_filtration_t(), bg, size_t(kv.first), FV(kv.second));
      for (auto& kv : flag_graph->edges) boost::add_edge(size_t(kv.first.first), size_t(kv.first.second), FV(kv.second), bg);
      st.insert_graph(bg);
      maybe_touch_cache(st);
      st.expansion(flag_dim);
    }
    // the cache is stale after insertions / assignments: the documentation asks for clear_filtration() or
    // initialize_filtration() before the range is read again
    if (t.flip())
      st.clear_filtration();
    else
      st.initialize_filtration();
  }

  // ------------------------------------------------------------------------------------------ the order oracle
  void check_order_once(const ST& st, const ref::Complex& model, const std::vector<Entry>& want, const std::string& where) {
    auto&& range = st.filtration_simplex_range();
    std::vector<Entry> got;
    got.reserve(want.size());
    for (SH sh : range) got.emplace_back(stc::vertices_of(st, sh), double(st.filtration(sh)));
    // validity
    std::map<ref::Simplex, size_t> pos;
    for (size_t i = 0; i < got.size(); ++i) {
      VF_CHECK(model.contains(got[i].first), "order-unknown-simplex", where << ": " << ref::to_string(got[i].first) << " is not in the complex");
      VF_CHECK(pos.emplace(got[i].first, i).second, "order-duplicate", where << ": " << ref::to_string(got[i].first) << " listed twice");
      VF_CHECK(stc::same_value(got[i].second, model.value(got[i].first), 0.0), "order-value",
               where << ": value of " << ref::to_string(got[i].first));
      if (i) VF_CHECK(!(got[i].second < got[i - 1].second), "order-decreasing",
                      where << ": position " << i << " " << ref::to_string(got[i].first) << "@" << stc::fmt(got[i].second) << " after "
                            << ref::to_string(got[i - 1].first) << "@" << stc::fmt(got[i - 1].second));
    }
    VF_CHECK(got.size() == want.size(), "order-not-a-permutation",
             where << ": range lists " << got.size() << " simplices, expected " << want.size());
    for (size_t i = 0; i < got.size(); ++i)
      for (auto& f : ref::facets(got[i].first)) {
        auto it = pos.find(f);
        VF_CHECK(it != pos.end(), "order-face-missing", where << ": face " << ref::to_string(f) << " of " << ref::to_string(got[i].first) << " not listed");
        VF_CHECK(it->second < i, "order-face-after-coface",
                 where << ": " << ref::to_string(f) << " (position " << it->second << ") after its coface " << ref::to_string(got[i].first)
                       << " (position " << i << ")");
      }
    // determinism: the sequence is the canonical one
    for (size_t i = 0; i < got.size(); ++i)
      VF_CHECK(got[i].first == want[i].first, "order-not-canonical",
               where << ": position " << i << " holds " << ref::to_string(got[i].first) << "@" << stc::fmt(got[i].second)
                     << ", the canonical order (value, then reverse lexicographic) has " << ref::to_string(want[i].first) << "@"
                     << stc::fmt(want[i].second));
  }

  // all re-computations of the cache must give the same sequence
  void check_order(ST& st, const ref::Complex& model, const std::string& where) {
    std::vector<Entry> want = canonical_order(model, false);
    check_order_once(st, model, want, where + " (as built)");
    // Simplex handles stay valid while the complex is not modified: later re-computations are compared handle by handle
    std::vector<SH> first(st.filtration_simplex_range().begin(), st.filtration_simplex_range().end());
    auto same_as_first = [&](const std::string& what) {
      auto&& r = st.filtration_simplex_range();
      bool same = r.size() == first.size() && std::equal(r.begin(), r.end(), first.begin());
      if (!same) check_order_once(st, model, want, where + what);  // names the first difference with the canonical order
      VF_CHECK(same, "order-not-reproducible", where << what << ": sequence differs from the first computation");
    };
    st.initialize_filtration();
    same_as_first(" (initialize_filtration)");
#ifdef GUDHI_USE_TBB
    static const int par[] = {1, 2, 4, 16, 3, 8};
    unsigned reps = model.size() > 400 ? 6 : 2;
    for (unsigned k = 0; k < reps; ++k) {
      tbb::global_control gc(tbb::global_control::max_allowed_parallelism, size_t(par[k]));
      for (int r = 0; r < 2; ++r) {
        st.initialize_filtration();
        same_as_first(" (tbb parallelism " + std::to_string(par[k]) + ")");
      }
    }
    ctx.hit("order:tbb-recomputations", 2 * reps);
#else
    st.clear_filtration();
    same_as_first(" (clear_filtration + range)");
#endif
    // the variant that ignores infinite values
    std::vector<Entry> finite = canonical_order(model, true);
    if (finite.size() != want.size()) {
      ctx.hit("order:ignore-infinite");
      if (finite.empty() && ctx.excluded("C03-ignore-infinite-all")) {
        ctx.hit("excluded:C03-ignore-infinite-all");
      } else {
        st.initialize_filtration(true);
        ref::Complex fin;
        for (auto& e : finite) fin.s[e.first] = e.second;
        check_order_once(st, fin, finite, where + " (initialize_filtration(ignore_infinite_values))");
      }
      st.initialize_filtration();
    }
  }

  bool has_triple_tie(const ref::Complex& c) {
    std::map<std::pair<size_t, double>, int> cnt;  // simplices of the same dimension are pairwise incomparable
    for (auto& kv : c.s)
      if (++cnt[{kv.first.size(), kv.second}] >= 3) return true;
    return false;
  }

  // ------------------------------------------------------------------------------------------ modes
  void run_order_small() {
    ref::Complex c = draw_small_shape(true);
    std::vector<double> pal = draw_palette(true);
    assign_monotone(c, pal);
    describe(c, "complex");
    unsigned nh = 1 + t.below(2);
    for (unsigned k = 0; k < nh; ++k) {
      ST st;
      unsigned h = (t.below(4) + 1 + k) % 4;
      build(st, c, h, nullptr, 0);
      stc::compare(st, c, ctx, "build", "history " + std::to_string(h));
      check_order(st, c, "history " + std::to_string(h));
      ctx.hit("order:history" + std::to_string(h));
    }
    ctx.hit("mode:order-small");
    if (has_triple_tie(c)) ctx.mark_nontrivial();
  }

  void run_order_large() {
    ref::Graph g;
    int d = 0;
    bool truncated = false;
    ref::Complex c = draw_large(&g, &d, &truncated);
    unsigned h = t.below(5);
    if (h == 4 && (d < 2 || truncated)) h = 2;
    ST st;
    build(st, c, h, &g, d);
    stc::compare(st, c, ctx, "build", "large history " + std::to_string(h));
    check_order(st, c, "large history " + std::to_string(h));
    ctx.hit("order:large-history" + std::to_string(h));
    ctx.hit(c.size() > 500 ? "mode:order-large(>500)" : "mode:order-large(<=500)");
    if (c.size() >= 2000) ctx.hit("order:size>=2000");
    if (has_triple_tie(c)) ctx.mark_nontrivial();
  }

  void run_mfnd() {
    ref::Complex c = draw_small_shape(true);
    std::vector<double> pal = draw_palette(true, true);
    unsigned style = t.below(4);  // 0..2 arbitrary values, 3 already monotone
    if (style == 3) {
      assign_monotone(c, pal);
    } else {
      for (auto& kv : c.s) kv.second = pal[t.below(uint32_t(pal.size()))];
    }
    describe(c, "values before make_filtration_non_decreasing");
    ST st;
    if (t.flip()) {
      ctx.desc << " history: maximal simplices, then assign_filtration\n";
      for (auto& s : c.maximal_simplices()) st.insert_simplex_and_subfaces(stc::to_handles<ST>(s), FV(0));
      for (auto& s : shuffled(c.simplices())) st.assign_filtration(st.find(stc::to_handles<ST>(s)), FV(c.value(s)));
    } else {
      ctx.desc << " history: insert_simplex faces first with the (non-monotone) values\n";
      std::vector<ref::Simplex> v = shuffled(c.simplices());
      std::stable_sort(v.begin(), v.end(), [](const ref::Simplex& x, const ref::Simplex& y) { return x.size() < y.size(); });
      for (auto& s : v) st.insert_simplex(stc::to_handles<ST>(s), FV(c.value(s)));
    }
    st.clear_filtration();
    stc::compare(st, c, ctx, "build", "before make_filtration_non_decreasing");
    // brute force: the least monotone function above the input
    ref::Complex want;
    bool changed = false, raised_nonvertex = false;
    for (auto& kv : c.s) {
      double m = kv.second;
      for (auto& f : ref::all_faces(kv.first)) m = std::max(m, c.value(f));
      want.s[kv.first] = m;
      if (m != kv.second) {
        changed = true;
        if (kv.first.size() > 1) raised_nonvertex = true;
      }
    }
    VF_ORACLE(want.is_monotone(), "mfnd model not monotone");
    VF_ORACLE(changed == raised_nonvertex, "mfnd model changed a vertex");
    bool r = st.make_filtration_non_decreasing();
    VF_CHECK(r == changed, "mfnd-return", "make_filtration_non_decreasing returned " << r << ", values changed: " << changed);
    stc::compare(st, want, ctx, "mfnd", "after make_filtration_non_decreasing");
    check_order(st, want, "after make_filtration_non_decreasing");
    bool r2 = st.make_filtration_non_decreasing();
    VF_CHECK(!r2, "mfnd-idempotent-return", "second make_filtration_non_decreasing returned true");
    stc::compare(st, want, ctx, "mfnd2", "after the second make_filtration_non_decreasing");
    ctx.hit("mode:mfnd");
    ctx.hit(changed ? "mfnd:changed" : "mfnd:unchanged");
    if (changed) ctx.mark_nontrivial();
  }

  // Puts the filtration cache of `st` in the chosen state before a prune; may grow `cur` (stale cache, +inf vertex) and
  // may move the threshold onto the value where a partial / stale cache ends. Returns the threshold to use.
  double prepare_cache_for_prune(ST& st, ref::Complex& cur, unsigned cache_state, double thr) {
    auto largest_finite = [](const ref::Complex& c, bool* found) {
      double m = -kInf;
      *found = false;
      for (auto& kv : c.s)
        if (kv.second != kInf && kv.second != -kInf) {
          m = std::max(m, kv.second);
          *found = true;
        }
      return m;
    };
    auto fresh_label = [](const ref::Complex& c) {
      ref::Vertex w = 0;
      while (c.contains({w})) ++w;
      return w;
    };
    auto revlex_before = [&st](SH a, SH b) {
      auto ra = st.simplex_vertex_range(a);
      auto rb = st.simplex_vertex_range(b);
      return std::lexicographical_compare(ra.begin(), ra.end(), rb.begin(), rb.end());
    };
    if (cache_state == 0) {
      st.clear_filtration();
      ctx.desc << " cache: none\n";
      ctx.hit("prune-cache:none");
      return thr;
    }
    if (cache_state == 1) {
      (void)st.filtration_simplex_range();
      ctx.desc << " cache: complete\n";
      ctx.hit("prune-cache:complete");
      return thr;
    }
    bool found = false;
    double top = largest_finite(cur, &found);
    bool to_boundary = t.flip();
    if (cache_state == 2) {
      // initialize_filtration(ignore_infinite_values = true) with +inf simplices present
      bool has_inf = false, has_finite = false;
      for (auto& kv : cur.s) (kv.second == kInf ? has_inf : has_finite) = true;
      if (!has_inf && t.flip()) {
        ref::Vertex w = fresh_label(cur);
        st.insert_simplex(stc::to_handles<ST>({w}), FV(kInf));
        cur.s[{w}] = kInf;
        has_inf = true;
        ctx.desc << " insert {" << w << "}@inf\n";
      }
      if (!has_finite && !cur.empty() && ctx.excluded("C03-ignore-infinite-all")) {
        ctx.hit("excluded:C03-ignore-infinite-all");
        st.initialize_filtration();
      } else {
        st.initialize_filtration(true);
        std::vector<Entry> finite = canonical_order(cur, true);
        ref::Complex fin;
        for (auto& e : finite) fin.s[e.first] = e.second;
        check_order_once(st, fin, finite, "cache without the infinite simplices");
      }
      ctx.desc << " cache: initialize_filtration(ignore_infinite_values)\n";
      ctx.hit(has_inf ? "prune-cache:ignore-infinite(some inf)" : "prune-cache:ignore-infinite(no inf)");
      if (to_boundary && found) thr = top;  // the last cached value: the +inf simplices must still go
      return thr;
    }
    if (cache_state == 3) {
      // a cache computed before further insertions of larger values: stale, but prune is still a valid call
      (void)st.filtration_simplex_range();
      double big = (found ? top : 0.0) + 1.0;
      if (t.chance(1, 4)) big = kInf;
      ref::Vertex w = fresh_label(cur);
      st.insert_simplex(stc::to_handles<ST>({w}), FV(big));
      cur.s[{w}] = big;
      ctx.desc << " cache: complete, then insert {" << w << "}@" << stc::fmt(big);
      std::vector<ref::Vertex> vs = cur.vertices();
      unsigned nedges = t.below(3);
      for (unsigned i = 0; i < nedges && vs.size() > 1; ++i) {
        ref::Vertex v = vs[t.below(uint32_t(vs.size()))];
        if (v == w) continue;
        ref::Simplex e = ref::make_simplex({v, w});
        if (cur.contains(e)) continue;
        double val = std::max(big, cur.value({v}));
        st.insert_simplex(stc::to_handles<ST>(e), FV(val));
        cur.s[e] = val;
        ctx.desc << " " << ref::to_string(e) << "@" << stc::fmt(val);
      }
      ctx.desc << " (cache now stale)\n";
      VF_ORACLE(cur.is_closed() && cur.is_monotone(), "stale-cache insertions broke the model");
      ctx.hit("prune-cache:stale");
      if (to_boundary && found) thr = top;  // the last value the stale cache knows: the later simplices must still go
      return thr;
    }
    if (cache_state == 4) {
      // custom order: dimension first, then value, then reverse lexicographic (a valid filtration order of f = dimension)
      auto cmp = [&](SH a, SH b) {
        int da = st.dimension(a), db = st.dimension(b);
        if (da != db) return da < db;
        if (!(st.filtration(a) == st.filtration(b))) return st.filtration(a) < st.filtration(b);
        return revlex_before(a, b);
      };
      st.initialize_filtration(cmp, [](SH) { return false; });
      std::vector<Entry> want;
      for (auto& kv : cur.s) want.push_back(kv);
      std::sort(want.begin(), want.end(), [](const Entry& a, const Entry& b) {
        if (a.first.size() != b.first.size()) return a.first.size() < b.first.size();
        return canonical_before(a, b);
      });
      auto&& r = st.filtration_simplex_range();
      VF_CHECK(size_t(r.size()) == want.size(), "custom-order-size", "custom comparator: " << r.size() << " simplices listed");
      size_t i = 0;
      for (SH sh : r) {
        VF_CHECK(stc::vertices_of(st, sh) == want[i].first, "custom-order", "custom comparator (dimension, value, revlex): position " << i);
        ++i;
      }
      ctx.desc << " cache: initialize_filtration(by dimension then value, nothing ignored)\n";
      ctx.hit("prune-cache:custom-comparator");
      return thr;
    }
    // custom ignorer: everything above a cut value is left out (the rest is a sub-complex, hence a valid filtration)
    double cut = top;
    if (!cur.empty()) {
      auto it = cur.s.begin();
      std::advance(it, t.below(uint32_t(cur.size())));
      cut = it->second;
    }
    auto cmp = [&](SH a, SH b) {
      if (!(st.filtration(a) == st.filtration(b))) return st.filtration(a) < st.filtration(b);
      return revlex_before(a, b);
    };
    size_t kept = 0;
    for (auto& kv : cur.s) kept += kv.second <= cut;
    if (kept == 0 && !cur.empty() && ctx.excluded("C03-ignore-infinite-all")) {
      ctx.hit("excluded:C03-ignore-infinite-all");
      st.initialize_filtration();
      return thr;
    }
    FV cutv = FV(cut);
    st.initialize_filtration(cmp, [&](SH sh) { return cutv < st.filtration(sh); });
    {
      ref::Complex sub;
      for (auto& kv : cur.s)
        if (kv.second <= cut) sub.s[kv.first] = kv.second;
      std::vector<Entry> want = canonical_order(sub, false);
      check_order_once(st, sub, want, "cache with a custom ignorer");
    }
    ctx.desc << " cache: initialize_filtration(default order, ignoring values > " << stc::fmt(cut) << ")\n";
    ctx.hit("prune-cache:custom-ignorer");
    if (to_boundary) thr = cut;  // the last cached value: the ignored simplices must still go
    return thr;
  }

  void run_prune() {
    ref::Complex c = draw_small_shape(true);
    std::vector<double> pal = draw_palette(true, false);
    assign_monotone(c, pal);
    describe(c, "complex");
    ST st;
    build(st, c, t.below(4), nullptr, 0);
    unsigned steps = 1 + t.below(3);
    ref::Complex cur = c;
    bool nt = false;
    for (unsigned k = 0; k < steps; ++k) {
      unsigned tk = t.below(8);
      double thr;
      if (tk <= 2 && !cur.empty()) {
        auto it = cur.s.begin();
        std::advance(it, t.below(uint32_t(cur.size())));
        thr = it->second;  // a value that occurs
      } else if (tk <= 3)
        thr = pal[t.below(uint32_t(pal.size()))];
      else if (tk == 4)
        thr = pal[t.below(uint32_t(pal.size()))] + 0.125;
      else if (tk == 5)
        thr = pal[t.below(uint32_t(pal.size()))] - 0.125;
      else if (tk == 6)
        thr = kInf;
      else
        thr = -kInf;
      // State of the filtration cache when the prune happens (the prune itself needs no cache and never reads it):
      // none / complete / without the +inf simplices / stale (built before later insertions) / custom order or ignorer.
      static const unsigned state_table[] = {0, 1, 3, 2, 4, 2, 3, 5};
      unsigned cache_state = state_table[t.u8() % 8];
      thr = prepare_cache_for_prune(st, cur, cache_state, thr);
      ctx.desc << " prune_above_filtration(" << stc::fmt(thr) << ")\n";
      ref::Complex want = cur;
      bool removed = want.prune_above_filtration(thr);
      VF_ORACLE(want.is_closed(), "sublevel set of a monotone function must be a complex");
      bool r = st.prune_above_filtration(FV(thr));
      VF_CHECK(r == removed, "prune-return", "prune_above_filtration(" << stc::fmt(thr) << ") returned " << r << ", simplices removed: " << removed);
      stc::compare(st, want, ctx, "prune", "after prune_above_filtration(" + stc::fmt(thr) + ")");
      // the prune drops the cache itself when it removed something; otherwise a complete cache is still right.
      // Partial, stale and custom caches are refreshed by the caller, as the documentation asks.
      if (cache_state >= 2) {
        if (t.flip())
          st.clear_filtration();
        else
          st.initialize_filtration();
      }
      std::vector<Entry> order = canonical_order(want, false);
      check_order_once(st, want, order, "after prune_above_filtration(" + stc::fmt(thr) + ")");
      if (removed && !want.empty()) nt = true;
      ctx.hit(removed ? (want.empty() ? "prune:everything" : "prune:proper-part") : "prune:nothing");
      cur = want;
    }
    ctx.hit("mode:prune");
    if (nt) ctx.mark_nontrivial();
  }

  void run_extended() {
    std::vector<ref::Vertex> labels;
    ref::Complex c = draw_small_shape(true, &labels);
    if (!c.empty() && c.vertices().back() == -2 && ctx.excluded("C03-extended-cone-null-vertex")) {
      // known finding: the cone point would get the label -1 == null_vertex(); move the top vertex to 0 instead
      ctx.hit("excluded:C03-extended-cone-null-vertex");
      ref::Complex moved;
      for (auto& kv : c.s) {
        ref::Simplex s = kv.first;
        for (auto& v : s)
          if (v == -2) v = 0;
        moved.s[ref::make_simplex(s)] = kv.second;
      }
      c = moved;
    }
    std::vector<double> pal = draw_palette(false);
    // vertex function from the palette; the other values are irrelevant by the documentation: give them anything
    for (auto& kv : c.s) kv.second = pal[t.below(uint32_t(pal.size()))];
    bool refuse = t.below(24) == 23;
    ST st;
    if (refuse) {
      // a vertex with the largest Vertex_handle: documented std::invalid_argument in debug mode
      ref::Vertex top = std::numeric_limits<VH>::max();
      c.s[{top}] = pal[0];
    }
    describe(c, "complex before extend_filtration");
    for (auto& s : c.maximal_simplices()) st.insert_simplex_and_subfaces(stc::to_handles<ST>(s), FV(0));
    for (auto& kv : c.s) st.assign_filtration(st.find(stc::to_handles<ST>(kv.first)), FV(kv.second));
    st.clear_filtration();
    if (refuse) {
      bool threw = false;
      try {
        st.extend_filtration();
      } catch (const std::invalid_argument&) {
        threw = true;
      }
      VF_CHECK(threw, "extended-no-refusal", "extend_filtration accepted a complex containing the largest Vertex_handle");
      ctx.hit("extended:refusal");
      return;
    }
    double lo = kInf, hi = -kInf;
    ref::Vertex maxv = std::numeric_limits<ref::Vertex>::min();
    for (auto& kv : c.s)
      if (kv.first.size() == 1) {
        lo = std::min(lo, kv.second);
        hi = std::max(hi, kv.second);
        maxv = std::max(maxv, kv.first[0]);
      }
    auto efd = st.extend_filtration();
    // the cone point is "an extra vertex": the only vertex of the result that the input did not have
    ref::Vertex omega = 0;
    {
      std::vector<ref::Vertex> fresh;
      for (auto v : st.complex_vertex_range())
        if (!c.contains({ref::Vertex(v)})) fresh.push_back(ref::Vertex(v));
      VF_CHECK(fresh.size() == 1, "extended-cone-point", "extend_filtration created " << fresh.size() << " new vertices");
      omega = fresh[0];
      VF_CHECK(omega != ref::Vertex(st.null_vertex()), "extended-cone-point-null", "the cone point is null_vertex()");
    }
    (void)maxv;
    auto scaled = [&](ref::Vertex v) { return hi == lo ? 0.0 : (c.value({v}) - lo) / (hi - lo); };
    ref::Complex want;
    std::map<ref::Simplex, std::pair<double, int>> origin;  // simplex -> (original vertex value, 0 UP / 1 DOWN / 2 EXTRA)
    want.s[{omega}] = -3;
    origin[{omega}] = {0, 2};
    for (auto& kv : c.s) {
      double mx = -kInf, mn = kInf, vmx = -kInf, vmn = kInf;
      for (auto v : kv.first) {
        mx = std::max(mx, scaled(v));
        mn = std::min(mn, scaled(v));
        vmx = std::max(vmx, c.value({v}));
        vmn = std::min(vmn, c.value({v}));
      }
      want.s[kv.first] = -2 + mx;  // ascending lower-star
      origin[kv.first] = {vmx, 0};
      ref::Simplex cone = kv.first;
      cone.push_back(omega);
      cone = ref::make_simplex(cone);
      want.s[cone] = 2 - mn;  // descending upper-star
      origin[cone] = {vmn, 1};
    }
    VF_ORACLE(want.is_closed() && want.is_monotone(), "cone model is not a filtered complex");
    VF_CHECK(double(efd.minval) == lo && double(efd.maxval) == hi, "extended-minmax",
             "Extended_filtration_data (" << stc::fmt(double(efd.minval)) << "," << stc::fmt(double(efd.maxval)) << ") want (" << stc::fmt(lo)
                                          << "," << stc::fmt(hi) << ")");
    stc::compare(st, want, ctx, "extended", "after extend_filtration", kTol);
    // the stored values must form a filtration whose order is again the canonical one
    ref::Complex got = stc::to_complex(st, ctx, "extended");
    VF_CHECK(got.is_monotone(), "extended-not-monotone", "extended filtration is not monotone");
    check_order(st, got, "after extend_filtration");
    for (auto& kv : got.s) {
      auto p = st.decode_extended_filtration(FV(kv.second), efd);
      auto& o = origin.at(kv.first);
      int type = p.second == Gudhi::Extended_simplex_type::UP ? 0 : p.second == Gudhi::Extended_simplex_type::DOWN ? 1 : 2;
      VF_CHECK(type == o.second, "extended-decode-type",
               "decode(" << stc::fmt(kv.second) << ") for " << ref::to_string(kv.first) << " gives type " << type << " want " << o.second);
      if (o.second == 2)
        VF_CHECK(std::isnan(double(p.first)), "extended-decode-extra", "cone point decodes to " << stc::fmt(double(p.first)));
      else
        VF_CHECK(stc::same_value(double(p.first), o.first, kTol * std::max(1.0, std::max(std::fabs(lo), std::fabs(hi)))),
                 "extended-decode-value",
                 "decode(" << stc::fmt(kv.second) << ") for " << ref::to_string(kv.first) << " gives " << stc::fmt(double(p.first)) << " want "
                           << stc::fmt(o.first));
    }
    ctx.hit("mode:extended");
    ctx.hit(hi == lo ? "extended:constant" : "extended:non-constant");
    if (hi != lo) ctx.mark_nontrivial();
  }

  void run() {
    unsigned b = t.u8();
    if (b >= 248)
      run_order_large();
    else {
      switch (b % 8) {
        case 0: case 1: case 2: run_order_small(); break;
        case 3: case 4: run_mfnd(); break;
        case 5: case 6: run_prune(); break;
        default: run_extended();
      }
    }
  }
};

}  // namespace c03

namespace vf {
const char* harness_name() { return c03::kName; }
void run_case(Tape& t, Ctx& ctx) {
  c03::Case c(t, ctx);
  c.run();
}
}  // namespace vf
