// Shared harness for the persistence-matrix flavours (R-only boundary matrix, RU, chain) of
// Gudhi::persistence_matrix::Matrix<Options>.  Used by C05 (barcode + defining identities) and, with
// PMH_CHECK_CYCLES defined, by C08 (representative cycles; props/C08/main.cpp includes this file with a relative path).
//
// One case = one option set (chosen by the tape inside the CFG group) + one prime + one filtered cell complex grown
// by a history of insert_boundary / remove_last operations, with full checks against ref::reduce at CHECK points.
#ifndef PM_HARNESS_H_
#define PM_HARNESS_H_

#include <gudhi/Matrix.h>
#include <gudhi/persistence_matrix_options.h>

#include <memory>
#include <tuple>

#include "cellgen.h"
#include "reduce.h"
#include "vf.h"

namespace pmh {

using Gudhi::persistence_matrix::Column_indexation_types;
using Gudhi::persistence_matrix::Column_types;
using ref::SVec;
using ref::Z;

// ------------------------------------------------------------------------------------------------- option sets
// IDX: 0 CONTAINER, 1 POSITION, 2 IDENTIFIER.  RA: 0 no row access, 1 intrusive rows, 2 set rows.
template <Column_types CT, bool Z2, bool CHAIN, int IDX, int RA, bool REMROWS, bool REMCOL, bool MAP, bool MAXDIM,
          bool REP, bool VINE, bool SWAPS>
struct Opt : Gudhi::persistence_matrix::Default_options<CT, Z2> {
  static const Column_indexation_types column_indexation_type =
      IDX == 0 ? Column_indexation_types::CONTAINER
               : (IDX == 1 ? Column_indexation_types::POSITION : Column_indexation_types::IDENTIFIER);
  static const bool has_column_and_row_swaps = SWAPS;
  static const bool has_map_column_container = MAP;
  static const bool has_removable_columns = REMCOL;
  static const bool has_row_access = RA != 0;
  static const bool has_intrusive_rows = RA == 1;
  static const bool has_removable_rows = REMROWS;
  static const bool is_of_boundary_type = !CHAIN;
  static const bool has_matrix_maximal_dimension_access = MAXDIM;
  static const bool has_column_pairings = true;
  static const bool has_vine_update = VINE;
  static const bool can_retrieve_representative_cycles = REP;

  static std::string describe() {
    static const char* ct[] = {"LIST", "SET", "HEAP", "VECTOR", "NAIVE_VECTOR", "SMALL_VECTOR", "UNORDERED_SET",
                               "INTRUSIVE_LIST", "INTRUSIVE_SET"};
    std::ostringstream o;
    o << (CHAIN ? "chain" : ((REP || VINE) ? "RU" : "R-only")) << "/" << ct[int(CT)] << (Z2 ? "/Z2" : "/Zp")
      << (IDX == 0 ? "/container" : (IDX == 1 ? "/position" : "/identifier"))
      << (RA == 0 ? "/norows" : (RA == 1 ? "/introws" : "/setrows")) << (REMROWS ? "+remrows" : "")
      << (REMCOL ? "/remcol" : "/fixed") << (MAP ? "/map" : "/vec") << (MAXDIM ? "/maxdim" : "") << (REP ? "/rep" : "")
      << (VINE ? "/vine" : "") << (SWAPS ? "/swaps" : "");
    return o.str();
  }
};

// ------------------------------------------------------------------------------------------------- driver
template <class O>
class Driver {
 public:
  using M = Gudhi::persistence_matrix::Matrix<O>;
  using Elem = typename M::Element;
  using ER = typename M::Entry_representative;
  using BVec = std::vector<ER>;
  static constexpr bool kZ2 = O::is_z2;
  static constexpr bool kChain = !O::is_of_boundary_type;
  static constexpr bool kRU = O::is_of_boundary_type && (O::has_vine_update || O::can_retrieve_representative_cycles);
  static constexpr bool kBnd = !kChain && !kRU;
  static constexpr bool kIdIdx = O::column_indexation_type == Column_indexation_types::IDENTIFIER;
  static constexpr bool kPosIdx = O::column_indexation_type == Column_indexation_types::POSITION;
  static constexpr bool kRem = O::has_removable_columns;
  static constexpr bool kMaxDim = O::has_matrix_maximal_dimension_access || kBnd;
  static constexpr bool kRep = O::can_retrieve_representative_cycles;
  static constexpr unsigned kNull = unsigned(-1);

  Driver(vf::Tape& t, vf::Ctx& ctx) : t(t), ctx(ctx) {}

  void run() {
    ctx.desc << "options: " << O::describe() << "\n";
    ctx.hit(std::string("flavour:") + (kChain ? "chain" : (kRU ? "RU" : "R-only")));
    if (kZ2) {
      p = 2;
    } else {
      static const Z primes[] = {2, 3, 5, 7, 11, 13};
      p = primes[t.below(6)];
    }
    ctx.hit("p=" + std::to_string(p));
    gen.init(t, p, ctx.desc);
    ctx.hit(std::string("kind:") + kind_name());
    custom_ids = t.chance(1, 3);
#ifdef PMH_CHECK_CYCLES
    // cycles are documented as "row indices"; the RU flavour numbers the rows of its mirror matrix by position, so
    // with custom identifiers the meaning of an entry would be ambiguous: keep identifiers == positions there.
    if (!kChain) custom_ids = false;
    if (kChain && custom_ids && ctx.excluded("C08-chain-rep-custom-ids")) {
      ctx.hit("excluded:C08-chain-rep-custom-ids");
      custom_ids = false;
    }
#endif
    // ---- known findings (guide section 1): the trigger is avoided by construction while the finding is listed
    if (kChain && kIdIdx && known("chain-identifier-insert-noreturn")) {
      // Matrix::insert_boundary flows off the end of a value-returning function for chain + IDENTIFIER indexing:
      // build such matrices through the constructor only
      hit_excluded("chain-identifier-insert-noreturn");
      custom_ids = false;
      force_ctor = true;
    }
#ifdef PMH_COPY_OPS
    if (kRep && !kChain) custom_ids = false;  // cycle entries of the RU flavour are positions: keep ids == positions
#endif
    construct();
    if (force_ctor) no_insert = true;
#ifdef PMH_COPY_OPS
    run_pool();
    return;
#endif
    history();
    finalise_and_check(true);
#ifdef PMH_CHECK_CYCLES
    if (big_cycle_and_chain) ctx.mark_nontrivial();
#else
    if (nontrivial_chain && (removals > 0 || !kRem)) ctx.mark_nontrivial();
#endif
  }

 private:
  vf::Tape& t;
  vf::Ctx& ctx;
  Z p = 2;
  ref::CellGen gen;
  std::vector<ref::Cell> cells;  // the model: current filtered complex, boundaries by position
  std::vector<unsigned> ids;     // identifier of the cell at each position
  std::vector<std::string> names;
  std::vector<unsigned> ins_rank;  // number of insertions made before the cell at each position was inserted
  std::unique_ptr<M> m;
  bool custom_ids = false;
  bool barcode_called = false;  // R-only: get_current_barcode() was called, only remove_last allowed from now on
  bool nontrivial_chain = false;
  unsigned high_id = 0;  // 1 + largest identifier ever used
  unsigned removals = 0, insertions = 0, checks_done = 0;
  bool cycles_requested = false;
  bool big_cycle_and_chain = false;
  bool quiet_checks = false;  // copy-ops mode: every live object is checked after every step, do not render each check
  bool no_insert = false;   // no (further) insert_boundary calls: a known finding or a domain restriction forbids them
  bool force_ctor = false;  // build through the constructor-from-boundaries only
  size_t traced = 0;
  // PMH_TRACE=1: echo the decoded case to stderr as it is executed (to see the history of a case that crashes)
  void trace() {
    static const bool on = getenv("PMH_TRACE") != nullptr;
    if (!on) return;
    std::string s = ctx.desc.str();
    fputs(s.substr(traced).c_str(), stderr);
    traced = s.size();
  }

  // known findings are listed per property: C05-<slug> in findings/C05.json, C08-<slug> in findings/C08.json (the
  // matrix-level defects are reached by the histories of both properties)
  bool known(const char* slug) const {
#ifdef PMH_CHECK_CYCLES
    return ctx.excluded(std::string("C08-") + slug);
#else
    return ctx.excluded(std::string("C05-") + slug);
#endif
  }
  void hit_excluded(const char* slug) {
#ifdef PMH_CHECK_CYCLES
    ctx.hit(std::string("excluded:C08-") + slug);
#else
    ctx.hit(std::string("excluded:C05-") + slug);
#endif
  }

  const char* kind_name() const {
    static const char* k[] = {"simplicial", "cubical", "family", "cw", "general"};
    return k[int(gen.kind())];
  }

  // ---------------------------------------------------------------------------------------------- conversions
  // the index by which the accessors address the cell at position pos: identifier, position or MatIdx. For boundary
  // matrices MatIdx == position. For chain matrices without vine updates the column of the last position is the last
  // one of the container as well; with vine updates the container index is never reused after a removal (documented:
  // "PosIdx == MatIdx ... not true for chain matrices when swaps or removals were performed"), so there the MatIdx is
  // obtained the documented way, from the pivot (= identifier of the cell).
  unsigned handle(size_t pos) const {
    if constexpr (kIdIdx) return ids[pos];
    if constexpr (kChain && O::has_vine_update && !kPosIdx) {
      if (removals > 0) return unsigned(m->get_column_with_pivot(ids[pos]));
    }
    return unsigned(pos);
  }

  BVec make_boundary(const ref::Cell& c) const {
    BVec b;
    for (auto& fc : c.bdry) {
      if constexpr (kZ2)
        b.push_back(ids[size_t(fc.first)]);
      else
        b.push_back(ER(ids[size_t(fc.first)], Elem(fc.second)));
    }
    return b;  // positions ascending => identifiers ascending
  }
  static bool deducible(const ref::Cell& c) { return c.dim == (c.bdry.empty() ? 0 : int(c.bdry.size()) - 1); }

  std::map<unsigned, int> id_to_pos() const {
    std::map<unsigned, int> r;
    for (size_t i = 0; i < ids.size(); ++i) r[ids[i]] = int(i);
    return r;
  }

  // dense content (indexed by row) -> sparse vector over positions; rows are identifiers
  template <class Column>
  SVec read_by_id(Column& col, const std::map<unsigned, int>& pos, const char* what, size_t at) {
    auto v = col.get_content();
    SVec r;
    for (size_t row = 0; row < v.size(); ++row) {
      Z x = Z(v[row]);
      if (x == 0) continue;
      auto it = pos.find(unsigned(row));
      VF_CHECK(it != pos.end(), "unknown_row", what << " column at position " << at << " has an entry at row " << row
                                                   << " which is not the identifier of a present cell");
      VF_CHECK(x > 0 && x < p, "entry_range", what << " column at position " << at << " row " << row << " holds " << x);
      r[it->second] = x;
    }
    return r;
  }
  // dense content indexed by column position (mirror matrix of the RU flavour)
  template <class Column>
  SVec read_raw(Column& col, const char* what, size_t at) {
    auto v = col.get_content();
    SVec r;
    for (size_t row = 0; row < v.size(); ++row) {
      Z x = Z(v[row]);
      if (x == 0) continue;
      VF_CHECK(row < cells.size(), "unknown_row",
               what << " column " << at << " has an entry at row " << row << " >= number of columns " << cells.size());
      VF_CHECK(x > 0 && x < p, "entry_range", what << " column " << at << " row " << row << " holds " << x);
      r[int(row)] = x;
    }
    return r;
  }
  static std::string show(const SVec& v) {
    std::ostringstream o;
    o << "{";
    bool first = true;
    for (auto& kv : v) {
      o << (first ? "" : " ") << kv.first;
      if (kv.second != 1) o << "*" << kv.second;
      first = false;
    }
    o << "}";
    return o.str();
  }

  // ---------------------------------------------------------------------------------------------- construction
  unsigned next_id() {
    if (!custom_ids) return unsigned(cells.size());
    unsigned base;
    if (ids.empty())
      base = t.below(4);
    else
      base = ids.back() + 1;
    // after removals an identifier may be reused (the cell is gone) or never reused, by the tape
    if (high_id > base && t.flip()) base = high_id;
    unsigned gap = unsigned(t.weighted({6, 2, 1, 1}));
    if (gap == 3) gap = 3 + t.below(6);
    return base + gap;
  }

  bool produce(ref::Cell& c, std::string& name) { return gen.next(t, cells, c, name); }

  // describe() before the library call (so that a crashing call is visible in the trace), commit() after it
  void describe(const ref::Cell& c, unsigned id, const std::string& name, const char* how) {
    ctx.desc << "  " << slot_tag() << "[" << cells.size() << "] " << how << " id=" << id << " dim=" << c.dim << " " << name << " bdry={";
    for (size_t k = 0; k < c.bdry.size(); ++k) {
      ctx.desc << (k ? " " : "") << ids[size_t(c.bdry[k].first)];
      if (!kZ2 || c.bdry[k].second != 1) ctx.desc << "*" << c.bdry[k].second;
    }
    ctx.desc << "}\n";
    trace();
  }
  void commit(const ref::Cell& c, unsigned id, const std::string& name) {
    cells.push_back(c);
    ids.push_back(id);
    names.push_back(name);
    ins_rank.push_back(insertions);
    if (id + 1 > high_id) high_id = id + 1;
    ++insertions;
  }

  void construct() {
    unsigned mode = t.below(4);
    unsigned reserve = t.below(17);
    if (force_ctor) mode = 3;
    if (mode == 3 && !custom_ids) {
      // constructor from boundaries: simplicial-like cells only (dimension deduced from the boundary size)
      unsigned want = 1 + t.below(force_ctor ? 48 : 24);
      std::vector<BVec> cols;
      ctx.desc << "construct: Matrix(boundaries" << (kZ2 ? "" : ", p") << ")\n";
      for (unsigned k = 0; k < want; ++k) {
        ref::Cell c;
        std::string name;
        if (!produce(c, name)) break;
        if (!deducible(c)) {
          gen.pop();
          break;
        }
        cols.push_back(make_boundary(c));
        describe(c, unsigned(cells.size()), name, "ctor");
        commit(c, unsigned(cells.size()), name);
      }
      ctx.hit("build:ctor");
      trace();
      if constexpr (kZ2)
        m.reset(new M(cols));
      else
        m.reset(new M(cols, unsigned(p)));
      return;
    }
    if (mode == 3) mode = 1;
    if (mode == 0) {
      ctx.desc << "construct: Matrix()" << (kZ2 ? "" : " + set_characteristic") << "\n";
      trace();
      m.reset(new M());
      if constexpr (!kZ2) m->set_characteristic(unsigned(p));
    } else if (mode == 1) {
      ctx.desc << "construct: Matrix(" << reserve << (kZ2 ? "" : ", p") << ")\n";
      trace();
      if constexpr (kZ2)
        m.reset(new M(reserve));
      else
        m.reset(new M(reserve, unsigned(p)));
    } else {
      ctx.desc << "construct: Matrix(" << reserve << ")" << (kZ2 ? "" : " + set_characteristic") << "\n";
      trace();
      m.reset(new M(reserve));
      if constexpr (!kZ2) m->set_characteristic(unsigned(p));
    }
    ctx.hit(custom_ids ? "build:insert-custom-ids" : "build:insert");
  }

  bool insert_one() {
    ref::Cell c;
    std::string name;
    if (!produce(c, name)) return false;
    unsigned id = next_id();
    BVec b = make_boundary(c);
    bool with_dim = !deducible(c) || t.flip();
    describe(c, id, name, with_dim ? "insert(dim)" : "insert");
    if (custom_ids) {
      if (with_dim)
        m->insert_boundary(id, b, c.dim);
      else
        m->insert_boundary(id, b);
    } else {
      if (with_dim)
        m->insert_boundary(b, c.dim);
      else
        m->insert_boundary(b);
    }
    commit(c, id, name);
    return true;
  }

  bool remove_one() {
    if constexpr (kRem) {
      if (cells.empty()) return false;  // remove_last on an empty matrix is outside the domain
      if constexpr (kRU && kZ2) {
        // known finding: RU_matrix::remove_last (Z2) drops row n-1 of the transposed U but leaves the entries of
        // column n-1 in the other rows. Trigger: the removed column had been reduced by at least one addition.
        if (known("ru-z2-remove-last-stale-u")) {
          ref::Reduction r = ref::reduce(cells, p);
          if (r.V.back().size() > 1) {
            hit_excluded("ru-z2-remove-last-stale-u");
            return false;
          }
        }
      }
      if constexpr (O::is_of_boundary_type && (O::has_column_and_row_swaps || O::has_vine_update) &&
                    O::has_map_column_container) {
        // known finding: Boundary_matrix::remove_last looks the row-swap maps up by position instead of identifier
        if (ids.back() != unsigned(cells.size() - 1) && known("boundary-swapmap-remove-last-custom-id")) {
          hit_excluded("boundary-swapmap-remove-last-custom-id");
          return false;
        }
      }
      if constexpr (kChain && O::has_vine_update && !kPosIdx) {
        // known finding (same as C06-chain-remove-last-largest-id): Chain_matrix::remove_last with vine updates starts
        // its search for the largest identifier at (identifier 0, column 0); when the only cell left has identifier
        // 0 but is not stored at index 0 (the index counter is never decremented with vine updates, so the column index
        // of a cell is the number of insertions made before it) it dereferences end().
        if (cells.size() == 1 && ids[0] == 0 && ins_rank[0] != 0 && known("chain-vine-remove-last-id0")) {
          hit_excluded("chain-vine-remove-last-id0");
          return false;
        }
      }
      ctx.desc << "  " << slot_tag() << "remove_last (position " << cells.size() - 1 << ", id " << ids.back() << ")\n";
      trace();
      m->remove_last();
      cells.pop_back();
      ids.pop_back();
      names.pop_back();
      ins_rank.pop_back();
      gen.pop();
      ++removals;
      if constexpr (kChain && kPosIdx && !O::has_vine_update) {
        // known finding: Position_to_index_overlay::remove_last does not decrement its own column counter, so the
        // next insertion is mapped to the wrong column. Trigger: insert_boundary after remove_last.
        if (known("chain-position-remove-reinsert")) {
          if (!no_insert) hit_excluded("chain-position-remove-reinsert");
          no_insert = true;
        }
      }
      if constexpr (kChain && O::has_vine_update) {
        // domain restriction (not a finding): the documentation is ambiguous about the identifier given by the
        // identifier-less insert_boundary after a removal ("the n-th insertion gets ID n" vs "cells are identified
        // by their position"); the chain flavour with vine updates follows the first reading. No re-insertion with
        // default identifiers there.
        if (!custom_ids) no_insert = true;
      }
      return true;
    }
    return false;
  }

#ifdef PMH_COPY_OPS
  // ------------------------------------------------------------------------------------------- C15 (matrix part)
  // A pool of up to 3 (Matrix, model state) pairs. The members (m, cells, ids, gen, ...) are the pair currently
  // "checked out" of pool[cur], so that insert_one / remove_one / the checks work on it unchanged. Pool operations:
  // copy construction, copy assignment (also self and onto a non-empty or moved-from matrix), move construction, move
  // assignment, the friend swap, destruction. After every step every live object passes the full C05 check against its
  // own model; copies are additionally compared with their source (representative cycles where available).
  enum SlotState { FREE = 0, LIVE = 1, MOVED = 2 };
  struct Slot {
    SlotState state = FREE;
    std::unique_ptr<M> m;
    std::vector<ref::Cell> cells;
    std::vector<unsigned> ids;
    std::vector<std::string> names;
    std::vector<unsigned> ins_rank;
    ref::CellGen gen;
    bool barcode_called = false, no_insert = false, cycles_requested = false;
    unsigned high_id = 0, removals = 0, insertions = 0;
    int pair = -1;  // id of the last copy / move / swap relation this object took part in
    bool frozen = false;  // known finding C15-pairing-copy-shares-bars: no modification after a copy relation
  };
  // known findings of the copy / move operations (ids of property C15)
  static constexpr bool kBarIterators =
      O::has_removable_columns && (kChain || (O::is_of_boundary_type && O::has_vine_update));
  bool moves_excluded() {
    if (kChain && kIdIdx && ctx.excluded("C15-chain-identifier-move-id-map")) {
      ctx.hit("excluded:C15-chain-identifier-move-id-map");
      return true;
    }
    if (kRU && !kZ2 && ctx.excluded("C15-ru-zp-moved-from-destructor")) {
      ctx.hit("excluded:C15-ru-zp-moved-from-destructor");
      return true;
    }
    return false;
  }
  // the bar dictionaries of these flavours hold iterators of the source's bar list after a copy: any later change of
  // either object corrupts the other one. While the finding is known, source and copy are not modified any more.
  void freeze_after_copy(unsigned a, unsigned b) {
    // (a self-assignment goes through a temporary copy too: the object then refers to the bars of the temporary)
    if (kBarIterators && !pool[a].cells.empty() && ctx.excluded("C15-pairing-copy-shares-bars")) {
      ctx.hit("excluded:C15-pairing-copy-shares-bars");
      pool[a].frozen = pool[b].frozen = true;
    }
  }
  struct Relation {
    bool big = false, diverged = false;
  };
  static const unsigned POOL = 3;
  Slot pool[POOL];
  unsigned cur = 0;
  bool out = false;
  std::map<int, Relation> relations;
  int next_relation = 0;
  bool nt_copy = false;

  std::string slot_tag() const { return "#" + std::to_string(cur) + " "; }

  void exchange(Slot& s) {
    std::swap(s.m, m);
    s.cells.swap(cells);
    s.ids.swap(ids);
    s.names.swap(names);
    s.ins_rank.swap(ins_rank);
    std::swap(s.gen, gen);
    std::swap(s.barcode_called, barcode_called);
    std::swap(s.no_insert, no_insert);
    std::swap(s.cycles_requested, cycles_requested);
    std::swap(s.high_id, high_id);
    std::swap(s.removals, removals);
    std::swap(s.insertions, insertions);
  }
  void checkin() {
    if (!out) return;
    exchange(pool[cur]);
    out = false;
  }
  void checkout(unsigned i) {
    checkin();
    cur = i;
    exchange(pool[i]);
    out = true;
  }
  static void copy_model(Slot& dst, const Slot& src) {
    dst.cells = src.cells;
    dst.ids = src.ids;
    dst.names = src.names;
    dst.ins_rank = src.ins_rank;
    dst.gen = src.gen;
    dst.barcode_called = src.barcode_called;
    dst.no_insert = src.no_insert;
    dst.cycles_requested = src.cycles_requested;
    dst.high_id = src.high_id;
    dst.removals = src.removals;
    dst.insertions = src.insertions;
  }
  static void move_model(Slot& dst, Slot& src) {
    copy_model(dst, src);
    Slot empty;
    copy_model(src, empty);
  }
  std::vector<unsigned> slots_in(SlotState a, SlotState b) const {
    std::vector<unsigned> v;
    for (unsigned i = 0; i < POOL; ++i)
      if (pool[i].state == a || pool[i].state == b) v.push_back(i);
    return v;
  }
  void relate(unsigned a, unsigned b) {
    int id = next_relation++;
    relations[id].big = a != b && pool[a].cells.size() >= 5;
    pool[a].pair = id;
    if (b != a) pool[b].pair = id;
    if (relations[id].big) ctx.hit("copy-of-5+-cells");
  }

  // the full C05 check of the checked-out object (R-only matrices before their barcode: plain copies of the boundaries)
  void check_object() {
    if (kBnd && !barcode_called)
      check_unreduced();
    else
      full_check();
    if constexpr (kRep && kZ2) {
      // representative cycles (defects of C08 are repaired in the tree): closed chains born with their bar
      ref::Reduction r = ref::reduce(cells, p);
      auto pos = id_to_pos();
      m->update_representative_cycles();
      for (const auto& bar : m->get_current_barcode()) {
        SVec z;
        for (unsigned e : m->get_representative_cycle(bar)) {
          auto it = pos.find(e);
          VF_CHECK(it != pos.end(), "cycle_unknown_cell", "object #" << cur << " bar birth " << bar.birth << " entry " << e);
          if (!z.insert({it->second, 1}).second) z.erase(it->second);
        }
        VF_CHECK(!z.empty() && ref::low(z) == int(bar.birth) && ref::boundary_of(z, r.B, p).empty(), "cycle_invalid",
                 "object #" << cur << " bar (" << bar.dim << ":" << bar.birth << ") cycle " << show(z));
      }
    }
  }
  void check_all_live(const char* why) {
    for (unsigned i = 0; i < POOL; ++i) {
      if (pool[i].state != LIVE) continue;
      checkout(i);
      try {
        check_object();
      } catch (const vf::Violation& v) {
        throw vf::Violation(v.tag, std::string("object #") + std::to_string(i) + " (checked after " + why + "): " + v.msg);
      }
      checkin();
    }
  }
  // barcode + representative cycles of the object in slot i in a canonical form (to compare a copy with its source)
  std::vector<std::vector<long>> snapshot(unsigned i) {
    std::vector<std::vector<long>> out_;
    Slot& s = pool[i];
    if (kBnd && !s.barcode_called) return out_;  // asking an R-only matrix for its barcode finalises it
    if constexpr (kRep) s.m->update_representative_cycles();
    for (const auto& bar : s.m->get_current_barcode()) {
      std::vector<long> row = {long(bar.dim), long(bar.birth), bar.death == M::Bar::inf ? -1L : long(bar.death)};
      if constexpr (kRep) {
        std::vector<long> c;
        for (auto e : s.m->get_representative_cycle(bar)) c.push_back(long(e));
        std::sort(c.begin(), c.end());
        row.insert(row.end(), c.begin(), c.end());
      }
      out_.push_back(row);
    }
    std::sort(out_.begin(), out_.end());
    return out_;
  }
  void check_moved_from(unsigned i) {
    // Matrix(Matrix&&): "After the move, the given matrix will be empty."
    unsigned n = unsigned(pool[i].m->get_number_of_columns());
    VF_CHECK(n == 0, "moved_from_not_empty", "moved-from matrix #" << i << " reports " << n << " columns");
  }

  // one ordinary operation on the checked-out object
  void pool_step() {
    const size_t kMaxCells = 24;
    unsigned op = unsigned(t.weighted({12, 4, 1}));
    if (op == 0) {
      if (no_insert || (kBnd && barcode_called) || cells.size() >= kMaxCells) {
        ctx.desc << "  " << slot_tag() << "(no insertion possible)\n";
        return;
      }
      unsigned k = 1 + unsigned(t.weighted({4, 3, 2, 1}));
      for (unsigned j = 0; j < k && cells.size() < kMaxCells; ++j)
        if (!insert_one()) break;
    } else if (op == 1) {
      if constexpr (kRem) {
        unsigned k = 1 + unsigned(t.weighted({5, 2, 1}));
        for (unsigned j = 0; j < k && !cells.empty(); ++j)
          if (!remove_one()) break;
      }
    } else {
      if (kBnd && !barcode_called) {
        ctx.desc << "  " << slot_tag() << "get_current_barcode (matrix complete, removals follow)\n";
        trace();
        barcode_called = true;
      }
    }
  }

  void pool_op(unsigned src) {
    std::vector<unsigned> freeS = slots_in(FREE, FREE), targets = slots_in(LIVE, MOVED);
    unsigned what = t.below(7);
    auto skip = [&](const char* why) { ctx.desc << "  (pool op skipped: " << why << ")\n"; };
    switch (what) {
      case 0:
      case 6: {  // copy construction
        if (freeS.empty()) return skip("no free slot");
        unsigned f = freeS[0];
        ctx.desc << "  #" << f << " = Matrix(copy of #" << src << ")\n";
        trace();
        pool[f].m.reset(new M(*pool[src].m));
        copy_model(pool[f], pool[src]);
        pool[f].state = LIVE;
        pool[f].frozen = pool[src].frozen;
        relate(src, f);
        freeze_after_copy(src, f);
        ctx.hit("op:copy_construct");
        VF_CHECK(snapshot(f) == snapshot(src), "copy_differs", "copy-constructed #" << f << " and its source #" << src
                                                                   << " report different barcodes / cycles");
        break;
      }
      case 1: {  // copy assignment, also self and onto a non-empty or moved-from matrix
        unsigned d = targets[t.below(uint32_t(targets.size()))];
        ctx.desc << "  #" << d << " = #" << src << " (copy assignment" << (d == src ? ", self" : "")
                 << (pool[d].state == MOVED ? ", onto moved-from" : "") << ")\n";
        trace();
        *pool[d].m = *pool[src].m;
        if (d != src) {
          copy_model(pool[d], pool[src]);
          pool[d].state = LIVE;
          pool[d].frozen = pool[src].frozen;
          relate(src, d);
          freeze_after_copy(src, d);
          VF_CHECK(snapshot(d) == snapshot(src), "copy_differs", "copy-assigned #" << d << " and its source #" << src
                                                                     << " report different barcodes / cycles");
        }
        if (d == src) freeze_after_copy(src, src);
        ctx.hit(d == src ? "op:self_assign" : "op:copy_assign");
        break;
      }
      case 2: {  // move construction
        if (freeS.empty()) return skip("no free slot");
        if (moves_excluded()) return skip("known finding");
        unsigned f = freeS[0];
        ctx.desc << "  #" << f << " = Matrix(move of #" << src << ")\n";
        trace();
        auto before = snapshot(src);
        pool[f].m.reset(new M(std::move(*pool[src].m)));
        move_model(pool[f], pool[src]);
        pool[f].frozen = pool[src].frozen;
        pool[src].frozen = false;
        pool[f].state = LIVE;
        pool[src].state = MOVED;
        relate(f, f);
        check_moved_from(src);
        VF_CHECK(snapshot(f) == before, "move_differs", "move-constructed #" << f << " differs from what #" << src << " reported");
        ctx.hit("op:move_construct");
        break;
      }
      case 3: {  // move assignment
        std::vector<unsigned> cand;
        for (unsigned d : targets)
          if (d != src) cand.push_back(d);
        if (cand.empty()) return skip("no other object");
        if (moves_excluded()) return skip("known finding");
        unsigned d = cand[t.below(uint32_t(cand.size()))];
        ctx.desc << "  #" << d << " = move of #" << src << (pool[d].state == MOVED ? " (onto moved-from)" : "") << "\n";
        trace();
        auto before = snapshot(src);
        *pool[d].m = std::move(*pool[src].m);
        move_model(pool[d], pool[src]);
        pool[d].frozen = pool[src].frozen;
        pool[src].frozen = false;
        pool[d].state = LIVE;
        pool[src].state = MOVED;
        relate(d, d);
        check_moved_from(src);
        VF_CHECK(snapshot(d) == before, "move_differs", "move-assigned #" << d << " differs from what #" << src << " reported");
        ctx.hit("op:move_assign");
        break;
      }
      case 4: {  // friend swap
        std::vector<unsigned> cand;
        for (unsigned d : slots_in(LIVE, LIVE))
          if (d != src) cand.push_back(d);
        if (cand.empty()) return skip("no other live object");
        unsigned d = cand[t.below(uint32_t(cand.size()))];
        ctx.desc << "  swap(#" << src << ", #" << d << ")\n";
        trace();
        swap(*pool[src].m, *pool[d].m);
        {
          Slot tmp;
          copy_model(tmp, pool[src]);
          copy_model(pool[src], pool[d]);
          copy_model(pool[d], tmp);
          std::swap(pool[src].frozen, pool[d].frozen);
        }
        relate(src, d);
        relations[pool[src].pair].big = false;  // a swap is no copy relation
        ctx.hit("op:swap");
        break;
      }
      default: {  // destruction (never of the last live object)
        if (slots_in(LIVE, LIVE).size() < 2) return skip("last live object");
        ctx.desc << "  destroy #" << src << "\n";
        trace();
        pool[src].m.reset();
        Slot empty;
        copy_model(pool[src], empty);
        pool[src].state = FREE;
        pool[src].pair = -1;
        pool[src].frozen = false;
        ctx.hit("op:destroy");
        break;
      }
    }
  }

  void run_pool() {
    quiet_checks = true;
    pool[0].state = LIVE;
    cur = 0;
    out = true;
    checkin();
    const unsigned kMaxSteps = 70;
    unsigned steps = 0;
    while (!t.exhausted() && steps < kMaxSteps) {
      ++steps;
      unsigned b = t.u8();
      std::vector<unsigned> live = slots_in(LIVE, LIVE);
      unsigned s = live[(b & 3) % live.size()];
      unsigned kind = (b >> 2) & 7;
      if (kind <= 4 && pool[s].frozen) {
        ctx.desc << "  #" << s << " (not modified: known finding C15-pairing-copy-shares-bars)\n";
      } else if (kind <= 4) {
        checkout(s);
        unsigned ins0 = insertions, rem0 = removals;
        bool bc0 = barcode_called;
        pool_step();
        bool changed = ins0 != insertions || rem0 != removals || bc0 != barcode_called;
        checkin();
        if (changed && pool[s].pair >= 0 && !relations[pool[s].pair].diverged) {
          relations[pool[s].pair].diverged = true;
          ctx.hit("related-objects-diverged");
          if (relations[pool[s].pair].big) nt_copy = true;
        }
      } else {
        pool_op(s);
        // moved-from objects may only be assigned to or destroyed; destroy them by the tape sometimes
        for (unsigned i : slots_in(MOVED, MOVED))
          if (t.chance(1, 4)) {
            ctx.desc << "  destroy #" << i << " (moved-from)\n";
            pool[i].m.reset();
            pool[i].state = FREE;
            pool[i].pair = -1;
            pool[i].frozen = false;
          }
      }
      check_all_live("a step");
    }
    // R-only matrices: ask every live object for its barcode at the end, then the full check
    for (unsigned i : slots_in(LIVE, LIVE)) {
      checkout(i);
      if (kBnd && !barcode_called) {
        ctx.desc << "  " << slot_tag() << "get_current_barcode (matrix complete)\n";
        barcode_called = true;
      }
      checkin();
    }
    check_all_live("the end");
    // destroy in a tape-independent order, checking the survivors after each destruction
    for (unsigned i = 0; i < POOL; ++i) {
      if (pool[i].state == FREE) continue;
      pool[i].m.reset();
      pool[i].state = FREE;
      check_all_live("a destruction");
    }
    ctx.hit("steps", steps);
    if (nt_copy) ctx.mark_nontrivial();
  }
#else
  std::string slot_tag() const { return ""; }
#endif

  // ---------------------------------------------------------------------------------------------- history
  void history() {
    const unsigned kMaxSteps = 160;
#ifdef PMH_CHECK_CYCLES
    const size_t kMaxCells = 40;
#else
    const size_t kMaxCells = 80;
#endif
    unsigned steps = 0;
    while (!t.exhausted() && steps < kMaxSteps) {
      ++steps;
      unsigned op = unsigned(t.weighted({12, 3, 2, 1}));
      if (op == 0) {  // insert (a small batch)
        if (no_insert) continue;
        if (kBnd && barcode_called) continue;
        if (cells.size() >= kMaxCells) continue;
        unsigned k = 1 + unsigned(t.weighted({6, 2, 1, 1}));
        for (unsigned j = 0; j < k && cells.size() < kMaxCells; ++j)
          if (!insert_one()) break;
      } else if (op == 1) {  // remove_last (a small batch)
        if (!kRem) continue;
        unsigned k = 1 + unsigned(t.weighted({5, 2, 1}));
        unsigned done = 0;
        for (unsigned j = 0; j < k && !cells.empty(); ++j) {
          if (!remove_one()) break;
          ++done;
        }
        if (done) ctx.hit("op:remove_batch");
        if (done && (!kBnd || barcode_called)) check_barcode_only();
      } else if (op == 2) {  // full check
        if (checks_done >= 5) continue;
        ++checks_done;
        if (kBnd && !barcode_called) {
          check_unreduced();
        } else {
          full_check();
        }
      } else {  // R-only: ask for the barcode now (matrix "complete"), afterwards only removals
        if (kBnd && !barcode_called) finalise_and_check(false);
      }
    }
  }

  void finalise_and_check(bool last) {
    if (kBnd && !barcode_called) {
      ctx.desc << "  " << slot_tag() << "get_current_barcode (matrix complete" << (last ? "" : ", removals follow") << ")\n";
      barcode_called = true;
      if (!last) ctx.hit("R-only:barcode-then-removals");
    }
    full_check();
  }

  // ---------------------------------------------------------------------------------------------- checks
  std::vector<ref::Pair> read_barcode() {
    std::vector<ref::Pair> got;
    const auto& bc = m->get_current_barcode();
    for (const auto& bar : bc) {
      ref::Pair pr;
      pr.dim = int(bar.dim);
      pr.birth = int(bar.birth);
      pr.death = bar.death == M::Bar::inf ? -1 : int(bar.death);
      got.push_back(pr);
    }
    std::sort(got.begin(), got.end());
    return got;
  }
  static std::string show(const std::vector<ref::Pair>& v) {
    std::ostringstream o;
    for (auto& x : v) o << " (" << x.dim << ":" << x.birth << "," << x.death << ")";
    return o.str();
  }

  ref::Reduction reference() {
    ref::Reduction r = ref::reduce(cells, p);
    VF_ORACLE(ref::self_check(cells, r), "reference reduction fails its self-check (R = B V, distinct pivots, dd = 0)");
    if (r.chained2) nontrivial_chain = true;
    return r;
  }

  void compare_barcode(const ref::Reduction& r) {
    std::vector<ref::Pair> got = read_barcode();
#ifdef PMH_CHECK_CYCLES
    if (!(got == r.pairs)) throw vf::Discard("barcode differs from the reference (property C05, not C08)");
#else
    VF_CHECK(got == r.pairs, "barcode",
             "n=" << cells.size() << " got" << show(got) << " expected" << show(r.pairs));
#endif
  }

  void check_barcode_only() {
    ref::Reduction r = reference();
    if (!quiet_checks) ctx.desc << "  check barcode (" << cells.size() << " cells)\n";
    trace();
    compare_barcode(r);
  }

  void check_dimensions() {
    VF_CHECK(size_t(m->get_number_of_columns()) == cells.size(), "number_of_columns",
             m->get_number_of_columns() << " vs " << cells.size());
    for (size_t i = 0; i < cells.size(); ++i) {
      int d = int(m->get_column_dimension(handle(i)));
      VF_CHECK(d == cells[i].dim, "column_dimension", "position " << i << " got " << d << " expected " << cells[i].dim);
    }
    if constexpr (kMaxDim) {
      int md = -1;
      for (auto& c : cells) md = std::max(md, c.dim);
      int got = int(m->get_max_dimension());
      VF_CHECK(got == md, "max_dimension", "got " << got << " expected " << md << " with " << cells.size() << " cells");
    }
  }

  // R-only matrix before the barcode was requested: the columns are documented to be plain copies of the boundaries
  void check_unreduced() {
    if (!quiet_checks) ctx.desc << "  check (unreduced, " << cells.size() << " cells)\n";
    trace();
#ifndef PMH_CHECK_CYCLES
    check_dimensions();
    auto pos = id_to_pos();
    for (size_t i = 0; i < cells.size(); ++i) {
      SVec col = read_by_id(m->get_column(handle(i)), pos, "B", i);
      SVec exp;
      for (auto& fc : cells[i].bdry) exp[fc.first] = ref::mod_norm(fc.second, p);
      VF_CHECK(col == exp, "unreduced_copy", "position " << i << " got " << show(col) << " expected " << show(exp));
    }
#endif
  }

  void full_check() {
    ref::Reduction r = reference();
    if (!quiet_checks) ctx.desc << "  check (" << cells.size() << " cells)\n";
    trace();
    compare_barcode(r);
#ifndef PMH_CHECK_CYCLES
    check_dimensions();
    auto pos = id_to_pos();
    if constexpr (kChain)
      check_chain(r, pos);
    else
      check_R(r, pos);
#else
    if constexpr (kRep) check_cycles(r);
#endif
    if (cells.size() >= 12) ctx.hit("size>=12");
    if (cells.size() >= 30) ctx.hit("size>=30");
    if (r.chained2) ctx.hit("ref-chain>=2");
    for (auto& pr : r.pairs)
      if (pr.dim >= 1 && pr.death == -1) {
        ctx.hit("essential-dim>=1");
        break;
      }
  }

#ifndef PMH_CHECK_CYCLES
  // ------------------------------------------------------------------------------- R (R-only after barcode, RU)
  void check_R(const ref::Reduction& r, const std::map<unsigned, int>& pos) {
    size_t n = cells.size();
    std::vector<SVec> R(n);
    std::set<int> lows;
    ref::Span prev(p);  // span of B_0 .. B_{i-1}
    for (size_t i = 0; i < n; ++i) {
      unsigned h = handle(i);
      R[i] = read_by_id(m->get_column(h), pos, "R", i);
      bool z = m->is_zero_column(h);
      VF_CHECK(z == R[i].empty(), "is_zero_column", "position " << i << " is_zero_column=" << z << " content " << show(R[i]));
      unsigned piv = unsigned(m->get_pivot(h));
      if (R[i].empty()) {
        VF_CHECK(piv == kNull, "get_pivot", "position " << i << ": zero column but get_pivot=" << piv);
      } else {
        auto it = pos.find(piv);
        VF_CHECK(it != pos.end() && it->second == ref::low(R[i]), "get_pivot",
                 "position " << i << ": get_pivot=" << piv << " but lowest entry of " << show(R[i]) << " is position "
                             << ref::low(R[i]) << " (id " << ids[size_t(ref::low(R[i]))] << ")");
        VF_CHECK(lows.insert(ref::low(R[i])).second, "R_not_reduced",
                 "two non-zero columns share the lowest entry " << ref::low(R[i]) << " (second at position " << i << ")");
        for (auto& kv : R[i])
          VF_CHECK(kv.first < int(i), "R_not_upper", "column " << i << " has an entry at position " << kv.first);
      }
      if (n <= 40) {
        for (size_t k = 0; k < n; ++k) {
          bool ze = m->is_zero_entry(h, ids[k]);
          VF_CHECK(ze == (R[i].count(int(k)) == 0), "is_zero_entry",
                   "column at position " << i << ", row id " << ids[k] << ": is_zero_entry=" << ze << " content " << show(R[i]));
        }
      }
      // uniqueness of the pairing: zero pattern and lowest entries agree with the reference reduction
      VF_CHECK(R[i].empty() == r.R[i].empty() && ref::low(R[i]) == ref::low(r.R[i]), "R_low",
               "position " << i << " got " << show(R[i]) << " reference " << show(r.R[i]));
      // R_i = c * B_i + combination of earlier boundaries, c != 0
      SVec rb = prev.remainder(r.B[i]);
      SVec rc = prev.remainder(R[i]);
      if (rb.empty()) {
        VF_CHECK(rc.empty(), "R_not_in_span", "position " << i << ": " << show(R[i]) << " is not a combination of B_0..B_" << i);
      } else {
        bool ok = !rc.empty() && ref::low(rc) == ref::low(rb);
        if (ok) {
          Z c = ref::mod_norm(rc.at(ref::low(rc)) * ref::mod_inv(rb.at(ref::low(rb)), p), p);
          SVec diff = rc;
          ref::axpy(diff, -c, rb, p);
          ok = diff.empty();
        }
        VF_CHECK(ok, "R_not_in_span",
                 "position " << i << ": " << show(R[i]) << " is not (unit * B_" << i << " + combination of earlier boundaries)");
      }
      prev.add(r.B[i]);
    }
    if constexpr (kRU) {
      // pivots map back to their columns
      for (size_t i = 0; i < n; ++i) {
        if (R[i].empty()) continue;
        unsigned piv = unsigned(m->get_pivot(handle(i)));
        if constexpr (kIdIdx && O::has_map_column_container) {
          // known finding: Id_to_index_overlay::get_column_with_pivot scans identifiers 0,1,2,... with map::at and
          // throws std::out_of_range at the first identifier that is not present. Trigger: boundary-type matrix,
          // IDENTIFIER indexing, map container, identifiers below the answer not all present.
          bool contiguous = true;
          for (size_t k = 0; k <= i; ++k) contiguous = contiguous && ids[k] == unsigned(k);
          if (!contiguous && known("id-overlay-column-with-pivot-map")) {
            hit_excluded("id-overlay-column-with-pivot-map");
            continue;
          }
        }
        unsigned back = unsigned(m->get_column_with_pivot(piv));
        VF_CHECK(back == handle(i), "column_with_pivot",
                 "get_column_with_pivot(" << piv << ")=" << back << " expected " << handle(i) << " (position " << i << ")");
      }
      if constexpr (!kIdIdx) check_U(r, R);
    }
  }

  // the exposed second factor W (get_column(i, false)); accepted: B = R W^T (W_k = row k of U), B = R W, R = B W
  void check_U(const ref::Reduction& r, const std::vector<SVec>& R) {
    size_t n = cells.size();
    std::vector<SVec> W(n);
    bool lower_ok = true, upper_ok = true, diag_ok = true;  // as columns: entries <= own index / as rows: >= own index
    for (size_t k = 0; k < n; ++k) {
      W[k] = read_raw(m->get_column(unsigned(k), false), "U", k);
      bool zc = m->is_zero_column(unsigned(k), false);
      VF_CHECK(zc == W[k].empty(), "is_zero_column", "U column " << k);
      if (!W[k].count(int(k))) diag_ok = false;
      for (auto& kv : W[k]) {
        if (kv.first > int(k)) lower_ok = false;
        if (kv.first < int(k)) upper_ok = false;
      }
    }
    VF_CHECK(diag_ok, "U_not_invertible", "exposed factor has a zero on the diagonal");
    VF_CHECK(lower_ok || upper_ok, "U_not_triangular", "exposed factor is triangular in neither orientation");
    auto times = [&](const std::vector<SVec>& A, const std::vector<SVec>& X, bool transposed) {
      // columns of A * X (X given by columns) or A * X^T (X_k = row k)
      std::vector<SVec> out(n);
      if (!transposed) {
        for (size_t j = 0; j < n; ++j)
          for (auto& kv : X[j]) ref::axpy(out[j], kv.second, A[size_t(kv.first)], p);
      } else {
        for (size_t k = 0; k < n; ++k)
          for (auto& kv : X[k]) ref::axpy(out[size_t(kv.first)], kv.second, A[k], p);
      }
      return out;
    };
    bool a = upper_ok && times(R, W, true) == r.B;    // B = R * W^T, rows of U stored
    bool b = lower_ok && times(R, W, false) == r.B;   // B = R * W
    bool c = lower_ok && times(r.B, W, false) == R;   // R = B * W
    VF_CHECK(a || b || c, "RU_factorisation",
             "the exposed factor satisfies none of B = R*W^T, B = R*W, R = B*W (n=" << n << ")");
    ctx.hit(a ? "U:B=R*Wt" : (b ? "U:B=R*W" : "U:R=B*W"));
  }

  // ------------------------------------------------------------------------------- chain
  void check_chain(const ref::Reduction& r, const std::map<unsigned, int>& pos) {
    size_t n = cells.size();
    std::vector<SVec> C(n);
    for (size_t i = 0; i < n; ++i) {
      unsigned h = handle(i);
      C[i] = read_by_id(m->get_column(h), pos, "chain", i);
      VF_CHECK(!m->is_zero_column(h) && !C[i].empty(), "chain_zero_column", "position " << i);
      VF_CHECK(ref::low(C[i]) == int(i), "chain_leading_cell",
               "position " << i << " column " << show(C[i]) << " does not lead with its own cell");
      unsigned piv = unsigned(m->get_pivot(h));
      VF_CHECK(piv == ids[i], "get_pivot", "position " << i << " get_pivot=" << piv << " expected id " << ids[i]);
      unsigned back = unsigned(m->get_column_with_pivot(ids[i]));
      VF_CHECK(back == h, "column_with_pivot", "get_column_with_pivot(" << ids[i] << ")=" << back << " expected " << h);
      if (n <= 40) {
        for (size_t k = 0; k < n; ++k) {
          bool ze = m->is_zero_entry(h, ids[k]);
          VF_CHECK(ze == (C[i].count(int(k)) == 0), "is_zero_entry",
                   "column at position " << i << ", row id " << ids[k] << ": is_zero_entry=" << ze << " content " << show(C[i]));
        }
      }
    }
    for (size_t i = 0; i < n; ++i) {
      auto& col = m->get_column(handle(i));
      bool paired = col.is_paired();
      int partner = r.partner[i];
      VF_CHECK(paired == (partner >= 0), "chain_pairing",
               "position " << i << " is_paired=" << paired << " reference partner " << partner);
      SVec d = ref::boundary_of(C[i], r.B, p);
      if (!paired) {
        VF_CHECK(d.empty(), "chain_unpaired_not_cycle", "position " << i << " column " << show(C[i]) << " boundary " << show(d));
        continue;
      }
      if constexpr (!kIdIdx && !kPosIdx) {
        unsigned pi = unsigned(col.get_paired_chain_index());
        unsigned pp = unsigned(m->get_pivot(pi));
        VF_CHECK(pp == ids[size_t(partner)], "chain_pairing",
                 "position " << i << " paired with the column of pivot " << pp << ", reference partner id " << ids[size_t(partner)]);
      }
      if (partner > int(i)) {  // positive, killed later: a cycle
        VF_CHECK(d.empty(), "chain_positive_not_cycle", "position " << i << " column " << show(C[i]) << " boundary " << show(d));
      } else {  // negative: its boundary is (unit times) the partner column
        const SVec& g = C[size_t(partner)];
        bool ok = !d.empty() && ref::low(d) == ref::low(g);
        if (ok) {
          Z c = ref::mod_norm(d.at(ref::low(d)) * ref::mod_inv(g.at(ref::low(g)), p), p);
          SVec diff = d;
          ref::axpy(diff, -c, g, p);
          ok = diff.empty();
        }
        VF_CHECK(ok, "chain_boundary_not_partner",
                 "position " << i << " column " << show(C[i]) << " has boundary " << show(d) << ", partner column (position "
                             << partner << ") is " << show(g));
      }
    }
  }
#else
  // ------------------------------------------------------------------------------- representative cycles (C08)
  void check_cycles(const ref::Reduction& r);
#endif
};

#ifdef PMH_CHECK_CYCLES
}  // namespace pmh
#include "../C08/cycles_check.h"
namespace pmh {
#endif

// ------------------------------------------------------------------------------------------------- group dispatch
template <class Tuple, size_t I = 0>
void run_selected(size_t k, vf::Tape& t, vf::Ctx& ctx) {
  if constexpr (I < std::tuple_size<Tuple>::value) {
    if (k == I) {
      Driver<typename std::tuple_element<I, Tuple>::type> d(t, ctx);
      d.run();
    } else {
      run_selected<Tuple, I + 1>(k, t, ctx);
    }
  }
}

template <class Tuple>
void run_group(vf::Tape& t, vf::Ctx& ctx) {
  constexpr size_t K = std::tuple_size<Tuple>::value;
  size_t k = t.below(uint32_t(K));
  run_selected<Tuple>(k, t, ctx);
}

}  // namespace pmh

#endif  // PM_HARNESS_H_
