#!/usr/bin/env python3
"""Covering list of Matrix<Options> option sets for C05 (and the representative-cycle subset for C08).

Writes props/C05/configs.inc + props/C05/prop.json and props/C08/configs.inc + props/C08/prop.json.
Deterministic (no randomness): greedy pairwise covering over the option dimensions, then the triples the design asks
for (every column type x flavour x field). Run from anywhere: python3 props/C05/gen_configs.py
"""
import itertools
import json
import os

HERE = os.path.dirname(os.path.abspath(__file__))
ROOT = os.path.dirname(os.path.dirname(HERE))

CT = ["LIST", "SET", "HEAP", "VECTOR", "NAIVE_VECTOR", "SMALL_VECTOR", "UNORDERED_SET", "INTRUSIVE_LIST", "INTRUSIVE_SET"]
FLEX = ["B0", "B1", "R0", "R1", "R2", "C0", "C1", "C2", "C3"]  # flavour + extra: B0 plain, B1 swaps; R0 rep, R1 vine,
# R2 rep+vine; C0 plain, C1 rep, C2 vine, C3 rep+vine
ROWS = ["0", "1", "1r", "2", "2r"]  # row access: none / intrusive / intrusive+removable rows / set / set+removable rows


def decode(s):
    ct, flex, z2, idx, rows, remcol, mp, maxdim = s
    fl = flex[0]
    ex = int(flex[1])
    d = dict(ct=ct, z2=z2, chain=(fl == "C"), idx=idx, ra=int(rows[0]), remrows=rows.endswith("r"), remcol=remcol,
             map=mp, maxdim=maxdim, rep=False, vine=False, swaps=False, fl=fl)
    if fl == "B":
        d["swaps"] = ex == 1
    elif fl == "R":
        d["rep"] = ex in (0, 2)
        d["vine"] = ex in (1, 2)
    else:
        d["rep"] = ex in (1, 3)
        d["vine"] = ex in (2, 3)
    return d


def valid(s):
    d = decode(s)
    if CT[d["ct"]] == "HEAP" and d["ra"] != 0:
        return False
    if d["vine"] and not d["z2"]:
        return False
    if d["chain"] and d["vine"] and d["remcol"] != d["map"]:
        return False  # remove_last of a chain matrix with vine updates needs the map container (and the tests pair them)
    return True


ALL = [s for s in itertools.product(range(9), FLEX, [1, 0], [0, 1, 2], ROWS, [1, 0], [0, 1], [0, 1]) if valid(s)]


QUICK_DIMS = (0, 1, 2, 3, 4, 5, 6, 7)
FULL_DIMS = QUICK_DIMS


def greedy(cands, dims, chosen, coarse):
    """greedy pairwise covering; coarse: flavour without its extra, row access without the removable-rows flag"""
    def val(s, k):
        if coarse and k == 1:
            return s[k][0]
        if coarse and k == 4:
            return s[k][0]
        return s[k]

    def pr(s):
        vals = [(k, val(s, k)) for k in dims]
        return set(itertools.combinations(vals, 2))

    need = set()
    for s in cands:
        need |= pr(s)
    for s in chosen:
        need -= pr(s)
    out = []
    cnt = {"B": 0, "R": 0, "C": 0}
    while need:
        best, bs = None, (-1, 0)
        for s in cands:
            sc = (len(pr(s) & need), -cnt[s[1][0]])  # ties: the flavour chosen least often so far
            if sc > bs:
                best, bs = s, sc
        if bs[0] <= 0:
            break
        out.append(best)
        cnt[best[1][0]] += 1
        need -= pr(best)
    return out


def build_lists():
    quick = greedy(ALL, QUICK_DIMS, [], True)
    # every flavour/extra value at least once with both fields where possible in quick
    have = set((s[1], s[2]) for s in quick)
    for flex in FLEX:
        for z2 in (1, 0):
            if (flex, z2) in have:
                continue
            c = [s for s in ALL if s[1] == flex and s[2] == z2 and s not in quick]
            if c:
                quick.append(c[len(quick) % len(c)])
    # both fields well represented in every flavour, with and without removable columns (Zp drives the coefficient
    # paths of the reductions): at least 3 sets per (flavour, field, removable) with different column types
    k = 0
    for fl in "BRC":
        for z2 in (0, 1):
            for remcol in (1, 0):
                have = [s for s in quick if s[1][0] == fl and s[2] == z2 and s[5] == remcol]
                used_ct = set(s[0] for s in quick if s[1][0] == fl and s[2] == z2)
                while len(have) < 3:
                    c = [s for s in ALL if s[1][0] == fl and s[2] == z2 and s[5] == remcol and s not in quick
                         and s[0] not in used_ct]
                    if not c:
                        c = [s for s in ALL if s[1][0] == fl and s[2] == z2 and s[5] == remcol and s not in quick]
                    pick = c[(13 * k + 5) % len(c)]
                    k += 1
                    quick.append(pick)
                    have.append(pick)
                    used_ct.add(pick[0])
    thorough = list(quick)
    thorough += greedy(ALL, FULL_DIMS, thorough, False)
    # every column type x flavour x field
    have = set((s[0], s[1][0], s[2]) for s in thorough)
    k = 0
    for ct in range(9):
        for fl in "BRC":
            for z2 in (1, 0):
                if (ct, fl, z2) in have:
                    continue
                c = [s for s in ALL if s[0] == ct and s[1][0] == fl and s[2] == z2 and s not in thorough]
                thorough.append(c[(7 * k) % len(c)])
                k += 1
    # every column type x flavour/extra x field
    have = set((s[0], s[1], s[2]) for s in thorough)
    for ct in range(9):
        for flex in FLEX:
            for z2 in (1, 0):
                if (ct, flex, z2) in have:
                    continue
                c = [s for s in ALL if s[0] == ct and s[1] == flex and s[2] == z2 and s not in thorough]
                if c:
                    thorough.append(c[(17 * k + 3) % len(c)])
                    k += 1
    # every flavour/extra x indexing x removable x container
    have = set((s[1], s[3], s[5], s[6]) for s in thorough)
    for flex in FLEX:
        for idx in (0, 1, 2):
            for remcol in (1, 0):
                for mp in (0, 1):
                    if (flex, idx, remcol, mp) in have:
                        continue
                    c = [s for s in ALL if (s[1], s[3], s[5], s[6]) == (flex, idx, remcol, mp) and s not in thorough]
                    if c:
                        thorough.append(c[(11 * k) % len(c)])
                        k += 1
    return quick, thorough


def cpp(s):
    d = decode(s)
    b = lambda x: "true" if x else "false"
    return "Opt<Column_types::%s, %s, %s, %d, %d, %s, %s, %s, %s, %s, %s, %s>" % (
        CT[d["ct"]], b(d["z2"]), b(d["chain"]), d["idx"], d["ra"], b(d["remrows"]), b(d["remcol"]), b(d["map"]),
        b(d["maxdim"]), b(d["rep"]), b(d["vine"]), b(d["swaps"]))


def label(s):
    d = decode(s)
    return "%s%s/%s/%s/idx%d/rows%s/%s/%s%s" % (
        {"B": "R-only", "R": "RU", "C": "chain"}[d["fl"]],
        ("+swaps" if d["swaps"] else "") + ("+rep" if d["rep"] else "") + ("+vine" if d["vine"] else ""),
        CT[d["ct"]], "Z2" if d["z2"] else "Zp", d["idx"], s[4], "remcol" if d["remcol"] else "fixed",
        "map" if d["map"] else "vec", "/maxdim" if d["maxdim"] else "")


def groups(sets, per):
    """single-flavour groups of at most `per` sets"""
    out = []
    for fl in "BRC":
        ss = [s for s in sets if s[1][0] == fl]
        for i in range(0, len(ss), per):
            out.append((fl, ss[i:i + per]))
    return out


def emit(pid, quick, thorough, per, cases, maxlen, rule, assumptions, fuzz_every, extra_flags, shrink_budget,
         extra_groups=None):
    qg = groups(quick, per)
    rest = [s for s in thorough if s not in quick]
    tg = groups(rest, per)
    inc = ["// generated by props/C05/gen_configs.py - do not edit", "namespace pmh {"]
    targets = []
    n = 0
    for tier, gs in (("quick", qg), ("thorough", tg)):
        for fl, ss in gs:
            inc.append("#if CFG == %d" % n)
            inc.append("using Sets = std::tuple<\n    %s>;" % ",\n    ".join(cpp(s) for s in ss))
            inc.append("#endif")
            name = "%s%02d" % ({"B": "bnd", "R": "ru", "C": "chain"}[fl], n)
            t = {"name": name, "sources": ["props/%s/main.cpp" % pid], "flags": ["-DCFG=%d" % n] + extra_flags,
                 "cases": {"quick": cases[0], "thorough": cases[1]} if tier == "quick" else {"thorough": cases[1]},
                 "maxlen": maxlen, "streams": 2,
                 "tiers": ["quick", "thorough"] if tier == "quick" else ["thorough"],
                 "class_group": {"B": "R-only", "R": "RU", "C": "chain"}[fl],
                 "note": "; ".join(label(s) for s in ss)}
            if fuzz_every and n % fuzz_every == 0:
                t["fuzz"] = {"runs": 60000, "max_seconds": 300}
            targets.append(t)
            n += 1
    for num, ss in (extra_groups or []):
        inc.append("#if CFG == %d" % num)
        inc.append("using Sets = std::tuple<\n    %s>;" % ",\n    ".join(cpp(s) for s in ss))
        inc.append("#endif")
    inc.append("}  // namespace pmh")
    os.makedirs(os.path.join(ROOT, "props", pid), exist_ok=True)
    with open(os.path.join(ROOT, "props", pid, "configs.inc"), "w") as f:
        f.write("\n".join(inc) + "\n")
    prop = {"id": pid, "rule": rule, "assumptions": assumptions, "tolerances": "", "shrink_budget": shrink_budget,
            "targets": targets}
    try:  # keys added by the integrator (registration, level texts, ...) are kept
        old = json.load(open(os.path.join(ROOT, "props", pid, "prop.json")))
        for k, v in old.items():
            if k not in prop:
                prop[k] = v
    except (OSError, ValueError):
        pass
    with open(os.path.join(ROOT, "props", pid, "prop.json"), "w") as f:
        json.dump(prop, f, indent=1)
        f.write("\n")
    return len(qg), len(tg)


# C15 (copies / moves / swaps of the persistence flavours): props/C05/main.cpp with -DPMH_COPY_OPS -DCFG=100+k
LIST_, SET_, HEAP_, VECTOR_, NAIVE_, SMALL_, UNORD_, ILIST_, ISET_ = range(9)
C15_GROUPS = [
    ("mat_pers_bnd", [(ISET_, "B0", 1, 0, "0", 1, 0, 0), (VECTOR_, "B0", 0, 0, "1", 1, 0, 1)]),
    ("mat_pers_bnd_map", [(LIST_, "B0", 1, 2, "2", 1, 1, 0), (HEAP_, "B0", 0, 0, "0", 1, 1, 0)]),
    ("mat_pers_ru_rep", [(ISET_, "R0", 1, 0, "0", 1, 0, 0), (NAIVE_, "R0", 0, 1, "0", 1, 0, 0)]),
    ("mat_pers_ru_rep_rows", [(LIST_, "R0", 1, 0, "1", 1, 1, 0), (UNORD_, "R0", 0, 0, "2r", 1, 0, 1)]),
    ("mat_pers_ru_vine", [(VECTOR_, "R1", 1, 0, "0", 1, 0, 0), (HEAP_, "R2", 1, 1, "0", 1, 1, 0)]),
    ("mat_pers_chain", [(ISET_, "C0", 1, 0, "0", 1, 0, 0), (VECTOR_, "C0", 0, 1, "0", 1, 0, 1)]),
    ("mat_pers_chain_rep", [(LIST_, "C1", 1, 0, "1", 1, 0, 0), (NAIVE_, "C1", 0, 2, "2", 1, 1, 0)]),
    ("mat_pers_chain_vine", [(UNORD_, "C2", 1, 0, "0", 1, 1, 0), (HEAP_, "C3", 1, 1, "0", 1, 1, 0)]),
]


def update_c15():
    """(re)writes the mat_pers_* targets of props/C15/prop.json, everything else there is kept"""
    fn = os.path.join(ROOT, "props", "C15", "prop.json")
    prop = json.load(open(fn))
    prop["targets"] = [t for t in prop["targets"] if not t["name"].startswith("mat_pers_")]
    for k, (name, ss) in enumerate(C15_GROUPS):
        for x in ss:
            assert valid(x), x
        prop["targets"].append({
            "name": name, "sources": ["props/C05/main.cpp"], "flags": ["-DPMH_COPY_OPS", "-DCFG=%d" % (100 + k)],
            "cases": {"quick": 2500, "thorough": 50000}, "maxlen": 256, "streams": 4, "corpus": "mat_pers",
            "class_group": "mat_pers", "exclude_from": "C05",
            "note": "Matrix<persistence options> copies / moves / swaps (C05 driver with -DPMH_COPY_OPS): "
                    + "; ".join(label(x) for x in ss)})
    add = ("Persistence flavours (targets mat_pers_*, 16 option sets: R-only, RU with representative cycles, RU with "
           "vine updates, chain, chain with cycles, chain with vine updates; driver shared with C05): a pool of up to 3 "
           "(Matrix, filtered complex) pairs; insert_boundary / remove_last batches interleaved with copy construction, "
           "copy assignment (self, onto non-empty or moved-from), move construction / assignment, the friend swap, "
           "destruction; copies and moved-to objects are compared with their source (barcode, representative cycles), "
           "moved-from objects must report 0 columns and are only assigned to or destroyed, and after every step every "
           "live matrix passes the full C05 check (barcode vs ref::reduce, R reduced, factorisation, chain identities, "
           "Z2 cycles closed) against its own model; non-trivial = a copy relation created from an object with >= 5 "
           "cells and one of the two changed before destruction.")
    if "Persistence flavours (targets mat_pers_*" not in prop["rule"]:
        prop["rule"] = prop["rule"].replace(" Thread part (thorough)", " " + add + " Thread part (thorough)")
    with open(fn, "w") as f:
        json.dump(prop, f, indent=1)
        f.write("\n")


def main():
    quick, thorough = build_lists()
    rule05 = (
        "one case = one Matrix<Options> option set of the target's group (tape byte) + a prime (Z2 sets: 2; Zp sets: "
        "2,3,5,7,11,13) + a filtered cell complex (random linear extension of: closure of random simplices on <=7 "
        "vertices; partially periodic cubical grids; RP2 / Klein bottle / torus / simplicial Moore spaces; CW complexes "
        "with degree-m attaching maps; or general chain complexes whose boundaries are random combinations of cycles) "
        "+ identifiers (positions or strictly increasing with gaps) + a history of insert_boundary / remove_last "
        "batches with CHECK points (constructor-from-boundaries or incremental; R-only matrices ask for the barcode "
        "once and then only remove). Oracle: ref::reduce. Non-trivial = the reference reduction needed >= 2 additions "
        "for some column and (the history contains a remove_last or the option set has no removable columns). "
        "Distinct = hash of the rendered case (options, complex, operations).")
    assumptions = [
        "cells are inserted in a valid filtration order with strictly increasing identifiers; remove_last is never "
        "called on an empty matrix; the two insert_boundary overloads are not mixed within one matrix",
        "R-only boundary matrices: get_current_barcode() is called only when the matrix is complete; afterwards only "
        "remove_last (documented restriction)",
        "the exposed second factor of the RU flavour is accepted in any of the conventions B = R*W^T, B = R*W, R = B*W "
        "(the documentation does not fix one; the code uses the first for Z2 and the third for Zp)"]
    nq, nt = emit("C05", quick, thorough, 4, (10000, 80000), 320, rule05, assumptions, 6, [], 1500,
                  [(100 + k, g[1]) for k, g in enumerate(C15_GROUPS)])
    update_c15()
    print("C05: %d quick sets in %d targets, %d more thorough sets in %d targets" % (len(quick), nq,
                                                                                 len(thorough) - len(quick), nt))
    # C08: the sets with representative cycles; RU Zp with identifier indexing cannot expose coefficients -> dropped
    def c08ok(s):
        d = decode(s)
        if not d["rep"]:
            return False
        if d["fl"] == "R" and not d["z2"] and d["idx"] == 2:
            return False
        return True

    cand = [s for s in ALL if c08ok(s)]
    q8 = greedy(cand, QUICK_DIMS, [], False)
    t8 = list(q8)
    have = set((s[0], s[1][0], s[2]) for s in t8)
    k = 0
    for ct in range(9):
        for fl in "RC":
            for z2 in (1, 0):
                if (ct, fl, z2) in have:
                    continue
                c = [s for s in cand if s[0] == ct and s[1][0] == fl and s[2] == z2 and s not in t8]
                t8.append(c[(5 * k) % len(c)])
                k += 1
    rule08 = (
        "cases as for C05 (<= 40 cells) on the option sets with can_retrieve_representative_cycles (RU and chain "
        "flavours, all 9 column types, Z2 and Zp), identifiers == positions for RU; after every batch "
        "update_representative_cycles() then every bar's cycle is checked by linear algebra over the field against "
        "ref::reduce (dimension, youngest cell, zero boundary, not in Z(K_{b-1})+B(K_{d-1}), in it at d, basis of "
        "H(K_i) at every index). Non-trivial = some cycle has >= 4 cells and the reference reduction chained "
        "(>= 2 additions for one column). Distinct = hash of the rendered case.")
    assumptions8 = assumptions[:1] + [
        "the barcode itself is property C05: a case whose barcode differs from the reference is discarded here",
        "Z_p: the API returns supports only; coefficients are read from the exposed column of the birth cell "
        "(chain column, resp. the mirror column of the RU flavour) and its support must equal the returned cycle",
        "cycle entries are identifiers for the chain flavour; for the RU flavour identifiers == positions is imposed"]
    nq8, nt8 = emit("C08", q8, t8, 4, (8000, 60000), 200, rule08, assumptions8, 5, ["-DPMH_CHECK_CYCLES"], 1500)
    print("C08: %d quick sets in %d targets, %d more thorough sets in %d targets" % (len(q8), nq8, len(t8) - len(q8), nt8))


if __name__ == "__main__":
    main()
