// C06: vineyard swaps and maximal-cell removals leave a Matrix<> "as if rebuilt from scratch".
//
// Model  = the current filtration: an ordered list of cells (stable uid, dimension, boundary as uids), Z_2 only.
// Oracle = after every step a fresh ref::reduce of the model filtration (independent of GUDHI): barcode by position,
//          the defining identities of the decomposition (RU: R reduced, B = R*U with U unit upper triangular;
//          chain: compatible basis - pivot is the latest cell of its column, unpaired columns are cycles,
//          d(negative column) = positive column), truthfulness of the value returned by a transposition.
// One instantiation of Driver<Options> = one GUDHI matrix + the bookkeeping a user of that option set has to do
// (which ID designates which cell). A second driver, built fresh on the model filtration at some step, is driven
// alongside afterwards.
#ifndef VERIF_C06_H_
#define VERIF_C06_H_

#include <algorithm>
#include <cstdio>
#include <cstdlib>
#include <functional>
#include <map>
#include <memory>
#include <set>
#include <sstream>
#include <string>
#include <vector>

#include <gudhi/Matrix.h>
#include <gudhi/persistence_matrix_options.h>

#include "reduce.h"
#include "vf.h"

namespace c06 {

using Gudhi::persistence_matrix::Column_indexation_types;
using Gudhi::persistence_matrix::Column_types;
using Gudhi::persistence_matrix::Default_options;
using Gudhi::persistence_matrix::Matrix;

typedef unsigned int U;
static const U kNull = static_cast<U>(-1);

// ------------------------------------------------------------------------------------------------------- options
template <bool RU, Column_indexation_types IDX, bool BAR, Column_types COL, bool REM, bool MAP, bool RA = false,
          bool RR = false, bool INTR = true>
struct Opt : Default_options<COL, true> {
  static const bool has_column_pairings = BAR;
  static const bool has_vine_update = true;
  static const bool is_of_boundary_type = RU;
  static const Column_indexation_types column_indexation_type = IDX;
  static const bool has_removable_columns = REM;
  static const bool has_map_column_container = MAP;
  static const bool has_row_access = RA;
  static const bool has_removable_rows = RR;
  static const bool has_intrusive_rows = INTR;
};

// --------------------------------------------------------------------------------------------------------- model
struct MCell {
  int uid;
  int dim;
  std::vector<int> bd;  // uids of the cells of the boundary (Z_2 coefficients)
};

struct Model {
  std::vector<MCell> f;  // current filtration order
  int next_uid = 0;
  int n() const { return int(f.size()); }
  int pos_of(int uid) const {
    for (int i = 0; i < n(); ++i)
      if (f[size_t(i)].uid == uid) return i;
    return -1;
  }
  bool in_boundary(int uid, const MCell& c) const { return std::find(c.bd.begin(), c.bd.end(), uid) != c.bd.end(); }
  bool swappable(int i) const { return i >= 0 && i + 1 < n() && !in_boundary(f[size_t(i)].uid, f[size_t(i) + 1]); }
  bool coface_free(int p) const {
    for (int q = p + 1; q < n(); ++q)
      if (in_boundary(f[size_t(p)].uid, f[size_t(q)])) return false;
    return true;
  }
  // boundary of the cell at position p as sorted positions
  std::vector<int> bd_pos(int p) const {
    std::vector<int> r;
    for (int u : f[size_t(p)].bd) r.push_back(pos_of(u));
    std::sort(r.begin(), r.end());
    return r;
  }
};

typedef std::set<int> PSet;  // Z_2 chain as a set of positions
inline void xor_into(PSet& a, const PSet& b) {
  for (int x : b) {
    auto it = a.find(x);
    if (it == a.end())
      a.insert(x);
    else
      a.erase(it);
  }
}
inline std::string show(const PSet& s) {
  std::ostringstream o;
  o << "{";
  bool first = true;
  for (int x : s) {
    o << (first ? "" : ",") << x;
    first = false;
  }
  o << "}";
  return o.str();
}

struct RefState {
  ref::Reduction red;
  std::vector<PSet> B;  // boundary matrix by positions
  int n = 0;
  int partner(int p) const { return red.partner[size_t(p)]; }
  bool positive(int p) const { return red.R[size_t(p)].empty(); }
  int birth_of(int p) const { return positive(p) ? p : partner(p); }
  // death of the bar the cell at p belongs to; n+1000 stands for "never"
  int death_of(int p) const { return positive(p) ? (partner(p) < 0 ? n + 1000 : partner(p)) : p; }
};

inline RefState reference(const Model& md) {
  RefState rs;
  rs.n = md.n();
  std::vector<ref::Cell> cells;
  for (int p = 0; p < md.n(); ++p) {
    ref::Cell c;
    c.dim = md.f[size_t(p)].dim;
    PSet b;
    for (int q : md.bd_pos(p)) {
      VF_ORACLE(q >= 0 && q < p, "model: face of the cell at " << p << " is not earlier (" << q << ")");
      c.bdry.push_back({q, 1});
      b.insert(q);
    }
    rs.B.push_back(b);
    cells.push_back(c);
  }
  rs.red = ref::reduce(cells, 2);
  VF_ORACLE(ref::self_check(cells, rs.red), "reference reduction fails its self check");
  return rs;
}

typedef std::tuple<int, int, int> Bar3;  // dim, birth, death (-1 = infinite)
inline std::vector<Bar3> ref_bars(const RefState& rs) {
  std::vector<Bar3> v;
  for (auto& p : rs.red.pairs) v.push_back(Bar3(p.dim, p.birth, p.death));
  std::sort(v.begin(), v.end());
  return v;
}
inline std::string show(const std::vector<Bar3>& v) {
  std::ostringstream o;
  for (auto& b : v) o << "[" << std::get<0>(b) << ":" << std::get<1>(b) << "," << std::get<2>(b) << ")";
  return o.str();
}
// barcode with positions i and i+1 exchanged
inline std::vector<Bar3> transposed(std::vector<Bar3> v, int i) {
  auto t = [i](int x) { return x == i ? i + 1 : (x == i + 1 ? i : x); };
  for (auto& b : v) {
    std::get<1>(b) = t(std::get<1>(b));
    std::get<2>(b) = t(std::get<2>(b));
  }
  std::sort(v.begin(), v.end());
  return v;
}

// ---------------------------------------------------------------------------------------------------- the driver
enum class Api { RU_POS, RU_ID, CH_MAT, CH_POS, CH_ID };

struct SwapOutcome {
  bool kept = false;      // decoded from the returned value: the two cells kept their bars
  std::string raw;        // returned value, for the case description
};

// The comparators handed to a chain matrix without stored barcode are copied/swapped along with the matrix, so they must
// not be tied to one driver: they go through this hub to whichever driver is performing the current operation.
struct CmpHub {
  void* current = nullptr;
};
// the friend swap(Matrix&, Matrix&), found by argument dependent lookup (Driver has a member called swap)
template <class M>
void adl_swap(M& a, M& b) {
  swap(a, b);
}

template <class O>
struct Driver {
  typedef Matrix<O> M;
  std::shared_ptr<CmpHub> hub;
  static constexpr bool ru = O::is_of_boundary_type;
  static constexpr bool bar = O::has_column_pairings;
  static constexpr bool rem = O::has_removable_columns;
  static constexpr bool mapc = O::has_map_column_container;
  static constexpr Column_indexation_types idx = O::column_indexation_type;
  static constexpr Api api =
      ru ? (idx == Column_indexation_types::IDENTIFIER ? Api::RU_ID : Api::RU_POS)
         : (idx == Column_indexation_types::CONTAINER ? Api::CH_MAT
                                                      : (idx == Column_indexation_types::POSITION ? Api::CH_POS : Api::CH_ID));
  static constexpr bool pos_api = (api == Api::RU_POS || api == Api::CH_POS);
  static constexpr bool has_u = (api == Api::RU_POS);
  static constexpr bool need_cmp = !ru && !bar;
  static constexpr bool can_remove_last = rem && (ru || mapc);
  static constexpr bool can_remove_max1 = rem && (ru || (mapc && bar));
  static constexpr bool can_remove_max2 = rem && !ru && mapc && api != Api::CH_POS;

  std::unique_ptr<M> m;
  vf::Ctx& ctx;
  std::string name;       // "A" (the matrix with the history) or "F" (fresh one)
  bool explicit_ids;      // every insertion names its ID, with gaps
  // cid[p]: ID designating the cell currently at position p in the column interface (chain matrices and the ID
  //         overlay: follows the cell). rid[p]: row ID of position p in an RU matrix (documented: "when a swap occurs,
  //         the rows also swap IDs", i.e. row IDs stay attached to positions).
  std::vector<U> cid, rid;
  U max_id = 0;           // largest ID in use (cells and rows); +1 = smallest admissible new ID
  bool any_id = false;
  U inserted = 0;         // number of insertions ever made into this matrix
  // known finding C06-ru-pivot-map-size: mirror of the size of RU_matrix::pivotToColumnIndex_ (vector containers), which
  // the vine swaps index with positions without ever growing it
  // known finding C06-ru-explicit-id-u-rows: while it is excluded, row IDs of an RU matrix are kept equal to positions
  bool rows_are_positions = false;
  // narrower form of the same exclusion (option sets without removable columns): explicit IDs are used, the initial
  // cells get ID = position, gaps only appear with later insertions, and no transposition touches a position whose row
  // ID differs from it
  bool aligned_build = false;
  bool swap_rows_aligned(int i) const { return !ru || (rid[size_t(i)] == U(i) && rid[size_t(i) + 1] == U(i + 1)); }

  // ------------------------------------------------------------------------------------ copies, assignments, swap
  void adopt(const Driver& o) {  // this matrix now has the logical content of o's
    cid = o.cid;
    rid = o.rid;
    mat = o.mat;
    max_id = o.max_id;
    any_id = o.any_id;
    inserted = o.inserted;
    pmap = o.pmap;
    explicit_ids = o.explicit_ids;
    tainted = o.tainted;
    stale_u = o.stale_u;
  }
  // friend swap(Matrix&, Matrix&): afterwards each driver owns the other C++ object, which holds its own old content
  static void swap_matrices(Driver& a, Driver& b) {
    adl_swap(*a.m, *b.m);
    a.m.swap(b.m);
  }
  void copy_assign_from(const Driver& o) {
    *m = *o.m;
    adopt(o);
  }
  void move_assign_from_copy_of(const Driver& o) {
    M tmp(*o.m);
    *m = std::move(tmp);
    adopt(o);
  }
  void copy_construct_from(const Driver& o) {
    m.reset(new M(*o.m));
    adopt(o);
  }
  bool can_insert_at_all() const {
    if (!(ru && rows_are_positions)) return true;
    for (U x : cid)
      if (x >= U(n())) return false;  // the ID `number of cells` must be new and larger than every ID in use
    return true;
  }
  // known finding C06-ru-removal-stale-u (RU_matrix::remove_last leaves the last row of the mirror of U and pending lazy
  // row swaps behind). While excluded: rows are put in order before remove_last, left-overs are looked for afterwards.
  bool tainted = false;   // no further operation is sound on this matrix
  bool stale_u = false;   // U has entries beyond the last row: the next insertion would adopt them
  void force_row_order() {
    if constexpr (ru) {
      if (n() > 0) {
        (void)m->get_column(col_handle(0));
        if constexpr (has_u) (void)m->get_column(U(0), false);
      }
    }
  }
  void look_for_stale_u() {
    if constexpr (has_u) {
      stale_u = false;
      for (int k = 0; k < n(); ++k)
        for (U r : rows_of(m->get_column(U(k), false)))
          if (int(r) >= n()) stale_u = true;
    } else if constexpr (ru) {
      tainted = true;  // U is not readable through this indexation
    }
  }
  // known finding C06-ru-nobarcode-pos-neg-swap: RU without stored barcode, non-trivial swap of a positive cell with a
  // negative one (same dimension, U(i,i+1) != 0; when U is not readable every same-dimension positive/negative swap)
  bool is_f5_trigger(const Model& md, const RefState& rs, int i) {
    if constexpr (ru && !bar) {
      if (!(rs.positive(i) && !rs.positive(i + 1) && md.f[size_t(i)].dim == md.f[size_t(i) + 1].dim)) return false;
      if constexpr (has_u) return !m->is_zero_entry(U(i), U(i + 1), false);  // rows of the stored U are positions
      return true;
    }
    return false;
  }
  // known finding C06-ru-id-get-column-with-pivot-gaps: the RU/IDENTIFIER overlay with map containers looks the answer up
  // by scanning the IDs 0,1,2,... with at(): only ask when every smaller ID is in use
  bool can_ask_column_with_pivot(U expected_answer) const {
    if (!(api == Api::RU_ID && mapc && ctx.excluded("C06-ru-id-get-column-with-pivot-gaps"))) return true;
    for (U x = 0; x < expected_answer; ++x)
      if (pos_of_cid(x) < 0) return false;
    return true;
  }
  // chain matrices: MatIdx of the column whose pivot is the cell at position p, derived from the documented behaviour
  // (a new column gets the next unused index; a swap whose cells keep their bars moves the columns with the cells,
  // otherwise the two columns stay where they are). Checked against get_column_with_pivot where that is readable; used
  // to steer clear of the known finding C06-chain-id-swap-return.
  std::vector<U> mat;
  // known finding C06-chain-nobarcode-sign-by-id: without stored barcode Chain_vine_swap decides "negative" by comparing
  // the IDs of the two pivots of a pair: trigger = one of the two cells is in a pair whose birth cell has the larger ID
  bool is_f16_trigger(const RefState& rs, int i) const {
    if (!need_cmp) return false;
    for (int q : {i, i + 1}) {
      int o = rs.partner(q);
      if (o < 0) continue;
      int b = std::min(q, o), d = std::max(q, o);
      if (cid[size_t(b)] > cid[size_t(d)]) return true;
    }
    return false;
  }
  size_t pmap = 0;
  bool swap_in_pmap(int i) const { return !(ru && !mapc) || size_t(i) + 1 < pmap; }
  // comparators (chain without stored barcode): answered from the reference state of the filtration before the swap
  const RefState* cmp_ref = nullptr;
  bool cmp_documented = true;  // arguments are PosIdx (as documented) / MatIdx resolved through get_pivot
  std::string cmp_problem;

  Driver(vf::Ctx& c, const std::string& nm, bool expl, std::shared_ptr<CmpHub> h = std::make_shared<CmpHub>())
      : hub(std::move(h)), ctx(c), name(nm), explicit_ids(expl) {}
  Driver(const Driver&) = delete;

  int n() const { return int(cid.size()); }

  int cmp_resolve(U a) {
    if (cmp_documented) return int(a);
    U piv = m->get_pivot(a);
    for (int p = 0; p < n(); ++p)
      if (cid[size_t(p)] == piv) return p;
    return -1;
  }
  bool cmp_birth(U a, U b) {
    if (!cmp_ref) {
      cmp_problem = "birth comparator called outside a swap";
      return false;
    }
    int pa = cmp_resolve(a), pb = cmp_resolve(b);
    if (pa < 0 || pb < 0 || pa >= cmp_ref->n || pb >= cmp_ref->n) {
      std::ostringstream o;
      o << "birth comparator called with (" << a << "," << b << "), not positions of the " << cmp_ref->n << " cells";
      cmp_problem = o.str();
      return false;
    }
    return cmp_ref->birth_of(pa) < cmp_ref->birth_of(pb);
  }
  bool cmp_death(U a, U b) {
    if (!cmp_ref) {
      cmp_problem = "death comparator called outside a swap";
      return false;
    }
    int pa = cmp_resolve(a), pb = cmp_resolve(b);
    if (pa < 0 || pb < 0 || pa >= cmp_ref->n || pb >= cmp_ref->n) {
      std::ostringstream o;
      o << "death comparator called with (" << a << "," << b << "), not positions of the " << cmp_ref->n << " cells";
      cmp_problem = o.str();
      return false;
    }
    return cmp_ref->death_of(pa) < cmp_ref->death_of(pb);
  }

  // ------------------------------------------------------------------------------------------------ construction
  // how: 0 default constructor, 1 reserving constructor, 2 constructor from boundaries (only when `simplicial`)
  void build(const Model& md, int how, int reserve = -1) {
    if (reserve < 0) reserve = md.n() + 2;
    std::shared_ptr<CmpHub> h = hub;
    std::function<bool(U, U)> bc = [h](U a, U b) { return h->current ? static_cast<Driver*>(h->current)->cmp_birth(a, b) : false; };
    std::function<bool(U, U)> dc = [h](U a, U b) { return h->current ? static_cast<Driver*>(h->current)->cmp_death(a, b) : false; };
    if (how == 2) {
      std::vector<std::vector<U> > cols;
      for (int p = 0; p < md.n(); ++p) {
        std::vector<U> b;
        for (int q : md.bd_pos(p)) b.push_back(U(q));
        cols.push_back(b);
      }
      if constexpr (need_cmp)
        m.reset(new M(cols, bc, dc));
      else
        m.reset(new M(cols));
      for (int p = 0; p < md.n(); ++p) {
        cid.push_back(U(p));
        rid.push_back(U(p));
        mat.push_back(U(p));
      }
      note_ids();
      inserted = U(md.n());
      pmap = size_t(md.n());
      return;
    }
    if (how == 1) pmap = size_t(reserve);
    if (how == 1) {
      if constexpr (need_cmp)
        m.reset(new M(U(reserve), bc, dc));
      else
        m.reset(new M(U(reserve)));
    } else {
      if constexpr (need_cmp)
        m.reset(new M(bc, dc));
      else
        m.reset(new M());
    }
    Model part;
    for (int p = 0; p < md.n(); ++p) {
      part.f.push_back(md.f[size_t(p)]);
      insert(part, (explicit_ids && !aligned_build) ? unsigned((p * 7 + 1) % 3) : 0u, p % 2 == 0);
    }
  }

  void note_ids() {  // IDs "have to be strictly increasing in the order of the filtration": a new one must exceed these
    any_id = false;
    max_id = 0;
    for (U x : cid) {
      if (!any_id || x > max_id) max_id = x;
      any_id = true;
    }
    for (U x : rid) {
      if (!any_id || x > max_id) max_id = x;
      any_id = true;
    }
  }

  // can the boundary of a new cell with the given face positions be expressed unambiguously for this matrix?
  bool can_insert(const std::vector<int>& face_pos) const {
    if constexpr (api == Api::RU_ID) {
      // the overlay hands the boundary to the RU matrix unchanged, whose rows are attached to positions, while the
      // documentation of insert_boundary speaks of the IDs of the cells: only use faces for which both coincide
      for (int q : face_pos)
        if (cid[size_t(q)] != rid[size_t(q)]) return false;
    }
    return true;
  }

  // insert the last cell of md (already appended to the model). gap: extra distance of an explicit ID.
  void insert(const Model& md, unsigned gap, bool with_dim) {
    int p = md.n() - 1;
    const MCell& c = md.f[size_t(p)];
    std::vector<U> b;
    for (int q : md.bd_pos(p)) b.push_back(ru ? rid[size_t(q)] : cid[size_t(q)]);
    std::sort(b.begin(), b.end());
    // default IDs are usable when the documentation leaves no doubt about the ID the new cell receives and about how
    // its faces are designated: RU: ID = row = current position; chain: ID = rank of the insertion, and faces "identified
    // by their relative position in the filtration" <=> every cell still has ID == position.
    bool dflt = !explicit_ids;
    U would_be = ru ? U(p) : inserted;
    if (dflt) {
      if (any_id && would_be <= max_id) dflt = false;
      if (would_be != U(p)) dflt = false;
      for (int q = 0; q < p && dflt; ++q)
        if (cid[size_t(q)] != U(q) || rid[size_t(q)] != U(q)) dflt = false;
    }
    U id = dflt ? would_be : (any_id ? max_id + 1 + gap : gap);
    if (ru && rows_are_positions) id = U(p);
    bool simplicial = (c.bd.empty() && c.dim == 0) || (!c.bd.empty() && int(c.bd.size()) == c.dim + 1);
    bool pass_dim = with_dim || !simplicial;
    if (dflt) {
      if (pass_dim)
        m->insert_boundary(b, c.dim);
      else
        m->insert_boundary(b);
      ctx.hit("insert:default-id");
    } else {
      if (pass_dim)
        m->insert_boundary(id, b, c.dim);
      else
        m->insert_boundary(id, b);
      ctx.hit("insert:explicit-id");
    }
    if (!b.empty() && pmap <= size_t(b.back())) pmap = (size_t(b.back()) + 1) * 2;
    cid.push_back(id);
    rid.push_back(id);
    mat.push_back(inserted);
    note_ids();
    ++inserted;
  }

  // ---------------------------------------------------------------------------------------------------- reading
  U col_handle(int p) {  // the index designating the column of the cell at position p in this indexation scheme
    if constexpr (api == Api::RU_POS || api == Api::CH_POS) return U(p);
    if constexpr (api == Api::RU_ID || api == Api::CH_ID) return cid[size_t(p)];
    if constexpr (api == Api::CH_MAT) return m->get_column_with_pivot(cid[size_t(p)]);
    return 0;
  }

  template <class Col>
  std::vector<U> rows_of(const Col& col) {
    std::vector<U> r;
    auto content = col.get_content(int(max_id) + 8 + 2 * n());
    for (size_t i = 0; i < content.size(); ++i)
      if (content[i] != 0) r.push_back(U(i));
    return r;
  }

  int pos_of_rid(U r) const {
    for (int p = 0; p < n(); ++p)
      if (rid[size_t(p)] == r) return p;
    return -1;
  }
  int pos_of_cid(U r) const {
    for (int p = 0; p < n(); ++p)
      if (cid[size_t(p)] == r) return p;
    return -1;
  }

  std::vector<Bar3> barcode() {
    std::vector<Bar3> v;
    if constexpr (bar) {
      for (const auto& b : m->get_current_barcode())
        v.push_back(Bar3(int(b.dim), b.birth == kNull ? -1 : int(b.birth), b.death == kNull ? -1 : int(b.death)));
    }
    std::sort(v.begin(), v.end());
    return v;
  }

  // light check: nothing here forces the lazily swapped rows of an RU matrix to be put in order
  void check_light(const Model& md, const RefState& rs, const std::string& when) {
    VF_CHECK(int(m->get_number_of_columns()) == md.n(), "column-count",
             name << " " << when << ": get_number_of_columns() = " << m->get_number_of_columns() << ", cells " << md.n());
    if constexpr (bar) {
      auto got = barcode();
      auto want = ref_bars(rs);
      VF_CHECK(got == want, "barcode", name << " " << when << ": barcode " << show(got) << " expected " << show(want));
    } else if constexpr (ru) {
      for (int p = 0; p < md.n(); ++p) {
        bool z = m->is_zero_column(col_handle(p));
        VF_CHECK(z == rs.positive(p), "ru-sign",
                 name << " " << when << ": is_zero_column at position " << p << " = " << z << ", reference positive = "
                      << rs.positive(p));
        if (!rs.positive(p) && can_ask_column_with_pivot(col_handle(p))) {
          U c = m->get_column_with_pivot(rid[size_t(rs.partner(p))]);
          VF_CHECK(c == col_handle(p), "ru-pivot-map",
                   name << " " << when << ": get_column_with_pivot(row of position " << rs.partner(p) << ") = " << c
                        << ", expected the column of position " << p << " (" << col_handle(p) << ")");
        }
      }
    }
  }

  void check_full(const Model& md, const RefState& rs, const std::string& when) {
    check_light(md, rs, when);
    if constexpr (ru)
      check_full_ru(md, rs, when);
    else
      check_full_chain(md, rs, when);
  }

  void check_full_ru(const Model& md, const RefState& rs, const std::string& when) {
    int N = md.n();
    std::vector<PSet> R((size_t)N), Um((size_t)N);
    std::set<int> lows;
    for (int p = 0; p < N; ++p) {
      U h = col_handle(p);
      for (U r : rows_of(m->get_column(h))) {
        int q = pos_of_rid(r);
        VF_CHECK(q >= 0, "ru-row", name << " " << when << ": R column of position " << p << " has an entry in row " << r
                                        << " which is no row ID of a current cell");
        R[size_t(p)].insert(q);
      }
      VF_CHECK(int(m->get_column_dimension(h)) == md.f[size_t(p)].dim, "dimension",
               name << " " << when << ": get_column_dimension at position " << p << " = " << m->get_column_dimension(h)
                    << ", cell has dimension " << md.f[size_t(p)].dim);
      VF_CHECK(m->is_zero_column(h) == R[size_t(p)].empty(), "ru-zero-column",
               name << " " << when << ": is_zero_column at position " << p << " disagrees with the content "
                    << show(R[size_t(p)]));
      U piv = m->get_pivot(h);
      if (R[size_t(p)].empty()) {
        VF_CHECK(piv == kNull, "ru-pivot", name << " " << when << ": get_pivot of the zero column at " << p << " = " << piv);
      } else {
        int low = *R[size_t(p)].rbegin();
        VF_CHECK(pos_of_rid(piv) == low, "ru-pivot",
                 name << " " << when << ": get_pivot at position " << p << " = row " << piv << ", lowest entry is at position "
                      << low << " (row " << rid[size_t(low)] << "), column " << show(R[size_t(p)]));
        VF_CHECK(lows.insert(low).second, "ru-reduced",
                 name << " " << when << ": R is not reduced, two columns have their lowest entry at position " << low);
        VF_CHECK(low == rs.partner(p) && !rs.positive(p), "ru-pairing",
                 name << " " << when << ": column " << p << " of R pairs with " << low << ", reference pairs with "
                      << rs.partner(p));
        if (can_ask_column_with_pivot(h)) {
          U c = m->get_column_with_pivot(piv);
          VF_CHECK(c == h, "ru-pivot-map",
                   name << " " << when << ": get_column_with_pivot(" << piv << ") = " << c << ", expected " << h);
        }
      }
      VF_CHECK(R[size_t(p)].empty() == rs.positive(p), "ru-pairing",
               name << " " << when << ": column " << p << " of R " << show(R[size_t(p)]) << ", reference says "
                    << (rs.positive(p) ? "positive" : "negative"));
    }
    static const bool no_u = getenv("C06_NO_U") != nullptr;  // experiment switch, never set by `check`
    if (no_u) return;
    if constexpr (has_u) {
      // stored factor: column k of the mirror matrix = row k of U with B = R*U (Z_2); rows of the mirror are positions
      for (int k = 0; k < N; ++k) {
        for (U r : rows_of(m->get_column(U(k), false))) {
          // entries beyond the current number of cells lie outside the matrix (remove_last leaves some behind): they
          // are not part of U; should they matter, a later insertion makes them visible in B = R*U
          if (int(r) < N) Um[size_t(k)].insert(int(r));
        }
        VF_CHECK(Um[size_t(k)].count(k) == 1, "ru-u-diagonal",
                 name << " " << when << ": U(" << k << "," << k << ") is zero, stored " << show(Um[size_t(k)]));
        VF_CHECK(*Um[size_t(k)].begin() == k, "ru-u-triangular",
                 name << " " << when << ": U is not upper triangular: row " << k << " = " << show(Um[size_t(k)]));
      }
      for (int j = 0; j < N; ++j) {
        PSet acc;
        for (int k = 0; k < N; ++k)
          if (Um[size_t(k)].count(j)) xor_into(acc, R[size_t(k)]);
        VF_CHECK(acc == rs.B[size_t(j)], "ru-B=RU",
                 name << " " << when << ": column " << j << " of R*U is " << show(acc) << ", boundary of the cell is "
                      << show(rs.B[size_t(j)]));
      }
    } else {
      // U is not readable through this indexation: R(:,j) must be B(:,j) plus a combination of earlier columns of B
      for (int j = 0; j < N; ++j) {
        PSet d = R[size_t(j)];
        xor_into(d, rs.B[size_t(j)]);
        ref::SVec dv;
        for (int x : d) dv[x] = 1;
        std::vector<ref::SVec> basis;
        for (int q = 0; q < j; ++q) {
          ref::SVec bv;
          for (int x : rs.B[size_t(q)]) bv[x] = 1;
          basis.push_back(bv);
        }
        VF_CHECK(ref::in_span(dv, basis, 2), "ru-R=BV",
                 name << " " << when << ": column " << j << " of R " << show(R[size_t(j)])
                      << " is not the boundary plus a combination of earlier boundaries");
      }
    }
  }

  void check_full_chain(const Model& md, const RefState& rs, const std::string& when) {
    int N = md.n();
    std::vector<PSet> C((size_t)N);
    std::vector<bool> paired((size_t)N);
    std::vector<U> handle((size_t)N);
    std::set<U> handles;
    for (int p = 0; p < N; ++p) {
      U h = col_handle(p);
      handle[size_t(p)] = h;
      VF_CHECK(handles.insert(h).second, "chain-column-map",
               name << " " << when << ": two cells are served by the same column " << h);
      if constexpr (api == Api::CH_MAT) {
        VF_ORACLE(mat[size_t(p)] == h, name << " " << when << ": harness tracking of MatIdx is off at position " << p << ": "
                                            << mat[size_t(p)] << " vs get_column_with_pivot " << h);
      }
      U piv = m->get_pivot(h);
      VF_CHECK(piv == cid[size_t(p)], "chain-pivot",
               name << " " << when << ": get_pivot of the column of the cell at position " << p << " (ID " << cid[size_t(p)]
                    << ") = " << piv);
      if constexpr (api == Api::CH_POS) {
        U w = m->get_column_with_pivot(cid[size_t(p)]);
        VF_CHECK(w == U(p), "chain-pivot-map",
                 name << " " << when << ": get_column_with_pivot(" << cid[size_t(p)] << ") = " << w << ", cell is at position "
                      << p);
      }
      const auto& col = m->get_column(h);
      for (U r : rows_of(col)) {
        int q = pos_of_cid(r);
        VF_CHECK(q >= 0, "chain-row", name << " " << when << ": column of position " << p << " has an entry in row " << r
                                           << " which is no ID of a current cell");
        C[size_t(p)].insert(q);
      }
      paired[size_t(p)] = col.is_paired();
      VF_CHECK(int(m->get_column_dimension(h)) == md.f[size_t(p)].dim, "dimension",
               name << " " << when << ": get_column_dimension at position " << p << " = " << m->get_column_dimension(h)
                    << ", cell has dimension " << md.f[size_t(p)].dim);
      VF_CHECK(!m->is_zero_column(h), "chain-zero-column", name << " " << when << ": empty chain at position " << p);
      VF_CHECK(!C[size_t(p)].empty() && *C[size_t(p)].rbegin() == p, "chain-pivot-latest",
               name << " " << when << ": the chain with pivot at position " << p << " is " << show(C[size_t(p)])
                    << " (its latest cell must be the pivot)");
    }
    for (int p = 0; p < N; ++p) {
      PSet d;
      for (int q : C[size_t(p)]) xor_into(d, rs.B[size_t(q)]);
      if (rs.positive(p)) {
        VF_CHECK(d.empty(), "chain-cycle",
                 name << " " << when << ": chain " << show(C[size_t(p)]) << " of the positive cell at " << p
                      << " has boundary " << show(d));
        VF_CHECK(paired[size_t(p)] == (rs.partner(p) >= 0), "chain-pairing",
                 name << " " << when << ": positive cell at " << p << " is_paired = " << paired[size_t(p)]
                      << ", reference partner " << rs.partner(p));
      } else {
        int b = rs.partner(p);
        VF_CHECK(paired[size_t(p)], "chain-pairing",
                 name << " " << when << ": negative cell at " << p << " is not paired, reference partner " << b);
        VF_CHECK(d == C[size_t(b)], "chain-boundary",
                 name << " " << when << ": boundary of the chain " << show(C[size_t(p)]) << " at " << p << " is " << show(d)
                      << ", chain of its partner at " << b << " is " << show(C[size_t(b)]));
      }
      if constexpr (api == Api::CH_MAT) {
        if (rs.partner(p) >= 0) {
          U q = m->get_column(handle[size_t(p)]).get_paired_chain_index();
          VF_CHECK(q == handle[size_t(rs.partner(p))], "chain-pairing",
                   name << " " << when << ": get_paired_chain_index of the column at position " << p << " = " << q
                        << ", partner column is " << handle[size_t(rs.partner(p))]);
        }
      }
    }
  }

  // --------------------------------------------------------------------------------------------------- mutation
  // precondition of vine_swap_with_z_eq_1_case ("assumes that the swap is non trivial"), read through the public
  // interface exactly as vine_swap itself decides triviality; false when it cannot be established
  bool z_eq_1_applies(const Model& md, int i) {
    if (md.f[size_t(i)].dim != md.f[size_t(i) + 1].dim) return false;
    if constexpr (api == Api::RU_POS) {
      return !m->is_zero_entry(U(i), U(i + 1), false);  // rows of the stored U are positions
    } else if constexpr (api == Api::RU_ID) {
      return false;  // U is not readable
    } else {
      return !m->is_zero_entry(col_handle(i + 1), cid[size_t(i)]);
    }
  }

  // swaps the cells at positions i and i+1 (model not yet updated); rs = reference of the filtration before the swap
  SwapOutcome swap(const Model& md, const RefState& rs, int i, bool z1) {
    SwapOutcome out;
    std::ostringstream raw;
    cmp_ref = &rs;
    cmp_problem.clear();
    hub->current = this;
    if constexpr (pos_api) {
      bool r = z1 ? m->vine_swap_with_z_eq_1_case(U(i)) : m->vine_swap(U(i));
      out.kept = r;
      raw << (r ? "true" : "false");
    } else {
      U a = col_handle(i), b = col_handle(i + 1);
      U ida = cid[size_t(i)];
      U r = z1 ? m->vine_swap_with_z_eq_1_case(a, b) : m->vine_swap(a, b);
      raw << r << " of (" << a << "," << b << ")";
      if constexpr (api == Api::CH_MAT) {
        VF_CHECK(r == a || r == b, "swap-return-domain",
                 name << ": vine_swap(" << a << "," << b << ") returned " << r << ", none of the two columns");
        U piv = m->get_pivot(r);
        VF_CHECK(piv == ida, "swap-return-column",
                 name << ": vine_swap(" << a << "," << b << ") returned column " << r << " whose pivot is " << piv
                      << "; the cell now at the later position has ID " << ida);
        out.kept = (r == a);
      } else if constexpr (api == Api::RU_ID) {
        VF_CHECK(r == a || r == b, "swap-return-domain",
                 name << ": vine_swap(" << a << "," << b << ") returned " << r << ", none of the two IDs");
        out.kept = (r == a);
      } else {  // CH_ID
        if (ctx.excluded("C06-chain-id-swap-return")) {
          ctx.hit("excluded:C06-chain-id-swap-return");
          out.kept = rs_kept_hint;
        } else {
          VF_CHECK(r == a || r == b, "swap-return-domain",
                   name << ": vine_swap(" << a << "," << b << ") returned " << r << ", none of the two IDs");
          out.kept = (r == a);
        }
      }
    }
    cmp_ref = nullptr;
    VF_CHECK(cmp_problem.empty(), "comparator-arguments", name << ": " << cmp_problem);
    if (api != Api::RU_POS) std::swap(cid[size_t(i)], cid[size_t(i) + 1]);
    if (rs_kept_hint) std::swap(mat[size_t(i)], mat[size_t(i) + 1]);
    out.raw = raw.str();
    return out;
  }
  bool rs_kept_hint = false;      // set by the caller: what the reference says (only used when the return value of
                                  // the chain/IDENTIFIER overlay is excluded as a known finding)
  // chain/IDENTIFIER: the literal documentation ("the column which has now the later position", in IDs always the first
  // cell) is an accepted reading besides the convention of the RU/IDENTIFIER overlay (first cell <=> bars kept)
  static constexpr bool chain_id_literal = (api == Api::CH_ID);

  // the cell at position p is about to travel to the end of `md` by transpositions: follow the columns
  void track_travel(const Model& md, int p) {
    if (ru) return;
    Model cur = md;
    for (int j = p; j + 1 < cur.n(); ++j) {
      RefState before = reference(cur);
      std::swap(cur.f[size_t(j)], cur.f[size_t(j) + 1]);
      RefState after = reference(cur);
      if (ref_bars(after) == transposed(ref_bars(before), j)) std::swap(mat[size_t(j)], mat[size_t(j) + 1]);
    }
    mat.pop_back();                    // the column now at the end goes
    mat.insert(mat.begin() + p, 0u);   // placeholder: after_removal erases position p
  }
  void after_removal(int p) {
    if (!mat.empty()) mat.erase(mat.begin() + p);
    if (api == Api::RU_POS)
      cid.pop_back();  // no cell IDs in this interface, cid mirrors rid
    else
      cid.erase(cid.begin() + p);
    if (ru)
      rid.pop_back();  // row IDs stay attached to positions: the last one goes
    else
      rid.erase(rid.begin() + p);
    note_ids();
  }

  void remove_last() {
    if constexpr (can_remove_last) {
      m->remove_last();
      after_removal(n() - 1);
    }
  }
  // remove the coface-free cell at position p; two_arg: chain version taking the IDs of the later cells
  void remove_maximal(const Model& md, int p, bool two_arg) {
    track_travel(md, p);
    if constexpr (can_remove_max2) {
      if (two_arg) {
        std::vector<U> later(cid.begin() + p + 1, cid.end());
        m->remove_maximal_cell(cid[size_t(p)], later);
        // the cell travelled to the end; in an RU matrix nothing else moves, in a chain matrix IDs follow the cells
        after_removal(p);
        return;
      }
    }
    if constexpr (can_remove_max1) {
      U h = (api == Api::RU_POS || api == Api::CH_POS) ? U(p) : cid[size_t(p)];
      m->remove_maximal_cell(h);
      after_removal(p);
    }
  }
};

// ------------------------------------------------------------------------------------------------ case generator
inline const char* col_name(Column_types c) {
  switch (c) {
    case Column_types::LIST: return "LIST";
    case Column_types::SET: return "SET";
    case Column_types::HEAP: return "HEAP";
    case Column_types::VECTOR: return "VECTOR";
    case Column_types::NAIVE_VECTOR: return "NAIVE_VECTOR";
    case Column_types::SMALL_VECTOR: return "SMALL_VECTOR";
    case Column_types::UNORDERED_SET: return "UNORDERED_SET";
    case Column_types::INTRUSIVE_LIST: return "INTRUSIVE_LIST";
    case Column_types::INTRUSIVE_SET: return "INTRUSIVE_SET";
  }
  return "?";
}

template <class O>
std::string option_text() {
  std::ostringstream o;
  o << (O::is_of_boundary_type ? "RU" : "chain") << " idx="
    << (O::column_indexation_type == Column_indexation_types::CONTAINER
            ? "CONTAINER"
            : (O::column_indexation_type == Column_indexation_types::POSITION ? "POSITION" : "IDENTIFIER"))
    << " barcode=" << O::has_column_pairings << " col=" << col_name(O::column_type)
    << " removable=" << O::has_removable_columns << " map=" << O::has_map_column_container
    << " rows=" << O::has_row_access << "/" << O::has_removable_rows << "/" << O::has_intrusive_rows;
  return o.str();
}

// proposes a new cell for the end of the filtration; choice: small numbers = simple
inline MCell propose_cell(vf::Tape& t, const Model& md, const RefState& rs, int max_cells) {
  MCell c;
  c.uid = -1;
  c.dim = 0;
  (void)max_cells;
  std::vector<int> verts;
  for (int p = 0; p < md.n(); ++p)
    if (md.f[size_t(p)].dim == 0) verts.push_back(p);
  unsigned kind = unsigned(t.weighted({4, 6, 5, 1, 1}));
  if (kind == 1 && verts.size() >= 2) {  // edge between two distinct vertices (parallel edges allowed: a cell complex)
    // half of the time among the three oldest vertices: dense multigraphs (parallel edges, long reduction chains)
    std::vector<int> pool = verts;
    if (t.flip() && pool.size() > 3) pool.resize(3);
    int a = t.pick(pool), b = t.pick(pool);
    if (a == b) b = pool[(size_t(std::find(pool.begin(), pool.end(), a) - pool.begin()) + 1) % pool.size()];
    c.dim = 1;
    c.bd = {md.f[size_t(a)].uid, md.f[size_t(b)].uid};
    return c;
  }
  if (kind == 2 || kind == 3) {  // a cell filling cycles: boundary = cycle(s) of the reference basis of dimension d-1 >= 1
    std::vector<int> cyc;
    for (int p = 0; p < md.n(); ++p)
      if (rs.positive(p) && md.f[size_t(p)].dim >= 1 && md.f[size_t(p)].dim <= 2) cyc.push_back(p);
    if (!cyc.empty()) {
      int z = t.pick(cyc);
      PSet b;
      for (auto& kv : rs.red.V[size_t(z)]) b.insert(kv.first);
      if (kind == 3) {
        int z2 = t.pick(cyc);
        if (md.f[size_t(z2)].dim == md.f[size_t(z)].dim && z2 != z) {
          PSet b2;
          for (auto& kv : rs.red.V[size_t(z2)]) b2.insert(kv.first);
          xor_into(b, b2);
        }
      }
      c.dim = md.f[size_t(z)].dim + 1;
      for (int q : b) c.bd.push_back(md.f[size_t(q)].uid);
      return c;
    }
  }
  if (kind == 4 && !verts.empty()) {  // a loop: 1-cell with empty boundary (Morse-type cell)
    c.dim = 1;
    return c;
  }
  return c;  // vertex
}

// debugging aid: with C06_TRACE set, the case description is echoed to stderr as it is produced (a sanitizer abort
// would otherwise lose it)
inline void trace(vf::Ctx& ctx, size_t& printed) {
  static const bool on = getenv("C06_TRACE") != nullptr;
  if (!on) return;
  std::string s = ctx.desc.str();
  fputs(s.c_str() + printed, stderr);
  fflush(stderr);
  printed = s.size();
}

template <class O>
void run(vf::Tape& t, vf::Ctx& ctx) {
  typedef Driver<O> D;
  size_t printed = 0;
  const int kMaxCells = 25, kMaxSteps = 60;
  ctx.desc << "options: " << option_text<O>() << "\n";
  bool explicit_ids = !t.chance(3, 4);
  int how = int(t.weighted({3, 1, 3}));
  int n0 = int(t.below(13));
  const bool f2 = O::is_of_boundary_type && ctx.excluded("C06-ru-explicit-id-u-rows");
  const bool f2_narrow = f2 && !O::has_removable_columns;  // see Driver::aligned_build
  bool rows_pos = f2 && !f2_narrow;
  if (rows_pos && explicit_ids) {
    explicit_ids = false;
    ctx.hit("excluded:C06-ru-explicit-id-u-rows");
  }

  Model md;
  {  // initial filtration
    for (int k = 0; k < n0; ++k) {
      RefState rs = reference(md);
      MCell c = propose_cell(t, md, rs, kMaxCells);
      c.uid = md.next_uid++;
      md.f.push_back(c);
    }
  }
  bool simplicial = true;
  for (auto& c : md.f)
    if (!((c.bd.empty() && c.dim == 0) || (!c.bd.empty() && int(c.bd.size()) == c.dim + 1))) simplicial = false;
  // known finding: Matrix::insert_boundary has no return statement for chain matrices with IDENTIFIER indexation
  const bool f10 = D::api == Api::CH_ID && ctx.excluded("C06-chain-id-insert-boundary-no-return");
  if (f10) {  // only the constructor from boundaries can be used: make the initial complex simplicial, default IDs
    for (auto& c : md.f)
      if (!((c.bd.empty() && c.dim == 0) || (!c.bd.empty() && int(c.bd.size()) == c.dim + 1))) {
        c.dim = 0;
        c.bd.clear();
        ctx.hit("excluded:C06-chain-id-insert-boundary-no-return");
      }
    // a cell whose face was turned into a vertex above may have lost its meaning: re-validate dimensions
    for (size_t q = 0; q < md.f.size(); ++q)
      for (int u : md.f[q].bd)
        if (md.f[size_t(md.pos_of(u))].dim != md.f[q].dim - 1) {
          md.f[q].dim = 0;
          md.f[q].bd.clear();
          break;
        }
    simplicial = true;
    explicit_ids = false;
    how = 2;
  }
  ctx.desc << "ids: " << (explicit_ids ? "explicit" : "default") << "\n";
  if (how == 2 && (!simplicial || explicit_ids)) how = 0;
  int reserve = -1;
  if (D::ru && !D::mapc && how != 2 && ctx.excluded("C06-ru-pivot-map-size")) {
    // known finding: only the reserving constructor makes the pivot dictionary large enough for swaps everywhere
    how = 1;
    reserve = kMaxCells + 2;
  }
  ctx.desc << "build: " << (how == 2 ? "constructor from boundaries" : (how == 1 ? "reserve + insert_boundary" : "insert_boundary"))
           << "\n";
  for (int p = 0; p < md.n(); ++p) {
    ctx.desc << "  cell u" << md.f[size_t(p)].uid << " dim " << md.f[size_t(p)].dim << " bd";
    for (int u : md.f[size_t(p)].bd) ctx.desc << " u" << u;
    ctx.desc << "\n";
  }

  trace(ctx, printed);
  std::shared_ptr<CmpHub> hub = std::make_shared<CmpHub>();
  std::unique_ptr<D> A(new D(ctx, "A", explicit_ids, hub)), F;
  A->rows_are_positions = rows_pos;
  A->aligned_build = f2_narrow;
  if (A->need_cmp) A->cmp_documented = false;  // since fix 5a1d2709b the documentation states MatIdx, which is what the code passes
  A->build(md, how, reserve);
  RefState rs = reference(md);
  A->check_full(md, rs, "after construction");

  bool swapped = false, removal_after_swap = false, pairing_change = false, copied = false, swap_after_copy = false;
  int last_swap = -1;
  int steps = 0;
  const bool f3 = O::is_of_boundary_type && ctx.excluded("C06-ru-removal-stale-u");
  const bool f16 = D::need_cmp && ctx.excluded("C06-chain-nobarcode-sign-by-id");
  // known finding: the chain/IDENTIFIER overlay orders the two columns of a swap by MatIdx instead of by position (and
  // returns a MatIdx): avoided by not swapping cells whose columns are in the opposite order
  const bool f13 = D::api == Api::CH_ID && ctx.excluded("C06-chain-id-swap-return");
  // known finding: Position_to_index_overlay::remove_maximal_cell passes MatIdx where Chain_matrix expects cell IDs and
  // assumes that no swap on the way exchanges the two columns
  const bool f11 = D::api == Api::CH_POS && ctx.excluded("C06-chain-pos-remove-maximal-cell-ids");
  // known finding: Id_to_index_overlay::remove_maximal_cell (RU) does not keep its position->ID table up to date while
  // the cell travels: wrong as soon as two swaps are needed
  const bool f6 = D::api == Api::RU_ID && ctx.excluded("C06-ru-id-remove-maximal-cell-map");
  const bool f5 = O::is_of_boundary_type && !O::has_column_pairings && ctx.excluded("C06-ru-nobarcode-pos-neg-swap");
  // known finding: Boundary_matrix::remove_last (vector containers) reads the pivot of the removed column before its rows
  // are put in order when swaps are pending -> wrong entry of RU_matrix::pivotToColumnIndex_ cleared
  const bool f4 = O::is_of_boundary_type && !O::has_map_column_container && ctx.excluded("C06-ru-remove-negative-pending-swaps");
  while (!t.exhausted() && steps < kMaxSteps) {
    if (f3 && (A->tainted || (F && F->tainted))) {
      ctx.hit("excluded:C06-ru-removal-stale-u:stop");
      break;
    }
    // op-code first; code 0 ends the history so that trailing zero bytes decode like an exhausted tape (the shrinker
    // drops them)
    unsigned opc = unsigned(t.weighted({1, 10, 3, 4, 3, 2, 1, 1}));
    if (opc == 0) break;
    ++steps;
    unsigned op = opc - 1;
    bool full = t.chance(1, 3);
    // copies / assignments / swap of the two matrices (only while both exist): sub-choice of the "fresh matrix" code when F
    // is alive; option sets without removable columns use their idle removal codes for it as well (or to create F)
    int copy_op = 0;
    constexpr bool removable = D::can_remove_last || D::can_remove_max1 || D::can_remove_max2;
    if (!removable && (op == 3 || op == 4 || op == 6)) {
      if (!F) {
        op = 5;
      } else {
        copy_op = 1 + int(t.below(5));
        op = 7;
      }
    } else if (op == 5 && F) {
      copy_op = int(t.below(6));  // 0: a new fresh matrix replaces F
      if (copy_op != 0) op = 7;
    }
    std::ostringstream when;
    when << "after step " << steps;
    bool did = false;
    if (op == 0 || op == 1) {  // transposition
      if (md.n() >= 2) {
        int start = int(t.below(U(md.n() - 1))), i = -1;
        // local walks: often continue next to the previous transposition (the same pair again, or its neighbours) - this
        // is what reaches the non-trivial mixed-sign cases and moves single cells far
        if (last_swap >= 0 && t.chance(2, 5)) {
          start = last_swap + int(t.below(3)) - 1;
          if (start < 0) start = 0;
          if (start > md.n() - 2) start = md.n() - 2;
          ctx.hit("swap:local");
        }
        bool guard = ctx.excluded("C06-ru-pivot-map-size");
        auto admissible = [&](int cand) {
          if (!md.swappable(cand)) return false;
          if (f2_narrow && !(A->swap_rows_aligned(cand) && (!F || F->swap_rows_aligned(cand)))) {
            ctx.hit("excluded:C06-ru-explicit-id-u-rows");
            return false;
          }
          if (guard && !(A->swap_in_pmap(cand) && (!F || F->swap_in_pmap(cand)))) {
            ctx.hit("excluded:C06-ru-pivot-map-size");
            return false;
          }
          if (f13 && ((A->mat[size_t(cand)] > A->mat[size_t(cand) + 1]) ||
                      (F && F->mat[size_t(cand)] > F->mat[size_t(cand) + 1]))) {
            ctx.hit("excluded:C06-chain-id-swap-return");
            return false;
          }
          if (f16 && (A->is_f16_trigger(rs, cand) || (F && F->is_f16_trigger(rs, cand)))) {
            ctx.hit("excluded:C06-chain-nobarcode-sign-by-id");
            return false;
          }
          if (f5 && (A->is_f5_trigger(md, rs, cand) || (F && F->is_f5_trigger(md, rs, cand)))) {
            ctx.hit("excluded:C06-ru-nobarcode-pos-neg-swap");
            return false;
          }
          return true;
        };
        // one time in three: go for the rarest kind of transposition available (non-trivial branch of vine_swap, mixed or
        // negative signs first), as far as the public interface tells
        bool hunt = t.chance(1, 3);
        int best = -1;
        for (int k = 0; k < md.n() - 1; ++k) {
          int cand = (start + k) % (md.n() - 1);
          if (!admissible(cand)) continue;
          if (!hunt) {
            i = cand;
            break;
          }
          int score = 0;
          if (A->z_eq_1_applies(md, cand)) {
            bool p0 = rs.positive(cand), p1 = rs.positive(cand + 1);
            score = (p0 && !p1) ? 4 : ((!p0 && !p1) ? 3 : ((p0 && p1) ? 2 : 1));
          }
          if (score > best) {
            best = score;
            i = cand;
          }
        }
        if (hunt && i >= 0) ctx.hit("swap:hunt");
        if (i >= 0) {
          bool nontriv = A->z_eq_1_applies(md, i);  // vine_swap will take its non-trivial branch (false: trivial or unknown)
          bool z1 = (op == 1) && nontriv && (!F || F->z_eq_1_applies(md, i));
          Model after = md;
          std::swap(after.f[size_t(i)], after.f[size_t(i) + 1]);
          RefState rs2 = reference(after);
          auto old_bars = ref_bars(rs), new_bars = ref_bars(rs2);
          bool kept_ok = (new_bars == transposed(old_bars, i)), exch_ok = (new_bars == old_bars);
          VF_ORACLE(kept_ok || exch_ok, "reference: barcode after a transposition is neither the old one nor its transpose: "
                                            << show(old_bars) << " -> " << show(new_bars) << " at " << i);
          const char* cls = rs.positive(i) ? (rs.positive(i + 1) ? "pos-pos" : "pos-neg") : (rs.positive(i + 1) ? "neg-pos" : "neg-neg");
          ctx.desc << steps << ": " << (z1 ? "vine_swap_with_z_eq_1_case" : "vine_swap") << " positions " << i << "," << i + 1
                   << " (u" << md.f[size_t(i)].uid << ",u" << md.f[size_t(i) + 1].uid << ") " << cls;
          trace(ctx, printed);
          for (D* d : {A.get(), F.get()}) {
            if (!d) continue;
            d->rs_kept_hint = kept_ok;
            SwapOutcome so = d->swap(md, rs, i, z1);
            ctx.desc << " " << d->name << "->" << so.raw;
            bool ok = so.kept ? kept_ok : exch_ok;
            if (!ok && d->chain_id_literal && so.kept) ok = true;  // chain/IDENTIFIER: literal reading always names the first cell
            VF_CHECK(ok, "swap-return",
                     d->name << ": the swap of positions " << i << "," << i + 1 << " returned " << so.raw << " = cells "
                             << (so.kept ? "kept" : "exchanged") << " their bars, but the barcode went from " << show(old_bars)
                             << " to " << show(new_bars));
          }
          ctx.desc << "\n";
          ctx.hit(std::string("swap:") + cls + (kept_ok && exch_ok ? ":ambiguous" : (kept_ok ? ":kept" : ":exchanged")));
          if (z1) ctx.hit("swap:z_eq_1");
          if (nontriv) ctx.hit(std::string("swap-nontrivial:") + cls);
          if (!kept_ok) pairing_change = true;
          md = after;
          rs = rs2;
          last_swap = i;
          swapped = true;
          if (copied) swap_after_copy = true;
          did = true;
        }
      }
      if (!did) ctx.hit("skip:no-admissible-swap");
    } else if (op == 2) {  // insertion at the end
      if (f10) {
        ctx.hit("excluded:C06-chain-id-insert-boundary-no-return");
      } else if (!(A->can_insert_at_all() && (!F || F->can_insert_at_all()))) {
        ctx.hit("excluded:C06-ru-explicit-id-u-rows");
      } else if (f3 && (A->stale_u || (F && F->stale_u))) {
        ctx.hit("excluded:C06-ru-removal-stale-u:insert");
      } else if (md.n() < kMaxCells) {
        MCell c = propose_cell(t, md, rs, kMaxCells);
        std::vector<int> fp;
        for (int u : c.bd) fp.push_back(md.pos_of(u));
        bool ok = A->can_insert(fp) && (!F || F->can_insert(fp));
        if (ok && !O::is_of_boundary_type && ctx.excluded("C06-chain-insert-after-swap")) {
          // known finding: a chain matrix reduces a new boundary in the order of the IDs, not of the positions
          for (D* d : {A.get(), F.get()})
            if (d)
              for (int q = 0; q + 1 < d->n(); ++q)
                if (d->cid[size_t(q)] > d->cid[size_t(q) + 1]) ok = false;
          if (!ok) ctx.hit("excluded:C06-chain-insert-after-swap");
        }
        if (!ok) {
          c.dim = 0;
          c.bd.clear();
          ctx.hit("insert:fallback-vertex");
        }
        unsigned gap = unsigned(t.below(4));
        bool with_dim = t.flip();
        c.uid = md.next_uid++;
        md.f.push_back(c);
        ctx.desc << steps << ": insert u" << c.uid << " dim " << c.dim << " bd";
        for (int u : c.bd) ctx.desc << " u" << u;
        ctx.desc << (with_dim ? " (dim given)" : "") << "\n";
        trace(ctx, printed);
        for (D* d : {A.get(), F.get()})
          if (d) d->insert(md, gap, with_dim);
        rs = reference(md);
        if (swapped) ctx.hit("insert:after-swap");
        did = true;
      } else {
        ctx.hit("skip:full");
      }
    } else if (op == 3 || op == 6) {  // removal of a coface-free cell
      bool two = ((op == 6) && D::can_remove_max2 && D::bar) || (D::can_remove_max2 && !D::can_remove_max1);
      // known finding: the chain/IDENTIFIER overlay translates the IDs of the later cells to MatIdx, Chain_matrix then
      // looks them up as IDs again
      if (two && D::can_remove_max1 && D::api == Api::CH_ID && ctx.excluded("C06-chain-id-remove-maximal-cell-list")) {
        two = false;
        ctx.hit("excluded:C06-chain-id-remove-maximal-cell-list");
      }
      if ((two || D::can_remove_max1) && md.n() >= 1) {
        int start = int(t.below(U(md.n()))), p = -1;
        bool guard = ctx.excluded("C06-ru-pivot-map-size");
        for (int k = 0; k < md.n(); ++k) {
          int cand = (start + k) % md.n();
          if (!md.coface_free(cand)) continue;
          if (guard && cand != md.n() - 1 && !(A->swap_in_pmap(md.n() - 2) && (!F || F->swap_in_pmap(md.n() - 2)))) {
            ctx.hit("excluded:C06-ru-pivot-map-size");
            continue;
          }

          if (f5 && cand != md.n() - 1) {  // the sign classes met on the way to the end are not predictable from outside
            bool later_same_dim = false;
            for (int q = cand + 1; q < md.n(); ++q)
              if (md.f[size_t(q)].dim == md.f[size_t(cand)].dim) later_same_dim = true;
            if (later_same_dim) {
              ctx.hit("excluded:C06-ru-nobarcode-pos-neg-swap");
              continue;
            }
          }
          if (f11 && cand != md.n() - 1) {
            ctx.hit("excluded:C06-chain-pos-remove-maximal-cell-ids");
            continue;
          }
          if (f6 && cand < md.n() - 2) {
            ctx.hit("excluded:C06-ru-id-remove-maximal-cell-map");
            continue;
          }
          if (f4 && cand != md.n() - 1 && !rs.positive(cand)) {
            ctx.hit("excluded:C06-ru-remove-negative-pending-swaps");
            continue;
          }
          p = cand;
          break;
        }
        if (p < 0) p = md.n() - 1;  // every inner candidate excluded: the last cell is always admissible
        if (!D::can_remove_max1) {  // chain without stored barcode: the documented shortcut remove_maximal_cell(lastID, {})
          two = true;
          p = md.n() - 1;
        }
        ctx.desc << steps << ": remove_maximal_cell" << (two ? " (with the list of later cells)" : "") << " position " << p
                 << " (u" << md.f[size_t(p)].uid << ")\n";
        trace(ctx, printed);
        for (D* d : {A.get(), F.get()}) {
          if (!d) continue;
          if ((f3 || f4) && p == md.n() - 1) d->force_row_order();
          d->remove_maximal(md, p, two);
          if (f3 && p == md.n() - 1) d->look_for_stale_u();
          if (f3 && p != md.n() - 1) d->tainted = true;
        }
        md.f.erase(md.f.begin() + p);
        rs = reference(md);
        if (swapped) removal_after_swap = true;
        ctx.hit(p == md.n() ? "remove_maximal:last" : "remove_maximal:inner");
        did = true;
      } else {
        ctx.hit("skip:remove_maximal-unavailable");
      }
    } else if (op == 4) {  // remove_last
      if (D::can_remove_last && md.n() >= 1) {
        bool ok = true;
        if (!O::is_of_boundary_type && ctx.excluded("C06-chain-remove-last-largest-id")) {
          for (D* d : {A.get(), F.get()})
            if (d && (*std::max_element(d->cid.begin(), d->cid.end()) != d->cid.back() ||
                      (d->cid.back() == 0 && d->inserted != 1)))
              ok = false;
          if (!ok) ctx.hit("excluded:C06-chain-remove-last-largest-id");
        }
        if (O::is_of_boundary_type && O::column_indexation_type == Column_indexation_types::IDENTIFIER &&
            !O::has_map_column_container && ctx.excluded("C06-ru-id-remove-last-largest-id")) {
          for (D* d : {A.get(), F.get()})
            if (d && *std::max_element(d->cid.begin(), d->cid.end()) != d->cid.back()) ok = false;
          if (!ok) ctx.hit("excluded:C06-ru-id-remove-last-largest-id");
        }
        if (ok) {
          ctx.desc << steps << ": remove_last (u" << md.f.back().uid << ")\n";
          trace(ctx, printed);
          for (D* d : {A.get(), F.get()}) {
            if (!d) continue;
            if (f3 || f4) d->force_row_order();
            d->remove_last();
            if (f3) d->look_for_stale_u();
          }
          md.f.pop_back();
          rs = reference(md);
          if (swapped) {
            removal_after_swap = true;
            ctx.hit("remove_last:after-swap");
          }
          did = true;
        }
      } else {
        ctx.hit("skip:remove_last-unavailable");
      }
    } else if (op == 5) {  // from now on a matrix built from scratch on the current filtration is driven alongside
      int how2 = int(t.weighted({2, 1, 3}));
      if (f10) how2 = 2;
      bool simp = true;
      for (auto& c : md.f)
        if (!((c.bd.empty() && c.dim == 0) || (!c.bd.empty() && int(c.bd.size()) == c.dim + 1))) simp = false;
      if (how2 == 2 && !simp) how2 = 0;
      int reserve2 = -1;
      if (D::ru && !D::mapc && how2 != 2 && ctx.excluded("C06-ru-pivot-map-size")) {
        how2 = 1;
        reserve2 = kMaxCells + 2;
      }
      ctx.desc << steps << ": fresh matrix F on the current filtration ("
               << (how2 == 2 ? "constructor from boundaries" : (how2 == 1 ? "reserve + insert_boundary" : "insert_boundary"))
               << ")\n";
      trace(ctx, printed);
      F.reset(new D(ctx, "F", false, hub));
      F->rows_are_positions = rows_pos;
      if (F->need_cmp) F->cmp_documented = false;
      F->build(md, how2, reserve2);
      F->check_full(md, rs, when.str() + " (fresh)");
      ctx.hit("fresh");
      full = true;
      did = true;
    }
    if (op == 7) {
      static const char* const kCopyName[] = {"", "swap(A, F)", "A = F (copy assignment)", "F = A (copy assignment)",
                                              "A = std::move(copy of F)", "F replaced by a copy-constructed copy of A"};
      static const char* const kCopyHit[] = {"", "copy:swap", "copy:A=F", "copy:F=A", "copy:A=move", "copy:F=copy-ctor(A)"};
      ctx.desc << steps << ": " << kCopyName[copy_op] << "\n";
      trace(ctx, printed);
      if (copy_op == 1) {
        D::swap_matrices(*A, *F);
      } else if (copy_op == 2) {
        A->copy_assign_from(*F);
      } else if (copy_op == 3) {
        F->copy_assign_from(*A);
      } else if (copy_op == 4) {
        A->move_assign_from_copy_of(*F);
      } else {
        std::unique_ptr<D> G(new D(ctx, "F", false, hub));
        G->rows_are_positions = A->rows_are_positions;
        G->aligned_build = A->aligned_build;
        G->cmp_documented = A->cmp_documented;
        G->copy_construct_from(*A);
        F = std::move(G);
      }
      ctx.hit(kCopyHit[copy_op]);
      copied = true;
      full = true;
      did = true;
    }
    if (!did) continue;
    for (D* d : {A.get(), F.get()}) {
      if (!d) continue;
      if (full || (!D::ru && !D::bar))
        d->check_full(md, rs, when.str());
      else
        d->check_light(md, rs, when.str());
    }
  }
  A->check_full(md, rs, "at the end");
  if (F) F->check_full(md, rs, "at the end");
  if (swapped) ctx.hit("case:with-swap");
  if (removal_after_swap) ctx.hit("case:removal-after-swap");
  if (pairing_change) ctx.hit("case:pairing-change");
  if (copied) ctx.hit("case:copy-or-swap-of-matrices");
  if (swap_after_copy) ctx.hit("case:transposition-after-copy");
  if (pairing_change && (removal_after_swap || !(D::can_remove_last || D::can_remove_max1 || D::can_remove_max2))) ctx.mark_nontrivial();
}

}  // namespace c06

#endif  // VERIF_C06_H_
