// C06 harness entry: one option set per binary, selected with -DCFG=n (see c06.h for the model and the oracle).
#include "c06.h"

#ifndef CFG
#define CFG 0
#endif

namespace {
using c06::Opt;
using CI = c06::Column_indexation_types;
using CT = c06::Column_types;

//                 RU     indexation      barcode  column type         removable  map    rows  rem.rows intrusive rows
#if CFG == 0
typedef Opt<true, CI::CONTAINER, true, CT::INTRUSIVE_SET, true, false> Options;
#elif CFG == 1
typedef Opt<true, CI::CONTAINER, false, CT::LIST, true, true> Options;
#elif CFG == 2
typedef Opt<true, CI::IDENTIFIER, true, CT::VECTOR, true, false> Options;
#elif CFG == 3
typedef Opt<true, CI::IDENTIFIER, false, CT::SET, true, true> Options;
#elif CFG == 4
typedef Opt<true, CI::POSITION, true, CT::HEAP, false, false> Options;
#elif CFG == 5
typedef Opt<true, CI::CONTAINER, true, CT::NAIVE_VECTOR, true, true, true, true, true> Options;
#elif CFG == 6
typedef Opt<false, CI::CONTAINER, true, CT::INTRUSIVE_LIST, true, true> Options;
#elif CFG == 7
typedef Opt<false, CI::CONTAINER, false, CT::SET, true, true> Options;
#elif CFG == 8
typedef Opt<false, CI::POSITION, true, CT::INTRUSIVE_SET, true, true> Options;
#elif CFG == 9
typedef Opt<false, CI::IDENTIFIER, true, CT::LIST, true, true> Options;
#elif CFG == 10
typedef Opt<false, CI::POSITION, true, CT::UNORDERED_SET, false, false> Options;
#elif CFG == 11
typedef Opt<false, CI::CONTAINER, true, CT::SMALL_VECTOR, false, false> Options;
#elif CFG == 12
typedef Opt<false, CI::CONTAINER, true, CT::VECTOR, true, true, true, true, false> Options;
#elif CFG == 13
typedef Opt<false, CI::CONTAINER, false, CT::INTRUSIVE_LIST, true, true, true, true, true> Options;  // = Zigzag_options
#elif CFG == 14
typedef Opt<true, CI::IDENTIFIER, true, CT::UNORDERED_SET, true, true> Options;
#elif CFG == 15
typedef Opt<false, CI::POSITION, true, CT::HEAP, true, true> Options;
#else
#error "unknown CFG"
#endif
}  // namespace

namespace vf {
const char* harness_name() {
  static const std::string n = "C06/vine/cfg" + std::to_string(CFG);
  return n.c_str();
}
void run_case(Tape& t, Ctx& ctx) { c06::run<Options>(t, ctx); }
}  // namespace vf
