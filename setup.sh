#!/bin/sh
# Offline setup: self-test the reference code, then warm the content-addressed build cache of every registered check.
set -e
cd "$(dirname "$0")"
mkdir -p build evidence replays
g++ -std=gnu++17 -O1 -g -fsanitize=address,undefined ref/test_ref.cpp -o build/test_ref
./build/test_ref
for t in ref/test_*.cpp; do
  [ "$t" = "ref/test_ref.cpp" ] && continue
  b="build/$(basename "$t" .cpp)"
  g++ -std=gnu++17 -O1 -g -fsanitize=address,undefined -Iref "$t" -o "$b" && "$b"
done
ids=$(python3 -c "import json;print(' '.join(c['property_id'] for c in json.load(open('MANIFEST.json'))['checks']))")
# builds are parallel inside each ./check invocation (16 compile jobs)
for id in $ids; do
  ./check "$id" --build-only || exit 1
done
echo "setup ok"
