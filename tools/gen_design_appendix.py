#!/usr/bin/env python3
"""Regenerates the generated part of DESIGN.md (between the GENERATED markers) from known_findings.json, seeded/*/,
mutants/*/ and notes/false_alarms.md."""
import glob, json, os, re
ROOT = os.path.dirname(os.path.dirname(os.path.abspath(__file__)))
kf = json.load(open(os.path.join(ROOT, "known_findings.json")))
out = []
out.append("### 11.3 Genuine defects repaired by `fix:` commits in /repo\n")
out.append("Each was demonstrated by a failing tape / standalone program against the unchanged code, repaired by one minimal "
           "unguarded commit, the pinned suite (138 tests) re-run unedited, and the shrunk tape kept as a regression tape "
           "(`corpus/<ID>/…/fixed-*.tape` or `reg-*`); the reverted fix is a mutant that the check must catch.\n")
out.append("| property | commit | what failed |\n|---|---|---|")
seen = set()
for e in kf["fixed"]:
    key = (e["property"], e["commit"], e.get("id"))
    if key in seen:
        continue
    seen.add(key)
    out.append("| %s | %s | %s |" % (e["property"], e["commit"], e["what"].replace("|", "\\|")[:400]))
out.append("\n### 11.4 Known findings (genuine defects recorded, not repaired)\n")
out.append("Not repaired because the repair is not small and safe (redesign of the lazy row-swap bookkeeping, of the "
           "ID/position handling of chain matrices after vine swaps), or because a pinned unit test asserts the defective "
           "behaviour. The generator excludes exactly the trigger (counted as `excluded:<id>` in the evidence); the probe is "
           "replayed on every run.\n")
out.append("| property | id | what fails | trigger excluded from the search |\n|---|---|---|---|")
for f in kf["findings"]:
    if f.get("status", "known") != "known":
        continue
    out.append("| %s | %s | %s | %s |" % (f["property"], f["id"], f["what"].replace("|", "\\|")[:380], f.get("trigger", "").replace("|", "\\|")[:300]))
out.append("\n### 11.5 False alarms log\n")
out.append(open(os.path.join(ROOT, "notes", "false_alarms.md")).read())
out.append("\n### 11.6 Independently written breaking changes (`seeded/`) and which check catches them\n")
out.append("Each change was written by a fresh sub-agent that saw only the property text and a scratch worktree; confirmed in a "
           "separate worktree (`/tmp/confirm_wt`, own build directory): the repository's tests still pass (only the two "
           "baseline failures), the demonstration fails with the change and passes without. Checks were then run against a "
           "patched copy of the include tree (`tools/with_patch`, quick tier, seeds 1 and 2).\n")
out.append("| seeded change | breaks | needs | tests pass / demo ok | checks (seed: result) |\n|---|---|---|---|---|")
for d in sorted(glob.glob(os.path.join(ROOT, "seeded", "*"))):
    name = os.path.basename(d)
    try:
        meta = json.load(open(os.path.join(d, "meta.json")))
    except Exception:
        meta = {}
    try:
        conf = json.load(open(os.path.join(d, "confirm.json")))
    except Exception:
        conf = {}
    checks = conf.get("checks", [])
    if isinstance(checks, list):
        by = {}
        for c in checks:
            by.setdefault(c["property"], []).append("%s:%s" % (c["seed"], c["status"]))
        cs = "; ".join("%s %s" % (k, ",".join(v)) for k, v in sorted(by.items()))
    else:
        cs = str(checks)[:80]
    out.append("| %s | %s | %s | %s / %s | %s |" % (name, meta.get("property", ""), str(meta.get("needs", ""))[:260].replace("|", "\\|").replace("\n", " "),
                                                 conf.get("tests_pass"), conf.get("demo_ok"), cs))
out.append("\n### 11.7 Mutation sweep (mutants written by the harness authors, re-run at the final tree)\n")
try:
    rep = json.load(open(os.path.join(ROOT, "mutation_report.json")))
    out.append("`tools/mutation_sweep` applied every `mutants/<ID>/*.patch` to a scratch copy of the include tree and ran the "
               "quick tier of its property (seed %s, /repo at %s): %d mutants, %d caught, %d expected to stay green (harmless / "
               "equivalent mutants, and mutants that make the library loop forever, for which the watchdog gives no verdict) "
               "and green, not as expected: %s. Reverted `fix:` commits are among the mutants.\n" % (
                   rep.get("seed"), rep.get("repo_head"), rep["summary"]["mutants"], rep["summary"]["caught"],
                   rep["summary"]["expected_green_and_green"], rep["summary"]["not_as_expected"] or "none"))
    out.append("| property | mutants | caught | expected green, green | not as expected |\n|---|---|---|---|---|")
    props = sorted({r["property"] for r in rep["results"]})
    for pid in props:
        rs = [r for r in rep["results"] if r["property"] == pid]
        out.append("| %s | %d | %d | %d | %s |" % (pid, len(rs), sum(1 for r in rs if r["status"] == "caught"),
                   sum(1 for r in rs if r["expected"] == "green" and r["status"] == "missed"),
                   ", ".join(r["mutant"] for r in rs if not r["as_expected"]) or "0"))
except Exception as e:
    out.append("(mutation_report.json not available: %s)" % e)
text = "\n".join(out) + "\n"
p = os.path.join(ROOT, "DESIGN.md")
s = open(p).read()
s = re.sub(r"<!-- GENERATED:BEGIN -->.*<!-- GENERATED:END -->", "<!-- GENERATED:BEGIN -->\n" + text.replace("\\", "\\\\") + "<!-- GENERATED:END -->", s, flags=re.S)
open(p, "w").write(s)
print("DESIGN.md appendix regenerated:", len(text), "bytes")
