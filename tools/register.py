#!/usr/bin/env python3
"""tools/register.py <ID> <level_text> <level_note> [technique]  -- marks props/<ID>/prop.json as registered."""
import json, sys, os
ROOT = os.path.dirname(os.path.dirname(os.path.abspath(__file__)))
pid, text, note = sys.argv[1:4]
p = os.path.join(ROOT, "props", pid, "prop.json")
d = json.load(open(p))
d["registered"] = True
d["level_text"] = text
d["level_note"] = note
if len(sys.argv) > 4:
    d["technique"] = sys.argv[4]
json.dump(d, open(p, "w"), indent=1)
print("registered", pid)
