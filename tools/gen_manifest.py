#!/usr/bin/env python3
"""Regenerates MANIFEST.json from props/*/prop.json (entries with "registered": true) and validates it."""
import glob, json, os, subprocess, sys
ROOT = os.path.dirname(os.path.dirname(os.path.abspath(__file__)))
props = [json.loads(l) for l in open(os.path.join(ROOT, "properties.jsonl"))]
checks, na, served = [], [], []
for p in props:
    pid = p["id"]
    fn = os.path.join(ROOT, "props", pid, "prop.json")
    cfg = json.load(open(fn)) if os.path.exists(fn) else {}
    if cfg.get("registered"):
        served.append(pid)
        checks.append({
            "property_id": pid,
            "quick_cmd": "./check %s --tier quick" % pid,
            "thorough_cmd": "./check %s --tier thorough" % pid,
            "evidence_file": "evidence/%s.json" % pid,
            "replay_cmd_template": "./check %s --replay {path}" % pid,
            "engine": "tape-engine",
            "level_claimed": {"category": "exploration", "text": cfg["level_text"], "design_ref": "DESIGN.md section 5, " + pid},
            "level_note": cfg["level_note"],
            "technique": cfg.get("technique", "property-based testing: generated cases against an independent reference model"),
        })
    else:
        na.append({"property_id": pid, "reason": cfg.get("not_applicable_reason", "check under construction (harness not yet sound on the unchanged tree; not claimed)")})
hooks_commits = []
m = {
    "version": 1,
    "setup_cmd": "./setup.sh",
    "hooks": {"guard": "GUDHI_VERIF_HOOKS",
              "enable": "no hooks are needed: every property is observable through the public API; harnesses include the headers of /repo's working tree directly (checks rebuild from it on every run)",
              "baseline_off_cmd": "cmake --build /repo/_build -j16 && ctest --test-dir /repo/_build -j8 --timeout 900",
              "source_commits": hooks_commits, "add_only": True},
    "engines": [{"name": "tape-engine", "path": "engine/", "serves_properties": served,
                 "kind_free_text": "property-based testing / fuzzing: one byte-tape decoder per property (props/<ID>), driven by a seeded random driver (16 processes), by exhaustive tape enumeration for finite sub-domains, by libFuzzer in the thorough tier (clang -fsanitize=fuzzer,address,undefined) and by a replay driver; fork-based tape shrinker; every binary built with ASan+UBSan and asserts on; oracles are independent reference models under ref/ and props/<ID>/"}],
    "checks": checks,
    "not_applicable": na,
    "notes": "DESIGN.md describes the approach; known_findings.json lists genuine defects (fixed by 'fix:' commits in /repo, or recorded as known findings with narrow triggers); seeded/ holds independently written breaking changes and which check catches them.",
}
json.dump(m, open(os.path.join(ROOT, "MANIFEST.json"), "w"), indent=1)
try:
    subprocess.check_call(["/opt/veriftools/pyvenv/bin/python", "-c",
        "import json,jsonschema;jsonschema.validate(json.load(open('%s/MANIFEST.json')),json.load(open('/root/.vp/MANIFEST.schema.json')))" % ROOT])
    print("MANIFEST ok: %d checks, %d not claimed" % (len(checks), len(na)))
except Exception as e:
    print("MANIFEST INVALID", e); sys.exit(1)
