#!/usr/bin/env python3
"""tools/mark_fixed.py <property> <finding-id> <commit> : the finding was repaired by a fix: commit in /repo.
Sets status 'fixed' in findings/<property>.json (or known_findings.json), appends the 'fixed:' entry to
known_findings.json, renames the probe kf-*.tape to fixed-*.tape so that it becomes an ordinary regression tape."""
import json, os, sys, subprocess
ROOT = os.path.dirname(os.path.dirname(os.path.abspath(__file__)))
pid, fid, commit = sys.argv[1:4]
kf = os.path.join(ROOT, "known_findings.json")
canon = json.load(open(kf))
found = None
for fn in (os.path.join(ROOT, "findings", pid + ".json"), kf):
    if not os.path.exists(fn):
        continue
    d = json.load(open(fn))
    for f in d.get("findings", []):
        if f["id"] == fid:
            found = f
            f["status"] = "fixed"
            f["commit"] = commit
            probe = f.get("probe")
            if probe and os.path.exists(os.path.join(ROOT, probe)) and os.path.basename(probe).startswith("kf-"):
                new = os.path.join(os.path.dirname(probe), "fixed-" + os.path.basename(probe)[3:])
                os.rename(os.path.join(ROOT, probe), os.path.join(ROOT, new))
                f["probe"] = new
            json.dump(d, open(fn, "w"), indent=1)
            if fn == kf:
                canon = d
            break
    if found:
        break
if not found:
    sys.exit("finding %s not found" % fid)
canon = json.load(open(kf))
if not any(e.get("id") == fid or (e["commit"] == commit and e["property"] == pid) for e in canon["fixed"]):
    canon["fixed"].append({"property": pid, "id": fid, "commit": commit, "what": found["what"],
                           "line": "fixed: property=%s %s %s" % (pid, commit, found["what"])})
    json.dump(canon, open(kf, "w"), indent=1)
print("marked fixed", fid, commit)
