#!/usr/bin/env python3
"""Merges findings/<ID>.json (per-property proposals written by harness authors) into the canonical known_findings.json."""
import glob, json, os, sys
ROOT = os.path.dirname(os.path.dirname(os.path.abspath(__file__)))
kf = os.path.join(ROOT, "known_findings.json")
canon = json.load(open(kf))
ids = {f["id"] for f in canon["findings"]}
only = set(sys.argv[1:])
for fn in sorted(glob.glob(os.path.join(ROOT, "findings", "C*.json"))):
    pid = os.path.basename(fn)[:-5]
    if only and pid not in only:
        continue
    d = json.load(open(fn))
    for f in d.get("findings", []):
        if f["id"] in ids:
            for i, g in enumerate(canon["findings"]):
                if g["id"] == f["id"]:
                    canon["findings"][i] = f
        else:
            canon["findings"].append(f)
            ids.add(f["id"])
        if f.get("status") == "fixed":
            c = f.get("commit") or (f.get("fixed_by", "") or f.get("fixed_in", "") or "?").split()[0]
            if not any(e.get("id") == f["id"] for e in canon["fixed"]) and not any(e["commit"] == c and e["property"] == f["property"] for e in canon["fixed"]):
                canon["fixed"].append({"property": f["property"], "id": f["id"], "commit": c, "what": f["what"],
                                       "line": "fixed: property=%s %s %s" % (f["property"], c, f["what"])})
    os.remove(fn)
canon["findings"].sort(key=lambda f: (f["property"], f["id"]))
json.dump(canon, open(kf, "w"), indent=1)
print("known:", sum(1 for f in canon["findings"] if f.get("status", "known") == "known"), "fixed entries:", len(canon["fixed"]))
