// Verification engine: byte tape, case context, violation type.
// One decoder per property (run_case) is driven by the seeded random driver, by libFuzzer and by the replay driver.
#ifndef VF_H_
#define VF_H_

#include <cstdint>
#include <cstddef>
#include <cstdlib>
#include <exception>
#include <initializer_list>
#include <map>
#include <set>
#include <sstream>
#include <string>
#include <vector>

namespace vf {

// ---------------------------------------------------------------------------------------------------------------
// Tape: read-only byte string with a cursor. Reading past the end yields 0, so every tape decodes to a valid case,
// shorter tapes / smaller bytes decode to simpler cases.
class Tape {
 public:
  Tape(const uint8_t* d, size_t n) : d_(d), n_(n), i_(0) {}
  uint8_t u8() {
    uint8_t v = i_ < n_ ? d_[i_] : 0;
    ++i_;
    return v;
  }
  uint32_t u16() {
    uint32_t a = u8();
    return a | (uint32_t(u8()) << 8);
  }
  uint32_t u32() {
    uint32_t a = u16();
    return a | (u16() << 16);
  }
  uint64_t u64() {
    uint64_t a = u32();
    return a | (uint64_t(u32()) << 32);
  }
  // uniform-ish value in [0,k); k == 0 or 1 consumes nothing
  uint32_t below(uint32_t k) {
    if (k <= 1) return 0;
    if (k <= 256) return u8() % k;
    if (k <= 65536) return u16() % k;
    return u32() % k;
  }
  // inclusive range
  int range(int lo, int hi) { return hi <= lo ? lo : lo + int(below(uint32_t(hi - lo + 1))); }
  bool flip() { return (u8() & 1) != 0; }
  // true with probability num/den; NOTE: on an exhausted tape below() yields 0, so the result is TRUE (if num > 0)
  bool chance(unsigned num, unsigned den) { return below(den) < num; }
  // index chosen with the given weights; weight list must be non-empty with positive sum; 0-tape picks index 0
  size_t weighted(std::initializer_list<unsigned> w) {
    unsigned tot = 0;
    for (unsigned x : w) tot += x;
    unsigned r = below(tot);
    size_t k = 0;
    for (unsigned x : w) {
      if (r < x) return k;
      r -= x;
      ++k;
    }
    return 0;
  }
  template <class T>
  const T& pick(const std::vector<T>& v) {
    return v[below(uint32_t(v.size()))];
  }
  bool exhausted() const { return i_ >= n_; }
  size_t consumed() const { return i_; }
  size_t size() const { return n_; }

 private:
  const uint8_t* d_;
  size_t n_;
  size_t i_;
};

// ---------------------------------------------------------------------------------------------------------------
// Violation: the oracle and the code under test disagree. tag = short stable class name (used by the shrinker to keep
// "the same failure"), msg = details.
struct Violation : std::exception {
  std::string tag, msg, full;
  Violation(std::string t, std::string m) : tag(std::move(t)), msg(std::move(m)) { full = tag + ": " + msg; }
  const char* what() const noexcept override { return full.c_str(); }
};
// Discard: the decoded case is outside the sound input domain (counted, must stay rare).
struct Discard : std::exception {
  std::string reason;
  explicit Discard(std::string r) : reason(std::move(r)) {}
  const char* what() const noexcept override { return reason.c_str(); }
};
// OracleError: the reference code contradicts itself - blame the harness, never the library.
struct OracleError : std::exception {
  std::string msg;
  explicit OracleError(std::string m) : msg(std::move(m)) {}
  const char* what() const noexcept override { return msg.c_str(); }
};

// ---------------------------------------------------------------------------------------------------------------
// Ctx: per-case context. desc collects the readable decoded case (it is both the rendering for replay/samples and the
// source of the distinctness hash). counters are accumulated by the driver across cases.
struct Ctx {
  std::ostringstream desc;                     // decoded case, human readable
  std::map<std::string, uint64_t> counters;    // classification of this case (merged by the driver)
  bool nontrivial = false;                     // by the property's stated rule
  const std::set<std::string>* excluded_ids = nullptr;  // ids of known (unrepaired) findings whose trigger the generator must avoid
  // Known-finding triggers are excluded by construction so that the search continues past them; the harness asks
  // `if (ctx.excluded("some-id")) { ctx.hit("excluded:some-id"); <avoid the trigger> }`.
  // Ids come from known_findings.json (status "known") via the environment; a probe replay runs with none excluded.
  bool excluded(const std::string& id) const { return excluded_ids && excluded_ids->count(id) != 0; }
  uint64_t checks = 0;                         // number of oracle comparisons made
  void hit(const std::string& name, uint64_t k = 1) { counters[name] += k; }
  void mark_nontrivial() { nontrivial = true; }
};

inline uint64_t fnv1a(const std::string& s) {
  uint64_t h = 1469598103934665603ULL;
  for (unsigned char c : s) {
    h ^= c;
    h *= 1099511628211ULL;
  }
  return h;
}

}  // namespace vf

// Oracle assertion: throws vf::Violation(tag, message). Usage: VF_CHECK(cond, "tag", "x=" << x);
#define VF_CHECK(cond, tag, stream_expr)                 \
  do {                                                   \
    ++ctx.checks;                                        \
    if (!(cond)) {                                       \
      std::ostringstream vf_os_;                         \
      vf_os_ << stream_expr;                             \
      throw vf::Violation((tag), vf_os_.str());          \
    }                                                    \
  } while (0)

#define VF_ORACLE(cond, stream_expr)                     \
  do {                                                   \
    if (!(cond)) {                                       \
      std::ostringstream vf_os_;                         \
      vf_os_ << stream_expr;                             \
      throw vf::OracleError(vf_os_.str());               \
    }                                                    \
  } while (0)

// Every property harness defines these two (one binary = one property x one config group):
namespace vf {
const char* harness_name();                 // e.g. "C10/fields"
void run_case(Tape& t, Ctx& ctx);           // returns normally = held; throws Violation / Discard / OracleError
}  // namespace vf

#endif  // VF_H_
