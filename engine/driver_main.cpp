// Seeded random driver, enumeration driver, replay driver and fork-based tape shrinker for one harness (vf::run_case).
//
//   driver --random N --seed S --stream K --outdir DIR [--maxlen L] [--max-seconds T]
//   driver --enum PREFIXHEX BASE LEN --shard I/N --outdir DIR --stream K
//   driver --replay FILE            exit 0 held / 43 violation / 44 exception / 45 discard / 46 oracle
//   driver --shrink FILE --out FILE2 [--budget B]
//
// Environment VF_EXCLUDE=id1,id2: known-finding triggers the generators must avoid (see vf.h).
// Random mode is a pure function of (seed, stream, harness, case index): no wall clock (except the optional safety
// net --max-seconds, which only ever stops early and marks the run inconclusive), no random_device.
#include "vf.h"

#include <cxxabi.h>
#include <fcntl.h>
#include <signal.h>
#include <sys/wait.h>
#include <unistd.h>

#include <chrono>
#include <cstdio>
#include <cstring>
#include <fstream>
#include <iostream>
#include <set>
#include <typeinfo>
#include <unordered_set>

extern "C" void __sanitizer_set_death_callback(void (*)(void)) __attribute__((weak));

namespace {

enum Code { HELD = 0, VIOL = 43, EXC = 44, DISC = 45, ORACLE = 46 };

struct Result {
  int code = HELD;
  std::string cls;   // "V:<tag>", "E:<type>", "DISCARD:<reason>", "ORACLE", "CRASH"
  std::string msg;
  std::string desc;
  bool nontrivial = false;
  uint64_t checks = 0;
  std::map<std::string, uint64_t> counters;
};

std::set<std::string> g_excluded;

std::string demangle(const char* n) {
  int st = 0;
  char* p = abi::__cxa_demangle(n, nullptr, nullptr, &st);
  std::string r = (st == 0 && p) ? p : n;
  free(p);
  return r;
}

vf::Ctx* g_replay_ctx = nullptr;  // replay mode: lets the crash handler print the case decoded so far
bool g_replay = false;

Result run_one(const std::vector<uint8_t>& tape) {
  Result r;
  vf::Tape t(tape.data(), tape.size());
  vf::Ctx ctx;
  if (g_replay) g_replay_ctx = &ctx;
  ctx.excluded_ids = &g_excluded;
  try {
    vf::run_case(t, ctx);
    r.code = HELD;
  } catch (const vf::Violation& v) {
    r.code = VIOL;
    r.cls = "V:" + v.tag;
    r.msg = v.full;
  } catch (const vf::Discard& d) {
    r.code = DISC;
    r.cls = "DISCARD:" + d.reason;
  } catch (const vf::OracleError& o) {
    r.code = ORACLE;
    r.cls = "ORACLE";
    r.msg = o.msg;
  } catch (const std::exception& e) {
    r.code = EXC;
    r.cls = "E:" + demangle(typeid(e).name());
    r.msg = r.cls + ": " + e.what();
  } catch (const char* s) {
    r.code = EXC;
    r.cls = "E:const char*";
    r.msg = std::string("E:const char*: ") + s;
  } catch (const std::string& s) {
    r.code = EXC;
    r.cls = "E:std::string";
    r.msg = "E:std::string: " + s;
  } catch (...) {
    r.code = EXC;
    r.cls = "E:unknown";
    r.msg = "E:unknown exception";
  }
  r.desc = ctx.desc.str();
  r.nontrivial = ctx.nontrivial;
  r.checks = ctx.checks;
  r.counters = std::move(ctx.counters);
  return r;
}

// ------------------------------------------------------------------------------------------------ random source
struct SplitMix {
  uint64_t s;
  explicit SplitMix(uint64_t seed) : s(seed) {}
  uint64_t next() {
    uint64_t z = (s += 0x9E3779B97F4A7C15ULL);
    z = (z ^ (z >> 30)) * 0xBF58476D1CE4E5B9ULL;
    z = (z ^ (z >> 27)) * 0x94D049BB133111EBULL;
    return z ^ (z >> 31);
  }
  uint32_t below(uint32_t k) { return uint32_t(next() % k); }
};

std::vector<uint8_t> gen_tape(uint64_t seed, uint64_t stream, uint64_t idx, size_t maxlen) {
  SplitMix g(seed * 0x9E3779B97F4A7C15ULL ^ (stream + 1) * 0xD1B54A32D192ED03ULL ^ (idx + 1) * 0x8CB92BA72F3D8DD7ULL ^
             vf::fnv1a(vf::harness_name()));
  g.next();
  // length: most cases short, a tail of long ones
  static const size_t lens[] = {4, 8, 12, 16, 24, 32, 48, 64, 96, 128, 192, 256, 384, 512, 768, 1024, 2048, 4096};
  static const unsigned wts[] = {2, 3, 4, 6, 8, 10, 10, 10, 9, 8, 7, 6, 5, 4, 3, 2, 1, 1};
  unsigned tot = 0;
  for (unsigned w : wts) tot += w;
  size_t len = 4;
  for (;;) {
    unsigned r = g.below(tot);
    size_t k = 0;
    while (r >= wts[k]) r -= wts[k++];
    len = lens[k];
    if (len <= maxlen) break;
  }
  // jitter the length
  len = len / 2 + g.below(uint32_t(len / 2 + 1));
  if (len == 0) len = 1;
  std::vector<uint8_t> t(len);
  unsigned mode = g.below(10);
  // 0..5 uniform bytes, 6..7 small bytes, 8 sparse (mostly zero), 9 mixture per 8-byte block
  for (size_t i = 0; i < len; ++i) {
    unsigned m = mode;
    if (mode == 9) m = (g.next() >> 7) % 9;
    uint64_t x = g.next();
    if (m <= 5)
      t[i] = uint8_t(x);
    else if (m <= 7)
      t[i] = uint8_t(x % 16);
    else
      t[i] = (x & 3) == 0 ? uint8_t(x >> 8) : 0;
  }
  return t;
}

// ------------------------------------------------------------------------------------------------ file helpers
std::vector<uint8_t> read_file(const std::string& p) {
  std::ifstream f(p, std::ios::binary);
  if (!f) {
    std::cerr << "cannot read " << p << "\n";
    exit(2);
  }
  return std::vector<uint8_t>((std::istreambuf_iterator<char>(f)), std::istreambuf_iterator<char>());
}
void write_file(const std::string& p, const std::vector<uint8_t>& v) {
  std::ofstream f(p, std::ios::binary | std::ios::trunc);
  f.write(reinterpret_cast<const char*>(v.data()), std::streamsize(v.size()));
}
std::string jesc(const std::string& s) {
  std::string o;
  for (unsigned char c : s) {
    if (c == '"' || c == '\\') {
      o += '\\';
      o += char(c);
    } else if (c == '\n')
      o += "\\n";
    else if (c == '\t')
      o += "\\t";
    else if (c < 0x20 || c >= 0x7f) {
      char b[8];
      snprintf(b, sizeof b, "\\u%04x", c);
      o += b;
    } else
      o += char(c);
  }
  return o;
}

// ------------------------------------------------------------------------------------------------ crash capture
const uint8_t* g_cur = nullptr;
size_t g_cur_n = 0;
char g_crash_path[512] = {0};
volatile sig_atomic_t g_dumped = 0;

void dump_current() {
  if (g_replay_ctx && !g_dumped) {  // replay of a crashing tape: show what had been decoded when it died
    g_dumped = 1;
    std::string d = g_replay_ctx->desc.str();
    std::string head = std::string("HARNESS ") + vf::harness_name() + "\nCASE (decoded up to the crash)\n";
    if (write(1, head.data(), head.size()) < 0 || write(1, d.data(), d.size()) < 0) {
    }
    const char* tail = "\nVERDICT CRASHED (sanitizer report or signal, see stderr)\n";
    if (write(1, tail, strlen(tail)) < 0) {
    }
    return;
  }
  if (g_dumped || !g_crash_path[0] || !g_cur) return;
  g_dumped = 1;
  int fd = open(g_crash_path, O_WRONLY | O_CREAT | O_TRUNC, 0644);
  if (fd >= 0) {
    size_t off = 0;
    while (off < g_cur_n) {
      ssize_t w = write(fd, g_cur + off, g_cur_n - off);
      if (w <= 0) break;
      off += size_t(w);
    }
    close(fd);
  }
}
char g_hang_path[512] = {0};
// per-case watchdog: a case that runs for minutes is treated as "no verdict" (the stream stops, the tape is kept)
void on_alarm(int) {
  if (g_hang_path[0] && g_cur) {
    int fd = open(g_hang_path, O_WRONLY | O_CREAT | O_TRUNC, 0644);
    if (fd >= 0) {
      size_t off = 0;
      while (off < g_cur_n) {
        ssize_t w = write(fd, g_cur + off, g_cur_n - off);
        if (w <= 0) break;
        off += size_t(w);
      }
      close(fd);
    }
  }
  _exit(47);
}
void on_signal(int sig) {
  dump_current();
  signal(sig, SIG_DFL);
  raise(sig);
}
void install_crash_capture(const std::string& path) {
  snprintf(g_crash_path, sizeof g_crash_path, "%s", path.c_str());
  if (__sanitizer_set_death_callback) __sanitizer_set_death_callback(dump_current);
  for (int s : {SIGABRT, SIGSEGV, SIGFPE, SIGILL, SIGBUS}) signal(s, on_signal);
}

// ------------------------------------------------------------------------------------------------ stats
struct Agg {
  uint64_t evaluations = 0, held = 0, nontrivial = 0, checks = 0;
  std::map<std::string, uint64_t> counters, discards;
  std::unordered_set<uint64_t> hashes;
  std::vector<std::string> samples;
  bool inconclusive = false;
  std::string fail_cls, fail_msg, fail_tape;
  void add(const Result& r) {
    ++evaluations;
    checks += r.checks;
    for (auto& kv : r.counters) counters[kv.first] += kv.second;
    if (r.code == DISC) {
      ++discards[r.cls.substr(8)];
      return;
    }
    if (r.code == HELD) ++held;
    if (r.nontrivial) {
      ++nontrivial;
      bool fresh = hashes.insert(vf::fnv1a(r.desc)).second;
      if (fresh && samples.size() < 3 && r.code == HELD) samples.push_back(r.desc.substr(0, 3000));
    }
  }
  void write(const std::string& outdir, const std::string& stream) const {
    std::ofstream f(outdir + "/stats-" + stream + ".json");
    f << "{\"harness\":\"" << jesc(vf::harness_name()) << "\",\"evaluations\":" << evaluations << ",\"held\":" << held
      << ",\"nontrivial\":" << nontrivial << ",\"distinct_nontrivial\":" << hashes.size() << ",\"checks\":" << checks
      << ",\"inconclusive\":" << (inconclusive ? "true" : "false") << ",\"counters\":{";
    bool first = true;
    for (auto& kv : counters) {
      f << (first ? "" : ",") << "\"" << jesc(kv.first) << "\":" << kv.second;
      first = false;
    }
    f << "},\"discards\":{";
    first = true;
    for (auto& kv : discards) {
      f << (first ? "" : ",") << "\"" << jesc(kv.first) << "\":" << kv.second;
      first = false;
    }
    f << "},\"samples\":[";
    first = true;
    for (auto& s : samples) {
      f << (first ? "" : ",") << "\"" << jesc(s) << "\"";
      first = false;
    }
    f << "],\"failure\":";
    if (fail_cls.empty())
      f << "null";
    else
      f << "{\"class\":\"" << jesc(fail_cls) << "\",\"msg\":\"" << jesc(fail_msg.substr(0, 4000)) << "\",\"tape\":\""
        << jesc(fail_tape) << "\"}";
    f << "}\n";
    std::ofstream h(outdir + "/hashes-" + stream + ".bin", std::ios::binary);
    for (uint64_t x : hashes) h.write(reinterpret_cast<const char*>(&x), 8);
  }
};

// ------------------------------------------------------------------------------------------------ shrinker
// Runs a candidate in a forked child so that crashes are contained. Returns the failure class ("" when it held).
std::string classify_forked(const std::vector<uint8_t>& tape) {
  int pfd[2];
  if (pipe(pfd) != 0) return "";
  fflush(stdout);
  fflush(stderr);
  pid_t pid = fork();
  if (pid == 0) {
    close(pfd[0]);
    int dn = open("/dev/null", O_WRONLY);
    if (dn >= 0) {
      dup2(dn, 2);
      dup2(dn, 1);
    }
    for (int s : {SIGABRT, SIGSEGV, SIGFPE, SIGILL, SIGBUS}) signal(s, SIG_DFL);
    g_crash_path[0] = 0;
    alarm(20);
    Result r = run_one(tape);
    std::string c = r.cls;
    if (write(pfd[1], c.data(), c.size()) < 0) {
    }
    close(pfd[1]);
    _exit(r.code);
  }
  close(pfd[1]);
  std::string cls;
  char buf[256];
  ssize_t k;
  while ((k = read(pfd[0], buf, sizeof buf)) > 0) cls.append(buf, size_t(k));
  close(pfd[0]);
  int st = 0;
  waitpid(pid, &st, 0);
  if (WIFEXITED(st)) {
    int c = WEXITSTATUS(st);
    if (c == HELD || c == DISC) return "";
    if (c == VIOL || c == EXC || c == ORACLE) return cls;
    return "CRASH";
  }
  if (WIFSIGNALED(st) && WTERMSIG(st) == SIGALRM) return "";  // too slow: not the same failure
  return "CRASH";
}

std::vector<uint8_t> shrink(std::vector<uint8_t> cur, const std::string& want, long budget, long* used,
                            double max_seconds = 240) {
  long n = 0;
  auto t0 = std::chrono::steady_clock::now();
  // the candidate budget bounds the work; the wall-clock limit is only a safety net for trees on which candidates hang
  auto fails = [&](const std::vector<uint8_t>& c) {
    if (std::chrono::duration<double>(std::chrono::steady_clock::now() - t0).count() > max_seconds) {
      n = budget;  // stop: keep the best tape found so far
      return false;
    }
    ++n;
    return classify_forked(c) == want;
  };
  // dropping trailing zeros usually decodes identically (reading past the end yields 0) - but not for harnesses that
  // loop "while (!t.exhausted())", so it is a candidate like any other and kept only if the failure is the same
  auto trim = [&](std::vector<uint8_t>& v) {
    std::vector<uint8_t> c = v;
    while (!c.empty() && c.back() == 0) c.pop_back();
    if (c.size() != v.size() && fails(c)) v = c;
  };
  trim(cur);
  bool progress = true;
  while (progress && n < budget) {
    progress = false;
    // 1. truncation
    for (size_t keep = cur.size() / 2; keep < cur.size() && n < budget;) {
      std::vector<uint8_t> c(cur.begin(), cur.begin() + long(keep));
      if (fails(c)) {
        cur = c;
        progress = true;
        keep = cur.size() / 2;
      } else {
        size_t step = (cur.size() - keep + 1) / 2;
        if (step == 0) break;
        keep += step;
      }
    }
    // 2. block deletion
    for (size_t bs = cur.size() / 2; bs >= 1 && n < budget; bs /= 2) {
      for (size_t off = 0; off + bs <= cur.size() && n < budget;) {
        std::vector<uint8_t> c(cur.begin(), cur.begin() + long(off));
        c.insert(c.end(), cur.begin() + long(off + bs), cur.end());
        if (fails(c)) {
          cur = c;
          progress = true;
        } else
          off += bs;
      }
      if (bs == 1) break;
    }
    // 3. block zeroing
    for (size_t bs = cur.size() / 2; bs >= 2 && n < budget; bs /= 2) {
      for (size_t off = 0; off + bs <= cur.size() && n < budget; off += bs) {
        bool nz = false;
        for (size_t j = off; j < off + bs; ++j) nz = nz || cur[j] != 0;
        if (!nz) continue;
        std::vector<uint8_t> c = cur;
        for (size_t j = off; j < off + bs; ++j) c[j] = 0;
        if (fails(c)) {
          cur = c;
          progress = true;
        }
      }
    }
    // 4. lower single bytes
    for (size_t i = 0; i < cur.size() && n < budget; ++i) {
      if (cur[i] == 0) continue;
      for (uint8_t cand : {uint8_t(0), uint8_t(1), uint8_t(cur[i] / 2), uint8_t(cur[i] - 1)}) {
        if (cand >= cur[i]) continue;
        std::vector<uint8_t> c = cur;
        c[i] = cand;
        if (fails(c)) {
          cur = c;
          progress = true;
          break;
        }
      }
    }
    trim(cur);
  }
  if (used) *used = n;
  return cur;
}

std::vector<uint8_t> from_hex(const std::string& h) {
  std::vector<uint8_t> v;
  for (size_t i = 0; i + 1 < h.size(); i += 2) v.push_back(uint8_t(strtoul(h.substr(i, 2).c_str(), nullptr, 16)));
  return v;
}

}  // namespace

int main(int argc, char** argv) {
  std::string mode, file, out, outdir = ".", stream = "0", prefixhex;
  uint64_t n = 0, seed = 1;
  size_t maxlen = 4096;
  long budget = 3000;
  double max_seconds = 0;
  unsigned case_seconds = 300;
  unsigned base = 2, len = 0, shard_i = 0, shard_n = 1;
  for (int i = 1; i < argc; ++i) {
    std::string a = argv[i];
    auto next = [&]() -> std::string { return i + 1 < argc ? argv[++i] : ""; };
    if (a == "--random") {
      mode = "random";
      n = strtoull(next().c_str(), nullptr, 10);
    } else if (a == "--enum") {
      mode = "enum";
      prefixhex = next();
      base = unsigned(atoi(next().c_str()));
      len = unsigned(atoi(next().c_str()));
    } else if (a == "--shard") {
      std::string s = next();
      sscanf(s.c_str(), "%u/%u", &shard_i, &shard_n);
    } else if (a == "--replay") {
      mode = "replay";
      file = next();
    } else if (a == "--shrink") {
      mode = "shrink";
      file = next();
    } else if (a == "--out")
      out = next();
    else if (a == "--outdir")
      outdir = next();
    else if (a == "--seed")
      seed = strtoull(next().c_str(), nullptr, 10);
    else if (a == "--stream")
      stream = next();
    else if (a == "--maxlen")
      maxlen = size_t(atol(next().c_str()));
    else if (a == "--budget")
      budget = atol(next().c_str());
    else if (a == "--max-seconds")
      max_seconds = atof(next().c_str());
    else if (a == "--case-seconds")
      case_seconds = unsigned(atoi(next().c_str()));
    else if (a == "--name") {
      std::cout << vf::harness_name() << "\n";
      return 0;
    } else {
      std::cerr << "unknown argument " << a << "\n";
      return 2;
    }
  }
  if (const char* ex = getenv("VF_EXCLUDE")) {
    std::string cur;
    for (const char* c = ex;; ++c) {
      if (*c == ',' || *c == 0) {
        if (!cur.empty()) g_excluded.insert(cur);
        cur.clear();
        if (*c == 0) break;
      } else
        cur += *c;
    }
  }

  if (mode == "replay") {
    std::vector<uint8_t> tape = read_file(file);
    g_replay = true;
    if (__sanitizer_set_death_callback) __sanitizer_set_death_callback(dump_current);
    for (int s : {SIGABRT, SIGSEGV, SIGFPE, SIGILL, SIGBUS}) signal(s, on_signal);
    Result r = run_one(tape);
    g_replay_ctx = nullptr;
    std::cout << "HARNESS " << vf::harness_name() << "\nTAPE " << tape.size() << " bytes\nCASE\n" << r.desc;
    if (!r.desc.empty() && r.desc.back() != '\n') std::cout << "\n";
    std::cout << "CLASSES";
    for (auto& kv : r.counters) std::cout << " " << kv.first << "=" << kv.second;
    std::cout << (r.nontrivial ? " [non-trivial]" : "") << "\n";
    if (r.code == HELD)
      std::cout << "VERDICT HELD (" << r.checks << " oracle comparisons)\n";
    else if (r.code == DISC)
      std::cout << "VERDICT " << r.cls << "\n";
    else if (r.code == ORACLE)
      std::cout << "VERDICT ORACLE-ERROR " << r.msg << "\n";
    else
      std::cout << "VERDICT FAILED " << r.msg << "\n";
    std::cout.flush();
    _exit(r.code);
  }

  if (mode == "shrink") {
    std::vector<uint8_t> tape = read_file(file);
    std::string want = classify_forked(tape);
    if (want.empty()) {
      std::cout << "SHRINK input does not fail\n";
      return 1;
    }
    // warm any per-process caches of the harness (e.g. inverse tables) so that forked candidates inherit them
    if (want != "CRASH") (void)run_one(tape);
    long used = 0;
    std::vector<uint8_t> s = shrink(tape, want, budget, &used);
    write_file(out, s);
    std::cout << "SHRINK class=" << want << " from=" << tape.size() << " to=" << s.size() << " candidates=" << used
              << "\n";
    return 0;
  }

  if (mode == "random" || mode == "enum") {
    install_crash_capture(outdir + "/crash-" + stream + ".tape");
    Agg agg;
    auto t0 = std::chrono::steady_clock::now();
    std::vector<uint8_t> tape;
    snprintf(g_hang_path, sizeof g_hang_path, "%s/hang-%s.tape", outdir.c_str(), stream.c_str());
    signal(SIGALRM, on_alarm);
    auto one = [&](const std::vector<uint8_t>& tp) -> bool {
      g_cur = tp.data();
      g_cur_n = tp.size();
      alarm(case_seconds);
      Result r = run_one(tp);
      alarm(0);
      agg.add(r);
      if (r.code == VIOL || r.code == EXC || r.code == ORACLE) {
        agg.fail_cls = r.cls;
        agg.fail_msg = r.msg;
        agg.fail_tape = outdir + "/fail-" + stream + ".tape";
        write_file(agg.fail_tape, tp);
        return false;
      }
      return true;
    };
    auto timed_out = [&](uint64_t k) {
      if (max_seconds <= 0 || (k & 63) != 0) return false;
      double el = std::chrono::duration<double>(std::chrono::steady_clock::now() - t0).count();
      return el > max_seconds;
    };
    bool ok = true;
    if (mode == "random") {
      for (uint64_t k = 0; k < n && ok; ++k) {
        if (timed_out(k)) {
          agg.inconclusive = true;
          break;
        }
        tape = gen_tape(seed, vf::fnv1a(stream), k, maxlen);
        ok = one(tape);
      }
    } else {
      std::vector<uint8_t> prefix = from_hex(prefixhex);
      uint64_t total = 1;
      for (unsigned i = 0; i < len; ++i) total *= base;
      for (uint64_t k = shard_i; k < total && ok; k += shard_n) {
        if (timed_out(k / shard_n)) {
          agg.inconclusive = true;
          break;
        }
        tape = prefix;
        uint64_t x = k;
        for (unsigned i = 0; i < len; ++i) {
          tape.push_back(uint8_t(x % base));
          x /= base;
        }
        ok = one(tape);
      }
    }
    g_cur = nullptr;
    agg.write(outdir, stream);
    fflush(stdout);
    _exit(ok ? 0 : (agg.fail_cls == "ORACLE" ? ORACLE : VIOL));
  }
  std::cerr << "no mode given\n";
  return 2;
}
