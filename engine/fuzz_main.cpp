// libFuzzer entry: the fuzzer's bytes are the tape. A violation (oracle mismatch or escaped exception) traps so that
// libFuzzer saves a crash-* artifact, which is then replayed / shrunk through the plain driver.
#include "vf.h"

#include <cstdio>
#include <typeinfo>

extern "C" int LLVMFuzzerTestOneInput(const uint8_t* data, size_t size) {
  vf::Tape t(data, size);
  vf::Ctx ctx;
  static std::set<std::string> excluded = [] {
    std::set<std::string> r;
    if (const char* ex = getenv("VF_EXCLUDE")) {
      std::string cur;
      for (const char* c = ex;; ++c) {
        if (*c == ',' || *c == 0) {
          if (!cur.empty()) r.insert(cur);
          cur.clear();
          if (*c == 0) break;
        } else
          cur += *c;
      }
    }
    return r;
  }();
  ctx.excluded_ids = &excluded;
  try {
    vf::run_case(t, ctx);
  } catch (const vf::Discard&) {
    return -1;  // do not add to the corpus
  } catch (const vf::OracleError& o) {
    fprintf(stderr, "FUZZ ORACLE-ERROR %s\n", o.msg.c_str());
    __builtin_trap();
  } catch (const vf::Violation& v) {
    fprintf(stderr, "FUZZ VIOLATION %s\n", v.what());
    __builtin_trap();
  } catch (const std::exception& e) {
    fprintf(stderr, "FUZZ EXCEPTION %s: %s\n", typeid(e).name(), e.what());
    __builtin_trap();
  } catch (...) {
    fprintf(stderr, "FUZZ EXCEPTION unknown\n");
    __builtin_trap();
  }
  return 0;
}
