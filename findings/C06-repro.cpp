// Minimal reproductions of the C06 findings. Build: clang++ -std=c++17 -fsanitize=address,undefined -I<gudhi includes> repro.cpp
// Run: ./repro <n>
#include <gudhi/Matrix.h>
#include <iostream>
using namespace Gudhi::persistence_matrix;
template <bool RU, Column_indexation_types IDX, bool BAR, bool MAP, Column_types COL = Column_types::INTRUSIVE_SET>
struct Opt : Default_options<COL, true> {
  static const bool has_column_pairings = BAR;
  static const bool has_vine_update = true;
  static const bool is_of_boundary_type = RU;
  static const Column_indexation_types column_indexation_type = IDX;
  static const bool has_removable_columns = true;
  static const bool has_map_column_container = MAP;
};
typedef std::vector<unsigned> B;
template <class M> void bars(M& m, const char* what) {
  std::cout << what << ":";
  for (auto& b : m.get_current_barcode()) std::cout << " [dim " << b.dim << ": " << b.birth << "," << (int)b.death << ")";
  std::cout << std::endl;
}
const auto C = Column_indexation_types::CONTAINER;
const auto P = Column_indexation_types::POSITION;
const auto I = Column_indexation_types::IDENTIFIER;
int main(int argc, char** argv) {
  int which = argc > 1 ? atoi(argv[1]) : 1;
  if (which == 1) {  // C06-ru-pivot-map-size
    Matrix<Opt<true, C, true, false> > m;
    m.insert_boundary(B{});
    m.insert_boundary(B{});
    m.vine_swap(0);  // indexes the empty RU_matrix::pivotToColumnIndex_ : out of bounds
    bars(m, "two vertices swapped");
  }
  if (which == 2) {  // C06-ru-explicit-id-u-rows
    Matrix<Opt<true, C, true, true> > m;
    m.insert_boundary(10, B{}, 0);
    m.insert_boundary(20, B{}, 0);
    m.insert_boundary(30, B{10, 20}, 1);
    m.insert_boundary(40, B{10, 20}, 1);
    m.vine_swap(2);  // two edges: reads/zeroes U(2, row 40) although the rows of U are 0..3
    bars(m, "expected [0:0,inf) [0:1,2) [1:3,inf)");
    std::cout << "U column 2 has " << m.get_column(2, false).size() << " entries\n";
  }
  if (which == 3) {  // C06-ru-removal-stale-u
    Matrix<Opt<true, C, true, false> > m(10);
    m.insert_boundary(B{}); m.insert_boundary(B{}); m.insert_boundary(B{});  // v0 v1 v2
    m.insert_boundary(B{0, 1}); m.insert_boundary(B{0, 1});                  // e3, e4 parallel: U(3,4) = 1
    m.remove_last();                                                          // U(3,4) stays behind
    m.insert_boundary(B{1, 2});                                               // new e4 = v1v2 inherits U(3,4) = 1
    m.vine_swap(3);
    std::cout << "R column of the cell v1v2 (now at position 3), expected rows 1 2:";
    for (auto& e : m.get_column(3)) std::cout << " " << e.get_row_index();
    std::cout << "\n";
  }
  if (which == 4) {  // C06-ru-remove-negative-pending-swaps
    Matrix<Opt<true, C, true, false> > m(10);
    m.insert_boundary(B{}); m.insert_boundary(B{}); m.insert_boundary(B{});  // v0 v1 v2
    m.insert_boundary(B{0, 1});                                               // e3: pivot row 1
    m.insert_boundary(B{0, 2});                                               // e4: pivot row 2
    m.vine_swap(1);    // v1 <-> v2, rows 1 and 2 swapped lazily: e3 has its pivot in row 2 now, e4 in row 1
    m.remove_last();   // removes e4, but clears the dictionary entry of row 2
    std::cout << "get_column_with_pivot(2) = " << (int)m.get_column_with_pivot(2) << " (expected 3)\n";
  }
  if (which == 5) {  // C06-ru-nobarcode-pos-neg-swap
    Matrix<Opt<true, C, false, true, Column_types::LIST> > m;
    m.insert_boundary(B{}); m.insert_boundary(B{}); m.insert_boundary(B{0, 1});            // v0 v1 e2
    m.insert_boundary(B{}); m.insert_boundary(B{}); m.insert_boundary(B{});                // v3 v4 v5
    m.insert_boundary(B{0, 1}); m.insert_boundary(B{1, 3});                                // e6 e7
    for (int i = 0; i < 4; ++i) m.insert_boundary(B{});                                    // v8 .. v11
    m.vine_swap(2);             // e2 <-> v3
    m.vine_swap(1);             // v1 <-> v3
    m.remove_maximal_cell(3);   // e2 travels to the end: throws std::out_of_range from _positive_negative_transpose
    std::cout << "survived\n";
  }
  if (which == 6) {  // C06-ru-id-remove-maximal-cell-map
    Matrix<Opt<true, I, true, true> > m;
    for (int i = 0; i < 4; ++i) m.insert_boundary(B{});
    m.remove_maximal_cell(0);  // two or more swaps needed
    for (unsigned id : {1u, 2u, 3u}) std::cout << "dimension of cell " << id << ": " << m.get_column_dimension(id) << "\n";
  }
  if (which == 7) {  // C06-ru-id-remove-last-largest-id
    Matrix<Opt<true, I, true, false> > m(4);
    m.insert_boundary(B{}); m.insert_boundary(B{});
    m.vine_swap(0, 1);   // cell 1 is now first, cell 0 last
    m.remove_last();     // cell 0 is the last one; the overlay looks for the largest ID (1) at the last position
    std::cout << "dimension of cell 1: " << m.get_column_dimension(1) << "\n";
  }
  if (which == 8) {  // C06-ru-id-get-column-with-pivot-gaps
    Matrix<Opt<true, I, true, true> > m;
    m.insert_boundary(B{});        // 0
    m.insert_boundary(B{});        // 1
    m.insert_boundary(B{});        // 2
    m.insert_boundary(B{0, 2});    // 3
    m.vine_swap(1, 2);
    m.remove_maximal_cell(1);      // IDs in use: 0 2 3
    std::cout << m.get_column_with_pivot(1) << "\n";  // row 1 is the pivot of the edge (cell 3): scans at(0), at(1): throws
  }
  if (which == 9) {  // C06-chain-insert-after-swap
    Matrix<Opt<false, C, true, true> > m;
    m.insert_boundary(B{}); m.insert_boundary(B{});      // cells 0, 1
    m.vine_swap(0, 1);                                   // filtration: 1, 0
    m.insert_boundary(2, B{0, 1}, 1);                    // edge: must kill the younger vertex = cell 0 at position 1
    bars(m, "expected [0:0,inf) [0:1,2)");
  }
  if (which == 10) {  // C06-chain-id-insert-boundary-no-return
    Matrix<Opt<false, I, true, true> > m;
    m.insert_boundary(B{});  // flows off the end of a function returning std::vector
    std::cout << "survived\n";
  }
  if (which == 11) {  // C06-chain-pos-remove-maximal-cell-ids
    Matrix<Opt<false, P, true, true> > m;
    for (unsigned i = 0; i < 4; ++i) m.insert_boundary(10 * i + 5, B{}, 0);
    m.remove_maximal_cell(1);
    bars(m, "expected three essential vertices");
  }
  if (which == 12) {  // C06-chain-remove-last-largest-id
    Matrix<Opt<false, C, true, true> > m;
    m.insert_boundary(B{}); m.insert_boundary(B{}); m.insert_boundary(B{});  // v0 v1 v2
    m.insert_boundary(B{0, 1});                                               // e3
    m.vine_swap(2, 3);      // filtration: v0 v1 e3 v2
    m.remove_last();        // must remove v2 (last position), removes the column of e3 (largest ID)
    bars(m, "barcode (bookkeeping by position, looks right)");
    std::cout << "dimension of the cell with ID 3 (the edge): " << m.get_column_dimension(m.get_column_with_pivot(3)) << "\n";
  }
  if (which == 13) {  // C06-chain-id-swap-return
    std::vector<B> cols = {B{}, B{}, B{}, B{0, 1}, B{1, 2}};
    Matrix<Opt<false, I, true, true> > m(cols);
    m.vine_swap(1, 2);  // 0 2 1 e3 e4
    m.vine_swap(0, 2);  // 2 0 1 e3 e4
    m.vine_swap(0, 1);  // 2 1 0 e3 e4 : columns handed to the chain matrix in the wrong order
    bars(m, "expected [0:0,inf) [0:1,4) [0:2,3)");
  }
  if (which == 14) {  // C06-chain-id-remove-maximal-cell-list
    std::vector<B> cols = {B{}, B{}, B{0, 1}, B{}};
    Matrix<Opt<false, I, true, true> > m(cols);
    m.vine_swap(0, 1);            // filtration: 1 0 e2 3 ; the columns of cells 0 and 1 exchange their pivots (MatIdx != ID)
    m.remove_maximal_cell(2);     // the edge goes
    m.remove_maximal_cell(1, std::vector<unsigned>{0, 3});  // cell 1 (first position), later cells 0 and 3
    bars(m, "expected two essential vertices");
  }
  if (which == 15) {  // C06-chain-comparator-index
    auto birth = [](unsigned a, unsigned b) { std::cout << "birth comparator(" << a << "," << b << ")\n"; return a < b; };
    auto death = [](unsigned a, unsigned b) { std::cout << "death comparator(" << a << "," << b << ")\n"; return a < b; };
    Matrix<Opt<false, C, false, true> > m(birth, death);
    m.insert_boundary(B{}); m.insert_boundary(B{});          // cells 0 and 1
    m.remove_maximal_cell(1, std::vector<unsigned>{});       // cell 1 removed
    m.insert_boundary(2, B{}, 0);                            // cell 2 at position 1 (column 2 of the chain matrix)
    m.vine_swap(0, 2);   // documented: comparators receive PosIdx; there are 2 cells, positions 0 and 1
  }
}
