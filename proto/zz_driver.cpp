// reads sequences: each line "n op1 op2 ..." where op = i:<dim>:<b1,b2,..> (boundary arrow numbers) or r:<arrow> ; prints intervals
#include <gudhi/zigzag_persistence.h>
#include <iostream>
#include <sstream>
#include <vector>
#include <string>
int main(){
  std::string line;
  while (std::getline(std::cin, line)) {
    std::istringstream is(line);
    std::vector<std::string> toks; std::string t; while (is >> t) toks.push_back(t);
    std::ostringstream out;
    using ZP = Gudhi::zigzag_persistence::Zigzag_persistence<>;
    ZP zp([&](int dim, int b, int d){ out << dim << ":" << b << ":" << d << " "; });
    for (auto& tk : toks) {
      if (tk[0]=='i') {
        size_t p1 = tk.find(':',2); int dim = std::stoi(tk.substr(2,p1-2));
        std::vector<int> bd; std::string rest = tk.substr(p1+1); std::istringstream rs(rest); std::string x;
        while (std::getline(rs, x, ',')) if(!x.empty()) bd.push_back(std::stoi(x));
        zp.insert_cell(bd, dim);
      } else if (tk[0]=='r') { zp.remove_cell(std::stoi(tk.substr(2))); }
      else zp.apply_identity();
    }
    zp.get_current_infinite_intervals([&](int dim, int b){ out << dim << ":" << b << ":inf "; });
    std::cout << out.str() << std::endl;
  }
}
