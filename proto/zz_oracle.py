#!/usr/bin/env python3
"""Throw-away prototype: zigzag interval decomposition from the definition (generalised ranks), Z2.
Validates the oracle idea of DESIGN.md section 4 against GUDHI's Zigzag_persistence on random sequences."""
import itertools, random, subprocess, sys
from collections import Counter

def hb(x): return x.bit_length() - 1

class Ech:
    """echelon set of bit-vectors with distinct highest bits; tag per vector"""
    def __init__(self): self.piv = {}   # pivot bit -> (vec, tag)
    def reduce(self, v):
        used = []
        while v:
            p = hb(v)
            if p not in self.piv: return v, used
            w, tag = self.piv[p]
            v ^= w
            if tag is not None: used.append(tag)
        return 0, used
    def add(self, v, tag):
        r, _ = self.reduce(v)
        if r: self.piv[hb(r)] = (r, tag); return r
        return 0

def kernel(rows, ncols):
    """basis of {x : for all rows r, popcount(r & x) even}. rows: list of ints (bitmask over columns)."""
    # gaussian elimination on rows
    piv = {}  # col -> row
    for r in rows:
        while r:
            p = hb(r)
            if p in piv: r ^= piv[p]
            else: piv[p] = r; break
    # reduce to RREF
    cols = sorted(piv)
    for p in cols:
        for q in cols:
            if q != p and (piv[q] >> p) & 1: piv[q] ^= piv[p]
    free = [c for c in range(ncols) if c not in piv]
    basis = []
    for f in free:
        x = 1 << f
        for p in cols:
            if (piv[p] >> f) & 1: x |= 1 << p
        basis.append(x)
    return basis

def rank(vs):
    e = Ech(); return sum(1 for v in vs if e.add(v, None))

def zigzag_oracle(complexes, maxdim):
    """complexes: list of sets of frozensets (K_0..K_{n-1}), consecutive differ by one simplex. returns Counter{(dim,b,d)} d=None for open"""
    n = len(complexes)
    allsimp = sorted(set().union(*complexes), key=lambda s: (len(s), sorted(s)))
    sid = {s: i for i, s in enumerate(allsimp)}
    def bd(s):
        if len(s) == 1: return 0
        v = 0
        for x in s: v ^= 1 << sid[s - {x}]
        return v
    res = Counter()
    for k in range(maxdim + 1):
        # homology bases per complex
        H = []  # per i: (Ech with B (tag None) and H reps (tag idx), hdim, reps)
        for K in complexes:
            e = Ech()
            for s in K:
                if len(s) == k + 2: e.add(bd(s), None)
            ks = [s for s in K if len(s) == k + 1]
            # cycles: kernel of boundary on ks
            if k == 0:
                zs = [1 << sid[s] for s in ks]
            else:
                # rows = (k-1)-faces, cols = ks
                faces = sorted({f for s in ks for f in (s - {x} for x in s)}, key=lambda f: sid[f])
                fidx = {f: j for j, f in enumerate(faces)}
                rows = [0] * len(faces)
                for c, s in enumerate(ks):
                    for x in s: rows[fidx[s - {x}]] |= 1 << c
                zs = []
                for x in kernel(rows, len(ks)):
                    v = 0
                    for c, s in enumerate(ks):
                        if (x >> c) & 1: v |= 1 << sid[s]
                    zs.append(v)
            reps = []
            for z in zs:
                r = e.add(z, len(reps))
                if r: reps.append(r)
            H.append((e, len(reps), reps))
        # maps between consecutive
        def coords(j, z):
            r, used = H[j][0].reduce(z)
            assert r == 0, "cycle not in Z(K_j)"
            c = 0
            for t in used: c ^= 1 << t
            return c
        offs = [0]
        for i in range(n): offs.append(offs[-1] + H[i][1])
        arrows = []  # (src, dst, matrix columns: list of coords in dst for each basis elt of src)
        for i in range(n - 1):
            if complexes[i] <= complexes[i + 1]: s, d = i, i + 1
            else: s, d = i + 1, i
            arrows.append((s, d, [coords(d, z) for z in H[s][2]]))
        def grank(b, d):
            if b < 0 or d >= n: return 0
            N = offs[d + 1] - offs[b]
            if N == 0: return 0
            base = offs[b]
            rel = []   # relations for colim, also constraint rows for lim
            rows = []
            for (s, t, M) in arrows:
                if min(s, t) < b or max(s, t) > d: continue
                # relation e_{s,l} - M e_{s,l}
                for l, col in enumerate(M):
                    v = 1 << (offs[s] - base + l)
                    for q in range(H[t][1]):
                        if (col >> q) & 1: v ^= 1 << (offs[t] - base + q)
                    rel.append(v)
                # constraints: for each coordinate q of dst: sum_l M[q][l] x_{s,l} + x_{t,q} = 0
                for q in range(H[t][1]):
                    r = 1 << (offs[t] - base + q)
                    for l, col in enumerate(M):
                        if (col >> q) & 1: r ^= 1 << (offs[s] - base + l)
                    rows.append(r)
            lim = kernel(rows, N)
            mask_b = (1 << H[b][1]) - 1   # component b sits at offset 0
            imgs = [x & mask_b for x in lim]
            return rank(rel + imgs) - rank(rel)
        R = {}
        for b in range(-1, n + 1):
            for d in range(b, n + 1):
                R[(b, d)] = grank(b, d) if b >= 0 and d < n else 0
        for b in range(n):
            for d in range(b, n):
                m = R[(b, d)] - R.get((b - 1, d), 0) - R.get((b, d + 1), 0) + R.get((b - 1, d + 1), 0)
                assert m >= 0, (k, b, d, m)
                if m:
                    res[(k, b, None if d == n - 1 else d + 1)] += m
    return res

def random_sequence(rng, nv, maxdim, steps):
    K = set(); ops = []; complexes = []; key = {}  # simplex -> arrow number of last insertion
    line = []
    for step in range(steps):
        cand_ins = []
        for r in range(1, maxdim + 2):
            for c in itertools.combinations(range(nv), r):
                s = frozenset(c)
                if s in K: continue
                if all((s - {x}) in K for x in s) or r == 1: cand_ins.append(s)
        cand_rem = [s for s in K if not any(s < t for t in K)]
        if cand_rem and (not cand_ins or rng.random() < 0.4):
            s = rng.choice(sorted(cand_rem, key=sorted)); K = K - {s}
            line.append("r:%d" % key[s])
        elif cand_ins:
            s = rng.choice(sorted(cand_ins, key=sorted)); K = K | {s}
            b = sorted(key[s - {x}] for x in s) if len(s) > 1 else []
            line.append("i:%d:%s" % (len(s) - 1, ",".join(map(str, b))))
            key[s] = step
        else: break
        complexes.append(set(K))
    return complexes, " ".join(line)

def main():
    rng = random.Random(int(sys.argv[1]) if len(sys.argv) > 1 else 1)
    ncases = int(sys.argv[2]) if len(sys.argv) > 2 else 200
    cases = []
    for _ in range(ncases):
        cx, line = random_sequence(rng, rng.randint(3, 5), 2, rng.randint(4, 22))
        cases.append((cx, line))
    p = subprocess.run(["/tmp/sc/zz/zz_driver"], input="\n".join(l for _, l in cases) + "\n", capture_output=True, text=True)
    outs = p.stdout.strip("\n").split("\n")
    if p.returncode != 0: print("driver rc", p.returncode, p.stderr[-2000:])
    bad = 0; nontriv = 0
    for (cx, line), out in zip(cases, outs):
        got = Counter()
        for t in out.split():
            d, b, e = t.split(":"); got[(int(d), int(b), None if e == "inf" else int(e))] += 1
        exp = zigzag_oracle(cx, 2)
        if any(k[0] >= 1 for k in exp): nontriv += 1
        if got != exp:
            bad += 1
            if bad <= 5:
                print("MISMATCH\n ops:", line, "\n got:", sorted(got.items(), key=str), "\n exp:", sorted(exp.items(), key=str))
    print("cases", len(cases), "with dim>=1 bars", nontriv, "mismatches", bad)

if __name__ == "__main__": main()
