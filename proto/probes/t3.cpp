#include <gudhi/Matrix.h>
#include <gudhi/persistence_matrix_options.h>
#include <iostream>
using namespace Gudhi::persistence_matrix;
struct RUopt : Default_options<Column_types::INTRUSIVE_SET,true> { static const bool has_column_pairings=true; static const bool can_retrieve_representative_cycles=true; };
struct CHopt : RUopt { static const bool is_of_boundary_type=false; };
template<class M> void run(const char* n){
  // vertices 0..3 ; edges 4=(0,1) 5=(1,2) 6=(2,3) 7=(0,3)? build so that reducing col was itself reduced
  // path 0-1, 1-2, then edge (0,2) reduces by 5 then 4 ; then 2-3, then (0,3): pivot 3 -> reduce by col(2,3) -> pivot 2 -> reduce by (1,2)-> pivot1 -> reduce by (0,1)
  std::vector<std::vector<unsigned>> B = {{},{},{},{}, {2,3},{1,3},{0,2},{0,1}};
  M m(B);
  std::cout << n << "\n";
  for (auto& bar : m.get_current_barcode()) {
    std::cout << " bar dim " << bar.dim << " [" << bar.birth << "," << (int)bar.death << ") cycle:";
    for (auto c : m.get_representative_cycle(bar)) std::cout << " " << c;
    std::cout << "\n";
  }
}
int main(){ run<Matrix<RUopt>>("RU"); run<Matrix<CHopt>>("CHAIN"); }
