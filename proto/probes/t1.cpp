#include <gudhi/Fields/Zp_field_operators.h>
#include <gudhi/Fields/Zp_field.h>
#include <iostream>
using namespace Gudhi::persistence_fields;
int main(){
  Zp_field_operators<> op(5);
  for (int e : {-1,-4,-5,-6,-7,-11,-12, -2147483647}) {
    long long t = ((e % 5) + 5) % 5;
    std::cout << e << " ops=" << op.get_value(e) << " elem=" << Zp_field_element<5>(e).get_value() << " elemL=" << Zp_field_element<5>((long)e).get_value()<< " true=" << t << "\n";
  }
}
