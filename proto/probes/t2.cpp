#include <gudhi/Matrix.h>
#include <gudhi/persistence_matrix_options.h>
#include <iostream>
using namespace Gudhi::persistence_matrix;
template<Column_types C> struct Opt : Default_options<C,false> { };
template<Column_types C> void run(const char* name){
  using M = Matrix<Opt<C>>;
  M m(5, 7u);
  using E = std::pair<unsigned,unsigned>;
  m.insert_column(std::vector<E>{{0,1},{2,3},{4,2}});
  m.insert_column(std::vector<E>{});
  m.multiply_source_and_add_to(3, 0u, 1u);   // col1 += 3*col0  => {0:3,2:2,4:6}
  auto c = m.get_column(1).get_content(5);
  std::cout << name << ": ";
  for (auto x : c) std::cout << x << " ";
  std::cout << " empty0=" << m.is_zero_column(1) << "\n";
}
int main(){
  run<Column_types::HEAP>("heap");
  run<Column_types::VECTOR>("vector");
  run<Column_types::LIST>("list");
  run<Column_types::INTRUSIVE_SET>("iset");
}
