#include <gudhi/Simplex_tree.h>
#include <gudhi/Persistent_cohomology/Multi_field.h>
#include <iostream>
#include <memory>
int main(){
  {
    Gudhi::persistent_cohomology::Multi_field mf; mf.init(2,5); // primes 2,3,5 prod 30
    mpz_class x = 15, y = 2; // x*y = 30 == 0 mod 30
    std::cout << "times_minus(15,2) = " << mf.times_minus(x,y) << " (expect 0)" << std::endl;
  }
  Gudhi::Simplex_tree<> st; st.insert_simplex_and_subfaces({0,1,2}, 1.0);
  std::size_t n = st.get_serialization_size();
  std::unique_ptr<char[]> buf(new char[n]); st.serialize(buf.get(), n);
  for (int delta : {+4, -4}) {
    std::size_t m = n + delta;
    std::unique_ptr<char[]> b2(new char[m]);
    std::memcpy(b2.get(), buf.get(), std::min(n,m));
    if (m > n) std::memset(b2.get()+n, 0, m-n);
    Gudhi::Simplex_tree<> st2;
    try { st2.deserialize(b2.get(), m); std::cout << "delta " << delta << ": no exception" << std::endl; }
    catch (std::invalid_argument& e) { std::cout << "delta " << delta << ": invalid_argument (ok)" << std::endl; }
  }
}
