#include <gudhi/Persistence_on_rectangle.h>
#include <gudhi/Persistence_on_a_line.h>
#include <gudhi/Toplex_map.h>
#include <gudhi/Lazy_toplex_map.h>
#include <iostream>
#include <vector>
int main(){
  {
    std::vector<double> in = {1, 5, 7, 3}; // 2x2
    double m = Gudhi::cubical_complex::persistence_on_rectangle_from_top_cells(in.data(), 2u, 2u,
      [](double b,double d){ std::cout<<" H0 ["<<b<<","<<d<<")"; }, [](double b,double d){ std::cout<<" H1 ["<<b<<","<<d<<")"; });
    std::cout << " 2x2 min=" << m << " (expect 1, no pairs)" << std::endl;
    std::vector<double> in2 = {1, 9, 2, 8, 9, 8}; // 2x3: row0: 1 9 2 ; row1: 8 9 8 -> H0: [2,8)? comps {1},{2} join via 8 (bottom) at 8
    m = Gudhi::cubical_complex::persistence_on_rectangle_from_top_cells(in2.data(), 2u, 3u,
      [](double b,double d){ std::cout<<" H0 ["<<b<<","<<d<<")"; }, [](double b,double d){ std::cout<<" H1 ["<<b<<","<<d<<")"; });
    std::cout << " 2x3 min=" << m << " (expect 1, H0 [2,8))" << std::endl;
    std::vector<double> in3 = {1, 8, 9, 9, 2, 8}; // 3x2
    m = Gudhi::cubical_complex::persistence_on_rectangle_from_top_cells(in3.data(), 3u, 2u,
      [](double b,double d){ std::cout<<" H0 ["<<b<<","<<d<<")"; }, [](double b,double d){ std::cout<<" H1 ["<<b<<","<<d<<")"; });
    std::cout << " 3x2 min=" << m << " (expect 1, H0 [2,8))" << std::endl;
  }
  {
    Gudhi::Toplex_map t; std::vector<std::size_t> s{1,2,3,4}; t.insert_simplex(s);
    std::vector<std::size_t> r{1}; t.remove_simplex(r);
    std::vector<std::size_t> q{2,3,4}, q2{2,3};
    std::cout << "toplex after remove {1} from {1234}: has{234}=" << t.membership(q) << " has{23}=" << t.membership(q2) << " (expect 1 1)" << std::endl;
    Gudhi::Lazy_toplex_map l; l.insert_simplex(s); l.remove_simplex(r);
    std::cout << "lazy: has{234}=" << l.membership(q) << " has{23}=" << l.membership(q2) << std::endl;
  }
}
