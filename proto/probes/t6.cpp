#include <gudhi/Matrix.h>
#include <gudhi/persistence_matrix_options.h>
#include <iostream>
using namespace Gudhi::persistence_matrix;
template<Column_types C, bool z2> struct SwapOpt : Default_options<C,z2> { static const bool has_column_and_row_swaps = true; };
template<Column_types C, bool z2> struct SwapMapOpt : SwapOpt<C,z2> { static const bool has_map_column_container = true; };
template<Column_types C, bool z2> struct CompOpt : Default_options<C,z2> { static const bool has_column_compression = true; };
struct ChainVine : Default_options<Column_types::INTRUSIVE_SET,true> { static const bool is_of_boundary_type=false; static const bool has_column_pairings=true; static const bool has_vine_update=true; static const bool has_removable_columns=true; static const bool has_map_column_container=true; };
template<class M> void show(M& m, unsigned nrows, const char* tag){
  std::cout << tag << ":";
  for (unsigned c=0;c<m.get_number_of_columns();++c){ std::cout << " ["; for (unsigned r=0;r<nrows;++r) std::cout << (m.is_zero_entry(c,r)?'.':'1'); std::cout << "]"; }
  std::cout << std::endl;
}
int main(){
  { // (a) rectangular base matrix with swaps: 2 columns, 5 rows
    Matrix<SwapOpt<Column_types::INTRUSIVE_SET,true>> m(2);
    m.insert_column(std::vector<unsigned>{0,3}); m.insert_column(std::vector<unsigned>{1,4});
    show(m,5,"a0 expect [1..1.] [.1..1]");
    m.swap_rows(3,4); show(m,5,"a1 expect [1...1] [.1.1.]");
    (void)m.get_column(0); // forces reorder
    show(m,5,"a2 expect [1...1] [.1.1.]");
  }
  try { // (b) map container, swap seen row with unseen row
    Matrix<SwapMapOpt<Column_types::INTRUSIVE_SET,true>> m(2);
    m.insert_column(std::vector<unsigned>{0,1}); m.insert_column(std::vector<unsigned>{1});
    m.swap_rows(3,1);
    std::cout << "b: col0 row3 zero? " << m.is_zero_entry(0,3) << " (expect 0) col0 row1 zero? " << m.is_zero_entry(0,1) << " (expect 1)" << std::endl;
    m.swap_rows(1,3);
    std::cout << "b2: col0 row1 zero? " << m.is_zero_entry(0,1) << " (expect 0)" << std::endl;
  } catch (std::exception& e) { std::cout << "b: exception " << e.what() << std::endl; }
  { // (d) vector column: zero an already-zero entry
    Matrix<Default_options<Column_types::VECTOR,true>> m(2);
    m.insert_column(std::vector<unsigned>{0,2}); m.insert_column(std::vector<unsigned>{1});
    m.zero_entry(0,1);
    std::cout << "d: col0 zero-col? " << m.is_zero_column(0) << " (expect 0)";
    m.zero_entry(1,0); 
    std::cout << " col1 zero-col? " << m.is_zero_column(1) << " (expect 0)";
    m.zero_entry(1,1); m.zero_entry(1,1);
    std::cout << " col1 zero-col after zeroing? " << m.is_zero_column(1) << " (expect 1)";
    m.add_to(0u,1u); show(m,3,"  after col1+=col0 expect [1.1] [1.1]");
  }
  { // (e) chain vine: swap last two cells then remove_last
    std::vector<std::vector<unsigned>> B = {{},{},{},{0,1},{1,2}};
    Matrix<ChainVine> m(B);
    auto pr=[&](const char*t){ std::cout<<t; for (auto& b : m.get_current_barcode()) std::cout<<" ("<<b.dim<<","<<b.birth<<","<<(int)b.death<<")"; std::cout<<std::endl; };
    pr("e0:");
    m.vine_swap(3u,4u); pr("e1 after swap 3<->4:");
    m.remove_last(); pr("e2 after remove_last (filtration now v0 v1 v2 e12; expect (0,0,-1)(0,1,-1)... (0,2,3)):");
  }
  { // (c) compression: add to an empty column
    Matrix<CompOpt<Column_types::INTRUSIVE_SET,true>> m(3);
    m.insert_column(std::vector<unsigned>{0,1}); m.insert_column(std::vector<unsigned>{}); m.insert_column(std::vector<unsigned>{0,1});
    std::cout << "c: about to add col0 to empty col1" << std::endl;
    m.add_to(0u,1u);
    std::cout << "c: ok zero? " << m.is_zero_column(1) << std::endl;
  }
}
