#include <gudhi/Simplex_tree.h>
#include <gudhi/Persistent_cohomology.h>
#include <iostream>
using namespace Gudhi;
struct FC : Simplex_tree_options_full_featured { static const bool stable_simplex_handles=false; };
struct ST : Simplex_tree_options_default { static const bool stable_simplex_handles=true; };
template<class O> int run(){
  Simplex_tree<O> st;
  st.insert_simplex_and_subfaces({0,1,2}, O::store_filtration ? 1.0 : 0.0);
  st.insert_simplex_and_subfaces({1,2,3}, O::store_filtration ? 2.0 : 0.0);
  int c=0;
  for (auto sh : st.complex_simplex_range()) { for (auto s : st.star_simplex_range(sh)) {(void)s; ++c;} }
  auto sh = st.find({0,1,2});
  int star=0; for (auto s: st.star_simplex_range(sh)) {(void)s; ++star;}
  st.remove_maximal_simplex(st.find({1,2,3}));
  std::cout << c << " star(top)=" << star << " dim=" << st.dimension() << std::endl;
  Simplex_tree<O> e; e.insert_simplex({5}, 0.); e.remove_maximal_simplex(e.find({5}));
  std::cout << "emptied dim=" << e.dimension() << " eq fresh=" << (e==Simplex_tree<O>()) << std::endl;
  return c;
}
int main(){ run<Simplex_tree_options_default>(); run<Simplex_tree_options_full_featured>(); run<FC>(); run<ST>(); run<Simplex_tree_options_fast_persistence>(); run<Simplex_tree_options_minimal>(); }
