// Self-test of ref/landscape.h (run by setup.sh): hand-computed landscapes, integrals and distances.
#include "landscape.h"
#include <cstdio>
using namespace ref::landscape;
static int fails = 0;
#define EXPECT(c) do { if (!(c)) { printf("FAIL %s:%d %s\n", __FILE__, __LINE__, #c); ++fails; } } while (0)
static bool eq(R a, R b) { return std::fabs(a - b) < 1e-15L * (1 + std::fabs(a) + std::fabs(b)); }
int main() {
  Diagram d{{0, 6}, {2, 4}, {0, 6}, {4, 8}};
  // at t = 3: tents 3, 1, 3, 0 ; at t = 5: 1, 0, 1, 1
  EXPECT(lambda(d, 0, 3) == 3 && lambda(d, 1, 3) == 3 && lambda(d, 2, 3) == 1 && lambda(d, 3, 3) == 0 && lambda(d, 4, 3) == 0);
  EXPECT(lambda(d, 0, 5) == 1 && lambda(d, 2, 5) == 1 && lambda(d, 3, 5) == 0);
  EXPECT(lambda(d, 0, -1) == 0 && lambda(d, 0, 9) == 0 && lambda(d, 0, 6.5L) == 1.5L);
  EXPECT(nonzero_levels(d) == 3);
  Func one = of_diagram(Diagram{{0, 4}});  // a tent of height 2
  EXPECT(linear_on_cells(one, 1) && !linear_on_cells(of_diagram(Diagram{{0, 3}}), 1) && linear_on_cells(of_diagram(Diagram{{0, 3}}), 0.5L));
  EXPECT(eq(integral(one, 1), 4) && eq(integral_square(one, 1), 16.0L / 3) && eq(sup_abs(one, 1), 2) && eq(integral_level(one, 1, 1), 0));
  Func two = of_diagram(Diagram{{2, 6}});
  // one - two: 0,1,2,1-0... values at 0..6: 0 1 2 0 -2 -1 0 -> crossing inside [2,4]: at t = 3 exactly
  Func diff = combine(1, one, -1, two);
  EXPECT(eq(diff.value(0, 3), 0) && eq(diff.value(0, 2), 2) && eq(diff.value(0, 4), -2));
  EXPECT(eq(integral(diff, 1), 0) && eq(integral_abs(diff, 1), 6) && eq(distance(one, two, 1, 1), 6) && eq(distance(one, two, 0, 1), 2));
  EXPECT(eq(distance(one, two, 2, 1) * distance(one, two, 2, 1), integral_square(diff, 1)) && eq(distance(one, two, 2, 1), distance(two, one, 2, 1)));
  // crossing strictly inside a cell: f = tent(0,4) - 3*tent(2,6) on [2,3]: 2 -> 1-3 = -2 ; |f| integral on that cell = (4+4)/(2*4) = 1
  Func g = combine(1, one, -3, two);
  EXPECT(eq(g.value(0, 2), 2) && eq(g.value(0, 3), -2));
  R cell = (2.0L * 2 + 2.0L * 2) / (2 * 4);
  EXPECT(eq(cell, 1));
  // <one, two> = int_2^4 (4-t)(t-2) dt over [2,4] where one = min(t,4-t), two = min(t-2,6-t): on [2,3]: (4-t)(t-2), [3,4]: (4-t)(t-2)
  EXPECT(eq(inner_product(one, two, 1), 4.0L / 3) && eq(inner_product(one, one, 1), integral_square(one, 1)));
  EXPECT(eq(inner_product(combine(2, one, 1, two), two, 1), 2 * inner_product(one, two, 1) + inner_product(two, two, 1)));
  EXPECT(eq(absolute(diff).value(0, 4), 2) && eq(scale(0.5L, one).value(0, 2), 1));
  printf(fails ? "ref landscape self-test FAILED\n" : "ref landscape self-test ok\n");
  return fails ? 1 : 0;
}
