// Reference bottleneck distance between two small persistence diagrams (L-infinity ground metric, matching to the
// diagonal allowed). Written for obviousness, independent of GUDHI (whose Bottleneck module needs CGAL).
//
// Points may have infinite coordinates: (b, +inf) essential classes, (-inf, d) classes born at "minus infinity" (the
// image of birth 0 in logarithmic scale), (-inf, +inf). The L-infinity cost treats inf - inf (same sign) as 0 and any
// other difference involving an infinity as +inf; the cost of sending a point to the diagonal is (d - b) / 2, +inf when
// a coordinate is infinite. Consequently points with an infinite coordinate can only be matched among themselves, at
// the cost of the difference of their finite coordinates.
//
//   bottleneck_at_most(A, B, delta)  decision: is there a perfect matching of cost <= delta?  (bipartite matching on
//                                     A + |B| diagonal slots versus B + |A| diagonal slots, augmenting paths)
//   bottleneck_distance(A, B)        the smallest candidate value (pairwise costs, diagonal costs, 0) that is feasible;
//                                     +inf when no finite value is (different numbers of infinite points).
#ifndef REF_BOTTLENECK_H_
#define REF_BOTTLENECK_H_

#include <algorithm>
#include <cmath>
#include <limits>
#include <vector>

namespace ref {

struct DPoint {
  double b, d;
};

namespace bn_detail {
inline double coord_diff(double x, double y) {
  if (x == y) return 0;  // also inf == inf
  return std::fabs(x - y);  // +inf when exactly one is infinite or the signs differ
}
inline double cost(const DPoint& p, const DPoint& q) { return std::max(coord_diff(p.b, q.b), coord_diff(p.d, q.d)); }
inline double diag_cost(const DPoint& p) {
  if (std::isinf(p.b) || std::isinf(p.d)) return p.b == p.d ? 0 : std::numeric_limits<double>::infinity();
  return std::fabs(p.d - p.b) / 2;
}

struct Matcher {
  int nl, nr;
  std::vector<std::vector<int>> adj;
  std::vector<int> match_r;
  std::vector<char> seen;
  bool augment(int u) {
    for (int v : adj[size_t(u)]) {
      if (seen[size_t(v)]) continue;
      seen[size_t(v)] = 1;
      if (match_r[size_t(v)] < 0 || augment(match_r[size_t(v)])) {
        match_r[size_t(v)] = u;
        return true;
      }
    }
    return false;
  }
  int maximum() {
    match_r.assign(size_t(nr), -1);
    int m = 0;
    for (int u = 0; u < nl; ++u) {
      seen.assign(size_t(nr), 0);
      if (augment(u)) ++m;
    }
    return m;
  }
};
}  // namespace bn_detail

inline bool bottleneck_at_most(const std::vector<DPoint>& A, const std::vector<DPoint>& B, double delta) {
  using namespace bn_detail;
  if (!(delta >= 0)) return false;
  const int na = int(A.size()), nb = int(B.size());
  // left: A points 0..na-1, then one diagonal slot per B point; right: B points 0..nb-1, then one diagonal slot per A point
  Matcher m;
  m.nl = na + nb;
  m.nr = nb + na;
  m.adj.assign(size_t(m.nl), {});
  for (int i = 0; i < na; ++i) {
    for (int j = 0; j < nb; ++j)
      if (cost(A[size_t(i)], B[size_t(j)]) <= delta) m.adj[size_t(i)].push_back(j);
    if (diag_cost(A[size_t(i)]) <= delta) m.adj[size_t(i)].push_back(nb + i);  // its own projection
  }
  for (int j = 0; j < nb; ++j) {
    if (diag_cost(B[size_t(j)]) <= delta) m.adj[size_t(na + j)].push_back(j);  // projection of b_j matched with b_j
    for (int i = 0; i < na; ++i) m.adj[size_t(na + j)].push_back(nb + i);      // diagonal with diagonal: free
  }
  return m.maximum() == m.nl;
}

inline double bottleneck_distance(const std::vector<DPoint>& A, const std::vector<DPoint>& B) {
  using namespace bn_detail;
  std::vector<double> cand;
  cand.push_back(0);
  for (auto& p : A) {
    double c = diag_cost(p);
    if (std::isfinite(c)) cand.push_back(c);
    for (auto& q : B) {
      double e = cost(p, q);
      if (std::isfinite(e)) cand.push_back(e);
    }
  }
  for (auto& q : B) {
    double c = diag_cost(q);
    if (std::isfinite(c)) cand.push_back(c);
  }
  std::sort(cand.begin(), cand.end());
  cand.erase(std::unique(cand.begin(), cand.end()), cand.end());
  if (!bottleneck_at_most(A, B, cand.back())) return std::numeric_limits<double>::infinity();
  size_t lo = 0, hi = cand.size() - 1;  // invariant: cand[hi] feasible; everything below lo infeasible
  while (lo < hi) {
    size_t mid = (lo + hi) / 2;
    if (bottleneck_at_most(A, B, cand[mid]))
      hi = mid;
    else
      lo = mid + 1;
  }
  return cand[hi];
}

}  // namespace ref

#endif  // REF_BOTTLENECK_H_
