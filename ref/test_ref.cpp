// Self-test of the reference code (run by setup.sh): known homology of hard-wired complexes over several fields.
#include "reduce.h"
#include "families.h"
#include <cstdio>
#include <cstdlib>
using namespace ref;
static int fails = 0;
#define EXPECT(c) do { if (!(c)) { printf("FAIL %s:%d %s\n", __FILE__, __LINE__, #c); ++fails; } } while (0)
static std::map<int,int> betti(const std::vector<Simplex>& maxs, Z p) {
  Complex c; for (auto& s : maxs) c.insert_with_faces(s, 0.0);
  EXPECT(c.is_closed());
  auto order = filtration_order(c); auto cells = simplicial_cells(order);
  Reduction r = reduce(cells, p); EXPECT(self_check(cells, r));
  auto b = betti_at(r, (int)cells.size());
  long e = 0; for (auto& kv : b) e += (kv.first % 2 ? -1 : 1) * kv.second;
  EXPECT(e == c.euler_characteristic());
  return b;
}
int main() {
  for (Z p : {2, 3, 5, 7, 65521}) {
    auto b = betti(rp2_triangles(), p);
    EXPECT(b[0] == 1); EXPECT(b[1] == (p == 2 ? 1 : 0)); EXPECT(b[2] == (p == 2 ? 1 : 0));
    b = betti(torus_triangles(), p); EXPECT(b[0] == 1 && b[1] == 2 && b[2] == 1);
    b = betti(klein_triangles(), p); EXPECT(b[0] == 1); EXPECT(b[1] == (p == 2 ? 2 : 1)); EXPECT(b[2] == (p == 2 ? 1 : 0));
    for (int m : {2, 3, 5}) {
      b = betti(moore_triangles(m), p);
      EXPECT(b[0] == 1); EXPECT(b[1] == (p == m ? 1 : 0)); EXPECT(b[2] == (p == m ? 1 : 0));
    }
    b = betti({{0,1,2},{0,1,3},{0,2,3},{1,2,3}}, p); EXPECT(b[0] == 1 && b[1] == 0 && b[2] == 1);
  }
  // clique complex + minimal non faces
  Graph g; for (int v = 0; v < 4; ++v) g.vertices[v] = 0; 
  for (int a = 0; a < 4; ++a) for (int b = a + 1; b < 4; ++b) g.edges[{a,b}] = a + b;
  Complex k = clique_complex(g, 2); EXPECT(k.size() == 14); EXPECT(k.value({1,2,3}) == 5);
  EXPECT(k.minimal_non_faces().size() == 1);
  EXPECT(clique_complex(g, -1).size() == 15);
  // span
  SVec a{{0,1},{1,1}}, b{{1,1},{2,1}}, c{{0,1},{2,1}};
  EXPECT(rank_of({a,b,c}, 2) == 2); EXPECT(rank_of({a,b,c}, 3) == 3); EXPECT(in_span(c, {a,b}, 2)); EXPECT(!in_span(c, {a,b}, 3));
  EXPECT(mod_inv(3, 7) == 5);
  printf(fails ? "ref self-test FAILED\n" : "ref self-test ok\n");
  return fails ? 1 : 0;
}
