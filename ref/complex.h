// Reference model of a filtered abstract simplicial complex. Written for obviousness, independent of GUDHI.
#ifndef REF_COMPLEX_H_
#define REF_COMPLEX_H_

#include <algorithm>
#include <cstdint>
#include <limits>
#include <map>
#include <set>
#include <sstream>
#include <string>
#include <vector>

namespace ref {

using Vertex = long long;
using Simplex = std::vector<Vertex>;  // sorted ascending, distinct vertices, non-empty

inline Simplex make_simplex(std::vector<Vertex> v) {
  std::sort(v.begin(), v.end());
  v.erase(std::unique(v.begin(), v.end()), v.end());
  return v;
}
inline bool is_subset(const Simplex& a, const Simplex& b) {  // a subset of b
  return std::includes(b.begin(), b.end(), a.begin(), a.end());
}
inline std::string to_string(const Simplex& s) {
  std::ostringstream o;
  o << "{";
  for (size_t i = 0; i < s.size(); ++i) o << (i ? "," : "") << s[i];
  o << "}";
  return o.str();
}
// all non-empty subsets of s (including s), each sorted
inline std::vector<Simplex> all_faces(const Simplex& s) {
  std::vector<Simplex> r;
  size_t n = s.size();
  for (uint64_t m = 1; m < (uint64_t(1) << n); ++m) {
    Simplex f;
    for (size_t i = 0; i < n; ++i)
      if (m >> i & 1) f.push_back(s[i]);
    r.push_back(f);
  }
  return r;
}
// codimension-1 faces; facet i omits s[i]
inline std::vector<Simplex> facets(const Simplex& s) {
  std::vector<Simplex> r;
  if (s.size() <= 1) return r;
  for (size_t i = 0; i < s.size(); ++i) {
    Simplex f;
    for (size_t j = 0; j < s.size(); ++j)
      if (j != i) f.push_back(s[j]);
    r.push_back(f);
  }
  return r;
}

struct Complex {
  std::map<Simplex, double> s;  // std::map on vectors = lexicographic order, a prefix before its extensions

  bool contains(const Simplex& x) const { return s.count(x) != 0; }
  double value(const Simplex& x) const { return s.at(x); }
  size_t size() const { return s.size(); }
  bool empty() const { return s.empty(); }
  int dimension() const {  // -1 for the empty complex
    int d = -1;
    for (auto& kv : s) d = std::max(d, int(kv.first.size()) - 1);
    return d;
  }
  std::vector<Vertex> vertices() const {
    std::vector<Vertex> v;
    for (auto& kv : s)
      if (kv.first.size() == 1) v.push_back(kv.first[0]);
    return v;
  }
  std::vector<size_t> count_by_dimension() const {
    std::vector<size_t> c(size_t(dimension() + 1), 0);
    for (auto& kv : s) ++c[kv.first.size() - 1];
    return c;
  }
  bool is_closed() const {
    for (auto& kv : s)
      for (auto& f : facets(kv.first))
        if (!contains(f)) return false;
    return true;
  }
  bool is_monotone() const {
    for (auto& kv : s)
      for (auto& f : facets(kv.first))
        if (contains(f) && s.at(f) > kv.second) return false;
    return true;
  }
  // insertion of one simplex only: new -> value; existing -> min(existing, value). returns true iff new
  bool insert_one(const Simplex& x, double v) {
    auto it = s.find(x);
    if (it == s.end()) {
      s[x] = v;
      return true;
    }
    if (v < it->second) it->second = v;
    return false;
  }
  // insertion with all faces, same rule on each face; returns true iff something new was added
  bool insert_with_faces(const Simplex& x, double v) {
    bool added = false;
    for (auto& f : all_faces(x)) added = insert_one(f, v) || added;
    return added;
  }
  // star of x = all simplices containing x (x included when present)
  std::vector<Simplex> star(const Simplex& x) const {
    std::vector<Simplex> r;
    for (auto& kv : s)
      if (is_subset(x, kv.first)) r.push_back(kv.first);
    return r;
  }
  std::vector<Simplex> cofaces(const Simplex& x, int codim) const {  // codim 0 = whole star
    std::vector<Simplex> r;
    for (auto& kv : s)
      if (is_subset(x, kv.first) && (codim == 0 || int(kv.first.size()) == int(x.size()) + codim))
        r.push_back(kv.first);
    return r;
  }
  bool is_maximal(const Simplex& x) const {
    for (auto& kv : s)
      if (kv.first.size() > x.size() && is_subset(x, kv.first)) return false;
    return true;
  }
  std::vector<Simplex> maximal_simplices() const {
    std::vector<Simplex> r;
    for (auto& kv : s)
      if (is_maximal(kv.first)) r.push_back(kv.first);
    return r;
  }
  size_t remove_star(const Simplex& x) {
    size_t n = 0;
    for (auto it = s.begin(); it != s.end();) {
      if (is_subset(x, it->first)) {
        it = s.erase(it);
        ++n;
      } else
        ++it;
    }
    return n;
  }
  bool prune_above_filtration(double f) {  // keep value <= f
    bool m = false;
    for (auto it = s.begin(); it != s.end();) {
      if (it->second > f) {
        it = s.erase(it);
        m = true;
      } else
        ++it;
    }
    return m;
  }
  bool prune_above_dimension(int d) {  // keep dimension <= d
    bool m = false;
    for (auto it = s.begin(); it != s.end();) {
      if (int(it->first.size()) - 1 > d) {
        it = s.erase(it);
        m = true;
      } else
        ++it;
    }
    return m;
  }
  std::vector<Simplex> skeleton(int d) const {
    std::vector<Simplex> r;
    for (auto& kv : s)
      if (int(kv.first.size()) - 1 <= d) r.push_back(kv.first);
    return r;
  }
  std::vector<Simplex> simplices() const {
    std::vector<Simplex> r;
    for (auto& kv : s) r.push_back(kv.first);
    return r;
  }
  // image under the identification b -> a (vertex b disappears)
  void contract(Vertex a, Vertex b) {
    std::map<Simplex, double> n;
    for (auto& kv : s) {
      Simplex x = kv.first;
      for (auto& v : x)
        if (v == b) v = a;
      x = make_simplex(x);
      auto it = n.find(x);
      if (it == n.end())
        n[x] = kv.second;
      else
        it->second = std::min(it->second, kv.second);
    }
    s.swap(n);
  }
  // minimal non-faces of dimension >= 2: vertex sets not in the complex all of whose proper faces are
  std::vector<Simplex> minimal_non_faces() const {
    std::vector<Simplex> r;
    std::vector<Vertex> vs = vertices();
    size_t n = vs.size();
    if (n > 20) return r;
    for (uint64_t m = 1; m < (uint64_t(1) << n); ++m) {
      if (__builtin_popcountll(m) < 3) continue;
      Simplex x;
      for (size_t i = 0; i < n; ++i)
        if (m >> i & 1) x.push_back(vs[i]);
      if (contains(x)) continue;
      bool ok = true;
      for (auto& f : facets(x)) ok = ok && contains(f);
      if (ok) r.push_back(x);
    }
    return r;
  }
  long euler_characteristic() const {
    long e = 0;
    for (auto& kv : s) e += (kv.first.size() % 2 == 1) ? 1 : -1;
    return e;
  }
  bool operator==(const Complex& o) const { return s == o.s; }
};

// Weighted graph: vertex values and edge values. Clique (flag) complex up to dimension max_dim (max_dim < 0: no limit):
// simplices = cliques with at most max_dim+1 vertices, value = max over its vertices and edges.
struct Graph {
  std::map<Vertex, double> vertices;
  std::map<std::pair<Vertex, Vertex>, double> edges;  // key (a,b) with a < b
  bool has_edge(Vertex a, Vertex b) const { return edges.count(a < b ? std::make_pair(a, b) : std::make_pair(b, a)) != 0; }
  double edge_value(Vertex a, Vertex b) const { return edges.at(a < b ? std::make_pair(a, b) : std::make_pair(b, a)); }
};

inline Complex clique_complex(const Graph& g, int max_dim) {
  Complex c;
  std::vector<Vertex> vs;
  for (auto& kv : g.vertices) vs.push_back(kv.first);
  // grow cliques by adding a larger vertex adjacent to all
  std::vector<Simplex> frontier;
  for (auto v : vs) {
    c.s[{v}] = g.vertices.at(v);
    frontier.push_back({v});
  }
  int dim = 0;
  while (!frontier.empty() && (max_dim < 0 || dim < max_dim)) {
    std::vector<Simplex> next;
    for (auto& x : frontier) {
      for (auto v : vs) {
        if (v <= x.back()) continue;
        bool adj = true;
        for (auto u : x) adj = adj && g.has_edge(u, v);
        if (!adj) continue;
        Simplex y = x;
        y.push_back(v);
        double val = c.s.at(x);
        for (auto u : x) val = std::max(val, g.edge_value(u, v));
        val = std::max(val, g.vertices.at(v));
        c.s[y] = val;
        next.push_back(y);
      }
    }
    frontier.swap(next);
    ++dim;
  }
  return c;
}

}  // namespace ref

#endif  // REF_COMPLEX_H_
