// Reference model of a (partially periodic) cubical grid complex. Written for obviousness, independent of GUDHI.
//
// A grid has n[j] >= 1 unit intervals in direction j. A cell is a product of elementary intervals, stored as a vector of
// "doubled" coordinates c: c[j] = 2a+1 stands for the interval [a, a+1] (non-degenerate), c[j] = 2a for the point {a}
// (degenerate). In a non-periodic direction c[j] ranges over 0 .. 2n[j]; in a periodic direction the points a and a+n[j]
// are identified, c[j] ranges over 0 .. 2n[j]-1 and arithmetic on it is modulo 2n[j].
//
// Everything below is derived geometrically from these coordinates: dimension, faces with incidence numbers, cofaces,
// the top cells containing a cell, the vertices of a cell, and the two lower-star value conventions. The only link to
// the library under test is `index`/`coords`: the documented position of a cell in the bitmap (lexicographic, direction
// 0 varying fastest - "Fortran order").
#ifndef REF_CUBICAL_H_
#define REF_CUBICAL_H_

#include <algorithm>
#include <cstddef>
#include <limits>
#include <map>
#include <stdexcept>
#include <vector>

#include "reduce.h"

namespace ref {

typedef std::vector<int> CCell;  // doubled coordinates

struct Grid {
  std::vector<int> n;      // unit intervals per direction
  std::vector<bool> per;   // periodic directions

  int dim() const { return int(n.size()); }
  int len(int j) const { return per[size_t(j)] ? 2 * n[size_t(j)] : 2 * n[size_t(j)] + 1; }
  size_t num_cells() const {
    size_t r = 1;
    for (int j = 0; j < dim(); ++j) r *= size_t(len(j));
    return r;
  }
  size_t index(const CCell& c) const {
    size_t r = 0, m = 1;
    for (int j = 0; j < dim(); ++j) {
      if (c[size_t(j)] < 0 || c[size_t(j)] >= len(j)) throw std::logic_error("ref::Grid::index: coordinate out of range");
      r += m * size_t(c[size_t(j)]);
      m *= size_t(len(j));
    }
    return r;
  }
  CCell coords(size_t idx) const {
    CCell c(n.size(), 0);
    for (int j = 0; j < dim(); ++j) {
      c[size_t(j)] = int(idx % size_t(len(j)));
      idx /= size_t(len(j));
    }
    return c;
  }
  static int cell_dim(const CCell& c) {
    int d = 0;
    for (int x : c) d += (x % 2 != 0) ? 1 : 0;
    return d;
  }
  // neighbour coordinate x+delta in direction j; false when it leaves a non-periodic grid
  bool step(int j, int x, int delta, int* out) const {
    int y = x + delta;
    if (per[size_t(j)]) {
      int L = len(j);
      y = ((y % L) + L) % L;
    } else if (y < 0 || y >= len(j)) {
      return false;
    }
    *out = y;
    return true;
  }

  // boundary of the cell as a chain: d(I_1 x ... x I_d) = sum_j (-1)^{#non-degenerate I_i, i<j} I_1 x ... x dI_j x ... x I_d
  // with d[a,a+1] = {a+1} - {a}. Returned as (face, +-1) terms in the order j increasing, lower end then upper end; terms
  // are not merged (in a periodic direction with a single interval both ends are the same cell with opposite signs).
  std::vector<std::pair<CCell, int>> boundary_terms(const CCell& c) const {
    std::vector<std::pair<CCell, int>> r;
    int sign = 1;
    for (int j = 0; j < dim(); ++j) {
      if (c[size_t(j)] % 2 == 0) continue;
      int lo = 0, hi = 0;
      if (!step(j, c[size_t(j)], -1, &lo) || !step(j, c[size_t(j)], +1, &hi))
        throw std::logic_error("ref::Grid::boundary_terms: interval at the border");
      CCell f = c;
      f[size_t(j)] = lo;
      r.push_back({f, -sign});
      f[size_t(j)] = hi;
      r.push_back({f, sign});
      sign = -sign;
    }
    return r;
  }
  // the same with equal faces merged: bitmap position of the face -> incidence number (entries may be 0)
  std::map<size_t, int> boundary(const CCell& c) const {
    std::map<size_t, int> m;
    for (auto& t : boundary_terms(c)) m[index(t.first)] += t.second;
    return m;
  }
  // cells having c among their boundary terms, once per term (bitmap positions, sorted)
  std::vector<size_t> coboundary(const CCell& c) const {
    std::vector<size_t> r;
    for (int j = 0; j < dim(); ++j) {
      if (c[size_t(j)] % 2 != 0) continue;
      for (int delta : {-1, +1}) {
        int y = 0;
        if (!step(j, c[size_t(j)], delta, &y)) continue;
        CCell g = c;
        g[size_t(j)] = y;
        r.push_back(index(g));
      }
    }
    std::sort(r.begin(), r.end());
    return r;
  }
  // is the cell c contained in (a face of any codimension of) the top cell T (all coordinates odd)?
  bool contained_in_top(const CCell& c, const CCell& T) const {
    for (int j = 0; j < dim(); ++j) {
      int x = c[size_t(j)], y = T[size_t(j)];
      if (x == y) continue;
      if (x % 2 != 0) return false;  // a different interval
      int lo = 0, hi = 0;
      bool okl = step(j, y, -1, &lo), okh = step(j, y, +1, &hi);
      if (!((okl && lo == x) || (okh && hi == x))) return false;
    }
    return true;
  }
  // all vertices (all coordinates even) of the cell
  std::vector<CCell> vertices_of(const CCell& c) const {
    std::vector<CCell> r(1, c);
    for (int j = 0; j < dim(); ++j) {
      if (c[size_t(j)] % 2 == 0) continue;
      std::vector<CCell> nx;
      for (auto& v : r)
        for (int delta : {-1, +1}) {
          int y = 0;
          if (!step(j, c[size_t(j)], delta, &y)) throw std::logic_error("ref::Grid::vertices_of: interval at the border");
          CCell w = v;
          w[size_t(j)] = y;
          nx.push_back(w);
        }
      r.swap(nx);
    }
    return r;
  }
  // number of top cells / vertices per direction and their "Fortran order" rank (direction 0 fastest)
  int tops(int j) const { return n[size_t(j)]; }
  int verts(int j) const { return per[size_t(j)] ? n[size_t(j)] : n[size_t(j)] + 1; }
  size_t num_tops() const {
    size_t r = 1;
    for (int j = 0; j < dim(); ++j) r *= size_t(tops(j));
    return r;
  }
  size_t num_verts() const {
    size_t r = 1;
    for (int j = 0; j < dim(); ++j) r *= size_t(verts(j));
    return r;
  }
  size_t top_rank(const CCell& T) const {  // T all odd
    size_t r = 0, m = 1;
    for (int j = 0; j < dim(); ++j) {
      r += m * size_t((T[size_t(j)] - 1) / 2);
      m *= size_t(tops(j));
    }
    return r;
  }
  size_t vert_rank(const CCell& v) const {  // v all even
    size_t r = 0, m = 1;
    for (int j = 0; j < dim(); ++j) {
      r += m * size_t(v[size_t(j)] / 2);
      m *= size_t(verts(j));
    }
    return r;
  }

  // value of every cell (indexed by bitmap position) from the values of the top cells: minimum over the top cells
  // containing the cell
  std::vector<double> values_from_tops(const std::vector<double>& top_values) const {
    if (top_values.size() != num_tops()) throw std::logic_error("ref::Grid::values_from_tops: wrong number of values");
    size_t N = num_cells();
    std::vector<CCell> T;
    for (size_t i = 0; i < N; ++i) {
      CCell c = coords(i);
      if (cell_dim(c) == dim()) T.push_back(c);
    }
    std::vector<double> out(N);
    for (size_t i = 0; i < N; ++i) {
      CCell c = coords(i);
      double v = std::numeric_limits<double>::infinity();
      bool any = false;
      for (auto& t : T)
        if (contained_in_top(c, t)) {
          v = std::min(v, top_values[top_rank(t)]);
          any = true;
        }
      if (!any) throw std::logic_error("ref::Grid::values_from_tops: cell in no top cell");
      out[i] = v;
    }
    return out;
  }
  // ... from the values of the vertices: maximum over the vertices of the cell
  std::vector<double> values_from_vertices(const std::vector<double>& vertex_values) const {
    if (vertex_values.size() != num_verts()) throw std::logic_error("ref::Grid::values_from_vertices: wrong number of values");
    size_t N = num_cells();
    std::vector<double> out(N);
    for (size_t i = 0; i < N; ++i) {
      double v = -std::numeric_limits<double>::infinity();
      for (auto& w : vertices_of(coords(i))) v = std::max(v, vertex_values[vert_rank(w)]);
      out[i] = v;
    }
    return out;
  }

  // the filtered cell complex for ref::reduce: cells ordered by (value, dimension, position); order[k] = bitmap position
  // of the k-th cell
  std::vector<Cell> filtered_cells(const std::vector<double>& value, std::vector<size_t>* order) const {
    size_t N = num_cells();
    std::vector<size_t> o(N);
    std::vector<int> dm(N);
    for (size_t i = 0; i < N; ++i) {
      o[i] = i;
      dm[i] = cell_dim(coords(i));
    }
    std::stable_sort(o.begin(), o.end(), [&](size_t a, size_t b) {
      if (value[a] != value[b]) return value[a] < value[b];
      if (dm[a] != dm[b]) return dm[a] < dm[b];
      return a < b;
    });
    std::vector<size_t> pos(N);
    for (size_t k = 0; k < N; ++k) pos[o[k]] = k;
    std::vector<Cell> cells(N);
    for (size_t k = 0; k < N; ++k) {
      cells[k].dim = dm[o[k]];
      for (auto& kv : boundary(coords(o[k])))
        if (kv.second != 0) cells[k].bdry.push_back({int(pos[kv.first]), Z(kv.second)});
    }
    if (order) *order = o;
    return cells;
  }
};

inline long binomial(int n, int k) {
  if (k < 0 || k > n) return 0;
  long r = 1;
  for (int i = 1; i <= k; ++i) r = r * (n - k + i) / i;
  return r;
}

}  // namespace ref

#endif  // REF_CUBICAL_H_
