// Generator of filtered cell complexes for the persistence-matrix properties (C05, C08; usable by C06).
// Independent of GUDHI and of the engine: the tape type is a template parameter (needs below(k), weighted({..}),
// chance(n,d), exhausted()).
//
// A "pool" is a finite graded complex (abstract cells with dimension and integer incidence to other pool cells). The
// generator places pool cells one at a time in a valid filtration order (a cell only after every cell of its boundary),
// the choice among the currently placeable cells comes from the tape; the last placed cell can be un-placed again
// (remove_last) and a different one chosen afterwards. Pools: closure of random simplices, (partially periodic)
// cubical grids, hard-wired torsion families (ref/families.h), small CW complexes with degree-m attaching maps.
// A separate on-the-fly mode ("general") creates cells of explicit dimension whose boundary is a random Z_p-combination
// of cycles of the current complex (so that the boundary of the boundary is zero by construction).
#ifndef REF_CELLGEN_H_
#define REF_CELLGEN_H_

#include <algorithm>
#include <map>
#include <set>
#include <sstream>
#include <string>
#include <vector>

#include "complex.h"
#include "families.h"
#include "reduce.h"

namespace ref {

struct PoolCell {
  int dim;
  std::vector<std::pair<int, Z>> bdry;  // (pool index, integer coefficient); duplicates allowed (they are summed)
  std::string name;
};

struct Pool {
  std::vector<PoolCell> cells;
  std::string what;
};

// closure of a list of simplices, cells sorted by (dimension, lexicographic); facet i gets sign (-1)^i
inline Pool simplicial_pool(const std::vector<Simplex>& maximal, const std::string& what) {
  Complex c;
  for (auto& s : maximal) c.insert_with_faces(s, 0.0);
  std::vector<Simplex> all = c.simplices();
  std::stable_sort(all.begin(), all.end(), [](const Simplex& a, const Simplex& b) {
    if (a.size() != b.size()) return a.size() < b.size();
    return a < b;
  });
  std::map<Simplex, int> idx;
  for (size_t i = 0; i < all.size(); ++i) idx[all[i]] = int(i);
  Pool p;
  p.what = what;
  for (auto& s : all) {
    PoolCell pc;
    pc.dim = int(s.size()) - 1;
    pc.name = to_string(s);
    if (s.size() > 1) {
      auto fs = facets(s);
      for (size_t k = 0; k < fs.size(); ++k) pc.bdry.push_back({idx.at(fs[k]), (k % 2 == 0) ? 1 : -1});
    }
    p.cells.push_back(pc);
  }
  return p;
}

// cubical grid with n[k] intervals along axis k (n[k] == 0: axis absent), optionally periodic along an axis.
// A cell is a coordinate vector with x[k] in [0, 2 n[k]] (periodic: [0, 2 n[k])), odd = interval, even = vertex.
inline Pool cubical_pool(const std::vector<int>& n, const std::vector<bool>& periodic) {
  size_t D = n.size();
  std::vector<int> ext(D);
  for (size_t k = 0; k < D; ++k) ext[k] = n[k] == 0 ? 1 : (periodic[k] ? 2 * n[k] : 2 * n[k] + 1);
  std::vector<std::vector<int>> coords;
  std::vector<int> x(D, 0);
  for (;;) {
    coords.push_back(x);
    size_t k = 0;
    while (k < D && ++x[k] == ext[k]) x[k++] = 0;
    if (k == D) break;
  }
  auto dim_of = [&](const std::vector<int>& c) {
    int d = 0;
    for (int v : c) d += v & 1;
    return d;
  };
  std::stable_sort(coords.begin(), coords.end(), [&](const std::vector<int>& a, const std::vector<int>& b) {
    int da = dim_of(a), db = dim_of(b);
    if (da != db) return da < db;
    return a < b;
  });
  std::map<std::vector<int>, int> idx;
  for (size_t i = 0; i < coords.size(); ++i) idx[coords[i]] = int(i);
  Pool p;
  std::ostringstream w;
  w << "cubical grid";
  for (size_t k = 0; k < D; ++k) w << (k ? "x" : " ") << n[k] << (periodic[k] && n[k] ? "p" : "");
  p.what = w.str();
  for (auto& c : coords) {
    PoolCell pc;
    pc.dim = dim_of(c);
    std::ostringstream nm;
    nm << "(";
    for (size_t k = 0; k < D; ++k) nm << (k ? "," : "") << c[k];
    nm << ")";
    pc.name = nm.str();
    int odd_before = 0;
    for (size_t k = 0; k < D; ++k) {
      if (!(c[k] & 1)) continue;
      Z sgn = (odd_before % 2 == 0) ? 1 : -1;
      std::vector<int> lo = c, hi = c;
      lo[k] = c[k] - 1;
      hi[k] = (c[k] + 1) % (periodic[k] ? ext[k] : ext[k] + 1);
      pc.bdry.push_back({idx.at(hi), sgn});
      pc.bdry.push_back({idx.at(lo), -sgn});
      ++odd_before;
    }
    p.cells.push_back(pc);
  }
  return p;
}

// CW complexes with torsion: a wedge of k "Moore-like" pieces: vertex v, loop e (boundary v - v = 0), disc f attached by
// a degree-m map (boundary m*e); optionally a 3-cell on top of a second disc (lens-space like: df2 = m e, dg = f - f2)
inline Pool cw_torsion_pool(const std::vector<int>& degrees, bool with_lens) {
  Pool p;
  std::ostringstream w;
  w << "CW torsion degrees";
  p.cells.push_back(PoolCell{0, {}, "v"});
  for (size_t k = 0; k < degrees.size(); ++k) {
    w << " " << degrees[k];
    int e = int(p.cells.size());
    p.cells.push_back(PoolCell{1, {{0, 1}, {0, -1}}, "e" + std::to_string(k)});
    int f = int(p.cells.size());
    p.cells.push_back(PoolCell{2, {{e, degrees[k]}}, "f" + std::to_string(k)});
    if (with_lens) {
      int f2 = int(p.cells.size());
      p.cells.push_back(PoolCell{2, {{e, degrees[k]}}, "f'" + std::to_string(k)});
      p.cells.push_back(PoolCell{3, {{f, 1}, {f2, -1}}, "g" + std::to_string(k)});
    }
  }
  if (with_lens) w << " +lens";
  p.what = w.str();
  return p;
}

class CellGen {
 public:
  enum Kind { SIMPLICIAL = 0, CUBICAL = 1, FAMILY = 2, CW = 3, GENERAL = 4 };

  // decodes the kind of complex; p is the field characteristic the cells are produced for (coefficients are reduced
  // mod p, zero coefficients dropped)
  template <class Tape>
  void init(Tape& t, Z p, std::ostream& desc) {
    p_ = p;
    placed_.clear();
    order_.clear();
    kind_ = Kind(t.weighted({8, 3, 2, 2, 4}));
    switch (kind_) {
      case SIMPLICIAL: {
        int nv = 3 + int(t.below(5));  // 3..7 vertices
        int nmax = 1 + int(t.below(6));
        std::vector<Simplex> ms;
        for (int k = 0; k < nmax; ++k) {
          int sz = 1 + int(t.weighted({1, 4, 6, 3}));
          std::vector<Vertex> vs;
          for (int j = 0; j < sz; ++j) vs.push_back(Vertex(t.below(uint32_t(nv))));
          ms.push_back(make_simplex(vs));
        }
        std::ostringstream w;
        w << "simplicial closure of";
        for (auto& s : ms) w << " " << to_string(s);
        pool_ = simplicial_pool(ms, w.str());
        break;
      }
      case CUBICAL: {
        static const int shapes[][3] = {{1, 1, 0}, {2, 1, 0}, {2, 2, 0}, {1, 1, 1}, {3, 1, 0}, {3, 2, 0}, {2, 1, 1}, {4, 0, 0}};
        unsigned s = t.below(8);
        std::vector<int> n = {shapes[s][0], shapes[s][1], shapes[s][2]};
        unsigned per = t.below(4);
        std::vector<bool> periodic = {(per & 1) != 0, (per & 2) != 0, false};
        pool_ = cubical_pool(n, periodic);
        break;
      }
      case FAMILY: {
        switch (t.below(5)) {
          case 0: pool_ = simplicial_pool(rp2_triangles(), "RP2 (6 vertices)"); break;
          case 1: pool_ = simplicial_pool(moore_triangles(2), "simplicial Moore space M(Z_2,1)"); break;
          case 2: pool_ = simplicial_pool(klein_triangles(), "Klein bottle"); break;
          case 3: pool_ = simplicial_pool(torus_triangles(), "7-vertex torus"); break;
          default: pool_ = simplicial_pool(moore_triangles(3), "simplicial Moore space M(Z_3,1)"); break;
        }
        break;
      }
      case CW: {
        static const int degs[] = {2, 3, 5, 6, 4, 7, 13, 15};
        int k = 1 + int(t.below(3));
        std::vector<int> d;
        for (int j = 0; j < k; ++j) d.push_back(degs[t.below(8)]);
        pool_ = cw_torsion_pool(d, t.chance(1, 3));
        break;
      }
      case GENERAL:
        pool_ = Pool();
        pool_.what = "general chain complex (boundaries = random combinations of cycles of the current complex)";
        break;
    }
    desc << "complex: " << pool_.what << " [" << pool_.cells.size() << " pool cells], p=" << p << "\n";
  }

  Kind kind() const { return kind_; }
  bool is_simplicial_like() const { return kind_ == SIMPLICIAL || kind_ == FAMILY; }
  size_t pool_size() const { return pool_.cells.size(); }

  // produce the next cell in terms of positions in cur; false when nothing more can be placed
  template <class Tape>
  bool next(Tape& t, const std::vector<Cell>& cur, Cell& out, std::string& name) {
    if (kind_ == GENERAL) return next_general(t, cur, out, name);
    if (placed_.empty()) placed_.assign(pool_.cells.size(), -1);
    std::vector<int> cands;
    for (size_t i = 0; i < pool_.cells.size(); ++i) {
      if (placed_[i] >= 0) continue;
      bool ok = true;
      for (auto& b : pool_.cells[i].bdry) ok = ok && placed_[size_t(b.first)] >= 0;
      if (ok) cands.push_back(int(i));
    }
    if (cands.empty()) return false;
    int c = cands[t.below(uint32_t(cands.size()))];
    const PoolCell& pc = pool_.cells[size_t(c)];
    std::map<int, Z> acc;
    for (auto& b : pc.bdry) acc[placed_[size_t(b.first)]] += b.second;
    out.dim = pc.dim;
    out.bdry.clear();
    for (auto& kv : acc) {
      Z v = mod_norm(kv.second, p_);
      if (v != 0) out.bdry.push_back({kv.first, v});
    }
    name = pc.name;
    placed_[size_t(c)] = int(cur.size());
    order_.push_back(c);
    return true;
  }

  // the last produced cell was removed from the complex
  void pop() {
    if (kind_ == GENERAL) return;
    if (order_.empty()) return;
    placed_[size_t(order_.back())] = -1;
    order_.pop_back();
  }

 private:
  template <class Tape>
  bool next_general(Tape& t, const std::vector<Cell>& cur, Cell& out, std::string& name) {
    int maxd = -1;
    for (auto& c : cur) maxd = std::max(maxd, c.dim);
    int d = 0;
    if (maxd >= 0) {
      // dimension of the new cell: at most one more than what exists, at most 3
      unsigned w = t.weighted({3, 5, 4, 2});
      d = std::min<int>(int(w), std::min(maxd + 1, 3));
    }
    out.dim = d;
    out.bdry.clear();
    name = "c" + std::to_string(cur.size());
    if (d == 0) return true;
    // basis of the (d-1)-cycles of the current complex: columns of V whose reduced column vanished
    Reduction r = reduce(cur, p_);
    std::vector<int> zs;
    for (size_t j = 0; j < cur.size(); ++j)
      if (cur[j].dim == d - 1 && r.R[j].empty()) zs.push_back(int(j));
    SVec acc;
    if (!zs.empty()) {
      unsigned k = unsigned(t.weighted({1, 5, 5, 2}));  // number of basis cycles combined (0: a cell with zero boundary)
      for (unsigned j = 0; j < k; ++j) {
        int z = zs[t.below(uint32_t(zs.size()))];
        Z coef = p_ == 2 ? 1 : 1 + Z(t.below(uint32_t(p_ - 1)));
        axpy(acc, coef, r.V[size_t(z)], p_);
      }
    }
    for (auto& kv : acc) out.bdry.push_back({kv.first, kv.second});
    return true;
  }

  Kind kind_ = SIMPLICIAL;
  Z p_ = 2;
  Pool pool_;
  std::vector<int> placed_;  // pool index -> position or -1
  std::vector<int> order_;   // positions -> pool index
};

// incremental echelon basis of a span over Z_p (membership tests by reduction against the basis)
class Span {
 public:
  explicit Span(Z p) : p_(p) {}
  // reduces v against the basis; returns the remainder (empty iff v is in the span)
  SVec remainder(SVec v) const {
    while (!v.empty()) {
      int l = low(v);
      auto it = piv_.find(l);
      if (it == piv_.end()) break;
      Z c = mod_norm(-v.at(l) * mod_inv(it->second.at(l), p_), p_);
      axpy(v, c, it->second, p_);
    }
    return v;
  }
  bool contains(const SVec& v) const { return remainder(v).empty(); }
  bool add(const SVec& v) {  // returns true iff the rank grew
    SVec r = remainder(v);
    if (r.empty()) return false;
    piv_[low(r)] = r;
    return true;
  }
  int rank() const { return int(piv_.size()); }

 private:
  Z p_;
  std::map<int, SVec> piv_;
};

// boundary of a chain (sparse vector over positions) in the complex given by cells
inline SVec boundary_of(const SVec& chain, const std::vector<SVec>& B, Z p) {
  SVec out;
  for (auto& kv : chain) axpy(out, kv.second, B[size_t(kv.first)], p);
  return out;
}

}  // namespace ref

#endif  // REF_CELLGEN_H_
