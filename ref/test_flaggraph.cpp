// Self-test of ref/flaggraph.h: the flag complex of the barycentric graph has the homology of the original complex.
#include "flaggraph.h"
#include "families.h"
#include "reduce.h"
#include <cstdio>
using namespace ref;
static int fails = 0;
#define EXPECT(c) do { if (!(c)) { printf("FAIL %s:%d %s\n", __FILE__, __LINE__, #c); ++fails; } } while (0)
static std::map<int, int> betti_flag(const PlainGraph& pg, Z p) {
  Graph g;
  for (int v = 0; v < pg.n; ++v) g.vertices[v] = 0;
  for (auto& e : pg.edges) g.edges[{e.first, e.second}] = 1;
  Complex c = clique_complex(g, -1);
  auto order = filtration_order(c);
  auto cells = simplicial_cells(order);
  Reduction r = reduce(cells, p);
  return betti_at(r, int(cells.size()));
}
int main() {
  PlainGraph rp2 = barycentric_graph(rp2_triangles());
  EXPECT(rp2.n == 31 && rp2.edges.size() == 90);
  for (Z p : {2, 3, 65521}) {
    auto b = betti_flag(rp2, p);
    EXPECT(b[0] == 1 && b[1] == (p == 2 ? 1 : 0) && b[2] == (p == 2 ? 1 : 0) && b[3] == 0);
    b = betti_flag(barycentric_graph(torus_triangles()), p);
    EXPECT(b[0] == 1 && b[1] == 2 && b[2] == 1);
    b = betti_flag(barycentric_graph(moore_triangles(3)), p);
    EXPECT(b[0] == 1 && b[1] == (p == 3 ? 1 : 0) && b[2] == (p == 3 ? 1 : 0));
  }
  printf(fails ? "flaggraph self-test FAILED\n" : "flaggraph self-test ok\n");
  return fails ? 1 : 0;
}
