// Self-test of ref/cubical.h (run by setup.sh): d*d = 0, boundary/coboundary converse, monotone values, Betti numbers of
// T^k x I^(d-k) over several fields.
#include "cubical.h"
#include <cstdio>
using namespace ref;
static int fails = 0;
#define EXPECT(c) do { if (!(c)) { printf("FAIL %s:%d %s\n", __FILE__, __LINE__, #c); ++fails; } } while (0)

static void test_grid(const Grid& g, bool from_vertices) {
  size_t N = g.num_cells();
  // round trip of positions
  for (size_t i = 0; i < N; ++i) EXPECT(g.index(g.coords(i)) == i);
  // d*d = 0, converse
  for (size_t i = 0; i < N; ++i) {
    CCell c = g.coords(i);
    std::map<size_t, long> dd;
    auto b = g.boundary(c);
    int terms = 0;
    for (auto& kv : b) {
      terms += kv.second != 0;
      EXPECT(Grid::cell_dim(g.coords(kv.first)) == Grid::cell_dim(c) - 1);
      for (auto& kw : g.boundary(g.coords(kv.first))) dd[kw.first] += long(kv.second) * kw.second;
      auto cb = g.coboundary(g.coords(kv.first));
      EXPECT(std::count(cb.begin(), cb.end(), i) >= 1);
    }
    for (auto& kv : dd) EXPECT(kv.second == 0);
    for (size_t up : g.coboundary(c)) EXPECT(g.boundary(g.coords(up)).count(i) == 1);
  }
  // values: some pattern with ties
  std::vector<double> in(from_vertices ? g.num_verts() : g.num_tops());
  for (size_t i = 0; i < in.size(); ++i) in[i] = double((i * 7 + 3) % 5);
  std::vector<double> val = from_vertices ? g.values_from_vertices(in) : g.values_from_tops(in);
  for (size_t i = 0; i < N; ++i)
    for (auto& kv : g.boundary(g.coords(i))) EXPECT(val[kv.first] <= val[i]);
  // persistence and Betti numbers
  int k = 0;
  for (int j = 0; j < g.dim(); ++j) k += g.per[size_t(j)] ? 1 : 0;
  for (Z p : {2, 3, 5}) {
    std::vector<size_t> order;
    auto cells = g.filtered_cells(val, &order);
    Reduction r = reduce(cells, p);
    EXPECT(self_check(cells, r));
    auto b = betti_at(r, int(cells.size()));
    for (int i = 0; i <= g.dim(); ++i) EXPECT(b[i] == binomial(k, i));
  }
}

int main() {
  for (int a = 1; a <= 3; ++a) {
    test_grid(Grid{{a}, {false}}, false);
    test_grid(Grid{{a}, {true}}, true);
    for (int b = 1; b <= 3; ++b)
      for (int mask = 0; mask < 4; ++mask) {
        test_grid(Grid{{a, b}, {bool(mask & 1), bool(mask & 2)}}, false);
        test_grid(Grid{{a, b}, {bool(mask & 1), bool(mask & 2)}}, true);
      }
  }
  for (int mask = 0; mask < 8; ++mask) test_grid(Grid{{3, 1, 2}, {bool(mask & 1), bool(mask & 2), bool(mask & 4)}}, mask % 2 == 0);
  test_grid(Grid{{3, 3, 3, 3}, {true, true, false, true}}, false);
  // hand-checked values: 2x1 grid, top cells 5 and 2: the shared edge (coordinates (2,1)) gets 2; vertex convention on the
  // same grid, vertices 0..5: the square [0,1]x[0,1] gets max(0,1,3,4) = 4
  {
    Grid g{{2, 1}, {false, false}};
    auto v = g.values_from_tops({5, 2});
    EXPECT(v[g.index({2, 1})] == 2 && v[g.index({1, 1})] == 5 && v[g.index({0, 0})] == 5 && v[g.index({4, 2})] == 2 && v[g.index({2, 0})] == 2);
    auto w = g.values_from_vertices({0, 1, 2, 3, 4, 5});
    EXPECT(w[g.index({1, 1})] == 4 && w[g.index({3, 1})] == 5 && w[g.index({1, 0})] == 1 && w[g.index({0, 1})] == 3);
    // incidence numbers of the square [0,1]x[0,1]: d = (d I_0) x I_1 - I_0 x (d I_1)
    auto b = g.boundary({1, 1});
    EXPECT(b[g.index({0, 1})] == -1 && b[g.index({2, 1})] == 1 && b[g.index({1, 0})] == 1 && b[g.index({1, 2})] == -1);
  }
  printf(fails ? "ref cubical self-test FAILED\n" : "ref cubical self-test ok\n");
  return fails ? 1 : 0;
}
