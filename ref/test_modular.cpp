// Self-test of ref/modular.h (run by setup.sh).
#include "modular.h"
#include <cstdio>
using namespace ref::modular;
static int fails = 0;
#define EXPECT(c) do { if (!(c)) { printf("FAIL %s:%d %s\n", __FILE__, __LINE__, #c); ++fails; } } while (0)
int main() {
  EXPECT(mod(-7, 5) == 3); EXPECT(mod(-7, 3) == 2); EXPECT(mod(-5, 5) == 0); EXPECT(mod(7, 5) == 2); EXPECT(mod(0, 1) == 0);
  EXPECT(mod(I128(INT64_MIN), 65521) == uint64_t(((INT64_MIN % 65521) + 65521) % 65521));
  EXPECT(!is_prime(0) && !is_prime(1) && is_prime(2) && is_prime(3) && !is_prime(4) && is_prime(65521) && !is_prime(65535));
  EXPECT(is_prime(46337) && !is_prime(46341) && is_prime(46349) && !is_prime(251 * 257));
  auto v = primes_in(5, 13);
  EXPECT(v.size() == 4 && v[0] == 5 && v[3] == 13);
  EXPECT(primes_in(24, 28).empty());
  EXPECT(product_if_fits(v, 32) == 5005); EXPECT(product_if_fits(primes_in(2, 29), 32) == 0);
  EXPECT(product_if_fits(primes_in(2, 23), 32) == 223092870ULL);
  EXPECT(product_if_fits(primes_in(65519, 65521), 32) == 4292870399ULL);
  // every inverse modulo every prime <= 257, brute force
  for (uint32_t q : primes_in(2, 257))
    for (uint32_t a = 1; a < q; ++a) EXPECT(mulmod(a, inv_mod_prime(a, q), q) == 1);
  EXPECT(inv_mod_prime(10, 5) == 0);
  // crt round trip on [5,13]
  for (uint32_t x = 0; x < 5005; ++x) {
    std::vector<uint32_t> r;
    for (uint32_t q : v) r.push_back(x % q);
    EXPECT(crt(v, r) == x);
  }
  EXPECT(crt(v, {3, 0, 0, 0}) == 3003);  // partial inverse of 7 w.r.t. 35 in [5,13] (value of the unit test)
  EXPECT(crt(v, {0, 1, 0, 0}) == 715);   // partial multiplicative identity of 7
  printf(fails ? "modular self-test FAILED\n" : "modular self-test ok\n");
  return fails ? 1 : 0;
}
