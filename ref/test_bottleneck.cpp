// Self-test of ref/bottleneck.h (run by setup.sh): hand-computed examples, metric laws, and comparison with a brute
// force over all partial matchings on small pseudo-random diagrams (fixed LCG, deterministic).
#include "bottleneck.h"

#include <cstdint>
#include <cstdio>
#include <functional>

using namespace ref;
static int fails = 0;
#define EXPECT(c)                                          \
  do {                                                     \
    if (!(c)) {                                            \
      printf("FAIL %s:%d %s\n", __FILE__, __LINE__, #c);   \
      ++fails;                                             \
    }                                                      \
  } while (0)

static const double INF = std::numeric_limits<double>::infinity();

// brute force: every point of A is matched to an unused point of B or to the diagonal; leftover B points go to the diagonal
static double brute(const std::vector<DPoint>& A, const std::vector<DPoint>& B) {
  std::vector<char> used(B.size(), 0);
  double best = INF;
  std::function<void(size_t, double)> go = [&](size_t i, double cur) {
    if (cur >= best) return;  // cannot improve (also prunes cur == best == INF)
    if (i == A.size()) {
      for (size_t j = 0; j < B.size(); ++j)
        if (!used[j]) cur = std::max(cur, bn_detail::diag_cost(B[j]));
      best = std::min(best, cur);
      return;
    }
    go(i + 1, std::max(cur, bn_detail::diag_cost(A[i])));
    for (size_t j = 0; j < B.size(); ++j)
      if (!used[j]) {
        used[j] = 1;
        go(i + 1, std::max(cur, bn_detail::cost(A[i], B[j])));
        used[j] = 0;
      }
  };
  go(0, 0);
  return best;
}

static uint64_t lcg_state = 12345;
static unsigned rnd(unsigned k) {
  lcg_state = lcg_state * 6364136223846793005ULL + 1442695040888963407ULL;
  return unsigned((lcg_state >> 33) % k);
}

int main() {
  typedef std::vector<DPoint> D;
  EXPECT(bottleneck_distance(D{}, D{}) == 0);
  EXPECT(bottleneck_distance(D{{0, 4}}, D{}) == 2);
  EXPECT(bottleneck_distance(D{}, D{{0, 4}}) == 2);
  EXPECT(bottleneck_distance(D{{0, 4}}, D{{0, 5}}) == 1);
  EXPECT(bottleneck_distance(D{{0, 4}, {10, 11}}, D{{0, 5}}) == 1);
  EXPECT(bottleneck_distance(D{{0, 4}, {10, 13}}, D{{0, 5}}) == 1.5);
  EXPECT(bottleneck_distance(D{{1, 3}, {1, 3}}, D{{1, 3}}) == 1);            // multiplicities matter
  EXPECT(bottleneck_distance(D{{0, 10}}, D{{4, 6}}) == 4);                   // matching (4) beats both diagonals (5)
  EXPECT(bottleneck_distance(D{{0, 2}}, D{{10, 12}}) == 1);                  // both to the diagonal
  EXPECT(bottleneck_distance(D{{0, 10}, {2, 12}}, D{{1, 11}, {1.5, 11.5}}) == 1);  // (0,10)-(1,11) and (2,12)-(1.5,11.5)
  EXPECT(bottleneck_distance(D{{0, 10}, {2, 12}}, D{{1, 11}, {3, 13}}) == 1);
  // essential classes: matched among themselves by birth
  EXPECT(bottleneck_distance(D{{0, INF}}, D{{0.5, INF}}) == 0.5);
  EXPECT(bottleneck_distance(D{{0, INF}}, D{}) == INF);
  EXPECT(bottleneck_distance(D{{0, INF}, {1, INF}}, D{{0, INF}}) == INF);
  EXPECT(bottleneck_distance(D{{0, INF}, {3, INF}}, D{{2.5, INF}, {0.25, INF}}) == 0.5);
  // births at minus infinity (log scale of birth 0): matched among themselves by death
  EXPECT(bottleneck_distance(D{{-INF, 1}, {-INF, 5}}, D{{-INF, 4.5}, {-INF, 1.25}}) == 0.5);
  EXPECT(bottleneck_distance(D{{-INF, 1}}, D{{0, 1}}) == INF);
  EXPECT(bottleneck_distance(D{{-INF, 1}}, D{}) == INF);
  EXPECT(bottleneck_distance(D{{-INF, INF}}, D{{-INF, INF}}) == 0);
  EXPECT(bottleneck_distance(D{{-INF, INF}, {-INF, 2}}, D{{-INF, INF}, {-INF, 3}}) == 1);
  EXPECT(bottleneck_distance(D{{-INF, INF}}, D{{-INF, 3}}) == INF);
  // decision version
  EXPECT(bottleneck_at_most(D{{0, 4}}, D{{0, 5}}, 1));
  EXPECT(!bottleneck_at_most(D{{0, 4}}, D{{0, 5}}, 0.999));
  EXPECT(bottleneck_at_most(D{{0, 4}}, D{{0, 5}}, INF));
  EXPECT(!bottleneck_at_most(D{{0, INF}}, D{}, 1e300));
  EXPECT(!bottleneck_at_most(D{}, D{}, -1));
  // zero-length points are free
  EXPECT(bottleneck_distance(D{{3, 3}, {0, 4}}, D{{0, 4}}) == 0);

  // brute-force comparison + metric laws on random small diagrams with ties and infinite coordinates
  auto random_diagram = [&]() {
    D d;
    unsigned n = rnd(5);
    for (unsigned i = 0; i < n; ++i) {
      unsigned kind = rnd(8);
      double b = rnd(8) * 0.5, len = rnd(8) * 0.5;
      if (kind == 0)
        d.push_back({b, INF});
      else if (kind == 1)
        d.push_back({-INF, b});
      else
        d.push_back({b, b + len});
    }
    return d;
  };
  for (int it = 0; it < 4000; ++it) {
    D a = random_diagram(), b = random_diagram(), c = random_diagram();
    double dab = bottleneck_distance(a, b);
    EXPECT(dab == brute(a, b));
    EXPECT(dab == bottleneck_distance(b, a));
    EXPECT(bottleneck_distance(a, a) == 0);
    double dbc = bottleneck_distance(b, c), dac = bottleneck_distance(a, c);
    EXPECT(dac <= dab + dbc + 1e-12);
    if (std::isfinite(dab)) {
      EXPECT(bottleneck_at_most(a, b, dab));
      if (dab > 0) EXPECT(!bottleneck_at_most(a, b, dab - 1e-9));
    }
  }
  printf(fails ? "bottleneck self-test FAILED\n" : "bottleneck self-test ok\n");
  return fails ? 1 : 0;
}
