// Self-test of ref/zigzag.h (run by setup.sh, plain main, exit 0/1).
#include "zigzag.h"
#include <cstdio>
#include <cstdlib>
using namespace ref;
using namespace ref::zz;
static int fails = 0;
#define EXPECT(c) do { if (!(c)) { printf("FAIL %s:%d %s\n", __FILE__, __LINE__, #c); ++fails; } } while (0)

static Bits bits(std::initializer_list<int> on) {
  Bits b;
  for (int i : on) b.flip(size_t(i));
  return b;
}
typedef std::map<std::pair<int, int>, int> Mult;

// histories given the way GUDHI's Zigzag_persistence receives them: cells named by the arrow number of their insertion
struct Keyed {
  History h;
  std::map<int, int> amb_of_key;
  void ins(std::vector<int> bdry_keys, int dim) {
    ZCell c;
    c.dim = dim;
    for (int k : bdry_keys) c.bdry.push_back(amb_of_key.at(k));
    h.ambient.push_back(c);
    amb_of_key[int(h.arrows.size())] = int(h.ambient.size()) - 1;
    h.arrows.push_back(ZArrow{INSERT, int(h.ambient.size()) - 1});
  }
  void rem(int key) { h.arrows.push_back(ZArrow{REMOVE, amb_of_key.at(key)}); }
  void id() { h.arrows.push_back(ZArrow{IDENTITY, -1}); }
};

static uint64_t rng_state = 88172645463325252ULL;
static uint32_t rnd(uint32_t k) {
  rng_state ^= rng_state << 13;
  rng_state ^= rng_state >> 7;
  rng_state ^= rng_state << 17;
  return uint32_t((rng_state >> 11) % k);
}

static History random_history(int nv, int md, int steps, int remove_percent, int identity_percent) {
  History h;
  std::vector<Simplex> sx;
  h.ambient = simplicial_ambient(nv, md, &sx);
  State cur(h.ambient.size(), 0);
  for (int s = 0; s < steps; ++s) {
    std::vector<int> ins, rem;
    for (size_t c = 0; c < cur.size(); ++c) {
      if (!cur[c]) {
        bool ok = true;
        for (int f : h.ambient[c].bdry) ok = ok && cur[size_t(f)];
        if (ok) ins.push_back(int(c));
      } else {
        bool free = true;
        for (size_t o = 0; o < cur.size(); ++o)
          if (cur[o])
            for (int f : h.ambient[o].bdry)
              if (size_t(f) == c) free = false;
        if (free) rem.push_back(int(c));
      }
    }
    if (int(rnd(100)) < identity_percent) {
      h.arrows.push_back(ZArrow{IDENTITY, -1});
    } else if (!rem.empty() && ((ins.empty() && remove_percent > 0) || int(rnd(100)) < remove_percent)) {
      int c = rem[rnd(uint32_t(rem.size()))];
      cur[size_t(c)] = 0;
      h.arrows.push_back(ZArrow{REMOVE, c});
    } else if (ins.empty()) {
      break;
    } else {
      // prefer high-dimensional candidates half of the time
      int c = ins[rnd(uint32_t(ins.size()))];
      if (rnd(2)) c = ins[ins.size() - 1 - rnd(uint32_t(std::min<size_t>(ins.size(), 3)))];
      cur[size_t(c)] = 1;
      h.arrows.push_back(ZArrow{INSERT, c});
    }
  }
  return h;
}

template <class F>
static bool throws_inconsistency(F f) {
  try {
    f();
  } catch (const Inconsistency&) {
    return true;
  }
  return false;
}

int main() {
  // ---- abstract modules with known decompositions
  {
    Module m;  // k -id-> k <-id- k
    m.dim = {1, 1, 1};
    m.arrows = {{0, 1, {bits({0})}}, {2, 1, {bits({0})}}};
    EXPECT((decompose(m) == Mult{{{0, 2}, 1}}));
    m.arrows[1].cols[0] = Bits();  // k -id-> k <-0- k
    EXPECT((decompose(m) == Mult{{{0, 1}, 1}, {{2, 2}, 1}}));
    m.arrows = {{0, 1, {bits({0})}}, {1, 2, {Bits()}}};  // k -id-> k -0-> k
    EXPECT((decompose(m) == Mult{{{0, 1}, 1}, {{2, 2}, 1}}));
    m.arrows = {{1, 0, {Bits()}}, {1, 2, {bits({0})}}};  // k <-0- k -id-> k
    EXPECT((decompose(m) == Mult{{{0, 0}, 1}, {{1, 2}, 1}}));
  }
  {
    Module m;  // k -> k^2 <- k with different images
    m.dim = {1, 2, 1};
    m.arrows = {{0, 1, {bits({0})}}, {2, 1, {bits({0, 1})}}};
    EXPECT((decompose(m) == Mult{{{0, 1}, 1}, {{1, 2}, 1}}));
    m.arrows = {{0, 1, {bits({0, 1})}}, {2, 1, {bits({0, 1})}}};  // same image
    EXPECT((decompose(m) == Mult{{{0, 2}, 1}, {{1, 1}, 1}}));
    m.arrows = {{1, 0, {bits({0}), bits({0})}}, {1, 2, {bits({0}), Bits()}}};  // k <-(1 1)- k^2 -(1 0)-> k
    EXPECT((decompose(m) == Mult{{{0, 1}, 1}, {{1, 2}, 1}}));
    m.arrows = {{1, 0, {bits({0}), Bits()}}, {1, 2, {bits({0}), Bits()}}};  // both kill e1
    EXPECT((decompose(m) == Mult{{{0, 2}, 1}, {{1, 1}, 1}}));
  }
  {
    Module m;  // longer: 0 -> k -> k^2 <- k^2 -> k, a hand-computed example
    // V1 = <a>, V2 = <a,b>, V3 = <a,b>, V4 = <c>; a->a ; V3->V2 identity ; V3 -> V4: a->c, b->c
    m.dim = {0, 1, 2, 2, 1};
    m.arrows = {{0, 1, {}}, {1, 2, {bits({0})}}, {3, 2, {bits({0}), bits({1})}}, {3, 4, {bits({0}), bits({0})}}};
    // classes: a lives 1..4 (maps to c); a+b lives 2..3 (dies into 4, not in image from 1)
    EXPECT((decompose(m) == Mult{{{1, 4}, 1}, {{2, 3}, 1}}));
  }
  // ---- the example in the documentation of Zigzag_persistence
  {
    Keyed k;
    k.ins({}, 0); k.ins({}, 0); k.ins({0, 1}, 1); k.ins({}, 0); k.ins({0, 3}, 1); k.ins({1, 3}, 1); k.rem(4); k.rem(2);
    std::vector<Interval> exp = {{0, 0, -1}, {0, 1, 2}, {0, 3, 4}, {0, 7, -1}, {1, 5, 6}};
    EXPECT(barcode_checked(k.h) == exp);
  }
  // ---- the 29-arrow sequence whose intervals are published in the library's own unit test (general cells by keys)
  {
    Keyed k;
    std::vector<std::vector<int>> b = {{}, {}, {}, {0, 1}, {0, 2}, {}, {1, 2}, {}, {5, 7}, {}, {3, 4, 6}, {7, 9}, {5, 9}, {8, 11, 12},
                                       {10}, {13}, {1, 7}, {3, 4, 6}, {2, 7}, {8, 11, 12}, {0, 7}, {4, 18, 20}, {6, 16, 18},
                                       {3, 16, 20}, {19}, {8}, {12}, {17, 21, 22, 23}, {27}};
    std::set<int> removals = {14, 15, 24, 25, 26, 28};
    for (size_t i = 0; i < b.size(); ++i) {
      if (removals.count(int(i)))
        k.rem(b[i][0]);
      else
        k.ins(b[i], b[i].empty() ? 0 : int(b[i].size()) - 1);
    }
    std::vector<Interval> exp = {{0, 1, 3}, {0, 2, 4}, {0, 7, 8}, {1, 6, 10}, {0, 9, 11}, {1, 12, 13}, {0, 5, 16}, {1, 14, 17},
                                 {1, 15, 19}, {1, 20, 21}, {1, 18, 22}, {1, 24, 25}, {2, 23, 27}, {0, 0, -1}, {0, 26, -1}, {2, 28, -1}};
    std::sort(exp.begin(), exp.end());
    auto got = barcode_checked(k.h);
    EXPECT(got == exp);
    if (!(got == exp)) printf(" got %s\n", to_string(got).c_str());
  }
  // ---- general cells: a cubical sphere (boundary of a cube: 8 vertices, 12 edges, 6 squares) filled by the cube, emptied again
  {
    Keyed k;
    // vertices 0..7 = (x,y,z) bits; keys are arrow numbers
    for (int v = 0; v < 8; ++v) k.ins({}, 0);
    std::map<std::pair<int, int>, int> edge;
    for (int v = 0; v < 8; ++v)
      for (int a = 0; a < 3; ++a)
        if (!(v >> a & 1)) {
          edge[{v, v | (1 << a)}] = int(k.h.arrows.size());
          k.ins({v, v | (1 << a)}, 1);
        }
    // squares: fix one coordinate a to value s, vary the two others b,c
    for (int a = 0; a < 3; ++a)
      for (int s = 0; s < 2; ++s) {
        int b = (a + 1) % 3, c = (a + 2) % 3, o = s << a;
        int v00 = o, v10 = o | (1 << b), v01 = o | (1 << c), v11 = o | (1 << b) | (1 << c);
        k.ins({edge.at({v00, v10}), edge.at({v00, v01}), edge.at({v10, v11}), edge.at({v01, v11})}, 2);
      }
    int first_square = 20, cube = 26;
    k.ins({20, 21, 22, 23, 24, 25}, 3);
    k.rem(cube);
    k.rem(first_square);
    auto bars = barcode_checked(k.h);
    std::vector<Interval> h2, h1_open;
    for (auto& x : bars) {
      if (x.dim == 2) h2.push_back(x);
      if (x.dim == 1 && x.death < 0) h1_open.push_back(x);
    }
    // the sphere closes at arrow 25 (last square), is filled at 26, reappears at 27 and is opened at 28
    EXPECT((h2 == std::vector<Interval>{{2, 25, 26}, {2, 27, 28}}));
    EXPECT(h1_open.empty());
    int h0_open = 0;
    for (auto& x : bars) h0_open += (x.dim == 0 && x.death < 0);
    EXPECT(h0_open == 1);
  }
  // ---- identity arrows only shift indices
  {
    Keyed k;
    k.id(); k.ins({}, 0); k.id(); k.ins({}, 0); k.id(); k.ins({1, 3}, 1); k.id(); k.rem(5); k.id();
    std::vector<Interval> exp = {{0, 1, -1}, {0, 3, 5}, {0, 7, -1}};
    EXPECT(barcode_checked(k.h) == exp);
  }
  // ---- random histories: all internal checks, every prefix with the other homology bases
  int with_dim1 = 0, with_removal_birth = 0;
  for (int it = 0; it < 160; ++it) {
    int nv = 3 + int(rnd(3)), md = 1 + int(rnd(3));
    History h = random_history(nv, md, 6 + int(rnd(20)), 25 + int(rnd(30)), int(rnd(3)) * 8);
    std::vector<Interval> bars;
    try {
      bars = barcode_checked(h);
    } catch (const std::exception& e) {
      printf("FAIL random history %d: %s\n", it, e.what());
      ++fails;
      continue;
    }
    bool d1 = false;
    for (auto& x : bars) {
      d1 = d1 || x.dim >= 1;
      if (h.arrows[size_t(x.birth)].kind == REMOVE && x.dim >= 1) ++with_removal_birth;
    }
    with_dim1 += d1;
    int n = int(h.arrows.size());
    for (int m = 0; m <= n; ++m) {
      History p = prefix(h, m);
      auto pb = barcode_of_sequence(p.ambient, states_of(p), max_dim(p), true);
      if (!(pb == restrict_to_prefix(bars, m))) {
        printf("FAIL prefix %d of random history %d: %s vs %s\n", m, it, to_string(pb).c_str(), to_string(restrict_to_prefix(bars, m)).c_str());
        ++fails;
        break;
      }
    }
  }
  EXPECT(with_dim1 > 40);
  EXPECT(with_removal_birth > 10);
  // ---- insertion-only histories reproduce ref::reduce literally
  for (int it = 0; it < 60; ++it) {
    History h = random_history(3 + int(rnd(3)), 3, 8 + int(rnd(20)), 0, 0);
    std::vector<Cell> cells;
    std::map<int, int> where;
    for (size_t i = 0; i < h.arrows.size(); ++i) {
      Cell c;
      c.dim = h.ambient[size_t(h.arrows[i].cell)].dim;
      for (int f : h.ambient[size_t(h.arrows[i].cell)].bdry) c.bdry.push_back({where.at(f), 1});
      where[h.arrows[i].cell] = int(i);
      cells.push_back(c);
    }
    Reduction r = reduce(cells, 2);
    std::vector<Interval> exp;
    for (auto& p : r.pairs) exp.push_back(Interval{p.dim, p.birth, p.death});
    std::sort(exp.begin(), exp.end());
    EXPECT(barcode(h) == exp);
  }
  // ---- up then down: the barcode is symmetric
  for (int it = 0; it < 30; ++it) {
    History h = random_history(3 + int(rnd(3)), 2, 4 + int(rnd(10)), it % 3 ? 0 : 30, 0);
    int m = int(h.arrows.size());
    for (int i = m - 1; i >= 0; --i) h.arrows.push_back(ZArrow{h.arrows[size_t(i)].kind == INSERT ? REMOVE : INSERT, h.arrows[size_t(i)].cell});
    int n = 2 * m;
    auto bars = barcode_checked(h);
    std::vector<Interval> mir;
    for (auto& x : bars) {
      EXPECT(x.death >= 0);
      int B = x.birth + 1, D = x.death;  // alive in the states B..D-1... (death arrow D: last state alive is S_D)
      // alive in S_B..S_D  <->  S_{n-D}..S_{n-B}
      mir.push_back(Interval{x.dim, n - D - 1, n - B});
    }
    std::sort(mir.begin(), mir.end());
    EXPECT(mir == bars);
  }
  // ---- the consistency checks can fail: perturbed barcodes are rejected
  {
    int rejected_swap = 0, tried_swap = 0;
    for (int it = 0; it < 60; ++it) {
      History h = random_history(4, 2, 18, 40, 5);
      auto bars = barcode(h);
      if (bars.empty()) continue;
      auto p = bars;
      p[0].dim += 1;
      EXPECT(throws_inconsistency([&] { check_consistency(h, p); }));
      p = bars;
      p.pop_back();
      EXPECT(throws_inconsistency([&] { check_consistency(h, p); }));
      // exchange the deaths of two bars of one dimension (keeps every Betti number when both are alive in between)
      for (size_t i = 0; i < bars.size(); ++i)
        for (size_t j = i + 1; j < bars.size(); ++j) {
          auto &x = bars[i], &y = bars[j];
          if (x.dim != y.dim || x.death == y.death || x.birth == y.birth) continue;
          int dx = x.death < 0 ? 1000 : x.death, dy = y.death < 0 ? 1000 : y.death;
          if (std::max(x.birth, y.birth) >= std::min(dx, dy)) continue;
          p = bars;
          std::swap(p[i].death, p[j].death);
          ++tried_swap;
          rejected_swap += throws_inconsistency([&] { check_consistency(h, p); });
        }
    }
    EXPECT(tried_swap > 20);
    EXPECT(rejected_swap == tried_swap);
  }
  // ---- invalid histories are refused
  {
    Keyed k;
    k.ins({}, 0); k.ins({}, 0); k.ins({0, 1}, 1);
    k.h.arrows.push_back(ZArrow{REMOVE, 0});  // vertex with a coface
    bool refused = false;
    try {
      barcode(k.h);
    } catch (const std::invalid_argument&) {
      refused = true;
    }
    EXPECT(refused);
  }
  printf(fails ? "zigzag reference self-test FAILED\n" : "zigzag reference self-test ok\n");
  return fails ? 1 : 0;
}
