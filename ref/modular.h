// Exact modular arithmetic for the oracles (independent of GUDHI, no GMP needed): residues through __int128,
// trial-division primality, prime ranges, CRT helpers. Written for obviousness, not speed.
#ifndef REF_MODULAR_H_
#define REF_MODULAR_H_

#include <cstddef>
#include <cstdint>
#include <vector>

namespace ref {
namespace modular {

typedef __int128 I128;
typedef unsigned __int128 U128;

// residue of x in [0, m), m >= 1
inline uint64_t mod(I128 x, uint64_t m) {
  I128 r = x % I128(m);
  if (r < 0) r += I128(m);
  return uint64_t(r);
}

inline bool is_prime(uint64_t n) {
  if (n < 2) return false;
  for (uint64_t d = 2; d * d <= n; ++d)
    if (n % d == 0) return false;
  return true;
}

// all primes q with lo <= q <= hi (ascending)
inline std::vector<uint32_t> primes_in(uint64_t lo, uint64_t hi) {
  std::vector<uint32_t> v;
  for (uint64_t q = lo; q <= hi; ++q)
    if (is_prime(q)) v.push_back(uint32_t(q));
  return v;
}

inline uint64_t mulmod(uint64_t a, uint64_t b, uint64_t m) { return uint64_t(U128(a) * U128(b) % U128(m)); }

inline uint64_t powmod(uint64_t a, uint64_t e, uint64_t m) {
  uint64_t r = 1 % m;
  a %= m;
  while (e) {
    if (e & 1) r = mulmod(r, a, m);
    a = mulmod(a, a, m);
    e >>= 1;
  }
  return r;
}

// inverse of a modulo the prime q (a not divisible by q), by Fermat; 0 when a == 0 mod q
inline uint64_t inv_mod_prime(uint64_t a, uint64_t q) {
  a %= q;
  if (a == 0) return 0;
  return powmod(a, q - 2, q);
}

// product of the given primes if it is < 2^bits, 0 otherwise (bits <= 64)
inline uint64_t product_if_fits(const std::vector<uint32_t>& primes, unsigned bits) {
  U128 lim = bits >= 64 ? (U128(1) << 64) : (U128(1) << bits);
  U128 p = 1;
  for (uint32_t q : primes) {
    p *= q;
    if (p >= lim) return 0;
  }
  return uint64_t(p);
}

// the unique x in [0, prod primes) with x = res[i] mod primes[i]; product must fit 64 bits. Plain search-free CRT:
// x = sum res[i] * (P/q_i) * ((P/q_i)^{-1} mod q_i)  mod P.
inline uint64_t crt(const std::vector<uint32_t>& primes, const std::vector<uint32_t>& res) {
  uint64_t P = 1;
  for (uint32_t q : primes) P *= q;
  uint64_t x = 0;
  for (std::size_t i = 0; i < primes.size(); ++i) {
    uint64_t q = primes[i], c = P / q;
    uint64_t term = mulmod(mulmod(c, inv_mod_prime(c % q, q), P), res[i] % q, P);
    x = uint64_t((U128(x) + term) % P);
  }
  return x;
}

}  // namespace modular
}  // namespace ref

#endif  // REF_MODULAR_H_
