// Hard-wired complexes with known homology (torsion families) used by generators and by the reference self-test.
#ifndef REF_FAMILIES_H_
#define REF_FAMILIES_H_
#include "complex.h"
namespace ref {
// maximal simplices
inline std::vector<Simplex> rp2_triangles() {  // minimal 6-vertex real projective plane
  return {{1, 2, 4}, {1, 2, 6}, {1, 3, 4}, {1, 3, 5}, {1, 5, 6}, {2, 3, 5}, {2, 3, 6}, {2, 4, 5}, {3, 4, 6}, {4, 5, 6}};
}
inline std::vector<Simplex> torus_triangles() {  // 7-vertex Moebius torus
  std::vector<Simplex> t;
  for (int i = 0; i < 7; ++i) {
    t.push_back(make_simplex({i, (i + 1) % 7, (i + 3) % 7}));
    t.push_back(make_simplex({i, (i + 2) % 7, (i + 3) % 7}));
  }
  return t;
}
inline std::vector<Simplex> klein_triangles() {  // 3x3 grid with one side glued with a flip
  std::vector<Simplex> t;
  auto id = [](int i, int j) {
    i = ((i % 3) + 3) % 3;
    return 3 * i + (((j % 3) + 3) % 3);
  };
  for (int i = 0; i < 3; ++i)
    for (int j = 0; j < 3; ++j) {
      // square (i,j),(i+1,j),(i,j+1),(i+1,j+1); column wrap i=2 -> 0 flips j -> -j
      auto V = [&](int a, int b) { return a == 3 ? id(0, -b) : id(a, b); };
      int a = V(i, j), b = V(i + 1, j), c = V(i, j + 1), d = V(i + 1, j + 1);
      t.push_back(make_simplex({a, b, d}));
      t.push_back(make_simplex({a, c, d}));
    }
  return t;
}
// Simplicial Moore space M(Z_m,1): a disc whose boundary circle wraps m times around a circle with 3*? vertices.
// Construction: circle on vertices 0..2 (triangle boundary a0,a1,a2); a 3m-gon with centre c whose boundary vertices
// are labelled a0,a1,a2 repeated m times; to stay simplicial the polygon is subdivided with an intermediate ring.
inline std::vector<Simplex> moore_triangles(int m) {
  std::vector<Simplex> t;
  int n = 3 * m;           // boundary positions
  int ring0 = 3;           // ring vertices 3 .. 3+n-1
  int centre = 3 + n;
  for (int k = 0; k < n; ++k) {
    int a = k % 3, a2 = (k + 1) % 3;
    int r = ring0 + k, r2 = ring0 + (k + 1) % n;
    t.push_back(make_simplex({a, a2, r}));
    t.push_back(make_simplex({a2, r, r2}));
    t.push_back(make_simplex({r, r2, centre}));
  }
  return t;
}
}  // namespace ref
#endif
