// Reference persistence landscapes, straight from the definition and independent of GUDHI.
//
//   lambda_k(t) = k-th largest (k = 0, 1, ...) of the tent values max(0, min(t - b, d - t)) over the intervals (b, d).
//
// Functions of the "landscape vector space" are represented as closures (level, t) -> value built from diagrams by
// linear combination and absolute value. Integrals (L^1, L^2, sup norms, inner product, plain integral) are exact for
// functions that are linear on every cell [n*h, (n+1)*h] of a lattice of step h: this holds for linear combinations
// of landscapes whose diagrams have end points in 2h*Z (births, deaths, peaks and tent crossings are then all in h*Z).
// |f| is integrated exactly by splitting a cell at the zero crossing.
// All arithmetic is long double; with integer / dyadic inputs every pointwise value is exact.
#ifndef REF_LANDSCAPE_H_
#define REF_LANDSCAPE_H_

#include <algorithm>
#include <cmath>
#include <functional>
#include <memory>
#include <stdexcept>
#include <unordered_map>
#include <utility>
#include <vector>

namespace ref {
namespace landscape {

typedef long double R;
typedef std::vector<std::pair<R, R>> Diagram;  // finite intervals b < d

inline R tent(R b, R d, R t) { return std::max<R>(0, std::min<R>(t - b, d - t)); }

// k-th largest tent value at t (k counted from 0); 0 when k >= number of intervals
inline R lambda(const Diagram& dg, unsigned k, R t) {
  if (k >= dg.size()) return 0;
  std::vector<R> v;
  v.reserve(dg.size());
  for (auto& bd : dg) v.push_back(tent(bd.first, bd.second, t));
  std::sort(v.begin(), v.end(), std::greater<R>());
  return v[k];
}

// number of levels that are not identically zero = largest number of intervals with a common interior point
inline unsigned nonzero_levels(const Diagram& dg) {
  unsigned best = 0;
  for (auto& x : dg) {
    // the maximum overlap is attained just after some birth
    unsigned c = 0;
    for (auto& y : dg)
      if (y.first <= x.first && x.first < y.second) ++c;
    best = std::max(best, c);
  }
  return best;
}

// An element of the vector space spanned by landscapes (possibly after |.|): value(level, t), the number of levels
// that may be non-zero, and a bounded support [lo, hi].
struct Func {
  std::function<R(unsigned, R)> value;
  unsigned levels = 0;
  R lo = 0, hi = 0;
};

inline Func zero() {
  Func f;
  f.value = [](unsigned, R) -> R { return 0; };
  return f;
}
inline Func of_diagram(const Diagram& dg) {
  Func f;
  // same definition as lambda(); the sorted tent values at a dyadic abscissa (multiple of 1/64) are kept in a table
  // owned by this Func, because the checks evaluate the same few hundred points again and again
  auto cache = std::make_shared<std::unordered_map<long long, std::vector<R>>>();
  f.value = [dg, cache](unsigned k, R t) -> R {
    if (k >= dg.size()) return 0;
    R s = t * 64;
    long long key = (long long)(s);
    if (R(key) != s) return lambda(dg, k, t);
    auto it = cache->find(key);
    if (it == cache->end()) {
      std::vector<R> v;
      v.reserve(dg.size());
      for (auto& bd : dg) v.push_back(tent(bd.first, bd.second, t));
      std::sort(v.begin(), v.end(), std::greater<R>());
      it = cache->emplace(key, std::move(v)).first;
    }
    return it->second[k];
  };
  f.levels = unsigned(dg.size());
  if (!dg.empty()) {
    f.lo = dg[0].first;
    f.hi = dg[0].second;
    for (auto& bd : dg) {
      f.lo = std::min(f.lo, bd.first);
      f.hi = std::max(f.hi, bd.second);
    }
  }
  return f;
}
inline Func combine(R ca, const Func& a, R cb, const Func& b) {  // ca*a + cb*b
  Func f;
  auto va = a.value, vb = b.value;
  f.value = [=](unsigned k, R t) { return ca * va(k, t) + cb * vb(k, t); };
  f.levels = std::max(a.levels, b.levels);
  bool ea = a.levels == 0, eb = b.levels == 0;
  f.lo = ea ? b.lo : (eb ? a.lo : std::min(a.lo, b.lo));
  f.hi = ea ? b.hi : (eb ? a.hi : std::max(a.hi, b.hi));
  return f;
}
inline Func scale(R c, const Func& a) { return combine(c, a, 0, zero()); }
inline Func absolute(const Func& a) {
  Func f = a;
  auto va = a.value;
  f.value = [=](unsigned k, R t) { return std::fabs(va(k, t)); };
  return f;
}

// ---- exact integration of functions that are linear on the cells of the lattice h*Z -------------------------------
struct Cells {
  long first, last;  // cells [n*h, (n+1)*h], n = first .. last-1
  R h;
};
inline Cells cells_of(const Func& f, R h) {
  Cells c;
  c.h = h;
  c.first = long(std::floor(f.lo / h)) - 1;
  c.last = long(std::ceil(f.hi / h)) + 1;
  return c;
}
// sum over levels and cells of cell(u, v) * h where u, v are the end values on the cell
template <class CellFn>
R sum_cells(const Func& f, R h, CellFn cell) {
  Cells c = cells_of(f, h);
  R tot = 0;
  for (unsigned k = 0; k < f.levels; ++k)
    for (long n = c.first; n < c.last; ++n) tot += h * cell(f.value(k, n * h), f.value(k, (n + 1) * h));
  return tot;
}
inline R integral(const Func& f, R h) {  // sum_k int f_k
  return sum_cells(f, h, [](R u, R v) { return (u + v) / 2; });
}
inline R integral_level(const Func& f, unsigned k, R h) {
  Cells c = cells_of(f, h);
  R tot = 0;
  for (long n = c.first; n < c.last; ++n) tot += h * (f.value(k, n * h) + f.value(k, (n + 1) * h)) / 2;
  return tot;
}
inline R integral_abs(const Func& f, R h) {  // sum_k int |f_k|
  return sum_cells(f, h, [](R u, R v) -> R {
    if ((u >= 0 && v >= 0) || (u <= 0 && v <= 0)) return (std::fabs(u) + std::fabs(v)) / 2;
    return (u * u + v * v) / (2 * (std::fabs(u) + std::fabs(v)));
  });
}
inline R integral_square(const Func& f, R h) {  // sum_k int f_k^2
  return sum_cells(f, h, [](R u, R v) { return (u * u + u * v + v * v) / 3; });
}
inline R sup_abs(const Func& f, R h) {  // sup_k sup_t |f_k(t)|, attained at a lattice point
  Cells c = cells_of(f, h);
  R m = 0;
  for (unsigned k = 0; k < f.levels; ++k)
    for (long n = c.first; n <= c.last; ++n) m = std::max(m, std::fabs(f.value(k, n * h)));
  return m;
}
inline R inner_product(const Func& f, const Func& g, R h) {  // sum_k int f_k g_k
  Func s = combine(1, f, 1, g);  // only for the common support / level count
  Cells c = cells_of(s, h);
  R tot = 0;
  for (unsigned k = 0; k < std::min(f.levels, g.levels); ++k)
    for (long n = c.first; n < c.last; ++n) {
      R u1 = f.value(k, n * h), v1 = f.value(k, (n + 1) * h), u2 = g.value(k, n * h), v2 = g.value(k, (n + 1) * h);
      tot += h * (2 * u1 * u2 + u1 * v2 + v1 * u2 + 2 * v1 * v2) / 6;
    }
  return tot;
}
// L^p distance for p = 1, 2; sup distance for p = infinity (pass p = 0)
inline R distance(const Func& f, const Func& g, int p, R h) {
  Func d = combine(1, f, -1, g);
  if (p == 1) return integral_abs(d, h);
  if (p == 2) return std::sqrt(integral_square(d, h));
  return sup_abs(d, h);
}

// true when f is linear on every cell of h*Z (checked at the midpoints and quarter points of every cell): the
// precondition of the integration routines above, to be asserted by the caller
inline bool linear_on_cells(const Func& f, R h) {
  Cells c = cells_of(f, h);
  for (unsigned k = 0; k < f.levels; ++k)
    for (long n = c.first; n < c.last; ++n) {
      R u = f.value(k, n * h), v = f.value(k, (n + 1) * h);
      for (R s : {R(0.25), R(0.5), R(0.75)}) {
        R w = f.value(k, (n + s) * h);
        if (std::fabs(w - (u + s * (v - u))) > 1e-15L * (1 + std::fabs(u) + std::fabs(v))) return false;
      }
    }
  return true;
}

}  // namespace landscape
}  // namespace ref

#endif  // REF_LANDSCAPE_H_
