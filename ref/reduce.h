// Reference persistence: standard left-to-right column reduction of a boundary matrix over Z_p, plus small dense
// linear algebra over Z_p (rank, span membership). Written for obviousness, independent of GUDHI.
#ifndef REF_REDUCE_H_
#define REF_REDUCE_H_

#include <algorithm>
#include <cstdint>
#include <map>
#include <set>
#include <limits>
#include <stdexcept>
#include <tuple>
#include <vector>

#include "complex.h"

namespace ref {

typedef long long Z;

inline Z mod_norm(Z x, Z p) {
  Z r = x % p;
  return r < 0 ? r + p : r;
}
inline Z mod_inv(Z a, Z p) {  // extended Euclid, a != 0 mod p, p prime
  Z t = 0, nt = 1, r = p, nr = mod_norm(a, p);
  while (nr != 0) {
    Z q = r / nr;
    Z tmp = t - q * nt;
    t = nt;
    nt = tmp;
    tmp = r - q * nr;
    r = nr;
    nr = tmp;
  }
  if (r != 1) throw std::logic_error("ref::mod_inv: not invertible");
  return mod_norm(t, p);
}

// sparse vector over Z_p: index -> non-zero residue in [1,p)
using SVec = std::map<int, Z>;

inline void axpy(SVec& y, Z a, const SVec& x, Z p) {  // y += a*x
  a = mod_norm(a, p);
  if (a == 0) return;
  for (auto& kv : x) {
    Z v = mod_norm(y.count(kv.first) ? y[kv.first] : 0, p);
    v = mod_norm(v + a * kv.second, p);
    if (v == 0)
      y.erase(kv.first);
    else
      y[kv.first] = v;
  }
}
inline int low(const SVec& v) { return v.empty() ? -1 : v.rbegin()->first; }

// A filtered cell complex: cell i has a dimension and a boundary given as (index of an earlier cell, integer coefficient)
struct Cell {
  int dim;
  std::vector<std::pair<int, Z>> bdry;
};

struct Pair {
  int dim, birth, death;  // death == -1: essential
  bool operator<(const Pair& o) const {
    return std::tie(dim, birth, death) < std::tie(o.dim, o.birth, o.death);
  }
  bool operator==(const Pair& o) const { return dim == o.dim && birth == o.birth && death == o.death; }
};

struct Reduction {
  Z p;
  std::vector<SVec> B, R, V;      // R = B * V, V upper triangular with unit diagonal
  std::vector<int> partner;       // partner[i]: index paired with i, or -1
  std::vector<Pair> pairs;        // sorted
  int max_chain = 0;              // longest sequence of additions needed for one column
  bool chained2 = false;          // some column needed >= 2 additions
};

inline Reduction reduce(const std::vector<Cell>& cells, Z p) {
  Reduction r;
  r.p = p;
  int n = int(cells.size());
  r.B.resize(n);
  r.R.resize(n);
  r.V.resize(n);
  r.partner.assign(n, -1);
  std::map<int, int> pivot_col;  // low -> column
  for (int j = 0; j < n; ++j) {
    for (auto& fc : cells[j].bdry) {
      if (fc.first < 0 || fc.first >= j) throw std::logic_error("ref::reduce: boundary refers to a later cell");
      SVec one;
      one[fc.first] = 1;
      axpy(r.B[j], fc.second, one, p);
    }
    r.R[j] = r.B[j];
    r.V[j][j] = 1;
    int adds = 0;
    while (!r.R[j].empty()) {
      int l = low(r.R[j]);
      auto it = pivot_col.find(l);
      if (it == pivot_col.end()) break;
      int k = it->second;
      Z c = mod_norm(-r.R[j][l] * mod_inv(r.R[k][l], p), p);
      axpy(r.R[j], c, r.R[k], p);
      axpy(r.V[j], c, r.V[k], p);
      ++adds;
    }
    r.max_chain = std::max(r.max_chain, adds);
    if (adds >= 2) r.chained2 = true;
    if (!r.R[j].empty()) {
      int l = low(r.R[j]);
      pivot_col[l] = j;
      r.partner[j] = l;
      r.partner[l] = j;
    }
  }
  for (int j = 0; j < n; ++j) {
    if (r.R[j].empty()) {
      r.pairs.push_back(Pair{cells[j].dim, j, r.partner[j]});
    }
  }
  std::sort(r.pairs.begin(), r.pairs.end());
  return r;
}

// self-check of a reduction: R = B*V recomputed densely, distinct pivots, d*d = 0 on the input
inline bool self_check(const std::vector<Cell>& cells, const Reduction& r) {
  int n = int(cells.size());
  Z p = r.p;
  std::set<int> lows;
  for (int j = 0; j < n; ++j) {
    SVec acc;
    for (auto& kv : r.V[j]) axpy(acc, kv.second, r.B[kv.first], p);
    if (acc != r.R[j]) return false;
    if (!r.R[j].empty() && !lows.insert(low(r.R[j])).second) return false;
    SVec dd;
    for (auto& kv : r.B[j]) axpy(dd, kv.second, r.B[kv.first], p);
    if (!dd.empty()) return false;
  }
  return true;
}

// Betti numbers of the sub-complex made of the first m cells (dimension -> count), from the pairs
inline std::map<int, int> betti_at(const Reduction& r, int m) {
  std::map<int, int> b;
  for (auto& pr : r.pairs)
    if (pr.birth < m && (pr.death == -1 || pr.death >= m)) ++b[pr.dim];
  return b;
}

// ------------------------------------------------------------------------------------------------ dense helpers
// rank of a family of sparse vectors over Z_p
inline int rank_of(std::vector<SVec> vs, Z p) {
  std::map<int, SVec> piv;  // low -> reduced vector
  int rk = 0;
  for (auto& v : vs) {
    SVec x = v;
    while (!x.empty()) {
      int l = low(x);
      auto it = piv.find(l);
      if (it == piv.end()) break;
      Z c = mod_norm(-x[l] * mod_inv(it->second.at(l), p), p);
      axpy(x, c, it->second, p);
    }
    if (!x.empty()) {
      piv[low(x)] = x;
      ++rk;
    }
  }
  return rk;
}
inline bool in_span(const SVec& v, const std::vector<SVec>& basis, Z p) {
  std::vector<SVec> a = basis;
  int r0 = rank_of(a, p);
  a.push_back(v);
  return rank_of(a, p) == r0;
}

// ------------------------------------------------------------------------------------------------ simplicial input
// cells of a filtered simplicial complex given as an ordered list of simplices (faces before cofaces); boundary
// coefficient of the facet omitting the i-th vertex (ascending order) is (-1)^i.
inline std::vector<Cell> simplicial_cells(const std::vector<Simplex>& order) {
  std::map<Simplex, int> idx;
  std::vector<Cell> cells;
  for (size_t i = 0; i < order.size(); ++i) {
    Cell c;
    c.dim = int(order[i].size()) - 1;
    if (order[i].size() > 1) {
      auto fs = facets(order[i]);
      for (size_t k = 0; k < fs.size(); ++k) {
        auto it = idx.find(fs[k]);
        if (it == idx.end()) throw std::logic_error("ref::simplicial_cells: face missing or later");
        c.bdry.push_back({it->second, (k % 2 == 0) ? 1 : -1});
      }
    }
    cells.push_back(c);
    idx[order[i]] = int(i);
  }
  return cells;
}

// a valid filtration order of a filtered complex: by (value, dimension, lexicographic)
inline std::vector<Simplex> filtration_order(const Complex& c) {
  std::vector<Simplex> o = c.simplices();
  std::stable_sort(o.begin(), o.end(), [&](const Simplex& a, const Simplex& b) {
    double va = c.value(a), vb = c.value(b);
    if (va != vb) return va < vb;
    if (a.size() != b.size()) return a.size() < b.size();
    return a < b;
  });
  return o;
}

// persistence diagram as multiset of (dim, birth value, death value) with +inf for essential classes,
// zero-length intervals dropped
struct Bar {
  int dim;
  double b, d;
  bool operator<(const Bar& o) const { return std::tie(dim, b, d) < std::tie(o.dim, o.b, o.d); }
  bool operator==(const Bar& o) const { return dim == o.dim && b == o.b && d == o.d; }
};
inline std::vector<Bar> diagram(const Complex& c, Z p, bool drop_zero_length = true) {
  auto order = filtration_order(c);
  auto cells = simplicial_cells(order);
  Reduction r = reduce(cells, p);
  std::vector<Bar> out;
  for (auto& pr : r.pairs) {
    double b = c.value(order[size_t(pr.birth)]);
    double d = pr.death < 0 ? std::numeric_limits<double>::infinity() : c.value(order[size_t(pr.death)]);
    if (drop_zero_length && b == d) continue;
    out.push_back(Bar{pr.dim, b, d});
  }
  std::sort(out.begin(), out.end());
  return out;
}

}  // namespace ref

#endif  // REF_REDUCE_H_
