// Reference zigzag persistence over Z_2, straight from the definition. Written for obviousness, independent of GUDHI.
//
//   * a History is a sequence of arrows (insert one cell / remove one cell / identity) inside a fixed ambient cell
//     complex; state S_0 is the empty complex, S_{i+1} the complex after arrow i (arrows are numbered from 0);
//   * for every dimension k the zigzag module V_i = H_k(S_i; Z_2) with the maps induced by the inclusions between
//     consecutive states is built explicitly (bases of H_k, matrices of the induced maps);
//   * the multiplicity of the interval [b,d] in the decomposition of a zigzag module is obtained from generalised
//     ranks r(b,d) = rank( lim V|[b,d] -> colim V|[b,d] ) by inclusion-exclusion:
//         m[b,d] = r(b,d) - r(b-1,d) - r(b,d+1) + r(b-1,d+1);
//   * a class alive exactly in the states S_B .. S_D is reported as (k, birth = B-1, death = D) in arrow numbers (the
//     arrow that creates it, the arrow that destroys it), death = -1 when it is still alive in the last state.
//
// The oracle checks itself on every use (check_consistency): Betti numbers by an independent rank computation, the
// restriction of the barcode to every monotone run of arrows against ordinary persistence computed by ref::reduce
// (in particular an insertion-only history must reproduce ref::reduce), non-negative multiplicities, and a second
// evaluation on the reversed sequence with a different choice of homology bases (the result must be the mirror image).
// Any contradiction is thrown as ref::zz::Inconsistency - it blames this file, never the library under test.
#ifndef REF_ZIGZAG_H_
#define REF_ZIGZAG_H_

#include <algorithm>
#include <cstdint>
#include <map>
#include <sstream>
#include <stdexcept>
#include <string>
#include <tuple>
#include <utility>
#include <vector>

#include "reduce.h"

namespace ref {
namespace zz {

struct Inconsistency : std::logic_error {
  explicit Inconsistency(const std::string& m) : std::logic_error("ref::zz inconsistency: " + m) {}
};
#define REF_ZZ_REQUIRE(cond, stream_expr)           \
  do {                                              \
    if (!(cond)) {                                  \
      std::ostringstream ref_zz_os_;                \
      ref_zz_os_ << stream_expr;                    \
      throw ::ref::zz::Inconsistency(ref_zz_os_.str()); \
    }                                               \
  } while (0)

// The inner loops below are the reference code's own arithmetic, not the code under test: when a harness is built with
// sanitizers they may be left uninstrumented (define REF_ZZ_UNSANITIZED_KERNELS; ~10x faster). The self-test
// (ref/test_zigzag.cpp) runs them fully instrumented.
#if defined(REF_ZZ_UNSANITIZED_KERNELS) && defined(__clang__)
#define REF_ZZ_KERNEL __attribute__((no_sanitize("address", "undefined")))
#else
#define REF_ZZ_KERNEL
#endif

// ------------------------------------------------------------------------------------------------- Z_2 linear algebra
// vector over Z_2 with at most kMaxCoordinates coordinates (bit i = coordinate i); fixed storage, no allocation
class Bits {
 public:
  static const size_t kWords = 8, kMaxCoordinates = 64 * kWords;
  REF_ZZ_KERNEL Bits() {
    for (size_t i = 0; i < kWords; ++i) w_[i] = 0;
  }
  REF_ZZ_KERNEL bool get(size_t i) const { return i < kMaxCoordinates && ((w_[i / 64] >> (i % 64)) & 1) != 0; }
  REF_ZZ_KERNEL void flip(size_t i) {
    if (i >= kMaxCoordinates) throw std::length_error("ref::zz::Bits: more than 512 coordinates (history too large for the oracle)");
    w_[i / 64] ^= uint64_t(1) << (i % 64);
  }
  REF_ZZ_KERNEL Bits& operator^=(const Bits& o) {
    for (size_t i = 0; i < kWords; ++i) w_[i] ^= o.w_[i];
    return *this;
  }
  REF_ZZ_KERNEL int top() const {  // highest set coordinate, -1 for the zero vector
    for (size_t i = kWords; i-- > 0;)
      if (w_[i] != 0) return int(i * 64 + 63 - size_t(__builtin_clzll(w_[i])));
    return -1;
  }
  REF_ZZ_KERNEL bool zero() const { return top() < 0; }

 private:
  uint64_t w_[kWords];
};

// family of independent vectors with pairwise distinct top coordinates; a vector may carry a tag >= 0
struct Echelon {
  struct Item {
    Bits v;
    int tag;
  };
  std::vector<Item> items;
  int16_t item_with_top[Bits::kMaxCoordinates];  // top coordinate -> index into items, -1 when none
  Echelon() { clear(); }
  void clear() {
    items.clear();
    for (size_t i = 0; i < Bits::kMaxCoordinates; ++i) item_with_top[i] = -1;
  }
  // remainder of v modulo the span; the tags of the tagged members used are toggled in *tags
  REF_ZZ_KERNEL Bits reduce(Bits v, Bits* tags = nullptr) const {
    for (int t = v.top(); t >= 0; t = v.top()) {
      int k = item_with_top[size_t(t)];
      if (k < 0) break;
      v ^= items[size_t(k)].v;
      if (tags && items[size_t(k)].tag >= 0) tags->flip(size_t(items[size_t(k)].tag));
    }
    return v;
  }
  // inserts the remainder of v when it is non-zero; returns whether the rank grew. *stored receives the inserted vector.
  REF_ZZ_KERNEL bool add(const Bits& v, int tag, Bits* stored = nullptr) {
    Bits r = reduce(v);
    if (r.zero()) return false;
    item_with_top[size_t(r.top())] = int16_t(items.size());
    items.push_back(Item{r, tag});
    if (stored) *stored = r;
    return true;
  }
  int rank() const { return int(items.size()); }
};

inline int rank_of_bits(const std::vector<Bits>& vs) {
  Echelon e;
  for (auto& v : vs) e.add(v, -1);
  return e.rank();
}

// Gaussian elimination on the columns of a matrix, remembering which columns were combined
struct KernelWork {
  struct Row {
    Bits img, combo;  // img = sum of the columns selected by combo
  };
  std::vector<Row> rows;
  int16_t row_with_top[Bits::kMaxCoordinates];
};
// all x (over the column indices) with sum_j x_j * cols[j] = 0 : a basis of the kernel of the matrix with these columns
REF_ZZ_KERNEL inline void kernel_of_columns(const std::vector<Bits>& cols, std::vector<Bits>* ker, KernelWork* w) {
  w->rows.clear();
  for (size_t i = 0; i < Bits::kMaxCoordinates; ++i) w->row_with_top[i] = -1;
  ker->clear();
  for (size_t j = 0; j < cols.size(); ++j) {
    KernelWork::Row r;
    r.img = cols[j];
    r.combo.flip(j);
    for (int t = r.img.top(); t >= 0; t = r.img.top()) {
      int k = w->row_with_top[size_t(t)];
      if (k < 0) break;
      r.img ^= w->rows[size_t(k)].img;
      r.combo ^= w->rows[size_t(k)].combo;
    }
    if (r.img.zero()) {
      ker->push_back(r.combo);
    } else {
      w->row_with_top[size_t(r.img.top())] = int16_t(w->rows.size());
      w->rows.push_back(r);
    }
  }
}
inline std::vector<Bits> kernel_of_columns(const std::vector<Bits>& cols) {
  std::vector<Bits> ker;
  KernelWork w;
  kernel_of_columns(cols, &ker, &w);
  return ker;
}

// ------------------------------------------------------------------------------------------------- zigzag modules
// V_0 <-> V_1 <-> ... <-> V_n over Z_2. Arrow i joins V_i and V_{i+1} in the direction src -> dst;
// cols[l] = coordinates in V_dst of the image of the l-th basis vector of V_src.
struct Module {
  struct Arrow {
    int src, dst;
    std::vector<Bits> cols;
  };
  std::vector<int> dim;
  std::vector<Arrow> arrows;
};

// buffers reused by the many generalised-rank evaluations of one decomposition (contents never carry over)
struct RankWork {
  std::vector<int> off;
  std::vector<Bits> relations, unknown_cols, lim;
  KernelWork kernel;
  Echelon span;
};

// rank of the canonical map lim -> colim of the restriction of M to the indices b..d
REF_ZZ_KERNEL inline int generalised_rank(const Module& M, int b, int d, RankWork* w) {
  int n = int(M.dim.size());
  if (b < 0 || d >= n || b > d) return 0;
  // the map factors through every V_i, b <= i <= d
  for (int i = b; i <= d; ++i)
    if (M.dim[size_t(i)] == 0) return 0;
  std::vector<int>& off = w->off;  // position of V_i inside the direct sum V_b + ... + V_d
  off.assign(size_t(n) + 1, 0);
  for (int i = b; i <= d; ++i) off[size_t(i) + 1] = off[size_t(i)] + M.dim[size_t(i)];
  int total = off[size_t(d) + 1];
  // colimit = direct sum modulo the relations  e_{src,l} ~ f(e_{src,l})
  std::vector<Bits>& relations = w->relations;
  relations.clear();
  // limit = compatible families (x_b..x_d): for every arrow src->dst and every coordinate q of V_dst
  //   sum_l cols[l][q] * x_{src,l} + x_{dst,q} = 0.   The system is stored by columns (one per unknown).
  std::vector<Bits>& unknown_cols = w->unknown_cols;
  unknown_cols.assign(size_t(total), Bits());
  size_t n_constraints = 0;
  for (int i = b; i < d; ++i) {
    const Module::Arrow& a = M.arrows[size_t(i)];
    int ds = M.dim[size_t(a.src)], dt = M.dim[size_t(a.dst)];
    REF_ZZ_REQUIRE(int(a.cols.size()) == ds, "arrow " << i << " has " << a.cols.size() << " columns, dim src " << ds);
    for (int l = 0; l < ds; ++l) {
      Bits rel;
      rel.flip(size_t(off[size_t(a.src)] + l));
      for (int q = 0; q < dt; ++q)
        if (a.cols[size_t(l)].get(size_t(q))) {
          rel.flip(size_t(off[size_t(a.dst)] + q));
          unknown_cols[size_t(off[size_t(a.src)] + l)].flip(n_constraints + size_t(q));
        }
      REF_ZZ_REQUIRE(a.cols[size_t(l)].top() < dt, "arrow " << i << " maps outside its target");
      relations.push_back(rel);
    }
    for (int q = 0; q < dt; ++q) unknown_cols[size_t(off[size_t(a.dst)] + q)].flip(n_constraints + size_t(q));
    n_constraints += size_t(dt);
  }
  kernel_of_columns(unknown_cols, &w->lim, &w->kernel);
  // image of a compatible family in the colimit = class of its component in V_b (any component gives the same class);
  // rank of the map = rank(relations + images) - rank(relations)
  Echelon& span = w->span;
  span.clear();
  for (auto& r : relations) span.add(r, -1);
  int r0 = span.rank();
  for (auto& x : w->lim) {
    Bits comp;
    for (int l = 0; l < M.dim[size_t(b)]; ++l)
      if (x.get(size_t(off[size_t(b)] + l))) comp.flip(size_t(off[size_t(b)] + l));
    span.add(comp, -1);
  }
  return span.rank() - r0;
}
inline int generalised_rank(const Module& M, int b, int d) {
  RankWork w;
  return generalised_rank(M, b, d, &w);
}

// multiplicities of the intervals [b,d] (closed, in module indices) in the decomposition of M
inline std::map<std::pair<int, int>, int> decompose(const Module& M) {
  int n = int(M.dim.size());
  REF_ZZ_REQUIRE(int(M.arrows.size()) + 1 == n || (n == 0 && M.arrows.empty()), "module has " << n << " spaces and "
                                                                                             << M.arrows.size() << " arrows");
  std::map<std::pair<int, int>, int> r;
  RankWork work;
  for (int b = 0; b < n; ++b)
    for (int d = b; d < n; ++d) r[{b, d}] = generalised_rank(M, b, d, &work);
  auto R = [&](int b, int d) {
    auto it = r.find({b, d});
    return it == r.end() ? 0 : it->second;
  };
  std::map<std::pair<int, int>, int> mult;
  for (int b = 0; b < n; ++b)
    for (int d = b; d < n; ++d) {
      int m = R(b, d) - R(b - 1, d) - R(b, d + 1) + R(b - 1, d + 1);
      REF_ZZ_REQUIRE(m >= 0, "negative multiplicity " << m << " for [" << b << "," << d << "]");
      if (m > 0) mult[{b, d}] = m;
    }
  // the intervals covering index i must be as many as dim V_i
  for (int i = 0; i < n; ++i) {
    int c = 0;
    for (auto& kv : mult)
      if (kv.first.first <= i && i <= kv.first.second) c += kv.second;
    REF_ZZ_REQUIRE(c == M.dim[size_t(i)], "intervals over index " << i << ": " << c << ", dimension " << M.dim[size_t(i)]);
  }
  return mult;
}

// ------------------------------------------------------------------------------------------------- histories
struct ZCell {
  int dim;
  std::vector<int> bdry;  // ambient ids of the cells with non-zero (Z_2) coefficient in the boundary
};
enum Kind { INSERT = 0, REMOVE = 1, IDENTITY = 2 };
struct ZArrow {
  Kind kind;
  int cell;  // ambient id (unused for IDENTITY)
};
struct History {
  std::vector<ZCell> ambient;   // the fixed ambient cell complex; a cell may enter and leave several times
  std::vector<ZArrow> arrows;
};
struct Interval {
  int dim, birth, death;  // arrow numbers; death == -1: still alive after the last arrow
  bool operator<(const Interval& o) const { return std::tie(dim, birth, death) < std::tie(o.dim, o.birth, o.death); }
  bool operator==(const Interval& o) const { return dim == o.dim && birth == o.birth && death == o.death; }
};
inline std::string to_string(const std::vector<Interval>& v) {
  std::ostringstream o;
  for (auto& x : v) {
    o << "(" << x.dim << "," << x.birth << ",";
    if (x.death < 0)
      o << "inf";
    else
      o << x.death;
    o << ") ";
  }
  return o.str();
}

using State = std::vector<char>;  // presence flag per ambient cell

// S_0 = empty, S_{i+1} = complex after arrow i. Throws std::invalid_argument when some state is not a complex.
inline std::vector<State> states_of(const History& h) {
  size_t N = h.ambient.size();
  for (size_t c = 0; c < N; ++c) {
    Bits dd;
    for (int f : h.ambient[c].bdry) {
      if (f < 0 || size_t(f) >= N || h.ambient[size_t(f)].dim != h.ambient[c].dim - 1)
        throw std::invalid_argument("ref::zz: boundary of an ambient cell is not made of cells one dimension lower");
      for (int g : h.ambient[size_t(f)].bdry) dd.flip(size_t(g));
    }
    if (!dd.zero()) throw std::invalid_argument("ref::zz: boundary of boundary is not zero");
  }
  std::vector<State> s;
  State cur(N, 0);
  s.push_back(cur);
  for (auto& a : h.arrows) {
    if (a.kind != IDENTITY) {
      if (a.cell < 0 || size_t(a.cell) >= N) throw std::invalid_argument("ref::zz: unknown cell");
      size_t c = size_t(a.cell);
      if (a.kind == INSERT) {
        if (cur[c]) throw std::invalid_argument("ref::zz: insertion of a present cell");
        for (int f : h.ambient[c].bdry)
          if (!cur[size_t(f)]) throw std::invalid_argument("ref::zz: insertion before the boundary");
        cur[c] = 1;
      } else {
        if (!cur[c]) throw std::invalid_argument("ref::zz: removal of an absent cell");
        for (size_t o = 0; o < N; ++o)
          if (cur[o])
            for (int f : h.ambient[o].bdry)
              if (size_t(f) == c) throw std::invalid_argument("ref::zz: removal of a cell that has a coface");
        cur[c] = 0;
      }
    }
    s.push_back(cur);
  }
  return s;
}

// The module H_k of a sequence of sub-complexes of the ambient complex in which consecutive members are nested (one way
// or the other). `mirror_labels` selects another numbering of the ambient cells, hence other homology bases.
inline Module homology_module(const std::vector<ZCell>& ambient, const std::vector<State>& seq, int k, bool mirror_labels) {
  size_t N = ambient.size();
  auto pos = [&](int c) { return mirror_labels ? N - 1 - size_t(c) : size_t(c); };
  auto boundary = [&](size_t c) {
    Bits b;
    for (int f : ambient[c].bdry) b.flip(pos(f));
    return b;
  };
  Module M;
  std::vector<Echelon> ech(seq.size());
  std::vector<std::vector<Bits>> basis(seq.size());  // basis[i][l] : cycle representing the l-th basis class of H_k(seq[i])
  for (size_t i = 0; i < seq.size(); ++i) {
    Echelon& e = ech[i];
    for (size_t c = 0; c < N; ++c)
      if (seq[i][c] && ambient[c].dim == k + 1) e.add(boundary(c), -1);  // B_k
    std::vector<size_t> kcells;
    std::vector<Bits> bd;
    for (size_t c = 0; c < N; ++c)
      if (seq[i][c] && ambient[c].dim == k) {
        kcells.push_back(c);
        bd.push_back(boundary(c));
      }
    for (auto& combo : kernel_of_columns(bd)) {  // Z_k
      Bits z;
      for (size_t j = 0; j < kcells.size(); ++j)
        if (combo.get(j)) z.flip(pos(int(kcells[j])));
      // a cycle independent of B_k and of the classes found so far is a new basis class; the basis vector is the
      // *stored* (reduced) representative, so that Echelon::reduce(.., &tags) yields coordinates in this very basis
      Bits stored;
      if (e.add(z, int(basis[i].size()), &stored)) basis[i].push_back(stored);
    }
    M.dim.push_back(int(basis[i].size()));
  }
  for (size_t i = 0; i + 1 < seq.size(); ++i) {
    bool up = true, down = true;
    for (size_t c = 0; c < N; ++c) {
      if (seq[i][c] && !seq[i + 1][c]) up = false;
      if (!seq[i][c] && seq[i + 1][c]) down = false;
    }
    if (!up && !down) throw std::invalid_argument("ref::zz: consecutive complexes are not nested");
    Module::Arrow a;
    a.src = up ? int(i) : int(i + 1);
    a.dst = up ? int(i + 1) : int(i);
    for (auto& z : basis[size_t(a.src)]) {
      Bits coords;
      Bits rem = ech[size_t(a.dst)].reduce(z, &coords);
      REF_ZZ_REQUIRE(rem.zero(), "a cycle of the smaller complex is not a cycle of the larger one (dimension " << k << ")");
      a.cols.push_back(coords);
    }
    M.arrows.push_back(a);
  }
  return M;
}

inline int max_dim(const History& h) {
  int m = -1;
  for (auto& c : h.ambient) m = std::max(m, c.dim);
  return m;
}

// barcode of a nested sequence of complexes seq[0..n]; seq[0] must be empty. Arrow i joins seq[i] and seq[i+1].
inline std::vector<Interval> barcode_of_sequence(const std::vector<ZCell>& ambient, const std::vector<State>& seq, int maxdim,
                                                 bool mirror_labels) {
  std::vector<Interval> out;
  int n = int(seq.size()) - 1;
  for (int k = 0; k <= maxdim; ++k) {
    Module M = homology_module(ambient, seq, k, mirror_labels);
    for (auto& kv : decompose(M)) {
      int B = kv.first.first, D = kv.first.second;
      for (int m = 0; m < kv.second; ++m) out.push_back(Interval{k, B - 1, D == n ? -1 : D});
    }
  }
  std::sort(out.begin(), out.end());
  return out;
}

// THE ORACLE: interval decomposition of the zigzag homology module of a history, in arrow numbers
inline std::vector<Interval> barcode(const History& h) {
  return barcode_of_sequence(h.ambient, states_of(h), max_dim(h), false);
}

// restriction of a barcode (arrow numbers, n arrows) to the states lo..hi: (dim, first state, last state)
inline std::vector<std::tuple<int, int, int>> restrict_to_states(const std::vector<Interval>& bars, int n, int lo, int hi) {
  std::vector<std::tuple<int, int, int>> r;
  for (auto& x : bars) {
    int B = x.birth + 1, D = x.death < 0 ? n : x.death;
    int a = std::max(B, lo), b = std::min(D, hi);
    if (a <= b) r.emplace_back(x.dim, a, b);
  }
  std::sort(r.begin(), r.end());
  return r;
}

// Betti numbers of one state by ranks of boundary matrices (ref::rank_of, another code path than the module builder)
inline std::map<int, int> betti_by_ranks(const std::vector<ZCell>& ambient, const State& s, int maxdim) {
  std::vector<int> count(size_t(maxdim) + 2, 0), rk(size_t(maxdim) + 3, 0);
  for (int k = 0; k <= maxdim + 1; ++k) {
    std::vector<SVec> cols;
    for (size_t c = 0; c < ambient.size(); ++c)
      if (s[c] && ambient[c].dim == k) {
        SVec v;
        for (int f : ambient[c].bdry) axpy(v, 1, SVec{{f, 1}}, 2);
        cols.push_back(v);
      }
    if (k <= maxdim) count[size_t(k)] = int(cols.size());
    rk[size_t(k)] = rank_of(cols, 2);
  }
  std::map<int, int> b;
  for (int k = 0; k <= maxdim; ++k) b[k] = count[size_t(k)] - rk[size_t(k)] - rk[size_t(k) + 1];
  return b;
}

// ordinary persistence (ref::reduce, Z_2) of the filtration "all cells of `base` (by dimension), then the cells `added`
// one by one". Returns the pairs by position in that order; (*added_index)[position] = -1 for a cell of the base,
// otherwise the index into `added`.
inline std::vector<Pair> run_pairs(const std::vector<ZCell>& ambient, const State& base, const std::vector<int>& added,
                                   std::vector<int>* added_index) {
  std::vector<int> order;  // base cells by dimension (faces first), then the added cells in the given order
  int md = -1;
  for (auto& c : ambient) md = std::max(md, c.dim);
  for (int k = 0; k <= md; ++k)
    for (size_t c = 0; c < ambient.size(); ++c)
      if (base[c] && ambient[c].dim == k) order.push_back(int(c));
  size_t nbase = order.size();
  for (int c : added) order.push_back(c);
  std::map<int, int> where;
  std::vector<Cell> cells;
  for (size_t i = 0; i < order.size(); ++i) {
    Cell c;
    c.dim = ambient[size_t(order[i])].dim;
    for (int f : ambient[size_t(order[i])].bdry) c.bdry.push_back({where.at(f), 1});
    cells.push_back(c);
    where[order[i]] = int(i);
  }
  Reduction r = reduce(cells, 2);
  REF_ZZ_REQUIRE(self_check(cells, r), "ref::reduce self-check failed on a monotone run");
  added_index->assign(order.size(), -1);
  for (size_t i = nbase; i < order.size(); ++i) (*added_index)[i] = int(i - nbase);
  return r.pairs;
}

// Internal consistency of a barcode claimed for h. Throws Inconsistency.
inline void check_consistency(const History& h, const std::vector<Interval>& bars, bool with_mirror = true) {
  std::vector<State> st = states_of(h);
  int n = int(h.arrows.size());
  int md = max_dim(h);
  // (1) Betti numbers of every state
  for (int i = 0; i <= n; ++i) {
    std::map<int, int> cover;
    for (auto& x : bars) {
      int B = x.birth + 1, D = x.death < 0 ? n : x.death;  // alive in the states B..D
      if (B <= i && i <= D) ++cover[x.dim];
    }
    std::map<int, int> b = betti_by_ranks(h.ambient, st[size_t(i)], md);
    for (int k = 0; k <= md; ++k)
      REF_ZZ_REQUIRE(cover[k] == b[k], "state " << i << " dimension " << k << ": " << cover[k] << " intervals, Betti number " << b[k]);
  }
  for (auto& x : bars) REF_ZZ_REQUIRE(x.dim >= 0 && x.dim <= md && x.birth >= 0 && x.birth < n && (x.death < 0 || (x.death > x.birth && x.death < n)),
                                      "malformed interval (" << x.dim << "," << x.birth << "," << x.death << ")");
  // (2) every maximal monotone run of arrows: restriction of the barcode = ordinary persistence by ref::reduce
  int s = 0;
  while (s < n) {
    int dir = IDENTITY;
    int e = s;
    while (e < n) {
      Kind kd = h.arrows[size_t(e)].kind;
      if (kd != IDENTITY) {
        if (dir == IDENTITY)
          dir = kd;
        else if (dir != kd)
          break;
      }
      ++e;
    }
    // arrows s..e-1 join the states s..e
    std::vector<std::tuple<int, int, int>> expect;
    std::vector<int> added, arrow_of_added;
    if (dir != REMOVE) {
      for (int i = s; i < e; ++i)
        if (h.arrows[size_t(i)].kind == INSERT) {
          added.push_back(h.arrows[size_t(i)].cell);
          arrow_of_added.push_back(i);
        }
      std::vector<int> posn;
      std::vector<Pair> pairs = run_pairs(h.ambient, st[size_t(s)], added, &posn);
      auto first_state = [&](int idx) { return posn[size_t(idx)] < 0 ? s : arrow_of_added[size_t(posn[size_t(idx)])] + 1; };
      for (auto& p : pairs) {
        int a = first_state(p.birth), b = p.death < 0 ? e : first_state(p.death) - 1;
        if (a <= b) expect.emplace_back(p.dim, a, b);
      }
    } else {
      for (int i = e - 1; i >= s; --i)
        if (h.arrows[size_t(i)].kind == REMOVE) {
          added.push_back(h.arrows[size_t(i)].cell);
          arrow_of_added.push_back(i);
        }
      std::vector<int> posn;
      std::vector<Pair> pairs = run_pairs(h.ambient, st[size_t(e)], added, &posn);
      auto last_state = [&](int idx) { return posn[size_t(idx)] < 0 ? e : arrow_of_added[size_t(posn[size_t(idx)])]; };
      for (auto& p : pairs) {
        int b = last_state(p.birth), a = p.death < 0 ? s : last_state(p.death) + 1;
        if (a <= b) expect.emplace_back(p.dim, a, b);
      }
    }
    std::sort(expect.begin(), expect.end());
    auto got = restrict_to_states(bars, n, s, e);
    if (got != expect) {
      std::ostringstream o;
      o << "restriction to the monotone run of states " << s << ".." << e << " differs from ref::reduce: barcode gives";
      for (auto& t : got) o << " (" << std::get<0>(t) << "," << std::get<1>(t) << "," << std::get<2>(t) << ")";
      o << " ; ordinary persistence gives";
      for (auto& t : expect) o << " (" << std::get<0>(t) << "," << std::get<1>(t) << "," << std::get<2>(t) << ")";
      throw Inconsistency(o.str());
    }
    s = e;
  }
  // (3) mirror image: the module of the reversed sequence S_n, ..., S_0, built with other homology bases (mirrored
  // numbering of the ambient cells), must decompose into the mirrored intervals. The generalised rank is evaluated
  // through the component at the *other* end of every interval, so this is not the same computation done twice.
  if (with_mirror) {
    std::vector<State> rev(st.rbegin(), st.rend());  // rev[j] = S_{n-j}; rev[n] = S_0 = empty
    std::vector<Interval> mirrored;
    for (int k = 0; k <= md; ++k) {
      Module M = homology_module(h.ambient, rev, k, true);
      for (auto& kv : decompose(M)) {
        // alive in rev states j1..j2  <=>  alive in S_{n-j2} .. S_{n-j1}
        int B = n - kv.first.second, D = n - kv.first.first;
        for (int m = 0; m < kv.second; ++m) mirrored.push_back(Interval{k, B - 1, D == n ? -1 : D});
      }
    }
    std::sort(mirrored.begin(), mirrored.end());
    std::vector<Interval> sorted = bars;
    std::sort(sorted.begin(), sorted.end());
    REF_ZZ_REQUIRE(mirrored == sorted, "reversed sequence with other bases gives " << to_string(mirrored) << " instead of " << to_string(sorted));
  }
}

inline std::vector<Interval> barcode_checked(const History& h, bool with_mirror = true) {
  std::vector<Interval> b = barcode(h);
  check_consistency(h, b, with_mirror);
  return b;
}

// ambient complex = all simplices of dimension <= maxdim on the vertices 0..nv-1, numbered by (dimension, lexicographic);
// *simplices receives the vertex list of every ambient cell
inline std::vector<ZCell> simplicial_ambient(int nv, int maxdim, std::vector<Simplex>* simplices) {
  std::vector<Simplex> all;
  for (int k = 0; k <= maxdim; ++k) {
    std::vector<Simplex> level;
    for (uint32_t m = 1; m < (uint32_t(1) << nv); ++m)
      if (__builtin_popcount(m) == k + 1) {
        Simplex x;
        for (int v = 0; v < nv; ++v)
          if (m >> v & 1) x.push_back(v);
        level.push_back(x);
      }
    std::sort(level.begin(), level.end());
    all.insert(all.end(), level.begin(), level.end());
  }
  std::map<Simplex, int> id;
  for (size_t i = 0; i < all.size(); ++i) id[all[i]] = int(i);
  std::vector<ZCell> amb;
  for (auto& x : all) {
    ZCell c;
    c.dim = int(x.size()) - 1;
    for (auto& f : facets(x)) c.bdry.push_back(id.at(f));
    amb.push_back(c);
  }
  if (simplices) *simplices = all;
  return amb;
}

// prefix of a history (first m arrows)
inline History prefix(const History& h, int m) {
  History p;
  p.ambient = h.ambient;
  p.arrows.assign(h.arrows.begin(), h.arrows.begin() + m);
  return p;
}
// restriction of a barcode to the first m arrows: intervals born before arrow m, cut open when they die at arrow >= m
inline std::vector<Interval> restrict_to_prefix(const std::vector<Interval>& bars, int m) {
  std::vector<Interval> r;
  for (auto& x : bars)
    if (x.birth < m) r.push_back(Interval{x.dim, x.birth, (x.death >= 0 && x.death < m) ? x.death : -1});
  std::sort(r.begin(), r.end());
  return r;
}

}  // namespace zz
}  // namespace ref

#endif  // REF_ZIGZAG_H_
