// Graphs whose clique (flag) complex has a prescribed homotopy type: the barycentric subdivision of a simplicial
// complex K is the order complex of its face poset, i.e. the flag complex of the comparability graph of the faces of K.
// Used to feed flag-only algorithms (Rips / Ripser, edge collapse) with torsion examples. Independent of GUDHI.
#ifndef REF_FLAGGRAPH_H_
#define REF_FLAGGRAPH_H_

#include <set>
#include <utility>
#include <vector>

#include "complex.h"

namespace ref {

struct PlainGraph {
  int n = 0;                                // vertices 0..n-1
  std::vector<std::pair<int, int>> edges;   // (a,b) with a < b, no duplicates, sorted
};

// comparability graph of the face poset of the closure of the given maximal simplices; vertex i = i-th face in
// lexicographic order of the (sorted) vertex lists
inline PlainGraph barycentric_graph(const std::vector<Simplex>& maximal) {
  std::set<Simplex> faces;
  for (auto& m : maximal)
    for (auto& f : all_faces(make_simplex(m))) faces.insert(f);
  std::vector<Simplex> fs(faces.begin(), faces.end());
  PlainGraph g;
  g.n = int(fs.size());
  for (int a = 0; a < g.n; ++a)
    for (int b = a + 1; b < g.n; ++b)
      if (fs[size_t(a)].size() != fs[size_t(b)].size() &&
          (is_subset(fs[size_t(a)], fs[size_t(b)]) || is_subset(fs[size_t(b)], fs[size_t(a)])))
        g.edges.push_back({a, b});
  return g;
}

}  // namespace ref

#endif  // REF_FLAGGRAPH_H_
